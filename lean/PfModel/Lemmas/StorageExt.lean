import PfModel.Lemmas.Storage
/-!
Helper lemmas for the round-2 extension of C07 (`Props/C07Ext`, `Props/C07Geom`, `Props/C07Conc`):
linear indices outside the array, container types, constructors, concurrent writers.
-/
namespace PF.St
variable {V : Type}

/-! ### linear indices outside the array -/

theorem unravel?_none (shape : List Nat) (i : Int) (h : ¬ (0 ≤ i ∧ i < (prod shape : Nat))) :
    unravel? shape i = none := by
  unfold unravel?; rw [if_neg h]

/-- the refinement step of `DictArray` without the `InDomain` hypothesis -/
theorem dStep_refines_all (g : Geom) (hg : g.WF) (d : Dict V) (a : MArr V) (h : RepD g d a) (op : Op V) :
    (dStep g d op).2 = (aStep g a op).2 ∧ RepD g (dStep g d op).1 (aStep g a op).1 := by
  by_cases hd : op.InDomain g
  · exact dStep_refines g hg d a h op hd
  · cases op with
    | has i =>
      simp only [Op.InDomain] at hd
      simp only [dStep, aStep, unravel?_none g.shape i hd]; exact ⟨trivial, h⟩
    | «at» i =>
      simp only [Op.InDomain] at hd
      simp only [dStep, aStep, unravel?_none g.shape i hd]; exact ⟨trivial, h⟩
    | dump key v => exact (hd trivial).elim
    | get key => exact (hd trivial).elim
    | toArray s => exact (hd trivial).elim
    | mask => exact (hd trivial).elim
    | maskLinear => exact (hd trivial).elim
    | persistReopen => exact (hd trivial).elim

/-- the refinement step of `FileArray` without the `InDomain` hypothesis -/
theorem fStep_refines_all (g : Geom) (hg : g.WF) (f : Files V) (a : MArr V) (h : RepF g f a) (op : Op V) :
    (fStep g f op).2 = (aStep g a op).2 ∧ RepF g (fStep g f op).1 (aStep g a op).1 := by
  by_cases hd : op.InDomain g
  · exact fStep_refines g hg f a h op hd
  · cases op with
    | has i =>
      simp only [Op.InDomain] at hd
      simp only [fStep, aStep, unravel?_none g.shape i hd, if_neg hd]; exact ⟨trivial, h⟩
    | «at» i =>
      simp only [Op.InDomain] at hd
      simp only [fStep, aStep, unravel?_none g.shape i hd, if_neg hd]; exact ⟨trivial, h⟩
    | dump key v => exact (hd trivial).elim
    | get key => exact (hd trivial).elim
    | toArray s => exact (hd trivial).elim
    | mask => exact (hd trivial).elim
    | maskLinear => exact (hd trivial).elim
    | persistReopen => exact (hd trivial).elim

/-! ### container types -/

theorem normEntry_isSlc (n : Nat) (k : KE) (a : NK) (h : normEntry n k = .ok a) : a.isSlc = k.isSlice := by
  by_cases hE : EntryOK n k
  · rw [normEntry_ok n k hE] at h
    cases h
    cases k <;> rfl
  · rw [normEntry_err n k hE] at h; cases h

theorem normAxes_any : ∀ (sizes : List Nat) (key : List KE) (nk : List NK), normAxes sizes key = .ok nk →
    sizes.length = key.length → nk.any NK.isSlc = key.any KE.isSlice
  | [], [], nk, h, _ => by simp only [normAxes] at h; cases h; rfl
  | [], _ :: _, _, _, hl => by simp at hl
  | _ :: _, [], _, _, hl => by simp at hl
  | n :: ns, k :: ks, nk, h, hl => by
    simp only [normAxes] at h
    cases he : normEntry n k with
    | error e => rw [he] at h; cases h
    | ok a =>
      rw [he] at h
      cases hr : normAxes ns ks with
      | error e => rw [hr] at h; cases h
      | ok r =>
        rw [hr] at h
        cases h
        simp only [List.any_cons, normEntry_isSlc n k a he,
          normAxes_any ns ks r hr (by simpa using hl)]

theorem normalizeKey_any (g : Geom) (hg : g.WF) (key : List KE) (nk : List NK) (h : normalizeKey g false key = .ok nk) :
    nk.any NK.isSlc = key.any KE.isSlice := by
  unfold normalizeKey at h
  split at h
  · cases h
  · rename_i hl
    have hl' : key.length = expectedRank g false := by
      by_cases e : key.length = expectedRank g false
      · exact e
      · exact (hl e).elim
    rw [expectedRank_eq g hg false] at hl'
    exact normAxes_any _ key nk h hl'.symm

theorem getItemWith_container (g : Geom) (hg : g.WF) (lk : List Nat → Option (List V)) (key : List KE) :
    (getItemWith g lk key).container = .raised ∨
    (getItemWith g lk key).container = (Op.get key : Op V).container := by
  unfold getItemWith
  cases hn : normalizeKey g false key with
  | error e => exact Or.inl rfl
  | ok nk =>
    have hany := normalizeKey_any g hg key nk hn
    simp only
    cases hs : nk.any NK.isSlc with
    | true =>
      simp only [if_true]
      cases keyRanges g.full nk with
      | error e => exact Or.inl rfl
      | ok rs =>
        right
        simp only [Obs.container, Op.container, ← hany, hs, if_true]
    | false =>
      right
      simp only [Bool.false_eq_true, if_false, Obs.container, Op.container, ← hany, hs]

theorem dToArray_container (g : Geom) (d : Dict V) (s : Option Bool) :
    (dToArray g d s).container = .raised ∨ (dToArray g d s).container = .maskedObject := by
  unfold dToArray
  split
  · exact Or.inr rfl
  · split
    · exact Or.inl rfl
    · exact Or.inr rfl

theorem fToArray_container (g : Geom) (f : Files V) (s : Option Bool) :
    (fToArray g f s).container = .raised ∨ (fToArray g f s).container = .maskedObject := by
  unfold fToArray
  split
  · exact Or.inr rfl
  · split
    · exact Or.inl rfl
    · exact Or.inr rfl

theorem aToArray_container (g : Geom) (a : MArr V) (s : Option Bool) :
    (aToArray g a s).container = .raised ∨ (aToArray g a s).container = .maskedObject := by
  unfold aToArray
  split
  · exact Or.inr rfl
  · split
    · exact Or.inl rfl
    · exact Or.inr rfl

theorem dStep_container (g : Geom) (hg : g.WF) (d : Dict V) (op : Op V) :
    (dStep g d op).2.container = .raised ∨ (dStep g d op).2.container = op.container := by
  cases op with
  | dump key v => simp only [dStep]; cases dumpTargets g key <;> simp [Obs.container, Op.container]
  | get key => exact getItemWith_container g hg _ key
  | toArray s => exact dToArray_container g d s
  | mask => exact Or.inr rfl
  | maskLinear => exact Or.inr rfl
  | has i => simp only [dStep]; cases unravel? g.shape i <;> simp [Obs.container, Op.container]
  | «at» i =>
    simp only [dStep]
    cases unravel? g.shape i with
    | none => exact Or.inl rfl
    | some E => simp only; cases alook d E <;> simp [Obs.container, Op.container]
  | persistReopen => exact Or.inr rfl

theorem fStep_container (g : Geom) (hg : g.WF) (f : Files V) (op : Op V) :
    (fStep g f op).2.container = .raised ∨ (fStep g f op).2.container = op.container := by
  cases op with
  | dump key v => simp only [fStep]; cases dumpTargets g key <;> simp [Obs.container, Op.container]
  | get key => exact getItemWith_container g hg _ key
  | toArray s => exact fToArray_container g f s
  | mask => exact Or.inr rfl
  | maskLinear => exact Or.inr rfl
  | has i => simp only [fStep]; split <;> simp [Obs.container, Op.container]
  | «at» i =>
    simp only [fStep]
    split
    · cases alook f i.toNat <;> simp [Obs.container, Op.container]
    · exact Or.inl rfl
  | persistReopen => exact Or.inr rfl

theorem aStep_container (g : Geom) (hg : g.WF) (a : MArr V) (op : Op V) :
    (aStep g a op).2.container = .raised ∨ (aStep g a op).2.container = op.container := by
  cases op with
  | dump key v => simp only [aStep]; cases dumpTargets g key <;> simp [Obs.container, Op.container]
  | get key => exact getItemWith_container g hg _ key
  | toArray s => exact aToArray_container g a s
  | mask => exact Or.inr rfl
  | maskLinear => exact Or.inr rfl
  | has i => simp only [aStep]; cases unravel? g.shape i <;> simp [Obs.container, Op.container]
  | «at» i =>
    simp only [aStep]
    cases unravel? g.shape i with
    | none => exact Or.inl rfl
    | some E => simp only; cases a E <;> simp [Obs.container, Op.container]
  | persistReopen => exact Or.inr rfl

/-! ### constructors -/

theorem nTrue_add_nFalse : ∀ m : List Bool, nTrue m + nFalse m = m.length
  | [] => rfl
  | true :: m => by simp only [nTrue, nFalse, List.length_cons]; have := nTrue_add_nFalse m; omega
  | false :: m => by simp only [nTrue, nFalse, List.length_cons]; have := nTrue_add_nFalse m; omega

theorem nTrue_replicate : ∀ n : Nat, nTrue (List.replicate n true) = n ∧ nFalse (List.replicate n true) = 0
  | 0 => ⟨rfl, rfl⟩
  | n + 1 => by
    simp only [List.replicate_succ, nTrue, nFalse]
    exact ⟨by rw [(nTrue_replicate n).1], (nTrue_replicate n).2⟩

theorem select_replicate_true {α} : ∀ (e i : List α), selectByMask (List.replicate e.length true) e i = e
  | [], _ => rfl
  | a :: as, i => by simp only [List.length_cons, List.replicate_succ, selectByMask, select_replicate_true as i]

/-- the `zip(shape, mask)` comprehensions consume the whole mask when it is not longer than the shape -/
theorem extOf_intOf_length {α} : ∀ (m : List Bool) (xs : List α), m.length ≤ xs.length →
    (extOf m xs).length = nTrue m ∧ (intOf m xs).length = nFalse m
  | [], xs, _ => by cases xs <;> simp [extOf, intOf, nTrue, nFalse]
  | _ :: _, [], h => by simp at h
  | true :: m, x :: xs, h => by
    have := extOf_intOf_length m xs (by simpa using h)
    simp only [extOf, intOf, nTrue, nFalse, List.length_cons]; omega
  | false :: m, x :: xs, h => by
    have := extOf_intOf_length m xs (by simpa using h)
    simp only [extOf, intOf, nTrue, nFalse, List.length_cons]; omega

/-- … and in general `len(external) + len(internal) = min(len(mask), len(shape))` -/
theorem extOf_intOf_length_min {α} : ∀ (m : List Bool) (xs : List α),
    (extOf m xs).length + (intOf m xs).length = min m.length xs.length
  | [], xs => by cases xs <;> simp [extOf, intOf]
  | _ :: _, [] => by simp [extOf, intOf]
  | true :: m, x :: xs => by
    have := extOf_intOf_length_min m xs
    simp only [extOf, intOf, List.length_cons]; omega
  | false :: m, x :: xs => by
    have := extOf_intOf_length_min m xs
    simp only [extOf, intOf, List.length_cons]; omega

theorem select_ext_int_take {α} : ∀ (m : List Bool) (xs : List α), m.length ≤ xs.length →
    selectByMask m (extOf m xs) (intOf m xs) = xs.take m.length
  | [], xs, _ => by simp [selectByMask]
  | _ :: _, [], h => by simp at h
  | true :: m, x :: xs, h => by
    simp only [extOf, intOf, selectByMask, List.length_cons, List.take_succ_cons]
    rw [select_ext_int_take m xs (by simpa using h)]
  | false :: m, x :: xs, h => by
    simp only [extOf, intOf, selectByMask, List.length_cons, List.take_succ_cons]
    rw [select_ext_int_take m xs (by simpa using h)]

/-! ### concurrent writers -/

theorem alook_runW : ∀ (t : List (WEv V)) (f : Files V) (c : Nat),
    alook (runW f t) c = (match lastTo t c with | some v => some v | none => alook f c)
  | [], f, c => rfl
  | e :: t, f, c => by
    have ih := alook_runW t (applyW f e) c
    simp only [runW, List.foldl_cons] at ih ⊢
    rw [ih]
    simp only [lastTo]
    cases lastTo t c with
    | some v => rfl
    | none =>
      simp only [applyW, alook_ains]
      split <;> rfl

theorem lastTo_filter_none (p : WEv V → Bool) : ∀ (t : List (WEv V)) (c : Nat), lastTo t c = none →
    lastTo (t.filter p) c = none
  | [], _, _ => rfl
  | e :: t, c, h => by
    simp only [lastTo] at h
    cases ht : lastTo t c with
    | some v => rw [ht] at h; cases h
    | none =>
      rw [ht] at h
      have ih := lastTo_filter_none p t c ht
      by_cases hc : e.cell = c
      · simp only [hc, if_true] at h; cases h
      · simp only [List.filter_cons]
        split
        · simp only [lastTo, ih, if_neg hc]
        · exact ih

/-- the globally last write to a cell is the last write to it of the writer that made it -/
theorem lastTo_some_proj : ∀ (t : List (WEv V)) (c : Nat) (v : List V), lastTo t c = some v →
    ∃ w, lastTo (projW t w) c = some v
  | [], _, _, h => by cases h
  | e :: t, c, v, h => by
    simp only [lastTo] at h
    cases ht : lastTo t c with
    | some v' =>
      rw [ht] at h
      cases h
      obtain ⟨w, hw⟩ := lastTo_some_proj t c v ht
      refine ⟨w, ?_⟩
      simp only [projW, List.filter_cons] at hw ⊢
      split
      · simp only [lastTo, hw]
      · exact hw
    | none =>
      rw [ht] at h
      by_cases hc : e.cell = c
      · simp only [hc, if_true] at h
        cases h
        refine ⟨e.w, ?_⟩
        have hn := lastTo_filter_none (fun x => decide (x.w = e.w)) t c ht
        simp only [projW, List.filter_cons, decide_true, if_true, lastTo, hn, hc]
      · simp only [if_neg hc] at h; cases h

/-- a cell written by one writer only ends with that writer's last value, whatever the interleaving -/
theorem lastTo_owner (w : Nat) (c : Nat) : ∀ (t : List (WEv V)), (∀ e ∈ t, e.cell = c → e.w = w) →
    lastTo (projW t w) c = lastTo t c
  | [], _ => rfl
  | e :: t, h => by
    have ih := lastTo_owner w c t (fun x hx => h x (List.mem_cons_of_mem _ hx))
    simp only [projW, List.filter_cons] at ih ⊢
    split
    · simp only [lastTo, ih]
    · rename_i hw
      have hc : ¬ e.cell = c := fun hc => hw (by simpa using h e List.mem_cons_self hc)
      simp only [lastTo, if_neg hc, ih]
      cases lastTo t c <;> rfl

theorem lastTo_isSome : ∀ (t : List (WEv V)) (c : Nat), (∃ e ∈ t, e.cell = c) → (lastTo t c).isSome = true
  | [], _, h => by obtain ⟨_, hm, _⟩ := h; cases hm
  | e :: t, c, h => by
    simp only [lastTo]
    cases ht : lastTo t c with
    | some v => rfl
    | none =>
      obtain ⟨x, hm, hx⟩ := h
      rcases List.mem_cons.mp hm with rfl | hm
      · simp only [hx, if_true]; rfl
      · have := lastTo_isSome t c ⟨x, hm, hx⟩
        rw [ht] at this; cases this

/-- the last value written to a cell was written by some event of the trace -/
theorem lastTo_mem : ∀ (t : List (WEv V)) (c : Nat) (v : List V), lastTo t c = some v →
    ∃ e ∈ t, e.cell = c ∧ e.val = v
  | [], _, _, h => by cases h
  | e :: t, c, v, h => by
    simp only [lastTo] at h
    cases ht : lastTo t c with
    | some v' =>
      rw [ht] at h; cases h
      obtain ⟨x, hm, hx⟩ := lastTo_mem t c v ht
      exact ⟨x, List.mem_cons_of_mem _ hm, hx⟩
    | none =>
      rw [ht] at h
      by_cases hc : e.cell = c
      · simp only [hc, if_true] at h; cases h; exact ⟨e, List.mem_cons_self, hc, rfl⟩
      · simp only [if_neg hc] at h; cases h

end PF.St
