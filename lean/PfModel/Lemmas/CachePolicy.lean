import PfModel.Model.CachePolicy
/-! Helper lemmas for C14: association lists, `argmin`, the LRU representation invariant and its refinement to the
recency-list specification, and the history theorem shared by the four containers. -/
namespace PF.Cache

/-! ### association lists -/
section Dict
variable {β : Type}

@[simp] theorem lookup_erase_self (d : List (Key × β)) (k : Key) : lookup (erase d k) k = none := by
  induction d with
  | nil => simp [lookup, erase]
  | cons e es ih => obtain ⟨a, b⟩ := e; simp only [erase]; split <;> simp_all [lookup]

theorem lookup_erase_ne (d : List (Key × β)) (k k' : Key) (h : k' ≠ k) : lookup (erase d k) k' = lookup d k' := by
  induction d with
  | nil => simp [lookup, erase]
  | cons e es ih =>
    obtain ⟨a, b⟩ := e
    simp only [erase, lookup]
    split
    · next h1 =>
      split
      · next h2 => exact absurd (h2.symm.trans h1) h
      · exact ih
    · simp only [lookup]; split <;> simp_all

@[simp] theorem lookup_set_self (d : List (Key × β)) (k : Key) (v : β) : lookup (set d k v) k = some v := by
  induction d with
  | nil => simp [lookup, set]
  | cons e es ih => obtain ⟨a, b⟩ := e; simp only [set]; split <;> simp_all [lookup]

theorem lookup_set_ne (d : List (Key × β)) (k : Key) (v : β) (k' : Key) (h : k' ≠ k) :
    lookup (set d k v) k' = lookup d k' := by
  induction d with
  | nil => simp only [set, lookup]; split <;> simp_all
  | cons e es ih =>
    obtain ⟨a, b⟩ := e
    simp only [set]
    split
    · next hak => subst hak; simp only [lookup]; split <;> simp_all
    · simp only [lookup]; split <;> simp_all

theorem has_iff_mem_keys (d : List (Key × β)) (k : Key) : has d k = true ↔ k ∈ keys d := by
  induction d with
  | nil => simp [has, lookup, keys]
  | cons e es ih =>
    obtain ⟨a, b⟩ := e
    simp only [has, lookup, keys, List.map_cons, List.mem_cons] at ih ⊢
    split
    · next h => simp [h]
    · next h => rw [ih]; constructor
                · exact Or.inr
                · rintro (h' | h')
                  · exact absurd h'.symm h
                  · exact h'

theorem has_false_iff (d : List (Key × β)) (k : Key) : has d k = false ↔ lookup d k = none := by
  simp [has]

theorem keys_set (d : List (Key × β)) (k : Key) (v : β) :
    keys (set d k v) = if has d k then keys d else keys d ++ [k] := by
  induction d with
  | nil => simp [set, keys, has, lookup]
  | cons e es ih =>
    obtain ⟨a, b⟩ := e
    simp only [set]
    split
    · next h => subst h; simp [keys, has, lookup]
    · next h =>
      simp only [keys, List.map_cons, has, lookup, h, if_false] at ih ⊢
      rw [ih]; split <;> simp_all

theorem keys_erase (d : List (Key × β)) (k : Key) : keys (erase d k) = (keys d).filter (· != k) := by
  induction d with
  | nil => simp [erase, keys]
  | cons e es ih =>
    obtain ⟨a, b⟩ := e
    simp only [erase]
    split
    · next h => subst h; simp only [keys, List.map_cons] at ih ⊢; rw [ih]; simp [List.filter_cons]
    · next h => simp only [keys, List.map_cons] at ih ⊢; rw [ih]; simp [List.filter_cons, h]

theorem length_keys (d : List (Key × β)) : (keys d).length = d.length := by simp [keys]

theorem nodup_filter {l : List Key} (p : Key → Bool) (h : l.Nodup) : (l.filter p).Nodup :=
  (List.filter_sublist).nodup h

theorem nodup_snoc {l : List Key} {k : Key} (h : l.Nodup) (hk : k ∉ l) : (l ++ [k]).Nodup := by
  rw [List.nodup_append]
  refine ⟨h, by simp, ?_⟩
  intro a ha b hb
  simp at hb; subst hb; intro e; exact hk (e ▸ ha)

theorem nodup_keys_set (d : List (Key × β)) (k : Key) (v : β) (h : (keys d).Nodup) : (keys (set d k v)).Nodup := by
  rw [keys_set]
  split
  · exact h
  · next hh => exact nodup_snoc h (fun hm => hh ((has_iff_mem_keys d k).mpr hm))

theorem nodup_keys_erase (d : List (Key × β)) (k : Key) (h : (keys d).Nodup) : (keys (erase d k)).Nodup := by
  rw [keys_erase]; exact nodup_filter _ h

theorem length_filter_ne {l : List Key} {k : Key} (h : l.Nodup) (hk : k ∈ l) :
    (l.filter (· != k)).length + 1 = l.length := by
  rw [← List.Nodup.erase_eq_filter h, List.length_erase_of_mem hk]
  have : 0 < l.length := List.length_pos_of_mem hk
  omega

theorem length_erase_has (d : List (Key × β)) (k : Key) (h : (keys d).Nodup) (hk : has d k = true) :
    (erase d k).length + 1 = d.length := by
  rw [← length_keys, keys_erase, length_filter_ne h ((has_iff_mem_keys d k).mp hk), length_keys]

theorem length_set (d : List (Key × β)) (k : Key) (v : β) :
    (set d k v).length = if has d k then d.length else d.length + 1 := by
  rw [← length_keys, keys_set]; split <;> simp [length_keys]

theorem erase_of_not_has (d : List (Key × β)) (k : Key) (h : has d k = false) : erase d k = d := by
  induction d with
  | nil => rfl
  | cons e es ih =>
    obtain ⟨a, b⟩ := e
    simp only [has, lookup] at h
    simp only [erase]
    split
    · next hh => simp [hh] at h
    · next hh => simp only [hh, if_false] at h; rw [ih (by simpa [has] using h)]

theorem lookup_append (a b : List (Key × β)) (k : Key) :
    lookup (a ++ b) k = match lookup a k with | some v => some v | none => lookup b k := by
  induction a with
  | nil => simp [lookup]
  | cons e es ih => obtain ⟨x, y⟩ := e; simp only [List.cons_append, lookup]; split <;> simp_all

theorem erase_append (a b : List (Key × β)) (k : Key) : erase (a ++ b) k = erase a k ++ erase b k := by
  induction a with
  | nil => simp [erase]
  | cons e es ih => obtain ⟨x, y⟩ := e; simp only [List.cons_append, erase]; split <;> simp_all

end Dict

/-! ### `argmin` -/

theorem argmin_none (l : List (Key × Nat)) : argmin l = none ↔ l = [] := by
  cases l with
  | nil => simp [argmin]
  | cons e es =>
    obtain ⟨k, s⟩ := e
    simp only [argmin]
    split
    · simp
    · split <;> simp

/-- `argmin` returns an element of the list, no element scores lower, and every element in front of it scores
    strictly higher (it is the *first* minimum) -/
theorem argmin_spec (l : List (Key × Nat)) (k : Key) (s : Nat) (h : argmin l = some (k, s)) :
    (∀ p ∈ l, s ≤ p.2) ∧ ∃ pre post, l = pre ++ (k, s) :: post ∧ ∀ p ∈ pre, s < p.2 := by
  induction l generalizing k s with
  | nil => simp [argmin] at h
  | cons e es ih =>
    obtain ⟨k0, s0⟩ := e
    simp only [argmin] at h
    split at h
    · next hn =>
      have := (argmin_none es).mp hn
      subst this
      cases h
      exact ⟨by simp, [], [], by simp, by simp⟩
    · next k' s' hs =>
      obtain ⟨hle, pre, post, hl, hpre⟩ := ih k' s' hs
      split at h
      · next hc =>
        cases h
        refine ⟨?_, [], es, by simp, by simp⟩
        intro p hp
        rcases List.mem_cons.mp hp with rfl | hp
        · exact Nat.le_refl _
        · exact Nat.le_trans hc (hle p hp)
      · next hc =>
        cases h
        refine ⟨?_, (k0, s0) :: pre, post, by simp [hl], ?_⟩
        · intro p hp
          rcases List.mem_cons.mp hp with rfl | hp
          · simp only; omega
          · exact hle p hp
        · intro p hp
          rcases List.mem_cons.mp hp with rfl | hp
          · simp only; omega
          · exact hpre p hp

theorem argmin_mem (l : List (Key × Nat)) (k : Key) (s : Nat) (h : argmin l = some (k, s)) : (k, s) ∈ l := by
  obtain ⟨_, pre, post, hl, _⟩ := argmin_spec l k s h
  rw [hl]; simp

/-! ### LRU: representation invariant -/

/-- the queue lists exactly the resident keys, once each, and is no longer than `max_size` -/
structure LRU.Inv (s : LRU) : Prop where
  pos : 0 < s.max
  qnodup : s.queue.Nodup
  dnodup : (keys s.dict).Nodup
  same : ∀ k, k ∈ s.queue ↔ has s.dict k = true
  bound : s.queue.length ≤ s.max

theorem LRU.Inv.len_eq {s : LRU} (h : s.Inv) : s.dict.length = s.queue.length := by
  rw [← length_keys]
  apply List.Perm.length_eq
  rw [List.perm_ext_iff_of_nodup h.dnodup h.qnodup]
  intro a
  rw [← has_iff_mem_keys, h.same]

theorem LRU.inv_empty (n : Nat) (h : 0 < n) : (LRU.empty n).Inv :=
  ⟨h, by simp [LRU.empty], by simp [LRU.empty, keys], by simp [LRU.empty, has, lookup], by simp [LRU.empty]⟩

theorem mem_touch {q : List Key} (hq : q.Nodup) (k x : Key) : x ∈ q.erase k ++ [k] ↔ x ∈ q ∨ x = k := by
  simp only [List.mem_append, List.mem_singleton, hq.mem_erase_iff]
  constructor
  · rintro (⟨_, h⟩ | h)
    · exact Or.inl h
    · exact Or.inr h
  · intro h
    by_cases hx : x = k
    · exact Or.inr hx
    · rcases h with h | h
      · exact Or.inl ⟨hx, h⟩
      · exact absurd h hx

theorem nodup_touch {q : List Key} (hq : q.Nodup) (k : Key) : (q.erase k ++ [k]).Nodup := by
  apply nodup_snoc (hq.erase k)
  intro h
  exact ((hq.mem_erase_iff).mp h).1 rfl

theorem length_touch {q : List Key} (k : Key) (hk : k ∈ q) : (q.erase k ++ [k]).length = q.length := by
  have : 0 < q.length := List.length_pos_of_mem hk
  simp [List.length_erase_of_mem hk]; omega

theorem LRU.get_spec (s : LRU) (k : Key) (h : s.Inv) :
    ∃ s', s.get k = .ok (s', lookup s.dict k) ∧ s'.Inv ∧ s'.dict = s.dict ∧ s'.max = s.max ∧
      s'.queue = (if has s.dict k then s.queue.erase k ++ [k] else s.queue) := by
  unfold LRU.get
  cases hl : lookup s.dict k with
  | none => exact ⟨s, rfl, h, rfl, rfl, by simp [has, hl]⟩
  | some v =>
    have hk : k ∈ s.queue := (h.same k).mpr (by simp [has, hl])
    simp only [hk, if_true]
    refine ⟨_, rfl, ⟨h.pos, nodup_touch h.qnodup k, h.dnodup, ?_, ?_⟩, rfl, rfl, by simp [has, hl]⟩
    · intro x
      simp only [mem_touch h.qnodup]
      constructor
      · rintro (hx | hx)
        · exact (h.same x).mp hx
        · subst hx; simp [has, hl]
      · intro hx; exact Or.inl ((h.same x).mpr hx)
    · simp only [length_touch k hk]; exact h.bound

/-- what `put` does to an invariant state, branch by branch -/
theorem LRU.put_spec (s : LRU) (k : Key) (v : Val) (h : s.Inv) :
    ∃ s', s.put k v = .ok s' ∧ s'.Inv ∧ s'.max = s.max ∧
      ((has s.dict k = true ∧ s'.dict = set s.dict k v ∧ s'.queue = s.queue.erase k ++ [k]) ∨
       (has s.dict k = false ∧ s.queue.length < s.max ∧ s'.dict = set s.dict k v ∧ s'.queue = s.queue ++ [k]) ∨
       (has s.dict k = false ∧ s.queue.length = s.max ∧
          ∃ old rest, s.queue = old :: rest ∧ old ≠ k ∧ s'.dict = erase (set s.dict k v) old ∧ s'.queue = rest ++ [k])) := by
  unfold LRU.put
  by_cases hc : has s.dict k = true
  · have hk : k ∈ s.queue := (h.same k).mpr hc
    rw [if_pos hc, if_pos hk]
    refine ⟨_, rfl, ⟨h.pos, nodup_touch h.qnodup k, nodup_keys_set _ _ _ h.dnodup, ?_, ?_⟩, rfl, Or.inl ⟨hc, rfl, rfl⟩⟩
    · intro x
      simp only [mem_touch h.qnodup, ← has_iff_mem_keys] at *
      rw [has_iff_mem_keys, keys_set, hc, if_pos rfl, ← has_iff_mem_keys]
      constructor
      · rintro (hx | hx)
        · exact (h.same x).mp hx
        · subst hx; exact hc
      · intro hx; exact Or.inl ((h.same x).mpr hx)
    · simp only [length_touch k hk]; exact h.bound
  · have hc' : has s.dict k = false := by simpa using hc
    have hk : k ∉ s.queue := fun hm => hc ((h.same k).mp hm)
    rw [if_neg hc]
    simp only [LRU.putPinned]
    have hset : ∀ x, has (set s.dict k v) x = true ↔ (has s.dict x = true ∨ x = k) := by
      intro x
      rw [has_iff_mem_keys, keys_set, hc']
      simp [← has_iff_mem_keys]
    by_cases hlt : s.queue.length < s.max
    · rw [if_pos hlt]
      refine ⟨_, rfl, ⟨h.pos, nodup_snoc h.qnodup hk, nodup_keys_set _ _ _ h.dnodup, ?_, ?_⟩, rfl,
        Or.inr (Or.inl ⟨hc', hlt, rfl, rfl⟩)⟩
      · intro x; simp only [List.mem_append, List.mem_singleton, hset, h.same]
      · simp; omega
    · rw [if_neg hlt]
      have hb := h.bound
      have hp := h.pos
      cases hq : s.queue with
      | nil => simp [hq] at hlt; omega
      | cons old rest =>
        have hnd := h.qnodup; rw [hq] at hnd
        have hold : old ∉ rest := (List.nodup_cons.mp hnd).1
        have hko : old ≠ k := fun e => hk (by rw [hq, e]; simp)
        have hho : has (set s.dict k v) old = true := (hset old).mpr (Or.inl ((h.same old).mp (by rw [hq]; simp)))
        simp only [hho, if_true]
        refine ⟨_, rfl, ⟨h.pos, ?_, nodup_keys_erase _ _ (nodup_keys_set _ _ _ h.dnodup), ?_, ?_⟩, rfl,
          Or.inr (Or.inr ⟨hc', ?_, old, rest, rfl, hko, rfl, rfl⟩)⟩
        · apply nodup_snoc (List.nodup_cons.mp hnd).2
          intro hm; exact hk (by rw [hq]; exact List.mem_cons_of_mem _ hm)
        · intro x
          simp only [List.mem_append, List.mem_singleton]
          by_cases hxo : x = old
          · subst hxo
            simp only [has, lookup_erase_self, Option.isSome_none, Bool.false_eq_true, iff_false, not_or]
            exact ⟨hold, hko⟩
          · have : has (erase (set s.dict k v) old) x = has (set s.dict k v) x := by
              simp only [has, lookup_erase_ne _ _ _ hxo]
            rw [this, hset, ← h.same, hq]
            simp [hxo]
        · have : s.queue.length = rest.length + 1 := by rw [hq]; simp
          simp; omega
        · have : s.queue.length = rest.length + 1 := by rw [hq]; simp
          rw [hq] at hb hlt; simp at hb hlt ⊢; omega

theorem LRU.clear_inv (s : LRU) (h : s.Inv) : s.clear.Inv :=
  ⟨h.pos, by simp [LRU.clear], by simp [LRU.clear, keys], by simp [LRU.clear, has, lookup], by simp [LRU.clear]⟩

/-! ### LRU: refinement to the recency list -/

theorem abs_lookup (q : List Key) (d : List (Key × Val)) (k : Key) :
    lookup (q.map fun x => (x, (lookup d x).getD 0)) k = if k ∈ q then some ((lookup d k).getD 0) else none := by
  induction q with
  | nil => simp [lookup]
  | cons a as ih =>
    simp only [List.map_cons, lookup, List.mem_cons]
    split
    · next h => subst h; simp
    · next h => rw [ih]; have : ¬ k = a := fun e => h e.symm
                simp [this]

theorem abs_erase (q : List Key) (f : Key → Val) (k : Key) :
    erase (q.map fun x => (x, f x)) k = (q.filter (· != k)).map fun x => (x, f x) := by
  induction q with
  | nil => simp [erase]
  | cons a as ih =>
    simp only [List.map_cons, erase, List.filter_cons]
    split
    · next h => subst h; simp [ih]
    · next h => simp [h, ih]

theorem map_congr_set (q : List Key) (d : List (Key × Val)) (k : Key) (v : Val) (hk : k ∉ q) :
    (q.map fun x => (x, (lookup (set d k v) x).getD 0)) = q.map fun x => (x, (lookup d x).getD 0) := by
  apply List.map_congr_left
  intro a ha
  have : a ≠ k := fun e => hk (e ▸ ha)
  rw [lookup_set_ne _ _ _ _ this]

theorem map_abs_congr (q : List Key) (d d' : List (Key × Val)) (h : ∀ x ∈ q, lookup d' x = lookup d x) :
    (q.map fun x => (x, (lookup d' x).getD 0)) = q.map fun x => (x, (lookup d x).getD 0) := by
  apply List.map_congr_left
  intro a ha
  rw [h a ha]

/-- under the invariant the recency list answers exactly what the dict answers -/
theorem LRU.abs_view (s : LRU) (h : s.Inv) (k : Key) : lookup s.abs k = lookup s.dict k := by
  unfold LRU.abs
  rw [abs_lookup]
  split
  · next hk =>
    have := (h.same k).mp hk
    simp only [has] at this
    obtain ⟨v, hv⟩ := Option.isSome_iff_exists.mp this
    simp [hv]
  · next hk =>
    have : ¬ has s.dict k = true := fun hh => hk ((h.same k).mpr hh)
    simp only [has] at this
    cases hl : lookup s.dict k with
    | none => rfl
    | some v => simp [hl] at this

theorem LRU.abs_length (s : LRU) : s.abs.length = s.queue.length := by simp [LRU.abs]

/-- `get` refines the recency list's `get` -/
theorem LRU.abs_get (s : LRU) (k : Key) (h : s.Inv) :
    ∃ s', s.get k = .ok (s', (Recency.get s.abs k).2) ∧ s'.abs = (Recency.get s.abs k).1 ∧ s'.Inv ∧ s'.max = s.max := by
  obtain ⟨s', hg, hi, hd, hm, hq⟩ := LRU.get_spec s k h
  have hv := LRU.abs_view s h k
  refine ⟨s', ?_, ?_, hi, hm⟩
  · rw [hg]; unfold Recency.get; rw [hv]; cases lookup s.dict k <;> rfl
  · unfold Recency.get; rw [hv]
    cases hl : lookup s.dict k with
    | none =>
      have : has s.dict k = false := by simp [has, hl]
      rw [this] at hq
      simp only [LRU.abs, hq, hd, Bool.false_eq_true, if_false]
    | some v =>
      have : has s.dict k = true := by simp [has, hl]
      rw [this] at hq
      simp only [LRU.abs, hq, hd, if_true, List.map_append, List.map_cons, List.map_nil, hl, Option.getD_some]
      rw [abs_erase, h.qnodup.erase_eq_filter]

/-- `put` refines the recency list's `put` -/
theorem LRU.abs_put (s : LRU) (k : Key) (v : Val) (h : s.Inv) :
    ∃ s', s.put k v = .ok s' ∧ s'.abs = Recency.put s.max s.abs k v ∧ s'.Inv ∧ s'.max = s.max := by
  obtain ⟨s', hp, hi, hm, hcase⟩ := LRU.put_spec s k v h
  refine ⟨s', hp, ?_, hi, hm⟩
  unfold Recency.put
  simp only [LRU.abs, abs_erase]
  rcases hcase with ⟨hc, hd, hq⟩ | ⟨hc, hlt, hd, hq⟩ | ⟨hc, hfull, old, rest, hqo, hko, hd, hq⟩
  · -- resident key
    have hk : k ∈ s.queue := (h.same k).mpr hc
    have hlen : ¬ s.max < (List.map (fun x => (x, (lookup s.dict x).getD 0)) (s.queue.filter (· != k)) ++ [(k, v)]).length := by
      have := length_filter_ne h.qnodup hk
      have := h.bound
      simp; omega
    rw [if_neg hlen, hq, hd, h.qnodup.erase_eq_filter]
    simp only [List.map_append, List.map_cons, List.map_nil, lookup_set_self, Option.getD_some]
    congr 1
    apply map_abs_congr
    intro x hx
    have : x ≠ k := by simp at hx; exact hx.2
    exact lookup_set_ne _ _ _ _ this
  · -- new key, room left
    have hk : k ∉ s.queue := fun hm => by have := (h.same k).mp hm; simp [hc] at this
    have hf : s.queue.filter (· != k) = s.queue := by
      apply List.filter_eq_self.mpr; intro a ha; simp; intro e; exact hk (e ▸ ha)
    rw [hf]
    have hlen : ¬ s.max < (List.map (fun x => (x, (lookup s.dict x).getD 0)) s.queue ++ [(k, v)]).length := by
      simp; omega
    rw [if_neg hlen, hq, hd]
    simp only [List.map_append, List.map_cons, List.map_nil, lookup_set_self, Option.getD_some]
    rw [map_congr_set _ _ _ _ hk]
  · -- new key, full: the front of the queue leaves
    have hk : k ∉ s.queue := fun hm => by have := (h.same k).mp hm; simp [hc] at this
    have hf : s.queue.filter (· != k) = s.queue := by
      apply List.filter_eq_self.mpr; intro a ha; simp; intro e; exact hk (e ▸ ha)
    rw [hf]
    have hlen : s.max < (List.map (fun x => (x, (lookup s.dict x).getD 0)) s.queue ++ [(k, v)]).length := by
      simp; omega
    rw [if_pos hlen, hq, hd, hqo]
    simp only [List.map_cons, List.cons_append, List.tail_cons, List.map_append, List.map_nil]
    have hnd := h.qnodup; rw [hqo] at hnd
    have hold : old ∉ rest := (List.nodup_cons.mp hnd).1
    have hkr : k ∉ rest := fun hm => hk (by rw [hqo]; exact List.mem_cons_of_mem _ hm)
    congr 1
    · apply map_abs_congr
      intro x hx
      have hxo : x ≠ old := fun e => hold (e ▸ hx)
      have hxk : x ≠ k := fun e => hkr (e ▸ hx)
      rw [lookup_erase_ne _ _ _ hxo, lookup_set_ne _ _ _ _ hxk]
    · rw [lookup_erase_ne _ _ _ (Ne.symm hko), lookup_set_self]; rfl

/-! ### the history theorem shared by the four containers -/

/-- operations a constructor would reject are not part of a history: a `DiskCache` reopened with `max_size=0` or an
    LRU of size 0 (`LRUCache` raises `ValueError` for it) -/
def Op.WF : Op → Prop
  | .reopen m l => m ≠ some 0 ∧ l ≠ some 0
  | _ => True

/-- what a container must satisfy for "present exactly when `get` returns the value most recently put" -/
structure Lawful {σ : Type} (M : Sem σ) (Inv : σ → Prop) : Prop where
  /-- no operation raises, and the invariant is kept -/
  total : ∀ s op, Inv s → op.WF → ∃ s' o, M.step s op = .ok (s', o) ∧ Inv s'
  get_obs : ∀ s k s' o, Inv s → M.step s (.get k) = .ok (s', o) → o = .val (M.view s k)
  has_obs : ∀ s k s' o, Inv s → M.step s (.has k) = .ok (s', o) → o = .bool (M.view s k).isSome ∧ s' = s
  put_self : ∀ s k v d s' o, Inv s → M.step s (.put k v d) = .ok (s', o) → M.view s' k = some v
  /-- whatever a key answers after an operation is what it answered before, or what the operation just put -/
  frame : ∀ s op s' o k x, Inv s → M.step s op = .ok (s', o) → M.view s' k = some x → recent (M.view s) op k = some x

theorem Lawful.run_ok {σ : Type} {M : Sem σ} {Inv : σ → Prop} (L : Lawful M Inv) (h : List Op) :
    ∀ s, Inv s → (∀ op ∈ h, op.WF) → ∃ s' os, M.run s h = .ok (s', os) ∧ Inv s' ∧ os.length = h.length := by
  induction h with
  | nil => intro s hs _; exact ⟨s, [], rfl, hs, rfl⟩
  | cons op h ih =>
    intro s hs hwf
    obtain ⟨s1, o, h1, hi1⟩ := L.total s op hs (hwf op (by simp))
    obtain ⟨s2, os, h2, hi2, hl⟩ := ih s1 hi1 (fun op' hm => hwf op' (List.mem_cons_of_mem _ hm))
    refine ⟨s2, o :: os, ?_, hi2, by simp [hl]⟩
    simp only [Sem.run, h1, h2]

theorem Lawful.view_recent {σ : Type} {M : Sem σ} {Inv : σ → Prop} (L : Lawful M Inv) (h : List Op) :
    ∀ s (m : Key → Option Val) s' os, Inv s → (∀ op ∈ h, op.WF) → (∀ k x, M.view s k = some x → m k = some x) →
      M.run s h = .ok (s', os) → ∀ k x, M.view s' k = some x → (h.foldl recent m) k = some x := by
  induction h with
  | nil =>
    intro s m s' os _ _ hm hr k x hv
    simp only [Sem.run] at hr
    cases hr
    exact hm k x hv
  | cons op h ih =>
    intro s m s' os hs hwf hm hr k x hv
    obtain ⟨s1, o, h1, hi1⟩ := L.total s op hs (hwf op (by simp))
    simp only [Sem.run, h1] at hr
    cases h2 : M.run s1 h with
    | error e => simp [h2] at hr
    | ok p =>
      obtain ⟨s2, os2⟩ := p
      simp only [h2] at hr
      cases hr
      simp only [List.foldl_cons]
      refine ih s1 (recent m op) s' os2 hi1 (fun op' hm => hwf op' (List.mem_cons_of_mem _ hm)) ?_ h2 k x hv
      intro k' x' hv'
      have := L.frame s op s1 o k' x' hs h1 hv'
      cases op with
      | put kk vv dd =>
        simp only [recent] at this ⊢
        split
        · next e => simpa [e] using this
        · next e => simp only [e, if_false] at this; exact hm k' x' this
      | get _ => exact hm k' x' this
      | has _ => exact hm k' x' this
      | len => exact hm k' x' this
      | clear => exact hm k' x' this
      | reopen _ _ => exact hm k' x' this

/-- After any history from a state in which nothing is present: `in` answers `true` exactly when `get` answers a value,
    and that value is the one most recently put for the key. -/
theorem Lawful.present_iff_get {σ : Type} {M : Sem σ} {Inv : σ → Prop} (L : Lawful M Inv) (s0 : σ) (h0 : Inv s0)
    (hempty : ∀ k, M.view s0 k = none) (h : List Op) (hwf : ∀ op ∈ h, op.WF) (k : Key) :
    ∃ s os, M.run s0 h = .ok (s, os) ∧ ∃ b o s2, M.step s (.has k) = .ok (s, .bool b) ∧ M.step s (.get k) = .ok (s2, .val o) ∧
      b = o.isSome ∧ (∀ x, o = some x → lastPut h k = some x) := by
  obtain ⟨s, os, hr, hi, _⟩ := L.run_ok h s0 h0 hwf
  obtain ⟨s1, o1, hh, _⟩ := L.total s (.has k) hi trivial
  obtain ⟨s2, o2, hg, _⟩ := L.total s (.get k) hi trivial
  obtain ⟨ho1, hs1⟩ := L.has_obs s k s1 o1 hi hh
  have ho2 := L.get_obs s k s2 o2 hi hg
  subst hs1 ho1 ho2
  refine ⟨s1, os, hr, _, _, s2, hh, hg, rfl, ?_⟩
  intro x hx
  exact L.view_recent h s0 (fun _ => none) s1 os h0 hwf (by intro k x hv; simp [hempty k] at hv) hr k x hx

/-! ### LRU and Simple are lawful -/

theorem lru_lawful : Lawful lruSem LRU.Inv where
  total := by
    intro s op hs _
    cases op with
    | put k v d =>
      obtain ⟨s', hp, hi, _⟩ := LRU.put_spec s k v hs
      exact ⟨s', .unit, by simp [lruSem, LRU.step, hp], hi⟩
    | get k =>
      obtain ⟨s', hg, hi, _⟩ := LRU.get_spec s k hs
      exact ⟨s', .val (lookup s.dict k), by simp [lruSem, LRU.step, hg], hi⟩
    | has k => exact ⟨s, _, rfl, hs⟩
    | len => exact ⟨s, _, rfl, hs⟩
    | clear => exact ⟨s.clear, _, rfl, LRU.clear_inv s hs⟩
    | reopen _ _ => exact ⟨s, _, rfl, hs⟩
  get_obs := by
    intro s k s' o hs h
    obtain ⟨s1, hg, _⟩ := LRU.get_spec s k hs
    simp only [lruSem, LRU.step, hg] at h
    cases h; rfl
  has_obs := by
    intro s k s' o _ h
    simp only [lruSem, LRU.step] at h
    cases h; exact ⟨rfl, rfl⟩
  put_self := by
    intro s k v d s' o hs h
    obtain ⟨s1, hp, _, _, hc⟩ := LRU.put_spec s k v hs
    simp only [lruSem, LRU.step, hp] at h
    cases h
    simp only [lruSem, LRU.view]
    rcases hc with ⟨_, hd, _⟩ | ⟨_, _, hd, _⟩ | ⟨_, _, old, rest, _, hko, hd, _⟩
    · rw [hd]; simp
    · rw [hd]; simp
    · rw [hd, lookup_erase_ne _ _ _ (Ne.symm hko)]; simp
  frame := by
    intro s op s' o k x hs h hv
    cases op with
    | put k' v d =>
      obtain ⟨s1, hp, _, _, hc⟩ := LRU.put_spec s k' v hs
      simp only [lruSem, LRU.step, hp] at h
      cases h
      simp only [lruSem, LRU.view, recent] at hv ⊢
      split
      · next e =>
        subst e
        rcases hc with ⟨_, hd, _⟩ | ⟨_, _, hd, _⟩ | ⟨_, _, old, rest, _, hko, hd, _⟩
        · rw [hd] at hv; simpa using hv
        · rw [hd] at hv; simpa using hv
        · rw [hd, lookup_erase_ne _ _ _ (Ne.symm hko)] at hv; simpa using hv
      · next e =>
        rcases hc with ⟨_, hd, _⟩ | ⟨_, _, hd, _⟩ | ⟨_, _, old, rest, _, hko, hd, _⟩
        · rw [hd, lookup_set_ne _ _ _ _ e] at hv; exact hv
        · rw [hd, lookup_set_ne _ _ _ _ e] at hv; exact hv
        · rw [hd] at hv
          by_cases hxo : k = old
          · subst hxo; simp at hv
          · rw [lookup_erase_ne _ _ _ hxo, lookup_set_ne _ _ _ _ e] at hv; exact hv
    | get k' =>
      obtain ⟨s1, hg, _, hd, _⟩ := LRU.get_spec s k' hs
      simp only [lruSem, LRU.step, hg] at h
      cases h
      simp only [lruSem, LRU.view, recent, hd] at hv ⊢; exact hv
    | has _ => simp only [lruSem, LRU.step] at h; cases h; exact hv
    | len => simp only [lruSem, LRU.step] at h; cases h; exact hv
    | clear => simp only [lruSem, LRU.step] at h; cases h; simp [lruSem, LRU.view, LRU.clear, lookup] at hv
    | reopen _ _ => simp only [lruSem, LRU.step] at h; cases h; exact hv

theorem simple_lawful : Lawful simpleSem (fun _ => True) where
  total := by intro s op _ _; cases op <;> exact ⟨_, _, rfl, trivial⟩
  get_obs := by intro s k s' o _ h; simp only [simpleSem, Simple.step] at h; cases h; rfl
  has_obs := by intro s k s' o _ h; simp only [simpleSem, Simple.step] at h; cases h; exact ⟨rfl, rfl⟩
  put_self := by intro s k v d s' o _ h; simp only [simpleSem, Simple.step] at h; cases h; simp [simpleSem, Simple.view]
  frame := by
    intro s op s' o k x _ h hv
    cases op with
    | put k' v d =>
      simp only [simpleSem, Simple.step] at h; cases h
      simp only [simpleSem, Simple.view, recent] at hv ⊢
      split
      · next e => subst e; simpa using hv
      · next e => rw [lookup_set_ne _ _ _ _ e] at hv; exact hv
    | get _ => simp only [simpleSem, Simple.step] at h; cases h; exact hv
    | has _ => simp only [simpleSem, Simple.step] at h; cases h; exact hv
    | len => simp only [simpleSem, Simple.step] at h; cases h; exact hv
    | clear => simp only [simpleSem, Simple.step] at h; cases h; simp [simpleSem, Simple.view, lookup] at hv
    | reopen _ _ => simp only [simpleSem, Simple.step] at h; cases h; exact hv

end PF.Cache
