import PfModel.Model.CachePolicy
/-!
Model of `shared=True` (C14, "With shared=True the same holds for operations issued from several processes").

`LRUCache` / `HybridCache` with `shared=True` keep their containers in a `multiprocessing.Manager` and guard every public
operation with one `manager.Lock()` (`pipefunc/cache.py:91-101, 285-293`; `get` 149-158 / 295-306, `put` 176-183 / 308-330,
`clear`, `__contains__`, `__len__`, the `cache` property).  An operation issued by a process therefore has the shape

    prelude (arguments only: `cloudpickle.dumps(value)`)  ;  `with self._cache_lock:` a sequence of container accesses  ;
    epilogue (local values only: `cloudpickle.loads(value)`, `return`)

`Body` is that shape: `init` is the prelude, `micro op` the list of accesses of the critical section (each one a step on the
process-local registers `L` and the shared state `σ`), `result` the epilogue.  `step` is one scheduling decision of an
arbitrary scheduler: the chosen process performs its next micro-step (or starts the operation the event names when it is idle);
a process that wants the lock while another one holds it does not move.  `exec` runs a whole schedule.

What is assumed about the implementation (and what the preemption stream of `harness/props/c14.py` checks on it): every access
to a shared container is made inside ONE critical section of the operation, i.e. the operation has this shape at all.
-/
namespace PF.Cache.Shared

abbrev Pid := Nat

/-- one access to the shared containers made while the lock is held: process-local registers × shared state -/
abbrev Micro (σ L : Type) := L × σ → L × σ

/-- the three parts of every public operation of a shared cache -/
structure Body (σ L : Type) where
  /-- prelude: local work on the arguments, no shared access -/
  init : Op → L
  /-- the container accesses of the critical section, in program order -/
  micro : Op → List (Micro σ L)
  /-- epilogue: the returned value, computed from the registers alone -/
  result : L → Obs

def runMicro {σ L : Type} (fs : List (Micro σ L)) (x : L × σ) : L × σ := fs.foldl (fun acc f => f acc) x

/-- what the operation does when nothing interleaves: the whole critical section in one go -/
def Body.atomic {σ L : Type} (B : Body σ L) (s : σ) (op : Op) : σ × Obs :=
  let r := runMicro (B.micro op) (B.init op, s)
  (r.2, B.result r.1)

/-- where a process is in its current operation; `t` is the ticket it drew when it got the lock (its position in the order of
    lock acquisitions) -/
inductive Phase (σ L : Type)
  | idle
  | ready (op : Op) (l : L)                                   -- prelude done, wants the lock
  | crit (op : Op) (t : Nat) (l : L) (rest : List (Micro σ L)) -- holds the lock, `rest` still to do
  | after (op : Op) (t : Nat) (l : L)                          -- lock released, has not returned yet

def Phase.isCrit {σ L : Type} : Phase σ L → Bool
  | .crit _ _ _ _ => true
  | _ => false

structure Config (σ L : Type) where
  shared : σ
  lock : Option Pid
  procs : Pid → Phase σ L
  /-- ghost: the operations in the order in which their critical sections were entered -/
  lin : List (Pid × Op)
  /-- what has been returned so far: ticket, process, operation, result -/
  log : List (Nat × Pid × Op × Obs)

def Config.init {σ L : Type} (s : σ) : Config σ L :=
  { shared := s, lock := none, procs := fun _ => .idle, lin := [], log := [] }

def setProc {σ L : Type} (procs : Pid → Phase σ L) (p : Pid) (x : Phase σ L) : Pid → Phase σ L :=
  fun q => if q = p then x else procs q

/-- one scheduling decision `(p, op)`: process `p` moves; `op` is the operation it starts if it is idle (ignored otherwise) -/
def step {σ L : Type} (B : Body σ L) (c : Config σ L) (ev : Pid × Op) : Config σ L :=
  match c.procs ev.1 with
  | .idle => { c with procs := setProc c.procs ev.1 (.ready ev.2 (B.init ev.2)) }
  | .ready op l =>
    match c.lock with
    | some _ => c                                       -- `acquire` blocks
    | none => { c with lock := some ev.1, procs := setProc c.procs ev.1 (.crit op c.lin.length l (B.micro op)),
                       lin := c.lin ++ [(ev.1, op)] }
  | .crit op t l (f :: fs) =>
    let r := f (l, c.shared)
    { c with shared := r.2, procs := setProc c.procs ev.1 (.crit op t r.1 fs) }
  | .crit op t l [] => { c with lock := none, procs := setProc c.procs ev.1 (.after op t l) }
  | .after op t l => { c with procs := setProc c.procs ev.1 .idle, log := c.log ++ [(t, ev.1, op, B.result l)] }

/-- a whole schedule -/
def exec {σ L : Type} (B : Body σ L) (c : Config σ L) (sch : List (Pid × Op)) : Config σ L := sch.foldl (step B) c

/-- `B` is a decomposition of the container `M`: on the states the representation invariant describes, the critical section run
    in one go is `M.step` -/
def Implements {σ L : Type} (B : Body σ L) (M : Sem σ) (Inv : σ → Prop) (WF : Op → Prop) : Prop :=
  ∀ s op, Inv s → WF op → M.step s op = .ok (B.atomic s op)

/-- the coarsest decomposition: the critical section is one step (registers: the observation, once made) -/
def Body.ofSem {σ : Type} (M : Sem σ) : Body σ (Option Obs) where
  init := fun _ => none
  micro := fun op => [fun x => match M.step x.2 op with | .ok (s', o) => (some o, s') | .error _ => x]
  result := fun l => l.getD .unit

/-! ### `LRUCache` statement by statement (`cache.py:295-345`): registers and the accesses of each critical section -/

/-- registers of an `LRUCache` operation: the looked-up value / answer, the evicted key, a flag for the branch taken -/
structure LReg where
  out : Obs := .unit
  hit : Bool := false
  evict : Option Key := none
  deriving Repr

/-- `get`: `key in dict` ; `dict[key]` ; `queue.remove(key)` ; `queue.append(key)` — `put`: `key in dict` ; `dict[key] = value` ;
    (resident) `queue.remove` ; `queue.append` / (new) `len(queue)` ; `queue.pop(0)` ; `dict.pop(evicted)` ; `queue.append` —
    `in`, `len`: one read — `clear`: the deletions of the dict entries, then `del queue[:]` -/
def lruBody : Body LRU LReg where
  init := fun _ => {}
  result := fun l => l.out
  micro := fun op =>
    match op with
    | .get k =>
      [ fun (l, s) => ({ l with hit := has s.dict k, out := .val none }, s),
        fun (l, s) => (if l.hit then { l with out := .val (lookup s.dict k) } else l, s),
        fun (l, s) => (l, if l.hit then { s with queue := s.queue.erase k } else s),
        fun (l, s) => (l, if l.hit then { s with queue := s.queue ++ [k] } else s) ]
    | .put k v _ =>
      [ fun (l, s) => ({ l with hit := has s.dict k }, s),
        fun (l, s) => (l, { s with dict := set s.dict k v }),
        fun (l, s) => if l.hit then (l, { s with queue := s.queue.erase k })
                      else if s.queue.length < s.max then (l, s)
                      else ({ l with evict := s.queue.head? }, { s with queue := s.queue.tail }),
        fun (l, s) => (l, match l.evict with | some e => { s with dict := erase s.dict e } | none => s),
        fun (l, s) => (l, { s with queue := s.queue ++ [k] }) ]
    | .has k => [ fun (l, s) => ({ l with out := .bool (has s.dict k) }, s) ]
    | .len => [ fun (l, s) => ({ l with out := .nat s.dict.length }, s) ]
    | .clear => [ fun (l, s) => (l, { s with dict := [] }), fun (l, s) => (l, { s with queue := [] }) ]
    | .reopen _ _ => []

/-! ### `DiskCache.put` as the implementation performs it (`cache.py:446-456`): three steps with NO lock around them -/

/-- step 1: `with file_path.open("wb") as f: dump(value, f)` — the file exists from here on, with the newest ctime -/
def diskPutFile (s : Disk) (k : Key) (v : Val) : Disk :=
  { s with files := set s.files k (v, s.clock), clock := s.clock + 1 }

/-- step 2: `self.lru_cache.put(key, value)` (one critical section of the LRU's own lock) -/
def diskPutLru (s : Disk) (k : Key) (v : Val) : Except Err Disk :=
  match s.lru with
  | none => .ok s
  | some l =>
    match l.put k v with
    | .error e => .error e
    | .ok l' => .ok { s with lru := some l' }

/-- step 3: `self._evict_if_needed()` -/
def diskPutEvict (s : Disk) : Disk := { s with files := evictN (Disk.excess s.max s.files) s.files }

end PF.Cache.Shared
