/-
A small regular-expression engine with Python's (`re`, backtracking) semantics, and the pattern of
`_parse_indexed_arrays` (`pipefunc/map/_mapspec.py:310`) as a term of its syntax.

`Re` is the part of `re._parser`'s parse tree the pattern uses: character tests (`LITERAL`, `IN [CATEGORY_WORD]`, `ANY`),
concatenation, counted repetition `MAX_REPEAT` (greedy) / `MIN_REPEAT` (lazy) and `SUBPATTERN` (capturing group).
`Re.m` is the textbook backtracking matcher in continuation-passing style: alternatives are tried in Python's priority
order (greedy: one more iteration first; lazy: the continuation first), the first alternative whose *continuation*
succeeds wins, captures are threaded functionally (so backtracking restores them).  `reFindAll` is `re.findall`:
successive leftmost matches, the next search starting where the last match ended.

Two places where the engine is exact only for patterns whose repeated bodies / whole matches are never empty (which
`C08_regex_match_consumes` proves for `arrayRe`, whose repeated bodies are single characters or start with a literal):
an iteration of a repeat that consumes nothing is discarded (sre: the loop is left), and after an empty match `reFindAll`
advances by one character.
-/
import PfModel.Model.MapSpecParse
namespace PF.MS

/-- a one-character test: `\w` (`IN [CATEGORY_WORD]`), `.` without DOTALL (`ANY`), a literal -/
inductive CC
  | word | any | lit (c : Char)
  deriving DecidableEq, Repr

def CC.test : CC → Char → Bool
  | .word, c => isWord c
  | .any, c => c != '\n'
  | .lit d, c => c == d

/-- the fragment of `re._parser`'s tree used by `_mapspec.py` -/
inductive Re
  | eps
  | chr (p : CC)
  | seq (a b : Re)
  /-- `a{mn,mx}` (`mx = none` is `MAXREPEAT`), greedy (`MAX_REPEAT`) or lazy (`MIN_REPEAT`) -/
  | rep (greedy : Bool) (mn : Nat) (mx : Option Nat) (a : Re)
  /-- capturing group number `i` -/
  | grp (i : Nat) (a : Re)
  deriving DecidableEq, Repr

/-- captured groups, most recent binding first -/
abbrev Caps := List (Nat × List Char)
/-- continuation: the rest of the pattern, given the remaining text and the captures so far -/
abbrev K (α : Type) := List Char → Caps → Option α

/-- the loop of a counted repetition.  `n` iterations are done; `fuel` bounds the remaining ones (every iteration
    consumes at least one character, so `s.length + 1` is enough). -/
def repLoop {α : Type} (body : List Char → Caps → K α → Option α) (g : Bool) (mn : Nat) (mx : Option Nat) :
    Nat → Nat → List Char → Caps → K α → Option α
  | 0, _, _, _, _ => none
  | fuel + 1, n, s, c, k =>
    let more : Option α :=
      if (match mx with | some M => decide (n < M) | none => true) then
        body s c (fun s' c' => if s'.length < s.length then repLoop body g mn mx fuel (n + 1) s' c' k else none)
      else none
    let stop : Option α := if mn ≤ n then k s c else none
    if g then (match more with | some v => some v | none => stop)
    else (match stop with | some v => some v | none => more)

/-- the backtracking matcher: `a.m s c k` tries the ways `a` can match a prefix of `s` in priority order and returns
    the answer of the first one that `k` accepts -/
def Re.m {α : Type} : Re → List Char → Caps → K α → Option α
  | .eps => fun s c k => k s c
  | .chr p => fun s c k =>
    match s with
    | x :: r => if p.test x then k r c else none
    | [] => none
  | .seq a b => fun s c k => a.m s c (fun s' c' => b.m s' c' k)
  | .rep g mn mx a => fun s c k => repLoop a.m g mn mx (s.length + 1) 0 s c k
  | .grp i a => fun s c k => a.m s c (fun s' c' => k s' ((i, s.take (s.length - s'.length)) :: c'))

/-- `pattern.match(s)`: captures and the text after the match -/
def matchAt (R : Re) (s : List Char) : Option (Caps × List Char) := R.m s [] (fun s' c => some (c, s'))

/-- `m.group(i)`; a group that did not take part is `''` in `findall` -/
def capGet (i : Nat) : Caps → List Char
  | [] => []
  | (j, v) :: r => if j = i then v else capGet i r

/-- `re.findall(R, s)` for a pattern with two groups: the list of `(group 1, group 2)` of the successive leftmost matches -/
def reFindAll (R : Re) : Nat → List Char → List (List Char × List Char)
  | 0, _ => []
  | fuel + 1, s =>
    match matchAt R s with
    | some (c, s') =>
      (capGet 1 c, capGet 2 c) ::
        (if s'.length < s.length then reFindAll R fuel s'
         else match s with
           | [] => []
           | _ :: t => reFindAll R fuel t)
    | none =>
      match s with
      | [] => []
      | _ :: t => reFindAll R fuel t

/-- `\w+` -/
def wordPlus : Re := .rep true 1 none (.chr .word)

/-- `(\w+(?:\.\w+)?\w*)\[(.+?)\]` as parsed by `re._parser.parse` (`Generated/C08Facts.lean` holds the tree
    re-extracted from the source on every run; `C08_src_regex` proves it is this term) -/
def arrayRe : Re :=
  .seq (.grp 1 (.seq wordPlus (.seq (.rep true 0 (some 1) (.seq (.chr (.lit '.')) wordPlus)) (.rep true 0 none (.chr .word)))))
    (.seq (.chr (.lit '[')) (.seq (.grp 2 (.rep false 1 none (.chr .any))) (.chr (.lit ']'))))

/-- what `_parse_indexed_arrays` does with one `findall` tuple (before `ArraySpec.__post_init__`) -/
def toSpec (t : List Char × List Char) : ArraySpec := ⟨String.ofList t.1, parseIdx t.2⟩

/-- `_parse_indexed_arrays` (`_mapspec.py:300-314`) with `re.findall` run by the regex engine instead of the scanner -/
def parseSideRe (xs : List Char) : Except Err (List ArraySpec) :=
  if strip xs = ['.', '.', '.'] then .ok []
  else if !(xs.contains '[' && xs.contains ']') then .error .valueError
  else
    let specs := (reFindAll arrayRe (xs.length + 1) xs).map toSpec
    if specs.all arrayOK then .ok specs else .error .valueError

/-- `MapSpec.from_string` with the regex engine -/
def parseRe (s : String) : Except Err MapSpec :=
  match splitArrow [] s.toList with
  | [a, b] =>
    match parseSideRe a with
    | .error e => .error e
    | .ok ins =>
      match parseSideRe b with
      | .error e => .error e
      | .ok outs =>
        match postInit ⟨ins, outs⟩ with
        | .error e => .error e
        | .ok () => .ok ⟨ins, outs⟩
  | _ => .error .valueError

end PF.MS
