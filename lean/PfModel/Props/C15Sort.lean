import PfModel.Lemmas.HashableSort
/-!
C15, `sorted(...)` beyond strictly ordered keys (`Model/HashableSort.lean`): `sortW` is Python's stable sort wherever `<`
is a total preorder on the sort keys (any two keys are `<`, `>` or tied).  It extends the `sortP` that `key` uses; its result
is independent of the iteration order exactly as far as tied entries are equal entries; with unequal tied entries the input
order shows in the result (this is the mechanism behind the finding KF-C15-partial-order-sort).
NOT done: `key` itself still calls `sortP` (ties → `malformed`); `C15_iteration_order_irrelevant` is therefore still stated
for strictly ordered collections, and the theorems below are about the sort, not yet about `key`.
-/
namespace PF.C15
open PF.Hashable

def kA : PV := .atom (.str [97])
def kB : PV := .atom (.str [98])

/-- `sortW` extends the model's `sortP`: where the keys are strictly ordered both return the same list. -/
theorem C15_sorted_ties_extends (ps s : List (PV × PV)) (h : sortP ps = .ok s) : sortW ps = .ok s := by
  unfold sortP at h
  simp only [] at h
  split at h
  · rename_i hst
    cases h
    have hs := (pairwiseB_iff _ _).1 hst
    have hw : pairwiseB weakB (ps.map Prod.fst) = true :=
      (pairwiseB_iff _ _).2 (hs.imp (fun {a b} h => strict_weak h))
    simp only [sortW, hw, if_true, sortS_eq_isort ps hs]
  · split at h
    · cases h
    · split at h <;> cases h

/-- The stable sort returns a permutation of its input, sorted: no entry is `<` an entry in front of it. -/
theorem C15_sorted_ties_sorted (ps s : List (PV × PV)) (h : sortW ps = .ok s) : s.Perm ps ∧ s.Pairwise LeP := by
  unfold sortW at h
  simp only [] at h
  split at h
  · rename_i hw
    cases h
    exact ⟨sortS_perm ps, sortS_sorted ps (pairwise_weak_of_keys hw)⟩
  · split at h <;> cases h

/-- Iteration-order irrelevance with ties: when tied entries are equal entries, `sorted` of any re-listing of the
    collection is the same list. -/
theorem C15_sorted_ties_order_irrelevant (ps qs : List (PV × PV)) (hp : ps.Perm qs)
    (hties : ∀ a ∈ ps, ∀ b ∈ ps, a.1 = b.1 → a = b) : sortW ps = sortW qs := by
  have hk := hp.map Prod.fst
  unfold sortW
  simp only []
  rw [pairwiseB_perm weakB weakB_symm hk,
    pairwiseB_perm (fun x y => decide (cmp x y ≠ .partialOrd)) (by
      intro x y; rw [cmp_swap x y]; cases cmp x y <;> simp [Cmp.swap]) hk]
  split
  · rename_i hw
    have hw' : pairwiseB weakB (ps.map Prod.fst) = true := by rw [pairwiseB_perm weakB weakB_symm hk]; exact hw
    rw [sortS_eq_of_perm hp (pairwise_weak_of_keys hw') hties]
  · rfl

/-- non-vacuity: a listing with a duplicated entry (a tie) sorts, in either order, to the same list -/
example : sortW [(kB, kB), (kA, kA), (kB, kB)] = .ok [(kA, kA), (kB, kB), (kB, kB)] ∧
    sortW [(kB, kB), (kB, kB), (kA, kA)] = .ok [(kA, kA), (kB, kB), (kB, kB)] ∧
    sortP [(kB, kB), (kA, kA), (kB, kB)] = .error .malformed := ⟨by rfl, by rfl, by rfl⟩

/-- With unequal tied entries the stable sort keeps the input order of the ties: the result depends on the iteration
    order.  (Python cannot build a set / dict with two equal keys; it does build collections whose keys are only partially
    ordered — there the same happens, KF-C15-partial-order-sort.) -/
theorem C15_sorted_ties_order_dependent :
    sortW [(kA, kA), (kA, kB)] = .ok [(kA, kA), (kA, kB)] ∧ sortW [(kA, kB), (kA, kA)] = .ok [(kA, kB), (kA, kA)] := ⟨by rfl, by rfl⟩

end PF.C15
