"""C12, constructor stream: argument validation of one `PipeFunc(...)` call (model: `PF.ValidateCtor.pipeFuncInit`,
lean/PfModel/Model/ValidateCtor.lean; driver entry `"ctor"`).

A valid call is generated (1-4 signature parameters, some renamed — a few to already scoped names —, signature defaults, `defaults=`,
`bound=`, str/tuple output, optional MapSpec over the non-bound parameters, optional `resources_variable` of the signature, optional
`scope=`, optional `internal_shape`), then ONE fault operator is applied.  Observed on the real `pipefunc.PipeFunc`: exception class vs
success, the user-call log (must stay empty), and for an accepted call the renamed view (`parameters`, `output_name`, `defaults` keys,
`renames`).  All names are ASCII (the model's `isidentifier` is the ASCII one).
"""
from __future__ import annotations

import copy
import warnings

import pfimport  # noqa: F401
from pfimport import exc_enum

import terms

SIG_POOL = ["a", "b", "c", "d", "e"]
NEW_POOL = ["x", "y2", "p_1", "q", "_r", "u", "v", "W"]
DOTTED_POOL = ["t.x", "s.w", "t.k"]
SCOPES = ["s", "sc", "ns", "t"]
BAD_IDENTS = ["1x", "a b", "", "x-y", "a..b", ".a", "a.", "9"]


# ------------------------------------------------------------------------------------------------ generation
def cur_params(c):
    ren = dict(map(tuple, c["renames"]))
    return [ren.get(p, p) for p in c["sig"] if p != c["rv"]]


def out_orig(c):
    o = c["output"]
    return [o["s"]] if "s" in o else list(o.get("t", o.get("l", [])))


def cur_outs(c):
    ren = dict(map(tuple, c["renames"]))
    return [ren.get(o, o) for o in out_orig(c)]


def gen_valid(rng):
    n = rng.randint(1, 4)
    sig = rng.sample(SIG_POOL, n)
    nd = rng.choice([0, 0, 1, 2, n])
    sig_defaults = sig[n - min(nd, n):] if nd else []
    rv = rng.choice(sig) if rng.random() < 0.2 else None
    orig = [p for p in sig if p != rv]
    fresh = rng.sample(NEW_POOL, len(NEW_POOL))
    dotted = rng.sample(DOTTED_POOL, len(DOTTED_POOL))
    renames = []
    for p in orig:
        if rng.random() < 0.35:
            renames.append([p, dotted.pop() if (dotted and rng.random() < 0.15) else fresh.pop()])
    outs = ["out"] if rng.random() < 0.65 else rng.choice([["o1", "o2"], ["o1", "o2", "o3"], ["o1"]])
    output = {"s": outs[0]} if (len(outs) == 1 and rng.random() < 0.9) else {"t": outs}
    for o in outs:
        if rng.random() < 0.2:
            renames.append([o, fresh.pop()])
    rng.shuffle(renames)
    c = {"sig": sig, "sig_defaults": sig_defaults, "output": output, "renames": renames, "defaults": [], "bound": [], "mapspec": None,
         "internal": None, "rv": rv, "scope": None}
    params = cur_params(c)
    for p in params:
        r = rng.random()
        if r < 0.2:
            c["defaults"].append(p)
        elif r < 0.35:
            c["bound"].append(p)
    free = [p for p in params if p not in c["bound"]]
    if free and rng.random() < 0.45:
        ins = rng.sample(free, rng.randint(1, len(free)))
        idx_pool = ["i", "j", "k"]
        inputs, used = [], []
        for p in ins:
            ax = rng.choice([["i"], ["i"], ["j"], ["i", "j"], [None, "i"], ["k", None]])
            inputs.append([p, ax])
            used += [a for a in ax if a is not None and a not in used]
        used = [a for a in idx_pool if a in used]
        if rng.random() < 0.2:
            used.append("m")                       # an output axis no input carries (internal shape): allowed
        c["mapspec"] = {"inputs": inputs, "outputs": [[o, list(used)] for o in cur_outs(c)]}
    if rng.random() < 0.35:
        c["scope"] = rng.choice(SCOPES)
    if rng.random() < 0.1:
        c["internal"] = rng.choice([[2], [2, 3], [0]])
    return c


def _set_out_names(c, names):
    o = c["output"]
    if "s" in o:
        c["output"] = {"s": names[0]}
    elif "t" in o:
        c["output"] = {"t": names}
    else:
        c["output"] = {"l": names}


def op_out_int(c, rng):
    c["output"] = {"bad": "int"}
    return c


def op_out_none(c, rng):
    c["output"] = {"bad": "none"}
    return c


def op_out_list(c, rng):
    c["output"] = {"l": out_orig(c)}
    return c


def op_rename_to_existing(c, rng):
    orig = [p for p in c["sig"] if p != c["rv"]]
    if len(orig) < 2:
        return None
    p, q = rng.sample(orig, 2)
    target = dict(map(tuple, c["renames"])).get(q, q)
    c["renames"] = [kv for kv in c["renames"] if kv[0] != p] + [[p, target]]
    return c


def op_rename_dup_value(c, rng):
    keys = [p for p in c["sig"] if p != c["rv"]] + out_orig(c)
    if len(keys) < 2:
        return None
    p, q = rng.sample(keys, 2)
    v = rng.choice(NEW_POOL)
    c["renames"] = [kv for kv in c["renames"] if kv[0] not in (p, q)] + [[p, v], [q, v]]
    return c


def op_rename_key_unknown(c, rng):
    c["renames"] = c["renames"] + [[rng.choice(["zz", "nope", "a1"]), rng.choice(["zq", "zr"])]]
    rng.shuffle(c["renames"])
    return c


def op_rename_value_bad(c, rng):
    keys = [p for p in c["sig"] if p != c["rv"]] + out_orig(c)
    p = rng.choice(keys)
    c["renames"] = [kv for kv in c["renames"] if kv[0] != p] + [[p, rng.choice(BAD_IDENTS)]]
    return c


def op_defaults_unknown(c, rng):
    c["defaults"] = c["defaults"] + [rng.choice(["zz", "nope"] + [p for p in c["sig"] if p not in cur_params(c)][:1])]
    return c


def op_bound_unknown(c, rng):
    c["bound"] = c["bound"] + [rng.choice(["zz", "nope"] + [p for p in c["sig"] if p not in cur_params(c)][:1])]
    return c


def op_defaults_and_bound(c, rng):
    params = cur_params(c)
    if not params:
        return None
    p = rng.choice(c["defaults"] + c["bound"]) if (c["defaults"] + c["bound"]) and rng.random() < 0.7 else rng.choice(params)
    if p not in c["defaults"]:
        c["defaults"].append(p)
    if p not in c["bound"]:
        c["bound"].append(p)
    return c


def op_rv_absent(c, rng):
    c["rv"] = rng.choice(["res", "zz", "resources"])
    return c


def op_out_is_param(c, rng):
    params = cur_params(c)
    if not params:
        return None
    p = rng.choice(params)
    names = out_orig(c)
    k = rng.randrange(len(names))
    if rng.random() < 0.5:
        c["renames"] = [kv for kv in c["renames"] if kv[0] != names[k]] + [[names[k], p]]
    else:
        c["renames"] = [kv for kv in c["renames"] if kv[0] != names[k]]
        names[k] = p
        _set_out_names(c, names)
        if c["mapspec"]:
            pass
    return c


def op_out_not_ident(c, rng):
    names = out_orig(c)
    k = rng.randrange(len(names))
    bad = rng.choice(["1y", "my out", "o-1", "o..p", ""])
    c["renames"] = [kv for kv in c["renames"] if kv[0] != names[k]]
    names[k] = bad
    _set_out_names(c, names)
    return c


def _unscoped(n):
    return n.split(".", 1)[-1]


def op_scope_is_name(c, rng):
    cands = [_unscoped(p) for p in cur_params(c)] + cur_outs(c)
    if not cands:
        return None
    c["scope"] = rng.choice(cands)
    return c


def op_scope_bad(c, rng):
    c["scope"] = rng.choice(["1s", "", "a b", "s-1", "a.b", "s."])
    return c


def op_ms_unknown_input(c, rng):
    ms = c["mapspec"]
    if not ms:
        return None
    if rng.random() < 0.5:
        ms["inputs"][rng.randrange(len(ms["inputs"]))][0] = rng.choice(["zz", "nope"])
    else:
        ax = [a for a in ms["outputs"][0][1][:1]] or ["i"]
        hidden = [p for p in c["sig"] if p not in cur_params(c)]          # an ORIGINAL name that was renamed away, or the resources variable
        ms["inputs"].append([rng.choice(hidden + ["zz"]), ax])
        if not ms["outputs"][0][1]:
            for o in ms["outputs"]:
                o[1] = list(ax)
    return c


def op_ms_unknown_output(c, rng):
    ms = c["mapspec"]
    if not ms:
        return None
    r = rng.random()
    if r < 0.4:
        ms["outputs"][rng.randrange(len(ms["outputs"]))][0] = rng.choice(["zz", "out_"])
    elif r < 0.7 and len(ms["outputs"]) > 1:
        ms["outputs"].pop(rng.randrange(len(ms["outputs"])))
    else:
        ms["outputs"].append(["extra", list(ms["outputs"][0][1])])
    return c


def op_ms_bound_input(c, rng):
    ms = c["mapspec"]
    if not ms:
        return None
    p = rng.choice(ms["inputs"])[0]
    c["defaults"] = [d for d in c["defaults"] if d != p]
    if p not in c["bound"]:
        c["bound"].append(p)
    return c


def op_ms_malformed(c, rng):
    ms = c["mapspec"]
    if not ms:
        return None
    r = rng.random()
    if r < 0.4:
        ms["inputs"][rng.randrange(len(ms["inputs"]))][1] = ["zi"]          # an input index no output carries
    elif r < 0.7 and ms["outputs"][0][1]:
        ms["outputs"][0][1][0] = None                                        # ':' in an output
    elif len(ms["outputs"]) > 1:
        ms["outputs"][-1][1] = ms["outputs"][-1][1] + ["zo"]                 # outputs with different indices
    else:
        ms["inputs"][0][1] = ["zi"]
    return c


def op_internal_bad(c, rng):
    c["internal"] = rng.choice([[2, 2, 2, 2], [7]])                          # never validated by the constructor: must be accepted
    return c


OPS = {
    "out-int": op_out_int, "out-none": op_out_none, "out-list": op_out_list, "rename-to-existing": op_rename_to_existing,
    "rename-dup-value": op_rename_dup_value, "rename-key-unknown": op_rename_key_unknown, "rename-value-bad": op_rename_value_bad,
    "defaults-unknown": op_defaults_unknown, "bound-unknown": op_bound_unknown, "defaults-and-bound": op_defaults_and_bound,
    "rv-absent": op_rv_absent, "out-is-param": op_out_is_param, "out-not-ident": op_out_not_ident, "scope-is-name": op_scope_is_name,
    "scope-bad": op_scope_bad, "ms-unknown-input": op_ms_unknown_input, "ms-unknown-output": op_ms_unknown_output,
    "ms-bound-input": op_ms_bound_input, "ms-malformed": op_ms_malformed, "internal-unchecked": op_internal_bad,
}


# ------------------------------------------------------------------------------------------------ both sides
def model_request(c):
    o = c["output"]
    return {"m": "ctor", "a": {"sig": c["sig"], "sig_defaults": c["sig_defaults"], "output": "bad" if "bad" in o else o,
                               "renames": c["renames"], "defaults": c["defaults"], "bound": c["bound"], "mapspec": c["mapspec"],
                               "internal": c["internal"], "rv": c["rv"], "scope": c["scope"]}}


def _ident(s):
    return isinstance(s, str) and s.isidentifier() and s.isascii()


def py_mapspec(ms, use_string):
    from pipefunc.map._mapspec import ArraySpec, MapSpec
    if ms is None:
        return None
    names = [n for n, _ in ms["inputs"] + ms["outputs"]]
    if use_string and all(_ident(n) for n in names) and ms["inputs"] and ms["outputs"] and all(ax for _, ax in ms["inputs"] + ms["outputs"]):
        side = lambda specs: ", ".join(f"{n}[{', '.join(':' if a is None else a for a in ax)}]" for n, ax in specs)  # noqa: E731
        return f"{side(ms['inputs'])} -> {side(ms['outputs'])}"
    return MapSpec(tuple(ArraySpec(n, tuple(ax)) for n, ax in ms["inputs"]), tuple(ArraySpec(n, tuple(ax)) for n, ax in ms["outputs"]))


def observe(c):
    """{"err": enum|None, "calls": [...], "msg": str, "view": {...}} of the real constructor."""
    from pipefunc import PipeFunc
    log = terms.CallLog()
    obs = {"err": None, "calls": [], "msg": "", "view": None}
    o = c["output"]
    names = out_orig(c) or ["y"]
    fn = terms.make_func("f", list(c["sig"]), names, defaults={p: terms.Term("dflt", [("p", p)]) for p in c["sig_defaults"]}, log=log)
    if "s" in o:
        output_name = o["s"]
    elif "t" in o:
        output_name = tuple(o["t"])
    elif "l" in o:
        output_name = list(o["l"])
    else:
        output_name = 5 if o["bad"] == "int" else None
    use_string = (len(c["sig"]) + len(c["renames"])) % 2 == 0
    try:
        with warnings.catch_warnings():
            warnings.simplefilter("ignore")
            pf = PipeFunc(fn, output_name, renames={k: v for k, v in c["renames"]}, defaults={k: 0 for k in c["defaults"]},
                          bound={k: 1 for k in c["bound"]}, mapspec=py_mapspec(c["mapspec"], use_string),
                          internal_shape=tuple(c["internal"]) if c["internal"] else None, resources_variable=c["rv"], scope=c["scope"])
            from pipefunc._utils import at_least_tuple
            obs["view"] = {"parameters": list(pf.parameters), "outputs": list(at_least_tuple(pf.output_name)),
                           "defaults": list(pf.defaults), "renames": sorted(map(list, pf.renames.items()))}
    except BaseException as e:  # noqa: BLE001
        if isinstance(e, (KeyboardInterrupt, SystemExit)):
            raise
        obs.update(err=exc_enum(e), msg=str(e)[:160])
    obs["calls"] = log.names()
    return obs


def _same_class(impl_err, model_err):
    return impl_err == model_err or (model_err == "Other" and impl_err == "AssertionError")


def judge(ctx, case, obs, model):
    op = case["op"]
    ctx.count(f"ctor-op:{op}")
    m_check = model.get("check")
    ctx.count(f"ctor-model:{m_check or 'accept'}" + (":scoped" if case["c"]["scope"] is not None else ""))
    ctx.record(case, nontrivial=(m_check is not None or op == "ctor:valid"))
    mo = {k: model.get(k) for k in ("ok", "err", "check", "parameters", "outputs", "defaults", "renames")}
    if obs["calls"]:
        ctx.violation(case, f"[{op}] user functions were invoked by the constructor: {obs['calls'][:4]}", impl=obs, model=mo,
                      key=f"user-code-ran:{op}")
        return
    if m_check is not None and obs["err"] is None:
        ctx.violation(case, f"[{op}] ill-formed constructor call ({m_check}) was accepted", impl=obs, model=mo, key=f"accepted:ctor:{m_check}")
        return
    if m_check is None and obs["err"] is not None:
        ctx.violation(case, f"[{op}] constructor call the model accepts is refused with {obs['err']}: {obs['msg'][:80]}", found_input=False,
                      item="correspondence:ctor-class", impl=obs, model=mo, key=f"ctor-refused:{op}")
        return
    if m_check is not None and not _same_class(obs["err"], model["err"]):
        ctx.violation(case, f"[{op}] refused with {obs['err']}, model: {model['err']} ({m_check})", found_input=False,
                      item="correspondence:ctor-class", impl=obs, model=mo, key=f"ctor-class:{op}")
        return
    if m_check is None:
        want = {"parameters": model["parameters"], "outputs": model["outputs"], "defaults": model["defaults"],
                "renames": sorted(model["renames"])}
        if obs["view"] != want:
            ctx.violation(case, f"[{op}] accepted call: renamed view {obs['view']} differs from the model's {want}", found_input=False,
                          item="correspondence:ctor-view", impl=obs, model=mo, key=f"ctor-view:{op}")


def _c(**kw):
    base = {"sig": ["a", "b"], "sig_defaults": [], "output": {"s": "y"}, "renames": [], "defaults": [], "bound": [], "mapspec": None,
            "internal": None, "rv": None, "scope": None}
    base.update(kw)
    return base


CORPUS = [
    {"op": "ctor:valid", "c": _c()},
    {"op": "ctor:valid", "c": _c(renames=[["a", "x"], ["y", "z"]], scope="s", defaults=["x"], bound=["b"],
                                 mapspec={"inputs": [["x", ["i"]]], "outputs": [["z", ["i"]]]})},
    {"op": "ctor:out-int", "c": _c(output={"bad": "int"})},
    {"op": "ctor:out-list", "c": _c(output={"l": ["y"]}, scope="s")},
    {"op": "ctor:out-is-param", "c": _c(output={"s": "a"})},
    {"op": "ctor:out-is-param", "c": _c(renames=[["y", "b"]])},
    {"op": "ctor:rename-dup-value", "c": _c(renames=[["a", "x"], ["b", "x"]])},
    # two parameters with the same name: every check passes (the model mirrors the code)
    {"op": "ctor:rename-to-existing", "c": _c(renames=[["a", "b"]])},
    # renames that are not one-to-one are "repaired" by scope= (the set of current names collapses them)
    {"op": "ctor:rename-dup-value", "c": _c(renames=[["a", "x"], ["b", "x"]], scope="s")},
    {"op": "ctor:rename-key-unknown", "c": _c(renames=[["zz", "q"]])},
    {"op": "ctor:rename-value-bad", "c": _c(renames=[["a", "1x"]])},
    {"op": "ctor:rename-value-bad", "c": _c(renames=[["a", "a..b"]])},
    {"op": "ctor:defaults-unknown", "c": _c(defaults=["zz"])},
    {"op": "ctor:defaults-unknown", "c": _c(renames=[["a", "x"]], defaults=["a"])},
    {"op": "ctor:bound-unknown", "c": _c(bound=["zz"], scope="s")},
    {"op": "ctor:defaults-and-bound", "c": _c(defaults=["a"], bound=["a"], output={"bad": "int"})},
    {"op": "ctor:rv-absent", "c": _c(rv="res")},
    {"op": "ctor:rv-absent", "c": _c(rv="res", scope="s")},
    {"op": "ctor:out-not-ident", "c": _c(output={"s": "my out"})},
    {"op": "ctor:scope-is-name", "c": _c(scope="a")},
    {"op": "ctor:scope-is-name", "c": _c(scope="y")},
    {"op": "ctor:scope-is-name", "c": _c(renames=[["a", "t.x"]], scope="x")},
    {"op": "ctor:scope-bad", "c": _c(scope="")},
    {"op": "ctor:scope-bad", "c": _c(scope="a.b", mapspec={"inputs": [["a", ["i"]]], "outputs": [["y", ["i"]]]})},
    {"op": "ctor:ms-unknown-input", "c": _c(mapspec={"inputs": [["zz", ["i"]]], "outputs": [["y", ["i"]]]})},
    {"op": "ctor:ms-unknown-input", "c": _c(renames=[["a", "x"]], mapspec={"inputs": [["a", ["i"]]], "outputs": [["y", ["i"]]]})},
    {"op": "ctor:ms-unknown-output", "c": _c(mapspec={"inputs": [["a", ["i"]]], "outputs": [["zz", ["i"]]]})},
    {"op": "ctor:ms-bound-input", "c": _c(bound=["a"], mapspec={"inputs": [["a", ["i"]]], "outputs": [["y", ["i"]]]})},
    {"op": "ctor:ms-malformed", "c": _c(mapspec={"inputs": [["a", ["k"]]], "outputs": [["y", ["i"]]]})},
    {"op": "ctor:valid", "c": _c(sig=["a"], rv="a", output={"t": []})},
    {"op": "ctor:scope-nothing", "c": _c(sig=["a"], rv="a", output={"t": []}, scope="s")},
]


def stream(ctx, rng, n_cases):
    """CORPUS, then `n_cases` generated constructor calls (unmutated call or one fault operator each); one Lean batch."""
    cases = [copy.deepcopy(k) for k in CORPUS]
    ops = list(OPS)
    for k in range(n_cases):
        base = gen_valid(rng)
        if k % 6 == 0:
            cases.append({"op": "ctor:valid", "c": base})
            continue
        op = ops[rng.randrange(len(ops))]
        for _ in range(20):
            if not op.startswith("ms-") or base["mapspec"]:
                break
            base = gen_valid(rng)
        m = OPS[op](copy.deepcopy(base), rng)
        if m is None:
            ctx.count(f"ctor-op-not-applicable:{op}")
            cases.append({"op": "ctor:valid", "c": base})
            continue
        cases.append({"op": f"ctor:{op}", "c": m})
    obs = [observe(case["c"]) for case in cases]
    sc_cases = [copy.deepcopy(k) for k in SCOPES_CORPUS] + [gen_scopes(rng) for _ in range(max(10, n_cases // 5))]
    sc_obs = [observe_scopes(c) for c in sc_cases]
    sc_idx = [i for i, o in enumerate(sc_obs) if o["views"] is not None]
    resps = ctx.lean([model_request(case["c"]) for case in cases] + [{"m": "scopes", "a": {"funcs": sc_obs[i]["views"]}} for i in sc_idx])
    for case, o, r in zip(cases, obs, resps):
        judge(ctx, case, o, r["r"])
    by = {i: r["r"] for i, r in zip(sc_idx, resps[len(cases):])}
    for i, (c, o) in enumerate(zip(sc_cases, sc_obs)):
        judge_scopes(ctx, c, o, by.get(i, {"clash": None}))


# ------------------------------------------------------------------------------------------------ validate_scopes (pipeline level)
def gen_scopes(rng):
    """2-3 independent functions, some scoped; in half of the cases one name of one function is renamed to a scope another one uses."""
    k = rng.randint(2, 3)
    funcs = []
    for i in range(k):
        funcs.append({"sig": [f"p{i}a", f"p{i}b"][: rng.randint(1, 2)], "out": f"o{i}", "renames": [],
                      "scope": rng.choice([None, f"s{i}", "s", "s"])})
    op = "scopes:valid"
    used = sorted({f["scope"] for f in funcs if f["scope"]})
    if used and rng.random() < 0.6:
        sc = rng.choice(used)
        j = rng.randrange(k)
        key = rng.choice(funcs[j]["sig"] + [funcs[j]["out"]])
        funcs[j]["renames"] = [[key, sc]]
        if rng.random() < 0.7:
            funcs[j]["scope"] = None            # otherwise the clashing name is itself scoped away (or refused by update_scope)
        op = "scopes:name-is-scope"
    return {"op": "ctor:" + op, "funcs": funcs}


def observe_scopes(case):
    from pipefunc import PipeFunc, Pipeline
    from pipefunc._utils import at_least_tuple
    log = terms.CallLog()
    obs = {"err": None, "at": None, "calls": [], "msg": "", "views": None}
    try:
        with warnings.catch_warnings():
            warnings.simplefilter("ignore")
            pfs = [PipeFunc(terms.make_func(f"f{i}", list(f["sig"]), [f["out"]], log=log), f["out"], renames=dict(map(tuple, f["renames"])),
                            scope=f["scope"]) for i, f in enumerate(case["funcs"])]
    except Exception as e:  # noqa: BLE001
        obs.update(err=exc_enum(e), at="pipefunc", msg=str(e)[:120])
        return obs
    obs["views"] = [[list(pf.parameters), list(at_least_tuple(pf.output_name))] for pf in pfs]
    try:
        with warnings.catch_warnings():
            warnings.simplefilter("ignore")
            Pipeline(pfs)
    except Exception as e:  # noqa: BLE001
        obs.update(err=exc_enum(e), at="pipeline", msg=str(e)[:120])
    obs["calls"] = log.names()
    return obs


def judge_scopes(ctx, case, obs, model):
    ctx.count(f"ctor-op:{case['op']}")
    if obs["at"] == "pipefunc":
        ctx.count("ctor-scopes:refused-by-PipeFunc")       # `update_scope` already refused: the ctor stream's subject
        return
    clash = model["clash"]
    ctx.count(f"ctor-scopes:model-{'clash' if clash else 'accept'}")
    ctx.record(case, nontrivial=clash or case["op"].endswith("valid"))
    if obs["calls"]:
        ctx.violation(case, f"[{case['op']}] user functions were invoked by Pipeline(...): {obs['calls'][:4]}", impl=obs, model=model,
                      key="user-code-ran:ctor:scopes")
    elif clash and obs["err"] is None:
        ctx.violation(case, f"[{case['op']}] a scope that is also a parameter/output name was accepted by Pipeline(...)", impl=obs, model=model,
                      key="accepted:ctor:scope-clash")
    elif (not clash and obs["err"] is not None) or (clash and obs["err"] != "ValueError"):
        ctx.violation(case, f"[{case['op']}] Pipeline(...) raised {obs['err']} ({obs['msg'][:60]}), model clash={clash}", found_input=False,
                      item="correspondence:ctor-scopes", impl=obs, model=model, key="ctor-scopes")


SCOPES_CORPUS = [
    {"op": "ctor:scopes:name-is-scope", "funcs": [{"sig": ["p0a"], "out": "o0", "renames": [], "scope": "s"},
                                                  {"sig": ["p1a"], "out": "o1", "renames": [["o1", "s"]], "scope": None}]},
    {"op": "ctor:scopes:name-is-scope", "funcs": [{"sig": ["p0a"], "out": "o0", "renames": [], "scope": "s"},
                                                  {"sig": ["p1a"], "out": "o1", "renames": [["p1a", "s"]], "scope": None}]},
    {"op": "ctor:scopes:valid", "funcs": [{"sig": ["p0a"], "out": "o0", "renames": [], "scope": "s"},
                                          {"sig": ["p1a"], "out": "o1", "renames": [], "scope": "s"}]},
]


def scopes_stream(ctx, rng, n_cases):
    cases = [copy.deepcopy(k) for k in SCOPES_CORPUS] + [gen_scopes(rng) for _ in range(n_cases)]
    obs = [observe_scopes(c) for c in cases]
    idx = [i for i, o in enumerate(obs) if o["views"] is not None]
    resps = ctx.lean([{"m": "scopes", "a": {"funcs": obs[i]["views"]}} for i in idx]) if idx else []
    by = {i: r["r"] for i, r in zip(idx, resps)}
    for i, (c, o) in enumerate(zip(cases, obs)):
        judge_scopes(ctx, c, o, by.get(i, {"clash": None}))


def replay_case(ctx, case):
    if "funcs" in case:
        o = observe_scopes(case)
        print("implementation:", o)
        if o["views"] is not None:
            print("model:", ctx.lean([{"m": "scopes", "a": {"funcs": o["views"]}}])[0]["r"])
        return
    print("implementation:", observe(case["c"]))
    r = ctx.lean([model_request(case["c"])])[0]["r"]
    print("model:", {k: v for k, v in r.items() if k != "steps"})
    print("model steps:", r.get("steps"))
