/-
The run folder as STATE: a history of `pipeline.map(..., run_folder=F)` calls, loader calls (`load_xarray_dataset`, `load_outputs`:
`pipefunc/map/_load.py:15-63`, `pipefunc/map/xarray.py:46-66`) and removals, on any number of run folders, inside one process.
`Model.XLabel.fromFolder` describes ONE load after ONE run; here the loaders read whatever the folder holds NOW
(`RunInfo.load(run_folder)` is executed by every call: `_load.py:18`, `_load.py:56`, `xarray.py:57`), and `map` replaces
(`cleanup=True`: `_run_info.py:_cleanup_run_folder`, then `_dump_all`) or resumes (`cleanup=False`:
`_run_info.py:_compare_to_previous_run_info`) what is there.  How the folder encodes these records in files is C04's model
(`Model.RunInfoCodec`, `Model.RunInfoResume`); this model keeps the decoded records.
Core Lean only; built on `PF.XLabel`.
-/
import PfModel.Model.XLabel
namespace PF.XLabel
open PF PF.Map

/-- what a completed `pipeline.map(inputs, run_folder=F)` leaves in `F`, as far as the loaders read it back
    (`RunInfo.load`, `_run_info.py:185-203`, and the per-output storage opened by `load_outputs`) -/
structure RunFolder where
  mss : List MSpec                       -- `run_info.json`: `mapspecs_as_strings`
  inputs : List (String × Val)           -- `inputs/<name>.cloudpickle`: the `inputs` of the call
  defaults : List (String × Val)         -- `defaults/defaults.cloudpickle`: `pipeline.defaults`
  internal : List (String × List Nat)    -- `run_info.json`: `internal_shapes` (as constructed)
  stored : List (String × Val)           -- what `load_outputs` gives back per output; the keys are `all_output_names`
  deriving Repr, Inhabited

/-- the state of one run folder path -/
inductive FolderState
  | absent                 -- no such folder (never written, or removed)
  | run (f : RunFolder)    -- holds a completed run
  | broken                 -- a run that raised: the folder may be untouched, gone or partly written — the model says nothing about it
  deriving Repr, Inhabited

/-- the file system as far as run folders go: resolved absolute path ↦ slot (newest entry first) -/
abbrev Disk := List (String × FolderState)

def slotAt (d : Disk) (p : String) : FolderState := (alookup d p).getD .absent
def setSlot (d : Disk) (p : String) (s : FolderState) : Disk := (p, s) :: d

/-- the records of a run that completed with result `r` (`RunInfo.create` → `_dump_all`, then the stores filled by the run) -/
def written (fs : List MFunc) (inputs : List (String × Val)) (ui : List (String × List Nat)) (r : MapResult) : RunFolder :=
  { mss := pipelineMapspecs fs, inputs := inputs, defaults := pdefaults fs, internal := constructInternal fs ui, stored := r.stored }

/-- `load_xarray_dataset(*names, run_folder=F, load_intermediate=li)` on the records `F` holds now (`_load.py:47-63`:
    `run_info.mapspecs`, `{**run_info.defaults, **run_info.inputs}`; `xarray.py:56-58`: no names = all output names of the
    run; data loader = `load_outputs` on the same folder) -/
def folderDataset (f : RunFolder) (names : List String) (li : Bool) : M Dataset :=
  xarrayDataset f.mss (f.inputs ++ f.defaults) (alookup f.stored) (if names.isEmpty then akeys f.stored else names) li

/-- `load_outputs(*names, run_folder=F)` (`_load.py:15-22`; an unknown name is a `KeyError` of the store dictionary) -/
def folderOutputs (f : RunFolder) (names : List String) : M (List Val) :=
  names.mapM fun n =>
    match alookup f.stored n with
    | some v => pure v
    | none => throw (Err.key n)

/-- `equal_dicts(d1, d2)` (`_utils.py`): same number of keys, every key of `a` is in `b` with an `_is_equal` value -/
def sameDict (eqv : Val → Val → Bool) (a b : List (String × Val)) : Bool :=
  a.length == b.length && a.all fun kv =>
    match alookup b kv.1 with
    | some w => eqv kv.2 w
    | none => false

/-- does `_compare_to_previous_run_info` accept a `cleanup=False` run on top of the records `f`?  (internal shapes, MapSpec
    strings, inputs, defaults; the shapes it also compares are a function of these; every refusal is a `ValueError`) -/
def resumable (eqv : Val → Val → Bool) (f : RunFolder) (fs : List MFunc) (inputs : List (String × Val))
    (ui : List (String × List Nat)) : Bool :=
  decide (constructInternal fs ui = f.internal) && decide (pipelineMapspecs fs = f.mss) &&
    sameDict eqv inputs f.inputs && sameDict eqv (pdefaults fs) f.defaults

/-- one call made by the process -/
inductive Op
  | map (path : String) (fs : List MFunc) (inputs : List (String × Val)) (ui : List (String × List Nat)) (cleanup : Bool)
  | load (path : String) (names : List String) (li : Bool)     -- `load_xarray_dataset(*names, run_folder=path, load_intermediate=li)`
  | outputs (path : String) (names : List String)              -- `load_outputs(*names, run_folder=path)`
  | remove (path : String)                                     -- `shutil.rmtree(path)`
  deriving Inhabited

/-- what the caller sees -/
inductive Obs
  | mapped (r : M MapResult)           -- a run from scratch: its result, or what it raised
  | resumed (stored : List (String × Val))   -- `cleanup=False` on a completed equal run: every element is reloaded
  | refused                            -- `cleanup=False` refused (`ValueError`); nothing is written
  | dataset (d : M Dataset)
  | values (v : M (List Val))
  | notFound                           -- no `run_info.json`: `FileNotFoundError`
  | unspecified                        -- anything on a `broken` folder
  | removed
  deriving Inhabited

/-- a run from scratch into `path` (the folder is new or has been cleaned up) -/
def freshRun (d : Disk) (path : String) (fs : List MFunc) (inputs : List (String × Val)) (ui : List (String × List Nat)) :
    Disk × Obs :=
  match runMap fs inputs ui with
  | .ok r => (setSlot d path (.run (written fs inputs ui r)), .mapped (.ok r))
  | .error e => (setSlot d path .broken, .mapped (.error e))

/-- one call: the new state and what the caller sees.  Loads never write. -/
def step (eqv : Val → Val → Bool) (d : Disk) : Op → Disk × Obs
  | .map path fs inputs ui cleanup =>
    if cleanup then freshRun d path fs inputs ui
    else
      match slotAt d path with
      | .absent => freshRun d path fs inputs ui
      | .broken => (d, .unspecified)
      | .run f =>
        if resumable eqv f fs inputs ui then
          -- `_dump_all` writes THIS call's inputs and defaults; every element of every output is found and reloaded
          (setSlot d path (.run { f with inputs := inputs, defaults := pdefaults fs }), .resumed f.stored)
        else (d, .refused)
  | .load path names li =>
    (d, match slotAt d path with
        | .absent => .notFound
        | .broken => .unspecified
        | .run f => .dataset (folderDataset f names li))
  | .outputs path names =>
    (d, match slotAt d path with
        | .absent => .notFound
        | .broken => .unspecified
        | .run f => .values (folderOutputs f names))
  | .remove path => (setSlot d path .absent, .removed)

/-- a history of calls, from the first -/
def exec (eqv : Val → Val → Bool) : Disk → List Op → Disk × List Obs
  | d, [] => (d, [])
  | d, op :: rest =>
    let s := step eqv d op
    let t := exec eqv s.1 rest
    (t.1, s.2 :: t.2)

/-- does the call write (or remove) the folder `p`? -/
def Op.writes (p : String) : Op → Bool
  | .map path _ _ _ _ => path == p
  | .remove path => path == p
  | .load _ _ _ => false
  | .outputs _ _ => false

/-! ### the specification: every folder is its own state machine -/

/-- what a run from scratch leaves -/
def runSlot (fs : List MFunc) (inputs : List (String × Val)) (ui : List (String × List Nat)) : FolderState :=
  match runMap fs inputs ui with
  | .ok r => .run (written fs inputs ui r)
  | .error _ => .broken

/-- the slot of folder `p` after one call, from the slot of `p` before it — nothing else of the disk, nothing of the calls that
    went before: calls on other folders and loads leave it alone -/
def stepSlot (eqv : Val → Val → Bool) (p : String) (s : FolderState) : Op → FolderState
  | .map path fs inputs ui cleanup =>
    if path = p then
      if cleanup then runSlot fs inputs ui
      else
        match s with
        | .absent => runSlot fs inputs ui
        | .broken => .broken
        | .run f => if resumable eqv f fs inputs ui then .run { f with inputs := inputs, defaults := pdefaults fs } else .run f
    else s
  | .remove path => if path = p then .absent else s
  | .load _ _ _ => s
  | .outputs _ _ => s

end PF.XLabel
