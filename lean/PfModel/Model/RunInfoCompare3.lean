/-
The THREE-valued resume check.  `equal_dicts` (`pipefunc/_utils.py:133-164`) does not return a `bool`: it returns `False`
(lengths or key sets differ, or some pair of values compares not-equal), `None` (no pair compared not-equal, but at least one
`_is_equal` call RAISED: "could not compare"), or `True`.  `_compare_to_previous_run_info`
(`pipefunc/map/_run_info.py:294-338`) on `equal_inputs is None` prints "hoping for the best" and RETURNS — it accepts the run
WITHOUT looking at the defaults; on `equal_defaults is None` it accepts as well.

Model/RunInfoResume.lean models the check with a total `eqv : Val → Val → Bool`; here the comparison of one pair of values is
`cmp : String → Val → Val → Option Bool` (`none` = the `_is_equal` call for that pair raised).  The comparator sees the KEY too:
`equal_dicts` calls `_is_equal(d1[k], d2[k])` once per key of `d1`, so a key-indexed oracle describes any run of it (the driver
`resume.compare3` names the keys whose comparison raises / gives `False` and needs no equality on `Val`); `keyless eqv3` is the
comparator that does not look at the key.
Core Lean only.
-/
import PfModel.Model.RunInfoResume
namespace PF.RIC
open PF PF.Map

/-- a comparator `Val → Val → Option Bool` used for every key -/
def keyless (eqv3 : Val → Val → Option Bool) : String → Val → Val → Option Bool := fun _ => eqv3

/-- what the loop of `equal_dicts` makes of ONE `_is_equal` call (`_utils.py:152-160`): an exception is remembered in `errors`
    (`none`), a returned value is tested with `if not equal:` — so a returned `None` (`_is_equal` of two nested dicts is
    `equal_dicts` of them, `_utils.py:110-111`, which may be `None`) counts as NOT equal. -/
def pairOutcome : Except Unit (Option Bool) → Option Bool
  | .error _ => none
  | .ok none => some false
  | .ok (some b) => some b

/-- one iteration's verdict: `d2[k]` then `_is_equal(v1, v2)` (a key of `d1` that `d2` lacks makes the dictionaries unequal) -/
def pairCmp3 (cmp : String → Val → Val → Option Bool) (b : List (String × Val)) (kv : String × Val) : Option Bool :=
  match alookup b kv.1 with
  | none => some false
  | some w => cmp kv.1 kv.2 w

/-- the loop `for k, v1 in d1.items(): v2 = d2[k]; try: equal = _is_equal(v1, v2) except: errors.append(..) else: if not equal:
    return False` and the tail `if errors: return None; return True` (`_utils.py:149-164`); `errors` = "the list is non-empty".
    (`d2[k]` cannot fail after the key test; the model answers `False` there.) -/
def eqLoop3 (cmp : String → Val → Val → Option Bool) (b : List (String × Val)) : List (String × Val) → Bool → Option Bool
  | [], errors => if errors then none else some true
  | (k, v1) :: rest, errors =>
    match alookup b k with
    | none => some false
    | some v2 =>
      match cmp k v1 v2 with
      | none => eqLoop3 cmp b rest true
      | some false => some false
      | some true => eqLoop3 cmp b rest errors

/-- **`equal_dicts(d1, d2)`** (`_utils.py:133-164`): `False` when the lengths differ (:139) or the key sets differ (:144: with
    equal lengths, some key of `d1` is not a key of `d2`), then the loop with its `errors` list. -/
def eqDict3 (cmp : String → Val → Val → Option Bool) (a b : List (String × Val)) : Option Bool :=
  if a.length ≠ b.length then some false
  else if a.any (fun kv => (alookup b kv.1).isNone) then some false
  else eqLoop3 cmp b a false

/-- `all(_is_equal(x, y) for x, y in zip(a, b))` (`_utils.py:118` for object arrays, `:129` for lists and tuples) with an element
    comparison that may raise (`el i x y`: the outcome for the pair at position `i`): the pairs are visited in order, the first
    not-equal pair answers `False` (the pairs after it are never compared), a pair whose comparison raises makes the whole call
    raise (`none`); `zip` stops at the shorter sequence. -/
def allEq3 (el : Nat → Val → Val → Option Bool) : Nat → List Val → List Val → Option Bool
  | i, x :: xs, y :: ys =>
    match el i x y with
    | none => none
    | some false => some false
    | some true => allEq3 el (i + 1) xs ys
  | _, _, _ => some true

/-- `_is_equal` of two lists / tuples (`len(a) != len(b)` → `False`, `_utils.py:126-129`) or two object arrays (`a.shape == b.shape
    and all(...)`, `_utils.py:117-118`; `np.array_equal(..., equal_nan=True)` raises `TypeError` on them first) -/
def seqEq3 (el : Nat → Val → Val → Option Bool) (sh : List Nat) (xs : List Val) (sh' : List Nat) (ys : List Val) : Option Bool :=
  if sh ≠ sh' ∨ xs.length ≠ ys.length then some false else allEq3 el 0 xs ys

/-- **`_compare_to_previous_run_info`** (`_run_info.py:294-338`) with the three-valued `equal_dicts`: as `compareToPrevious`
    up to the shapes; then `equal_inputs is None` → return (:320-325: the defaults are NOT compared), `not equal_inputs` →
    `ValueError` (:326-328); `equal_defaults is None` → return (:330-335), `not equal_defaults` → `ValueError` (:336-338). -/
def compareToPrevious3 (cmp : String → Val → Val → Option Bool) (fo : Folder) (new : RunInfo) : Except Refusal Unit :=
  match fo .runInfo with
  | none => .ok ()
  | some _ =>
    match decode fo with
    | none => .error .previousUnreadable
    | some old =>
      if new.internalShapes ≠ old.internalShapes then .error .internalShapes
      else if new.mapspecs ≠ old.mapspecs then .error .mapspecs
      else if !sameKeyed new.shapes old.shapes then .error .shapes
      else
        match eqDict3 cmp new.inputs old.inputs with
        | none => .ok ()
        | some false => .error .inputs
        | some true =>
          match eqDict3 cmp new.defaults old.defaults with
          | none => .ok ()
          | some false => .error .defaults
          | some true => .ok ()

/-- `RunInfo.create` (`_run_info.py:56-87`) with the three-valued check; `_dump_all` afterwards, always -/
def createOn3 (cmp : String → Val → Val → Option Bool) (cleanup : Bool) (fo : Folder) (r : RunInfo) : Except Refusal Folder :=
  if cleanup then .ok (dumpAll Folder.empty r)
  else (compareToPrevious3 cmp fo r).map fun _ => dumpAll fo r

/-- one run into a folder (`runOn` with the three-valued check) -/
def runOn3 (cmp : String → Val → Val → Option Bool) (pm : Bool) (fo : Folder) (x : Run) : Except Refusal Folder :=
  (createOn3 cmp x.cleanup fo x.info).map (writeStore pm x.backend x.store)

/-- a history of runs into one folder; a refused run ends it -/
def history3 (cmp : String → Val → Val → Option Bool) (pm : Bool) : Folder → List Run → Except Refusal Folder
  | fo, [] => .ok fo
  | fo, x :: rest =>
    match runOn3 cmp pm fo x with
    | .error e => .error e
    | .ok fo' => history3 cmp pm fo' rest

end PF.RIC
