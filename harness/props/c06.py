"""C06 — Running a map in pieces (fixed_indices, learners) equals running it whole.

Correspondence: real `Pipeline.map(fixed_indices=…, cleanup=False, parallel=False)` sequences on one run folder, and the real
`pipefunc.map.adaptive.create_learners` learners driven through `learner.function((k, x))`, on generated map pipelines
(`harness/mapgen.py`), against `PF.Pieces.runPart/runPieces/createLearners/execSteps` (lean/PfModel/Model/MapPieces.lean).
Clauses of the statement that can be evaluated on the implementation alone (parts add up to the full run, nothing computed
twice, the final full run computes nothing, the folder reloads to the full run's data) are evaluated on it directly.
"""
from __future__ import annotations

import copy
import itertools
import random
import re
import shutil
import tempfile

import numpy as np

import pfimport  # noqa: F401
from pfimport import exc_enum

import mapgen
import terms

PID = "C06"
PROPS = ["PfModel.Props.C06"]
DRIVER = "C06"
RULE = ("mapgen pipelines (1-4 functions; zip, outer product, ':' reductions, internal axes, generators, tuple outputs; axis sizes 1-3, "
        "sometimes 4); for every axis name of the pipeline: every set partition of range(size) into arithmetic progressions (all of them "
        "for size <= 3, random ones for size 4), each block written as a random int / negative int / slice / negative-step slice with the "
        "same index set, sometimes an extra empty slice; every order of the parts when <= 4 parts (thorough; quick samples 4-part orders); "
        "one map(fixed_indices=part, cleanup=False) per part on one folder, then a full run; axes the validation refuses (reduced) and "
        "malformed requests (unknown axis, out-of-range integer, zero step, late out-of-range on an intermediate-only axis) form the reject "
        "stream; learners with and without split_independent_axes and with fixed_indices, executed in a random generation-respecting "
        "interleaving and through simple_run; non-trivial = >= 2 non-empty parts (or >= 2 learner steps) over a function mapped over >= 2 "
        "elements; distinct by (pipeline, inputs, storage, request sequence)")
ASSUMPTIONS = ["NumPy basic indexing (`zeros(shape)[key] = True`, `array[key]`) and Python `slice.indices` are specified by `selIndices` "
               "(compared with Python's own `range(n)[sel]` for every selector the generator can draw)",
               "storage arrays are modelled as partial maps from the external linear index (C07 is the property about the backends)",
               "the run folder's `run_info.json` comparison of `cleanup=False` is not modelled: the parts use the same pipeline and inputs",
               "adaptive's SequenceLearner is driven through `learner.function((k, x))` and `simple_run`; its runner is not modelled",
               "pipeline-level equality of a run in pieces with the full run is proved per function under the hypothesis that each part "
               "reads the arguments the full run reads; that hypothesis is evaluated on every generated case (model and implementation)"]

STORAGES = ["file_array", "file_array", "dict"]


# ------------------------------------------------------------------------------------------------ selectors
def sel_py(j):
    return j if isinstance(j, int) else slice(*j["sl"])


def sel_json(s):
    return s if isinstance(s, int) else {"sl": [s.start, s.stop, s.step]}


def fixed_py(fx):
    return None if fx is None else {a: sel_py(s) for a, s in fx}


_TABLE: dict = {}


def sel_table(n):
    """frozenset of positions -> selectors (JSON) with exactly that index set on an axis of size n (oracle: Python itself)."""
    if n in _TABLE:
        return _TABLE[n]
    tab: dict = {}
    for k in range(-n, n):
        tab.setdefault(frozenset([range(n)[k]]), []).append(k)
    bounds = [None, *range(-n - 2, n + 3)]
    for a in bounds:
        for b in bounds:
            for st in (None, 1, 2, 3, -1, -2, -3):
                tab.setdefault(frozenset(range(n)[slice(a, b, st)]), []).append({"sl": [a, b, st]})
    _TABLE[n] = tab
    return tab


def set_partitions(items):
    if not items:
        yield []
        return
    first, rest = items[0], items[1:]
    for part in set_partitions(rest):
        yield [[first], *part]
        for i in range(len(part)):
            yield [*part[:i], [first, *part[i]], *part[i + 1:]]


def pick_rep(rng, n, block):
    reps = sel_table(n).get(frozenset(block))
    if not reps:
        return None
    r = rng.random()
    ints = [x for x in reps if isinstance(x, int)]
    negstep = [x for x in reps if not isinstance(x, int) and (x["sl"][2] or 1) < 0]
    posstep = [x for x in reps if not isinstance(x, int) and (x["sl"][2] or 1) > 0]
    if ints and r < 0.35:
        return rng.choice(ints)
    if negstep and r < 0.65:
        return rng.choice(negstep)
    return rng.choice(posstep or reps)


def partitions_for(rng, n, tier):
    """list of partitions; a partition is a list of selectors (JSON)"""
    out = []
    if n <= 3:
        plist = list(set_partitions(list(range(n))))
    else:
        plist = [p for p in set_partitions(list(range(n))) if all(frozenset(b) in sel_table(n) for b in p)]
        plist = rng.sample(plist, min(len(plist), 3 if tier == "quick" else 6))
    for p in plist:
        sels = [pick_rep(rng, n, b) for b in p]
        if any(s is None for s in sels):
            continue
        if rng.random() < 0.15:
            sels.append(rng.choice(sel_table(n)[frozenset()]))     # a part that selects nothing
        out.append(sels)
    return out


def orders_for(rng, k, tier):
    perms = list(itertools.permutations(range(k)))
    if k <= 3 or (k == 4 and tier == "thorough"):
        return perms
    return rng.sample(perms, min(len(perms), 5))


# ------------------------------------------------------------------------------------------------ the implementation
def axes_of(desc):
    names = []
    for f in desc["funcs"]:
        if f["mapspec"]:
            for a in f["mapspec"]["inputs"] + f["mapspec"]["outputs"]:
                for x in a[1]:
                    if x is not None and x not in names:
                        names.append(x)
    return names


def canon_calls(calls):
    return sorted(([c[0], c[1]] for c in calls if c[2] == "call"), key=repr)


def model_calls(calls):
    return sorted(([n, [[k, terms.canon(v)] for k, v in sorted(kw, key=lambda kv: kv[0])]] for n, kw in calls), key=repr)


def observe_store(res, folder):
    from pipefunc.map import load_outputs
    present, stored = {}, {}
    for name, r in res.items():
        st = r.store
        if hasattr(st, "mask_linear"):
            present[name] = [i for i, m in enumerate(st.mask_linear()) if not m]
            stored[name] = terms.enc(st.to_array())
        elif hasattr(st, "value"):
            present[name] = None
            stored[name] = terms.enc(st.value)
        else:
            present[name] = None
            stored[name] = terms.enc(load_outputs(name, run_folder=folder))
    return present, stored


class Impl:
    """One built pipeline with its call log; folders below `base`."""

    def __init__(self, desc, storage, base):
        self.desc, self.storage, self.base = desc, storage, base
        self.p, self.log = mapgen.build(desc)
        self.inputs = mapgen.py_inputs(desc)

    def map(self, folder, fixed):
        return mapgen.quiet(self.p.map, dict(self.inputs), run_folder=folder, internal_shapes=mapgen.internal_shapes_arg(self.desc),
                            parallel=False, storage=self.storage, cleanup=False, fixed_indices=fixed_py(fixed))

    def gappy(self):
        """DF-29 (b) (C19): on a tree without that repair `mapspec_axes` raises for an array whose leading axis is only ever ':'."""
        try:
            self.p.mapspec_axes
        except KeyError:
            return True
        return False

    def sequence(self, parts):
        """Run the parts in order on a fresh folder; one observation per part, stopping at the first refusal."""
        folder = tempfile.mkdtemp(dir=self.base)
        obs = []
        try:
            for fx in parts:
                self.log.clear()
                try:
                    res = self.map(folder, fx)
                    present, stored = observe_store(res, folder)
                    obs.append({"calls": canon_calls(self.log.read()), "present": present, "stored": stored,
                                "outputs": {k: terms.enc(r.output) for k, r in res.items()}})
                except Exception as e:  # noqa: BLE001
                    obs.append({"err": exc_enum(e), "msg": f"{type(e).__name__}: {e}"[:200], "ran": len(canon_calls(self.log.read()))})
                    break
            loaded = None
            if obs and "err" not in obs[-1]:
                try:
                    from pipefunc.map import load_outputs
                    names = list(obs[-1]["stored"])
                    vals = mapgen.quiet(load_outputs, *names, run_folder=folder)
                    vals = [vals] if len(names) == 1 else list(vals)
                    loaded = {n: terms.enc(v) for n, v in zip(names, vals)}
                except Exception as e:  # noqa: BLE001
                    loaded = {"err": exc_enum(e), "msg": str(e)[:200]}
            return obs, loaded
        finally:
            shutil.rmtree(folder, ignore_errors=True)


def model_part(r):
    if "err" in r:
        return {"err": r["err"], "msg": r.get("why")}
    return {"calls": model_calls(r["calls"]), "present": dict(r["present"]), "stored": {k: terms.canon(v) for k, v in r["stored"]},
            "outputs": {k: terms.canon(v) for k, v in r["outputs"]}}


def mapped_big(desc, full):
    """some function is mapped over >= 2 elements"""
    return any(v is not None and len(v) >= 2 for v in full["present"].values())


# ------------------------------------------------------------------------------------------------ pieces
def judge_sequence(ctx, case, impl_obs, loaded, model_obs_, full, nparts):
    """`impl_obs`/`model_obs_`: one entry per request of case['parts'] (the last one is the final full run)."""
    info = f" [axis {case.get('axis')}, parts {case['parts'][:-1]}]"

    def V(case, what, **kw):
        ctx.violation(case, what + info, key=re.sub(r"[0-9]+", "#", what)[:70], **kw)

    # the model's verdict on the sequence
    merr = next((k for k, o in enumerate(model_obs_) if "err" in o), None)
    ierr = next((k for k, o in enumerate(impl_obs) if "err" in o), None)
    if merr is not None:
        late = ierr is not None and impl_obs[ierr].get("ran", 0) > 0
        ctx.count(f"reject:{model_obs_[merr]['err']}{':late (after earlier generations ran)' if late else ''}")
        if ierr is None:
            V(case, f"request that must be rejected ({model_obs_[merr]['err']}) was accepted",
                          impl=impl_obs[merr] if merr < len(impl_obs) else None, model=model_obs_[merr])
        elif ierr != merr:
            V(case, f"part #{ierr} refused with {impl_obs[ierr]['err']} although valid: {impl_obs[ierr]['msg'][:100]}",
                          impl=impl_obs[ierr], model=model_obs_[ierr])
        elif impl_obs[ierr]["err"] != model_obs_[merr]["err"]:
            V(case, f"rejected with {impl_obs[ierr]['err']} instead of {model_obs_[merr]['err']}", found_input=False,
                          item="correspondence:error-class", impl=impl_obs[ierr], model=model_obs_[merr])
        return False
    if ierr is not None:
        ctx.count(f"impl-refuses:{impl_obs[ierr]['err']}")
        V(case, f"valid part #{ierr} refused with {impl_obs[ierr]['err']}: {impl_obs[ierr]['msg'][:120]}",
                      impl=impl_obs[ierr], model=model_obs_[ierr])
        return False
    # each part computes precisely the selected, still missing elements and leaves all others missing
    for k, (io, mo) in enumerate(zip(impl_obs, model_obs_)):
        tag = "the final full run" if k == nparts else "a part"
        info = f" [{'final run' if k == nparts else f'part #{k} = ' + str(case['parts'][k])}; axis {case.get('axis')}, parts {case['parts'][:-1]}]"
        if io["present"] != mo["present"]:
            V(case, f"after {tag} the stored elements are not the previously stored plus the selected ones",
                          impl={"present": io["present"]}, model={"present": mo["present"]})
            return False
        if io["calls"] != mo["calls"]:
            V(case, f"{tag} did not compute precisely the selected missing elements",
                          impl={"calls": io["calls"]}, model={"calls": mo["calls"]})
            return False
        if io["stored"] != mo["stored"]:
            V(case, f"after {tag} the stored data differ from the elements computed so far",
                          impl={"stored": io["stored"]}, model={"stored": mo["stored"]})
            return False
        if io["outputs"] != mo["outputs"]:
            V(case, f"Result.output of {tag} differs from the model", found_input=False, item="correspondence:part-output",
                          impl={"outputs": io["outputs"]}, model={"outputs": mo["outputs"]})
            return False
    info = f" [axis {case.get('axis')}, parts {case['parts'][:-1]}]"
    # the clauses of the statement, on the implementation's own answers
    final = impl_obs[-1]
    if final["calls"]:
        V(case, f"the final full run recomputed {len(final['calls'])} element(s)", impl={"calls": final["calls"]}, model=None)
        return False
    allcalls = sorted((c for o in impl_obs for c in o["calls"]), key=repr)
    if allcalls != full["calls"]:
        V(case, "the calls of the parts do not add up to the calls of one full run (an element computed twice, "
                      "never, or with other arguments)", impl={"calls": allcalls}, model={"calls": full["calls"]})
        return False
    if final["stored"] != full["stored"] or final["outputs"] != full["outputs"]:
        V(case, "the folder after all parts does not hold what one full run stores",
                      impl={"stored": final["stored"]}, model={"stored": full["stored"]})
        return False
    if loaded != full["stored"]:
        V(case, "load_outputs after all parts differs from the data of one full run", impl={"loaded": loaded},
                      model={"stored": full["stored"]})
        return False
    return True


def malformed_requests(rng, desc, axes):
    """requests the validation must refuse; each is a single fault"""
    out = []
    sizes = desc["sizes"]
    out.append([["zz", 0]])
    if axes:
        a = rng.choice(axes)
        n = sizes[a]
        out.append([[a, rng.choice([n, n + 1, -n - 1])]])
        out.append([[a, {"sl": [None, None, 0]}]])
        out.append([[a, rng.choice([0, -1])], ["zz", {"sl": [None, None, None]}]])
    return out


def plan_case(ctx, rng, desc, storage):
    """The request sequences for one pipeline: [(kind, axis, parts-with-final-None)]"""
    plans = []
    axes = axes_of(desc)
    for a in axes:
        n = desc["sizes"][a]
        for sels in partitions_for(rng, n, ctx.tier):
            for order in orders_for(rng, len(sels), ctx.tier):
                parts = [[[a, sels[q]]] for q in order]
                plans.append(("pieces", a, parts + [None]))
    # two axes at once: a part fixes one index on each of two axes (product selection); covering needs all combinations
    if len(axes) >= 2 and rng.random() < 0.5:
        a, b = rng.sample(axes, 2)
        pa, pb = rng.choice(partitions_for(rng, desc["sizes"][a], "quick")), rng.choice(partitions_for(rng, desc["sizes"][b], "quick"))
        combos = [[[a, x], [b, y]] for x in pa for y in pb]
        if len(combos) <= 6:
            rng.shuffle(combos)
            plans.append(("pieces2", f"{a}*{b}", combos + [None]))
    for fx in malformed_requests(rng, desc, axes):
        plans.append(("malformed", None, [fx, None]))
    return plans


def check_pipeline(ctx, rng, desc, storage, base, jobs):
    """Run the implementation on every planned sequence; queue the model requests."""
    try:
        impl = Impl(desc, storage, base)
    except Exception as e:  # noqa: BLE001
        ctx.violation({"desc": desc, "kind": "construct"}, f"valid pipeline refused at construction: {type(e).__name__}: {str(e)[:100]}")
        return
    if impl.gappy():
        ctx.skip("DF-29b: mapspec_axes raises for an array whose leading axis is only ever ':' (C19's repair not in this tree)")
        return
    full_obs, full_loaded = impl.sequence([None])
    req = mapgen.model_request(desc)
    jobs.append({"kind": "full", "desc": desc, "storage": storage, "impl": full_obs, "loaded": full_loaded,
                 "reqs": [{"m": "map.run", "a": req, "driver": "C01"}, {"m": "pieces.run", "a": {**req, "parts": [None]}}]})
    if "err" in full_obs[0]:
        return
    for kind, axis, parts in plan_case(ctx, rng, desc, storage):
        obs, loaded = impl.sequence(parts)
        jobs.append({"kind": kind, "desc": desc, "storage": storage, "axis": axis, "parts": parts, "impl": obs, "loaded": loaded,
                     "full": full_obs[0], "reqs": [{"m": "pieces.run", "a": {**req, "parts": parts}}]})
    learner_jobs(ctx, rng, impl, desc, storage, jobs, full_obs[0])


# ------------------------------------------------------------------------------------------------ learners
def key_json(key):
    if key is None:
        return None
    return [[k.axis, sel_json(k.idx) if isinstance(k.idx, slice) else int(k.idx)] for k in key]


def seq_json(seq):
    seq = list(seq)
    return None if seq == [None] else [int(x) for x in seq]


def learners_impl(impl, folder, fixed, split):
    from pipefunc.map.adaptive import create_learners
    ld = mapgen.quiet(create_learners, impl.p, dict(impl.inputs), folder, mapgen.internal_shapes_arg(impl.desc), storage="file_array",
                      fixed_indices=fixed_py(fixed), split_independent_axes=split)
    struct = []
    for key, gens in ld.items():
        struct.append([key_json(key), [sorted([[lp.pipefunc.__name__, seq_json(lp.learner.sequence)] for lp in gen], key=repr) for gen in gens]])
    return ld, struct


def learner_steps(order_rng, ld):
    """A random interleaving of all `learner.function(x)` calls that respects the generations inside every key."""
    state = []
    for key, gens in ld.items():
        state.append([[[(lp, k, x) for lp in gen for k, x in enumerate(lp.learner.sequence)] for gen in gens], 0])
    for st in state:
        for items in st[0]:
            order_rng.shuffle(items)
    steps = []
    while True:
        live = [st for st in state if st[1] < len(st[0])]
        if not live:
            return steps
        st = order_rng.choice(live)
        items = st[0][st[1]]
        if items:
            steps.append(items.pop())
        if not items:
            st[1] += 1


def run_learners(impl, fixed, split, mode, order_seed):
    folder = tempfile.mkdtemp(dir=impl.base)
    try:
        impl.log.clear()
        try:
            ld, struct = learners_impl(impl, folder, fixed, split)
        except Exception as e:  # noqa: BLE001
            return {"err": exc_enum(e), "msg": f"{type(e).__name__}: {e}"[:200]}
        steps_json, per_step = [], []
        try:
            if mode == "simple_run":
                mapgen.quiet(ld.simple_run)
                steps_json = None
            else:
                for lp, k, x in learner_steps(random.Random(order_seed), ld):
                    before = len(impl.log.read())
                    lp.learner.function((k, x))
                    steps_json.append([lp.pipefunc.__name__, None if x is None else int(x)])
                    per_step.append(canon_calls(impl.log.read()[before:]))
        except Exception as e:  # noqa: BLE001
            return {"struct": struct, "err": exc_enum(e), "msg": f"{type(e).__name__}: {e}"[:200], "at": "exec"}
        calls = canon_calls(impl.log.read())
        from pipefunc.map import load_outputs
        names = [o for f in impl.desc["funcs"] for o in f["outputs"]]
        try:
            vals = mapgen.quiet(load_outputs, *names, run_folder=folder)
            vals = [vals] if len(names) == 1 else list(vals)
            loaded = {n: terms.enc(v) for n, v in zip(names, vals)}
        except Exception as e:  # noqa: BLE001
            loaded = {"err": exc_enum(e), "msg": str(e)[:200]}
        # a final full run on the folder the learners filled
        impl.log.clear()
        try:
            res = mapgen.quiet(impl.p.map, dict(impl.inputs), run_folder=folder, internal_shapes=mapgen.internal_shapes_arg(impl.desc),
                               parallel=False, storage="file_array", cleanup=False)
            final = {"calls": canon_calls(impl.log.read()), "outputs": {k: terms.enc(r.output) for k, r in res.items()}}
        except Exception as e:  # noqa: BLE001
            final = {"err": exc_enum(e), "msg": f"{type(e).__name__}: {e}"[:200]}
        return {"struct": struct, "steps": steps_json, "per_step": per_step, "calls": calls, "loaded": loaded, "final": final}
    finally:
        shutil.rmtree(folder, ignore_errors=True)


def learner_jobs(ctx, rng, impl, desc, storage, jobs, full):
    req = mapgen.model_request(desc)
    axes = axes_of(desc)
    variants = [(None, False, "steps"), (None, True, "steps")]
    if rng.random() < 0.3:
        variants.append((None, rng.random() < 0.5, "simple_run"))
    if axes:
        a = rng.choice(axes)
        variants.append(([[a, pick_rep(rng, desc["sizes"][a], [rng.randrange(desc["sizes"][a])])]], False, "steps"))
    for fixed, split, mode in variants:
        seed = rng.randrange(1 << 30)
        obs = run_learners(impl, fixed, split, mode, seed)
        reqs = [{"m": "learners.make", "a": {**req, "fixed": fixed, "split": split}}]
        if obs.get("steps") is not None:
            reqs.append({"m": "learners.exec", "a": {**req, "steps": obs["steps"]}})
        jobs.append({"kind": "learners", "desc": desc, "storage": "file_array", "fixed": fixed, "split": split, "mode": mode, "order_seed": seed,
                     "impl": obs, "full": full, "reqs": reqs})


def judge_learners(ctx, job, resps):
    case = {k: job[k] for k in ("desc", "kind", "fixed", "split", "mode", "order_seed")}
    obs, full = job["impl"], job["full"]
    made = resps[0]["r"]
    info = f" [create_learners(fixed_indices={job['fixed']}, split_independent_axes={job['split']}), {job['mode']}]"

    def V(case, what, **kw):
        ctx.violation(case, "learners: " + what + info, key="learners: " + re.sub(r"[0-9]+", "#", what)[:60], **kw)

    ctx.count(f"learners:{'fixed' if job['fixed'] else 'split' if job['split'] else 'plain'}:{job['mode']}")
    if "err" in made:
        ctx.count(f"learners-refused:{made['err']}")
        ctx.record(case, False)
        if "struct" in obs or "err" not in obs:
            V(case, f"request that must be rejected ({made['err']}) returned learners", impl=obs.get("struct"), model=made)
        elif obs["err"] != made["err"]:
            V(case, f"rejected with {obs['err']} instead of {made['err']}", found_input=False, item="correspondence:error-class",
                          impl=obs, model=made)
        return
    if "struct" not in obs:
        ctx.record(case, False)
        V(case, f"valid request refused with {obs['err']}: {obs['msg'][:120]}", impl=obs, model=made)
        return
    mstruct = [[k and sorted(k, key=lambda kv: kv[0]), [sorted([[f, s] for f, s in gen], key=repr) for gen in gens]] for k, gens in made["learners"]]
    nsteps = sum(len(s or [0]) for _, gens in mstruct for gen in gens for _, s in gen)
    ctx.record(case, nsteps >= 2 and mapped_big(job["desc"], full))
    ctx.count(f"learner-keys:{min(len(mstruct), 4)}{'+' if len(mstruct) > 4 else ''}")
    if "err" in obs:
        V(case, f"executing a learner raised {obs['err']}: {obs['msg'][:120]}", impl=obs, model=None)
        return
    if not job["fixed"]:
        # learners without fixed indices cover the whole index space: the statement's clauses on the implementation itself
        if obs["calls"] != full["calls"]:
            V(case, "the calls made through the learners are not the calls of one full run (an element computed twice, "
                          "never, or with other arguments)", impl={"calls": obs["calls"]}, model={"calls": full["calls"]})
            return
        if obs["loaded"] != full["stored"]:
            V(case, "the folder filled through the learners does not hold what one full run stores",
                          impl={"loaded": obs["loaded"]}, model={"stored": full["stored"]})
            return
        if "err" in obs["final"]:
            V(case, f"a full run on the folder filled through the learners is refused ({obs['final']['err']}): "
                          f"{obs['final']['msg'][:100]}", impl=obs["final"], model=None)
            return
        if obs["final"]["calls"] or obs["final"]["outputs"] != full["outputs"]:
            V(case, f"a full run after the learners recomputed {len(obs['final']['calls'])} element(s) or returned other data",
                          impl=obs["final"], model={"outputs": full["outputs"]})
            return
    if obs["struct"] != mstruct:
        V(case, "keys / generations / sequences of the learners differ from the selections they stand for",
                      impl={"learners": obs["struct"]}, model={"learners": mstruct})
        return
    if len(resps) > 1:
        ex = resps[1]["r"]
        if "err" in ex:
            V(case, f"the model refuses the executed steps ({ex['err']})", found_input=False, item="correspondence:learner-exec",
                          impl=obs["steps"], model=ex)
            return
        per_step = [model_calls(c) for c in ex["calls"]]
        if per_step != obs["per_step"]:
            k = next(i for i, (a, b) in enumerate(zip(per_step, obs["per_step"])) if a != b)
            V(case, f"step #{k} {obs['steps'][k]} did not compute precisely its own element when missing",
                          impl={"calls": obs["per_step"][k]}, model={"calls": per_step[k]})
            return
        mstored = {k: terms.canon(v) for k, v in ex["stored"]}
        iload = {k: v for k, v in obs["loaded"].items() if k in mstored} if "err" not in obs["loaded"] else obs["loaded"]
        # outputs of functions that never ran have no file: load_outputs raises; only compare when everything exists
        if set(mstored) == set(iload) and iload != mstored:
            V(case, "the data stored after executing the steps differ from the elements computed so far",
                          impl={"loaded": iload}, model={"stored": mstored})


# ------------------------------------------------------------------------------------------------ the checks
def judge_full(ctx, job, resps):
    case = {"desc": job["desc"], "storage": job["storage"], "kind": "full"}
    c01, mine = resps[0]["r"], resps[1]["r"]
    if "err" in c01:
        raise AssertionError(f"model refuses a generated case: {c01} {job['desc']}")
    m = model_part(mine[0])
    ref = {"calls": model_calls(c01["calls"]), "stored": {k: terms.canon(v) for k, v in c01["stored"]},
           "outputs": {k: terms.canon(v) for k, v in c01["outputs"]}}
    if any(m[k] != ref[k] for k in ref):
        raise AssertionError(f"PF.Pieces.runPart with no fixed indices on an empty store differs from PF.Map.runMap: {job['desc']}")
    io = job["impl"][0]
    if "err" in io:
        ctx.count(f"full-run-refused:{io['err']}")
        ctx.skip("full run refused by the implementation (C01's business)")
        return
    if any(io[k] != ref[k] for k in ref):
        ctx.skip("full run differs from the model (C01's business)")
        job["impl"][0]["bad"] = True


def selector_oracle(ctx):
    """`selIndices` against Python's own `range(n)[sel]`, for every selector the generator can draw (and out-of-range ints)."""
    reqs, want = [], []
    for n in range(0, 6):
        seen = set()
        for reps in sel_table(n).values():
            for s in reps:
                key = repr(s)
                if key in seen:
                    continue
                seen.add(key)
                reqs.append({"m": "sel.indices", "a": {"d": n, "sel": s}})
                want.append([range(n)[s]] if isinstance(s, int) else list(range(n)[sel_py(s)]))
        for k in (n, n + 3, -n - 1):
            reqs.append({"m": "sel.indices", "a": {"d": n, "sel": k}})
            want.append({"err": "IndexError"})
        reqs.append({"m": "sel.indices", "a": {"d": n, "sel": {"sl": [None, 2, 0]}}})
        want.append({"err": "ValueError"})
    outs = ctx.lean(reqs)
    for rq, w, o in zip(reqs, want, outs):
        got = o["r"] if isinstance(o["r"], list) else {"err": o["r"]["err"]}
        ctx.count("selector-oracle")
        if got != w:
            ctx.violation({"kind": "selector", **rq["a"]}, f"selIndices({rq['a']}) = {got}, Python selects {w}", found_input=False,
                          item="correspondence:selIndices", impl=w, model=got)


def d(funcs, inputs, sizes, internal=None, kinds=None):
    return {"funcs": funcs, "inputs": inputs, "input_kinds": kinds or {}, "internal": internal or [], "sizes": sizes}


def _f(name, params, outputs, ms=None, ret=None, internal=None):
    return {"name": name, "params": [[p, p] for p in params], "outputs": outputs, "mapspec": ms, "mapspec_str": mapgen.spec_str(ms) if ms else None,
            "autogen": False, "ret": ret, "internal": internal, "defaults": [], "bound": []}


def _arr2(name, n, m):
    elems = [{"f": "in", "k": [["n", {"s": name}], ["at", {"arr": [[2], [a, b]]}]]} for a in range(n) for b in range(m)]
    return [name, {"arr": [[n, m], elems]}]


def _arr(name, n):
    return [name, {"arr": [[n], [{"f": "in", "k": [["n", {"s": name}], ["at", {"arr": [[1], [q]]}]]} for q in range(n)]]}]


CORPUS = [
    # DF-30: internal_shape on the PipeFunc; every second map(cleanup=False) was refused
    (d([_f("f0", ["x0"], ["y0"], {"inputs": [["x0", ["i"]]], "outputs": [["y0", ["i", "j"]]]}, ret=[2], internal=[2])], [_arr("x0", 3)],
       {"i": 3, "j": 2, "k": 1}), "file_array"),
    # DF-31: an array indexed only by ':' next to a mapped one
    (d([_f("f0", ["x0", "x1"], ["y0"], {"inputs": [["x0", [None]], ["x1", ["i"]]], "outputs": [["y0", ["i"]]]})], [_arr("x0", 2), _arr("x1", 3)],
       {"i": 3, "j": 2, "k": 1}), "file_array"),
    # DF-15: the same pipeline as DF-30 through create_learners
    (d([_f("f0", ["x0"], ["y0a", "y0b"], {"inputs": [["x0", ["i"]]], "outputs": [["y0a", ["j", "i"]], ["y0b", ["j", "i"]]]}, ret=[2], internal=[2]),
        _f("f1", ["y0a", "x1"], ["y1"], {"inputs": [["y0a", ["j", "i"]], ["x1", ["k"]]], "outputs": [["y1", ["k", "j", "i"]]]})],
       [_arr("x0", 3), _arr("x1", 2)], {"i": 3, "j": 2, "k": 2}), "dict"),
    # DF-29 (b) (C19): leading axis only ever ':'; skipped (counted) on a tree without that repair
    (d([_f("f0", ["x0"], ["y0"], {"inputs": [["x0", [None, "i"]]], "outputs": [["y0", ["i"]]]})], [_arr2("x0", 2, 3)], {"i": 3, "j": 2, "k": 1},
       kinds={"x0": "array"}), "file_array"),
    # an intermediate-only axis: out-of-range integers are refused late, by NumPy
    (d([_f("f0", ["c0"], ["y0"], {"inputs": [], "outputs": [["y0", ["j"]]]}, ret=[2], internal=[2]),
        _f("f1", ["y0", "x1"], ["y1"], {"inputs": [["y0", ["j"]], ["x1", ["i"]]], "outputs": [["y1", ["i", "j"]]]})],
       [["c0", {"s": "in:c0"}], _arr("x1", 2)], {"i": 2, "j": 2, "k": 1}), "file_array"),
    # a partially reduced axis whose name re-enters the output through another input: `x[i], w[j] -> y[i, j]`, then
    # `y[i, :], w[j] -> z[i, j]`; fixing j must be rejected (y's j axis is reduced), fixing i is fine
    (d([_f("f0", ["x0", "x1"], ["y0"], {"inputs": [["x0", ["i"]], ["x1", ["j"]]], "outputs": [["y0", ["i", "j"]]]}),
        _f("f1", ["y0", "x1"], ["y1"], {"inputs": [["y0", ["i", None]], ["x1", ["j"]]], "outputs": [["y1", ["i", "j"]]]})],
       [_arr("x0", 2), _arr("x1", 3)], {"i": 2, "j": 3, "k": 1}), "file_array"),
    (d([_f("f0", ["x0", "x1"], ["y0"], {"inputs": [["x0", ["i"]], ["x1", ["j"]]], "outputs": [["y0", ["j", "i"]]]}),
        _f("f1", ["y0", "x0"], ["y1"], {"inputs": [["y0", ["j", None]], ["x0", ["i"]]], "outputs": [["y1", ["i", "j"]]]})],
       [_arr("x0", 2), _arr("x1", 2)], {"i": 2, "j": 2, "k": 1}), "dict"),
]


def run(ctx):
    rng = ctx.rng
    base = tempfile.mkdtemp(prefix="verif-c06-")
    try:
        selector_oracle(ctx)
        cases = [(copy.deepcopy(dd), s) for dd, s in CORPUS]
        for k in range(ctx.n(40, 500)):
            desc = mapgen.gen_case(rng, max_size=4 if k % 5 == 4 else 3, max_funcs=rng.choice([1, 2, 3, 3, 4]))
            cases.append((desc, STORAGES[k % len(STORAGES)]))
        jobs: list = []
        for desc, storage in cases:
            check_pipeline(ctx, rng, desc, storage, base, jobs)
        by_driver = {"C06": [], "C01": []}
        for j, job in enumerate(jobs):
            for q, r in enumerate(job["reqs"]):
                drv = r.pop("driver", "C06")
                by_driver[drv].append((j, q, r))
        resp = {}
        for drv, items in by_driver.items():
            outs = ctx.lean([r for _, _, r in items], driver=drv)
            for (j, q, _), o in zip(items, outs):
                resp[(j, q)] = o
        bad_full = set()
        for j, job in enumerate(jobs):
            resps = [resp[(j, q)] for q in range(len(job["reqs"]))]
            key = id(job["desc"])
            if job["kind"] == "full":
                judge_full(ctx, job, resps)
                if "err" in job["impl"][0] or job["impl"][0].get("bad"):
                    bad_full.add(key)
                continue
            if key in bad_full:
                continue
            if job["kind"] == "learners":
                judge_learners(ctx, job, resps)
                continue
            case = {"desc": job["desc"], "storage": job["storage"], "kind": job["kind"], "axis": job["axis"], "parts": job["parts"]}
            mobs = [model_part(r) for r in resps[0]["r"]]
            nparts = len(job["parts"]) - 1
            nonempty = sum(1 for o in mobs[:nparts] if "err" not in o and o["calls"])
            ctx.count(f"stream:{job['kind']}")
            if job["kind"].startswith("pieces"):
                ctx.count(f"parts:{nparts}")
                for fx in job["parts"][:nparts]:
                    for _, s in fx:
                        ctx.count("sel:int" if isinstance(s, int) and s >= 0 else "sel:negative-int" if isinstance(s, int) else
                                  "sel:negative-step" if (s["sl"][2] or 1) < 0 else "sel:slice")
            ok = judge_sequence(ctx, case, job["impl"], job["loaded"], mobs, job["full"], nparts)
            ctx.record(case, bool(ok) and nonempty >= 2 and mapped_big(job["desc"], job["full"]))
            if ok:
                ctx.count("pieces-equal-whole")
    finally:
        shutil.rmtree(base, ignore_errors=True)


def replay(ctx, case):
    base = tempfile.mkdtemp(prefix="verif-c06-")
    try:
        if case.get("kind") == "selector":
            print("python:", case, "model:", ctx.lean([{"m": "sel.indices", "a": {"d": case["d"], "sel": case["sel"]}}])[0]["r"])
            return
        impl = Impl(case["desc"], case.get("storage", "file_array"), base)
        req = mapgen.model_request(case["desc"])
        if case.get("kind") == "learners":
            full, _ = impl.sequence([None])
            print("implementation:", run_learners(impl, case["fixed"], case["split"], case["mode"], case["order_seed"]))
            print("model:", ctx.lean([{"m": "learners.make", "a": {**req, "fixed": case["fixed"], "split": case["split"]}}])[0]["r"])
            print("full run:", full[0].get("calls"))
            return
        parts = case.get("parts", [None])
        obs, loaded = impl.sequence(parts)
        print("implementation:")
        for fx, o in zip(parts, obs):
            print("  ", fx, "->", {k: o[k] for k in ("err", "msg", "present", "calls") if k in o})
        print("   load_outputs:", loaded)
        print("model:")
        for fx, o in zip(parts, ctx.lean([{"m": "pieces.run", "a": {**req, "parts": parts}}])[0]["r"]):
            print("  ", fx, "->", {k: o[k] for k in ("err", "why", "present", "calls") if k in o})
    finally:
        shutil.rmtree(base, ignore_errors=True)
