"""C14 — Cache containers conform to their replacement-policy model.

Correspondence: `pipefunc.cache.{LRUCache, HybridCache, SimpleCache, DiskCache}` driven through their public methods
(`put`, `get`, `in`, `len`, `clear`, the `cache` property, a new `DiskCache` on the same directory, pickling into worker
processes for `shared=True`) against `PF.Cache` (lean/PfModel/Model/CachePolicy.lean).  After **every** operation the
harness probes `k in cache` for the whole key alphabet, `len(cache)` and the public `cache` mapping and compares them with
the model's state; the property's own clauses (nothing raises, `len <= max_size`, present iff `get` returns the value most
recently put) are evaluated on the implementation's answers directly.
"""
from __future__ import annotations

import collections
import copy
import json
import multiprocessing
import os
import pickle
import re
import shutil
import tempfile
import time
from pathlib import Path

import pfimport  # noqa: F401
import c14_preempt as pre
import framework
from pfimport import exc_enum
from pipefunc.cache import DiskCache, HybridCache, LRUCache, SimpleCache

PID = "C14"
PROPS = ["PfModel.Props.C14", "PfModel.Props.C14Shared", "PfModel.Props.C14Score"]
DRIVER = "C14"
RULE = ("(1) explicit-state exploration: breadth-first over the abstract states of a Python transcription of the policies (used "
        "only to find a shortest history to every reachable state, never for a verdict), 3-4 keys, max_size 1..3; every "
        "transition of every reachable state becomes a case 'shortest history + operation', executed on the real cache with "
        "presence of all keys, len and the cache mapping probed after every step; (2) seeded random histories of length <= 40 "
        "(put-heavy, re-puts of resident keys, clear, reopen for DiskCache with changed max_size / LRU size); (3) shared=True "
        "caches pickled into 2 forked worker processes, every operation issued by a harness-chosen process, probes from the "
        "parent; (4) separate streams: zero durations (HybridCache), unhashable keys, max_size=0, pickling a non-shared cache. "
        "(5) preemption stream (shared LRUCache / HybridCache / DiskCache with lru_shared): the lock and the shared containers of one "
        "cache object are wrapped (c14_preempt.py); for a set-up history H, an operation P, a peer operation Q and a point n, Q runs to "
        "completion in a real second process exactly at the n-th preemption point of P (before an acquire, after a release, before a "
        "container access made without the lock; for peers that a dry run shows to be lock-free also before every access made INSIDE the "
        "critical section); (result of P, result of Q, probe, epilogue put/gets, final probe) must equal the model's answers for H+[P,Q]+E or "
        "H+[Q,P]+E; all (P, Q, n) over get/put/has of victim / other / new key, len, clear, max_size 1..2, empty / non-full / full caches "
        "within the budget, hot pairs (evicting or clearing peer against get/put) first; (6) schedules of the Lean process model "
        "(PF.Cache.Shared.exec) whose linearisation is replayed on the real cache from the processes the model names; (7) every fourth "
        "put stores a falsy value (0, '', None, (), False, 0.0, b''); exploration cases end with a drain of max_size fresh puts. "
        "A case is non-trivial when it contains a put that evicts or re-puts a resident key, or a hit (preemption: an evicting/clearing "
        "peer against a get/put); distinct by its JSON")
ASSUMPTIONS = [
    "shared=True: C14_shared_linearisable proves that ANY interleaving of processes whose operations are 'prelude; one critical section "
    "of container accesses under the lock; epilogue' equals the sequential history in lock-acquisition order. That LRUCache/HybridCache "
    "operations have this shape (every shared-container access inside one `with self._cache_lock:`) and that manager.Lock is a mutex is "
    "assumed, and checked on the implementation by the preemption stream at single-preemption granularity (one peer operation at one "
    "point; not two peers, not a peer preempted in turn) plus the invariants-only concurrent soak",
    "the preemption stream resets its cache with the public clear() between runs (a manager-backed cache costs ~0.25 s to create); a "
    "failing run is repeated on a new cache before it is reported",
    "DiskCache from several processes: only the shared in-memory LRU is instrumented; file-system steps (exists/open/stat/unlink/glob) "
    "are not preemption points. Not promised and not checked: concurrent writers of one file, a reader racing an unlink "
    "(KF-C14-disk-put-not-atomic records the put/clear window that the LRU points do expose)",
    "HybridCache scores are exact rationals in the model and floats in the code: an eviction whose two lowest scores are closer "
    "than 1e-9 relative without being computed from identical (count, duration) pairs ends the comparison of that case (counted)",
    "DiskCache 'oldest file' is st_ctime_ns order; the harness spaces file writes until a probe file's ctime has advanced "
    "(granularity measured at start-up and reported), so that 'oldest' is unambiguous; the model uses a logical clock",
    "values are ('v', n) tuples or one of the falsy values 0, '', None, (), False, 0.0, b''; a stored None is legal (`in` says present, get "
    "returns None, which is the value); numbers that stand for the same falsy value are not told apart; keys are picklable hashable atoms/tuples",
    "DiskCache.__contains__/get consult the in-memory LRU first, so a key whose file was evicted stays present while the "
    "LRU holds it: len counts files (documented: 'maximum number of cache files'), presence is LRU-or-file; modelled as such",
]

KEYS = ["a", "b", ("c", 1), 3, "n4", ("n", 5), 6.5]          # index in this list = key number in the model (4.. are the fresh keys of a drain)
WEIGHTS = [(1, 1), (1, 0), (0, 1), (1, 3), (3, 1), (3, 7)]   # (wa, wd): access_weight = wa/(wa+wd), duration_weight = wd/(wa+wd)


FALSY = [0, "", None, (), False, 0.0, b""]      # legal stored values that are falsy (None: `in` says present, get returns None = the value)


def val(n):
    """the Python value that stands for the model's value number n: every fourth number is one of the falsy values"""
    return FALSY[(n // 4) % len(FALSY)] if n % 4 == 2 else ("v", n)


def decode(r):
    """canonical form of a value that came out of a cache: the number of a ("v", n) value, "F:<repr>" of a falsy one, None"""
    if r is None:
        return None
    if isinstance(r, tuple) and len(r) == 2 and r[0] == "v":
        return r[1]
    if type(r) in (int, str, tuple, bool, float, bytes) and not r:
        return "F:" + repr(r)
    return f"garbled:{r!r}"


def canon_n(n):
    """the model's value number in the canonical form of `decode` (distinct numbers that stand for the same falsy value compare equal)"""
    return None if n is None else decode(val(n))


def canon_mstep(st):
    """a step of the driver's answer with its value numbers in canonical form"""
    st = dict(st)
    if isinstance(st.get("o"), list) and st["o"][0] == "val":
        st["o"] = ["val", canon_n(st["o"][1])]
    if isinstance(st.get("values"), list):
        st["values"] = [canon_n(v) for v in st["values"]]
    return st


# ------------------------------------------------------------------------------------------------ implementation side
class Spacer:
    """Keeps DiskCache file writes apart in st_ctime_ns: after a write, a probe file outside the cache directory is rewritten
    until its ctime is later than every cache file's.  Timestamps are only used to pace the generator, never compared with
    the model."""

    def __init__(self, base: Path):
        self.probe = base / "ctime-probe"
        self.spins = 0
        stamps = []
        t0 = time.perf_counter()
        for _ in range(300):
            self.probe.write_bytes(b"x")
            stamps.append(os.stat(self.probe).st_ctime_ns)
        self.per_write = (time.perf_counter() - t0) / 300
        diffs = [b - a for a, b in zip(stamps, stamps[1:]) if b > a]
        self.granularity_ns = min(diffs) if diffs else None
        self.distinct = len(set(stamps))

    def after_write(self, cache_dir: Path):
        newest = 0
        with os.scandir(cache_dir) as it:
            for e in it:
                newest = max(newest, e.stat().st_ctime_ns)
        for _ in range(200000):
            self.probe.write_bytes(b"x")
            if os.stat(self.probe).st_ctime_ns > newest:
                return
            self.spins += 1
        raise RuntimeError("ctime does not advance")


def _worker(conn):
    caches = {}
    while True:
        try:
            msg = conn.recv()
        except EOFError:
            return
        if msg[0] == "quit":
            return
        try:
            if msg[0] == "new":
                caches[msg[1]] = pickle.loads(msg[2])
                conn.send(("ok", None))
            elif msg[0] == "drop":
                caches.pop(msg[1], None)
                conn.send(("ok", None))
            elif msg[0] == "op":
                conn.send(("ok", do_op(caches[msg[1]], msg[2], msg[3])))
            elif msg[0] == "soak":
                conn.send(("ok", soak_ops(caches[msg[1]], msg[2], msg[3], msg[4])))
        except BaseException as e:  # noqa: BLE001
            conn.send(("exc", exc_enum(e)))


class Workers:
    """Two forked worker processes that receive pickled shared caches and execute single operations on request."""

    def __init__(self, n=2):
        mp = multiprocessing.get_context("fork")
        self.procs, self.conns = [], []
        for _ in range(n):
            a, b = mp.Pipe()
            p = mp.Process(target=_worker, args=(b,), daemon=True)
            p.start()
            b.close()
            self.procs.append(p)
            self.conns.append(a)

    def call(self, i, *msg, timeout=60):
        c = self.conns[i]
        c.send(msg)
        if not c.poll(timeout):
            return ("exc", "Other:Hang")
        return c.recv()

    def close(self):
        for c in self.conns:
            try:
                c.send(("quit",))
            except Exception:  # noqa: BLE001
                pass
        for p in self.procs:
            p.join(2)
            if p.is_alive():
                p.kill()


def do_op(cache, kind, op):
    """Execute one operation through the public API; the observation in the driver's JSON form or {'err': enum}."""
    try:
        name = op[0]
        if name == "put":
            k = KEYS[op[1]] if isinstance(op[1], int) else op[1]
            if kind == "hybrid":
                cache.put(k, val(op[2]), op[3])
            else:
                cache.put(k, val(op[2]))
            return "unit"
        if name == "get":
            r = cache.get(KEYS[op[1]])
            return ["val", decode(r)]
        if name == "has":
            return ["bool", bool(KEYS[op[1]] in cache)]
        if name == "len":
            return ["nat", len(cache)]
        if name == "clear":
            cache.clear()
            return "unit"
        if name == "badkey":
            bad = [1, 2] if op[1] == "list" else {"x": 1}
            if op[2] == "put":
                cache.put(bad, val(0), 1) if kind == "hybrid" else cache.put(bad, val(0))
            elif op[2] == "get":
                cache.get(bad)
            else:
                bad in cache  # noqa: B015
            return "unit"
        raise AssertionError(op)
    except Exception as e:  # noqa: BLE001
        return {"err": exc_enum(e)}


def probe(cache, kind, keys):
    """presence of every key, len, and the public `cache` mapping — none of these has a side effect on any of the caches"""
    out = {}
    try:
        out["present"] = [i for i in keys if KEYS[i] in cache]
        out["len"] = len(cache)
        if kind in ("lru", "hybrid", "simple"):
            m = cache.cache
            out["values"] = [(decode(m[KEYS[i]]) if KEYS[i] in m else None) for i in keys]
            if len(m) != out["len"]:
                out["values"] = f"cache-property-size:{len(m)}"
    except Exception as e:  # noqa: BLE001
        out["err"] = exc_enum(e)
    return out


def bijection(cache, kind):
    """ANCHOR LRUCache._cache_dict + _cache_queue 'must stay a bijection' — read through getattr; absent attributes are
    counted, not reported (the property is about public behaviour)."""
    lru = cache if kind == "lru" else (getattr(cache, "lru_cache", None) if kind == "disk" else None)
    if lru is None:
        return None
    d, q = getattr(lru, "_cache_dict", None), getattr(lru, "_cache_queue", None)
    if d is None or q is None:
        return "no-attr"
    ks, ql = list(d.keys()), list(q)
    if len(ql) != len(set(map(repr, ql))):
        return f"queue holds a key twice: {ql!r}"
    if sorted(map(repr, ks)) != sorted(map(repr, ql)):
        return f"queue {ql!r} and dict keys {ks!r} differ"
    return None


def make_cache(case, base: Path, reopen=None):
    kind, shared = case["kind"], bool(case.get("shared"))
    cp = case.get("cloudpickle", True)
    if kind == "lru":
        return LRUCache(max_size=case["max"], shared=shared, allow_cloudpickle=cp)
    if kind == "hybrid":
        wa, wd = case["weights"]
        return HybridCache(max_size=case["max"], access_weight=wa / (wa + wd), duration_weight=wd / (wa + wd), shared=shared, allow_cloudpickle=cp)
    if kind == "simple":
        return SimpleCache()
    mx, lru = (case["max"], case.get("lru")) if reopen is None else reopen
    return DiskCache(base, max_size=mx, use_cloudpickle=cp, with_lru_cache=lru is not None, lru_cache_size=lru or 128, lru_shared=shared)


class Env:
    def __init__(self):
        self.base = Path(tempfile.mkdtemp(prefix="verif-c14-"))
        self.workers = None
        self.spacer = Spacer(self.base)
        self.n = 0

    def get_workers(self):
        if self.workers is None:
            self.workers = Workers(2)
        return self.workers

    def close(self):
        if self.workers:
            self.workers.close()
        shutil.rmtree(self.base, ignore_errors=True)


def run_impl(env: Env, case):
    """Execute the history; returns (steps, clause failures).  `steps[i]` mirrors the driver's entry for operation i.  The run
    stops at the first exception (that is already a violation of 'no operation raises')."""
    kind, keys = case["kind"], case["keys"]
    shared = bool(case.get("shared"))
    procs = case.get("procs") or [0] * len(case["ops"])
    env.n += 1
    cdir = env.base / f"d{env.n}"
    bad, steps = [], []
    cid = env.n
    sent = False
    cache = None
    try:
        try:
            cache = make_cache(case, cdir)
            if shared and any(procs):
                blob = pickle.dumps(cache)
                for w in (0, 1):
                    r = env.get_workers().call(w, "new", cid, blob)
                    if r[0] != "ok":
                        bad.append(f"unpickling the shared cache in a worker raised {r[1]}")
                sent = True
        except Exception as e:  # noqa: BLE001
            bad.append(f"constructing/pickling the cache raised {exc_enum(e)}")
            return steps, bad
        if bad:
            return steps, bad
        last_put = {}
        max_size = case.get("max")
        present_before = []
        for i, op in enumerate(case["ops"]):
            if op[0] == "reopen":
                try:
                    cache = None
                    cache = make_cache(case, cdir, reopen=(op[1], op[2]))
                    max_size = op[1]
                    if shared and any(procs):
                        blob = pickle.dumps(cache)
                        for w in (0, 1):
                            env.get_workers().call(w, "new", cid, blob)
                    o = "unit"
                except Exception as e:  # noqa: BLE001
                    o = {"err": exc_enum(e)}
            elif procs[i] == 0 or not shared:
                o = do_op(cache, kind, op)
            else:
                r = env.get_workers().call(procs[i] - 1, "op", cid, kind, op)
                o = r[1] if r[0] == "ok" else {"err": r[1]}
            if kind == "disk" and op[0] == "put":
                env.spacer.after_write(cdir)
            st = {"o": o}
            if isinstance(o, dict):
                bad.append(f"step {i} {op[0]} raised {o['err']}")
                steps.append(st)
                break
            pr = probe(cache, kind, keys)
            st.update(pr)
            steps.append(st)
            if "err" in pr:
                bad.append(f"step {i}: probing `in`/len/cache after {op[0]} raised {pr['err']}")
                break
            # ---- clauses of the property, on the implementation's own answers
            if op[0] == "put":
                last_put[op[1]] = op[2]
                if op[1] not in pr["present"]:
                    bad.append(f"step {i}: key {op[1]} is absent right after it was put")
            if max_size is not None and kind != "simple" and (kind != "disk" or op[0] == "put") and pr["len"] > max_size:
                bad.append(f"step {i}: len {pr['len']} exceeds max_size {max_size}")
            if op[0] == "get":
                was = op[1] in present_before
                got = o[1]
                want = canon_n(last_put.get(op[1])) if was else None          # a stored None: present, and get returns None
                if got != want:
                    if (got is None) != (want is None):
                        bad.append(f"step {i}: key {op[1]} reported {'present' if was else 'absent'} but get returned {got!r}"
                                   + (f" (most recent put: {want!r})" if was else ""))
                    else:
                        bad.append(f"step {i}: get({op[1]}) returned {got!r}, most recent put was {want!r}")
            if op[0] == "has" and o[1] != (op[1] in present_before):
                bad.append(f"step {i}: `in` answered {o[1]} for key {op[1]}, previous probe said {op[1] in present_before}")
            if op[0] == "len" and i > 0 and o[1] != steps[i - 1].get("len"):
                bad.append(f"step {i}: len() answered {o[1]}, previous probe said {steps[i - 1].get('len')}")
            if op[0] == "clear" and (pr["present"] or pr["len"]):
                bad.append(f"step {i}: after clear {pr['present']} present, len {pr['len']}")
            bj = bijection(cache, kind)
            if bj == "no-attr":
                st["bij"] = "no-attr"
            elif bj:
                bad.append(f"step {i}: after {op[0]}: {bj}")
            present_before = pr["present"]
            if bad:
                break
        return steps, bad
    finally:
        if sent:
            for w in (0, 1):
                env.get_workers().call(w, "drop", cid)
        cache = None
        if kind == "disk":
            shutil.rmtree(cdir, ignore_errors=True)


# ------------------------------------------------------------------------------------------------ reference for exploration
# A transcription of the policies on *abstract* states (keys only), used solely to enumerate reachable states and a shortest
# history to each.  Verdicts never depend on it: every case is compared with the Lean model and with the property clauses.
def ref_lru_put(q, k, mx):
    q = [x for x in q if x != k] + [k]
    return tuple(q[-mx:])


def ref_step(kind, st, op):
    if kind == "lru":
        mx, q = st
        if op[0] == "put":
            return (mx, ref_lru_put(q, op[1], mx))
        if op[0] == "get":
            return (mx, tuple([x for x in q if x != op[1]] + [op[1]]) if op[1] in q else q)
        return (mx, ())
    if kind == "simple":
        if op[0] == "put":
            return tuple(sorted(set(st) | {op[1]}))
        return st if op[0] == "get" else ()
    if kind == "hybrid":
        mx, w, tab = st                      # tab: tuple of (k, ac, du) in insertion order
        tab = list(tab)
        if op[0] == "put":
            if len(tab) >= mx:
                ta, td = sum(t[1] for t in tab), sum(t[2] for t in tab)
                sc = [(w[0] * a * td + w[1] * d * ta) if td else w[0] * a for _, a, d in tab]
                tab.pop(sc.index(min(sc)))
            for j, t in enumerate(tab):
                if t[0] == op[1]:
                    tab[j] = (op[1], 1, op[3])
                    break
            else:
                tab.append((op[1], 1, op[3]))
            return (mx, w, tuple(tab))
        if op[0] == "get":
            return (mx, w, tuple((k, a + 1, d) if k == op[1] else (k, a, d) for k, a, d in tab))
        return (mx, w, ())
    if kind == "disk":
        mx, lsz, files, lq = st              # files: keys oldest first; lq: lru queue or None
        if op[0] == "put":
            files = tuple([x for x in files if x != op[1]] + [op[1]])
            if mx is not None and len(files) > mx:
                files = files[len(files) - mx:]
            return (mx, lsz, files, None if lq is None else ref_lru_put(lq, op[1], lsz))
        if op[0] == "get":
            if lq is not None and op[1] in lq:
                return (mx, lsz, files, tuple([x for x in lq if x != op[1]] + [op[1]]))
            if lq is not None and op[1] in files:
                return (mx, lsz, files, ref_lru_put(lq, op[1], lsz))
            return st
        if op[0] == "clear":
            return (mx, lsz, (), None if lq is None else ())
        if op[0] == "reopen":
            return (op[1], op[2], files, None if op[2] is None else ())
    raise AssertionError((kind, op))


def explore(kind, init, ops, depth, limit):
    """breadth-first: {state: shortest history}; returns the list of histories 'path + op' for every transition found"""
    seen = {init: []}
    frontier = [init]
    cases = []
    for _ in range(depth):
        nxt = []
        for st in frontier:
            for op in ops:
                h = seen[st] + [op]
                cases.append(h)
                if len(cases) >= limit:
                    return cases, len(seen)
                st2 = ref_step(kind, st, op)
                if st2 not in seen:
                    seen[st2] = h
                    nxt.append(st2)
        frontier = nxt
        if not frontier:
            break
    return cases, len(seen)


def concretise(history):
    """give every put a fresh value number (so 'the value most recently put' is identifiable)"""
    out, n = [], 100
    for op in history:
        if op[0] == "put":
            n += 1
            out.append(["put", op[1], n, op[3] if len(op) > 3 else 0])
        else:
            out.append(list(op))
    return out


def exploration_cases(ctx):
    thorough = ctx.tier == "thorough"
    cases = []
    nk = 4
    basic = [("put", k, 0, 0) for k in range(nk)] + [("get", k) for k in range(nk)] + [("clear",)]
    for mx in (1, 2, 3):
        hs, n = explore("lru", (mx, ()), basic, 8 if thorough else 6, 100000)
        ctx.count(f"explore:lru:max{mx}:states", n)
        # every case ends with a drain — max_size puts of fresh keys, presence probed after each — so that the recency ORDER the
        # last operation left behind (not observable through `in`/len) decides observable evictions
        drain = [("put", 4 + j, 0, 0) for j in range(mx)]
        cases += [{"kind": "lru", "max": mx, "keys": list(range(nk + mx)), "ops": concretise(h + drain), "src": "explore"} for h in hs]
    hs, n = explore("simple", (), [("put", k, 0, 0) for k in range(3)] + [("get", k) for k in range(3)] + [("clear",)], 4, 1000)
    ctx.count("explore:simple:states", n)
    cases += [{"kind": "simple", "max": None, "keys": [0, 1, 2], "ops": concretise(h), "src": "explore"} for h in hs]
    for mx in (1, 2, 3):
        for w in ((1, 1), (1, 3)) if not thorough else WEIGHTS:
            ops = [("put", k, 0, d) for k in range(3) for d in (1, 2)] + [("get", k) for k in range(3)] + [("clear",)]
            hs, n = explore("hybrid", (mx, w, ()), ops, 5 if thorough else 4, 6000 if thorough else 260)
            ctx.count(f"explore:hybrid:max{mx}:states", n)
            drain = [("put", 4 + j, 0, 1 + j) for j in range(mx)]       # the scores the last operation left behind decide these evictions
            cases += [{"kind": "hybrid", "max": mx, "weights": list(w), "keys": [0, 1, 2] + [4 + j for j in range(mx)], "ops": concretise(h + drain),
                       "src": "explore"} for h in hs]
    for mx in (1, 2):
        for lsz in (None, 1, 2):
            ops = ([("put", k, 0, 0) for k in range(3)] + [("get", k) for k in range(3)] + [("clear",), ("reopen", mx, lsz)]
                   + ([("reopen", 1, lsz)] if mx != 1 else []) + [("reopen", None, lsz)])
            hs, n = explore("disk", (mx, lsz, (), None if lsz is None else ()), ops, 6 if thorough else 4, 4000 if thorough else 170)
            ctx.count(f"explore:disk:max{mx}:lru{lsz}:states", n)
            cases += [{"kind": "disk", "max": mx, "lru": lsz, "keys": [0, 1, 2], "ops": concretise(h), "src": "explore"} for h in hs]
    return cases


# ------------------------------------------------------------------------------------------------ random histories
def gen_ops(rng, kind, nk, length, durations):
    ops, n = [], 0
    for _ in range(length):
        r = rng.random()
        k = rng.randrange(nk)
        if ops and ops[-1][0] == "put" and rng.random() < 0.2:
            k = ops[-1][1]                                       # re-put / read the key just written
        if r < 0.5:
            n += 1
            ops.append(["put", k, n, rng.choice(durations)])
        elif r < 0.75:
            ops.append(["get", k])
        elif r < 0.85:
            ops.append(["has", k])
        elif r < 0.92:
            ops.append(["len"])
        elif r < 0.96 or kind != "disk":
            ops.append(["clear"])
        else:
            ops.append(["reopen", rng.choice([None, 1, 2, 3]), rng.choice([None, 1, 2, 128])])
    order = list(range(nk))
    rng.shuffle(order)
    return ops + [["get", k] for k in order]                      # drain: what does every key answer at the end


def gen_case(rng, kind=None, shared=False, maxlen=40):
    kind = kind or rng.choices(["lru", "hybrid", "disk", "simple"], [4, 4, 3, 1])[0]
    nk = rng.choice([3, 4])
    case = {"kind": kind, "max": rng.choice([1, 1, 2, 2, 3]), "keys": list(range(nk)), "src": "random"}
    if kind == "simple":
        case["max"] = None
    if kind == "hybrid":
        case["weights"] = list(rng.choice(WEIGHTS))
    if kind == "disk":
        case["lru"] = rng.choice([None, 1, 2, 128])
        if rng.random() < 0.1:
            case["max"] = None
        case["cloudpickle"] = rng.random() < 0.7
    case["ops"] = gen_ops(rng, kind, nk, rng.randint(1, maxlen), [1, 2, 3, 5, 7, 11])
    if shared:
        case["shared"] = True
        case["cloudpickle"] = rng.random() < 0.7
        case["procs"] = [rng.choice([0, 1, 2]) for _ in case["ops"]]
        case["src"] = "shared"
    return case


# ------------------------------------------------------------------------------------------------ comparison
def to_request(case):
    a = {"kind": case["kind"], "max": case.get("max"), "keys": case["keys"], "ops": case["ops"]}
    if case["kind"] == "hybrid":
        a["weights"] = case["weights"]
    if case["kind"] == "disk":
        a["lru"] = case.get("lru")
    return {"m": "cache.run", "a": a}


def near_tie(case, msteps, i):
    """the eviction performed by put number i was decided between scores too close for floats (see ASSUMPTIONS)"""
    if case["kind"] != "hybrid" or case["ops"][i][0] != "put" or i == 0:
        return False
    st = msteps[i - 1]["state"]
    if len(st["dict"]) < case["max"]:
        return False
    sc = st["scores"]
    ac, du = dict(map(tuple, st["ac"])), dict(map(tuple, st["du"]))
    wa, wd = case["weights"]
    td = sum(du.values())
    kmin, smin = min(sc, key=lambda p: p[1])
    for k, s in sc:
        if k == kmin:
            continue
        same = (ac[k] == ac[kmin] or wa == 0) and (du[k] == du[kmin] or wd == 0 or td == 0)
        if not same and abs(s - smin) <= 1e-9 * max(s, smin, 1):
            return True
    return False


def hybrid_tie_order(case, msteps, i, impl_step):
    """the implementation evicted a different entry than the model, but one whose exact score is also the minimum: the property
    ('lowest score leaves') holds, only the model's tie-break (first in insertion order, as `min` over a dict) differs"""
    if case["kind"] != "hybrid" or case["ops"][i][0] != "put" or i == 0 or "present" not in impl_step:
        return False
    before = msteps[i - 1]
    gone = [k for k in before["present"] if k not in impl_step["present"] and k != case["ops"][i][1]]
    sc = dict(map(tuple, before["state"]["scores"]))
    if set(before["present"]) != set(sc):
        return False
    if case["ops"][i][1] in before["present"] and case["ops"][i][1] not in gone and len(impl_step["present"]) == len(before["present"]):
        gone = gone or [case["ops"][i][1]]          # the re-put key itself was the one expired and stored again
    return len(gone) == 1 and sc[gone[0]] == min(sc.values())


def branches(ctx, case, msteps):
    kind = case["kind"]
    before = {"present": [], "len": 0, "state": None}
    for op, st in zip(case["ops"], msteps):
        tag = op[0]
        if op[0] == "put":
            resident = op[1] in before["present"]
            lost = [k for k in before["present"] if k not in st["present"]]
            tag = f"put:{'resident' if resident else 'new'}:{'evicts' if lost else 'keeps'}"
            if kind == "disk" and before["state"] is not None:
                gone = len(before["state"]["files"]) + (0 if any(f[0] == op[1] for f in before["state"]["files"]) else 1) - len(st["state"]["files"])
                tag += f":unlinked{min(gone, 2)}{'+' if gone > 2 else ''}"
            if kind == "hybrid" and before["state"] is not None and before["state"]["du"] and sum(d for _, d in before["state"]["du"]) == 0 \
                    and len(before["state"]["dict"]) >= case["max"]:
                tag += ":zero-total"
        elif op[0] == "get":
            hit = op[1] in before["present"]
            tag = "get:hit" if hit else "get:miss"
            if hit and st["o"][1] is None:
                tag += ":stored-None"
            elif hit and isinstance(st["o"][1], str):
                tag += ":falsy"
            if kind == "disk" and hit and before["state"] is not None and before["state"]["lru"] is not None:
                tag += ":lru" if op[1] in before["state"]["lru"]["dict"] else ":file"
        ctx.count(f"{kind}:{tag}")
        before = st


def nontrivial(case, msteps):
    seen = set()
    for op, st in zip(case["ops"], msteps):
        if op[0] == "put" and (op[1] in seen):
            return True
        if op[0] == "get" and op[1] in seen:
            return True
        if op[0] == "put":
            seen.add(op[1])
    return len(seen) > (case.get("max") or 99)


def check_cases(ctx, env, cases):
    impls = []
    for case in cases:
        steps, bad = run_impl(env, case)
        impls.append((steps, bad))
    outs = ctx.lean([to_request(c) for c in cases])
    for case, (steps, bad), resp in zip(cases, impls, outs):
        model = resp["r"]
        msteps = [canon_mstep(st) for st in model["steps"]]
        ctx.count(f"case:{case['kind']}:{case.get('src', 'corpus')}{':shared' if case.get('shared') else ''}")
        ctx.count("transitions", len(steps))
        branches(ctx, case, msteps)
        ctx.record({k: case[k] for k in case if k != "src"}, nontrivial(case, msteps))
        slim = {k: v for k, v in case.items() if k != "src"}
        if not model["spec_ok"]:
            ctx.violation(slim, "the LRU model and its recency-list specification disagree (extraction sanity check)", found_input=False,
                          item="C14_lru_refines")
        if bad:
            cut = dict(slim, ops=case["ops"][:len(steps)])
            if "procs" in cut:
                cut["procs"] = cut["procs"][:len(steps)]
            ctx.violation(cut, f"{case['kind']}{' shared' if case.get('shared') else ''}: {bad[0]}", impl=steps[-3:], model=msteps[max(0, len(steps) - 3):len(steps)],
                          key=case["kind"] + ":" + re.sub(r"[0-9]+|\[.*|\(.*|'.*", "#", bad[0])[:50])
            continue
        if model["err"] is not None:
            ctx.violation(slim, f"the model raises {model['err']} at step {len(msteps)} where the implementation does not", found_input=False,
                          item="correspondence:model-raises", impl=steps[-2:], model=model["err"])
            continue
        for i, (a, b) in enumerate(zip(steps, msteps)):
            if near_tie(case, msteps, i):
                ctx.skip("hybrid-near-tie")
                break
            diff = [f for f in ("o", "present", "len", "values") if f in a and a[f] != b[f]]
            if a.get("bij") == "no-attr":
                ctx.count("bijection-anchor-attributes-missing")
            if diff:
                cut = dict(slim, ops=case["ops"][:i + 1])
                if "procs" in cut:
                    cut["procs"] = cut["procs"][:i + 1]
                f = diff[0]
                what = {"o": f"{case['ops'][i][0]} answered {a['o']}, the policy gives {b['o']}",
                        "present": f"after {case['ops'][i][0]} the keys present are {a.get('present')}, the policy keeps {b['present']}",
                        "len": f"len is {a.get('len')} after {case['ops'][i][0]}, the policy gives {b['len']}",
                        "values": f"the cache mapping holds {a.get('values')} after {case['ops'][i][0]}, most recent puts are {b['values']}"}[f]
                if f == "present" and hybrid_tie_order(case, msteps, i, a):
                    ctx.violation(cut, f"hybrid step {i}: the entry evicted has the lowest score but is not the first such entry in insertion order "
                                  f"(implementation keeps {a.get('present')}, model {b['present']})", found_input=False, item="correspondence:hybrid-tie-order",
                                  impl={k: a.get(k) for k in ("o", "present", "len", "values")}, model=b, key="hybrid-tie-order")
                    break
                ctx.violation(cut, f"{case['kind']}{' shared' if case.get('shared') else ''} step {i}: {what}",
                              impl={k: a.get(k) for k in ("o", "present", "len", "values")}, model=b, key=f"{case['kind']}:{case['ops'][i][0]}:{f}")
                break


# ------------------------------------------------------------------------------------------------ separate streams
def malformed_stream(ctx, env):
    """constructor guard, unhashable keys, pickling guard: each is an expected, specific exception"""
    try:
        LRUCache(max_size=0, shared=False)
        ctx.violation({"malformed": "LRUCache(max_size=0)"}, "LRUCache(max_size=0) is accepted (the constructor documents a ValueError)",
                      found_input=False, item="correspondence:max_size-0")
    except ValueError:
        ctx.count("malformed:max_size0:ValueError")
    except Exception as e:  # noqa: BLE001
        ctx.violation({"malformed": "LRUCache(max_size=0)"}, f"LRUCache(max_size=0) raised {exc_enum(e)}", found_input=False, item="correspondence:max_size-0")
    for kind in ("lru", "hybrid", "simple", "disk"):
        case = {"kind": kind, "max": 2, "weights": [1, 1], "lru": 2, "keys": [0, 1]}
        env.n += 1
        cache = make_cache(case, env.base / f"d{env.n}")
        try:
            pickle.dumps(cache)
            ctx.violation({"malformed": f"pickle non-shared {kind}"}, f"a non-shared {kind} cache pickles silently (the copy would not share entries)",
                          found_input=False, item="correspondence:getstate-guard")
        except RuntimeError:
            ctx.count(f"malformed:pickle-nonshared:{kind}:RuntimeError")
        except Exception as e:  # noqa: BLE001
            ctx.violation({"malformed": f"pickle non-shared {kind}"}, f"pickling a non-shared {kind} cache raised {exc_enum(e)}", found_input=False,
                          item="correspondence:getstate-guard")
        if kind == "disk":
            continue                                  # DiskCache pickles its keys: unhashable keys are legal there
        for bad in ("list", "dict"):
            for how in ("put", "get", "in"):
                do_op(cache, kind, ["put", 0, 1, 1])
                o = do_op(cache, kind, ["badkey", bad, how])
                ctx.count(f"malformed:unhashable:{kind}:{how}:{o['err'] if isinstance(o, dict) else 'accepted'}")
                if o != {"err": "TypeError"}:
                    ctx.violation({"malformed": f"{kind} {how} unhashable {bad}"}, f"{kind}.{how} with an unhashable key: {o}", found_input=False,
                                  item="correspondence:unhashable-key")
                if do_op(cache, kind, ["get", 0]) != ["val", 1]:
                    ctx.violation({"malformed": f"{kind} {how} unhashable {bad}"}, f"{kind}: a failed {how} with an unhashable key lost a resident entry")


def zero_duration_cases(ctx):
    """DF-02 stream: durations 0 (all, or mixed with positive ones)"""
    rng = ctx.rng
    cases = []
    for _ in range(ctx.n(60, 3000)):
        nk = rng.choice([3, 4])
        durs = [0] if rng.random() < 0.5 else [0, 0, 1, 2]
        cases.append({"kind": "hybrid", "max": rng.choice([1, 2, 3]), "weights": list(rng.choice(WEIGHTS)), "keys": list(range(nk)),
                      "ops": gen_ops(rng, "hybrid", nk, rng.randint(2, 14), durs), "src": "zero-duration"})
    return cases


# ------------------------------------------------------------------------------------------------ concurrent soak (invariants only)
def soak_ops(cache, kind, seed, n):
    import random
    rng = random.Random(seed)
    errs = collections.Counter()
    for j in range(n):
        k = KEYS[rng.randrange(4)]
        try:
            r = rng.random()
            if r < 0.5:
                cache.put(k, val(j), 1.0) if kind == "hybrid" else cache.put(k, val(j))
            elif r < 0.9:
                v = cache.get(k)
                if str(decode(v)).startswith("garbled"):
                    errs["garbled"] += 1
            elif r < 0.98:
                k in cache  # noqa: B015
            else:
                len(cache)
        except Exception as e:  # noqa: BLE001
            errs[exc_enum(e)] += 1
    return dict(errs)


def soak(ctx, env):
    """truly concurrent callers on shared caches: asserted are 'nothing raises', 'len <= max_size afterwards' and 'queue/dict
    still a bijection' — not conformance to the model (ASSUMPTIONS: atomic operations)"""
    w = env.get_workers()
    for kind in ("lru", "hybrid"):
        for mx in (1, 2):
            case = {"kind": kind, "max": mx, "weights": [1, 1], "shared": True}
            cache = make_cache(case, env.base)
            env.n += 1
            blob = pickle.dumps(cache)
            for i in (0, 1):
                w.call(i, "new", env.n, blob)
            n = ctx.n(100, 4000)
            for i in (0, 1):
                w.conns[i].send(("soak", env.n, kind, ctx.rng.randrange(10**9), n))
            mine = soak_ops(cache, kind, ctx.rng.randrange(10**9), n)
            res = [mine]
            for i in (0, 1):
                res.append(w.conns[i].recv()[1] if w.conns[i].poll(600) else {"Other:Hang": 1})
            for r in res:
                for e, c in (r or {}).items():
                    ctx.count(f"soak:{kind}:raised:{e}", c)
                    ctx.violation({"soak": kind, "max": mx, "ops_per_process": n}, f"{kind} shared: {e} raised {c} times by put/get/in/len issued "
                                  "concurrently from 3 processes", found_input=False, item="correspondence:soak-raises", key=f"soak-raises-{kind}")
            ctx.count(f"soak:{kind}:ops", 3 * n)
            ln = len(cache)
            if ln > mx:
                ctx.violation({"soak": kind, "max": mx, "ops_per_process": n}, f"{kind} shared: len {ln} exceeds max_size {mx} after concurrent use",
                              found_input=False, item="correspondence:soak-len")
            bj = bijection(cache, kind)
            if bj and bj != "no-attr":
                ctx.violation({"soak": kind, "max": mx, "ops_per_process": n}, f"{kind} shared after concurrent use: {bj}", found_input=False,
                              item="correspondence:soak-bijection")
            for i in (0, 1):
                w.call(i, "drop", env.n)


# ------------------------------------------------------------------------------------------------ schedules of the process model
def interleave_cases(ctx):
    """Random schedules for the Lean process model (`PF.Cache.Shared.exec`: 3 processes, lock, critical sections of container
    accesses).  The driver answers with the linearisation (who entered which critical section in which order) and re-evaluates
    `C14_shared_linearisable` on it; the linearisation then runs on the real shared cache, every operation issued by the process
    the model says (0 = this process, 1/2 = workers), through the ordinary comparison."""
    rng = ctx.rng
    metas, reqs = [], []
    for _ in range(ctx.n(6, 40)):
        kind, mx = rng.choice(["lru", "hybrid"]), rng.choice([1, 2, 2, 3])
        sch, n = [], 400
        for _ in range(rng.randint(15, 80)):
            r, k = rng.random(), rng.randrange(4)
            n += 1
            op = ["put", k, n, rng.choice([1, 2, 3, 5])] if r < 0.5 else ["get", k] if r < 0.8 else ["has", k] if r < 0.9 else ["len"] if r < 0.96 else ["clear"]
            sch.append([rng.randrange(3), op])
        a = {"kind": kind, "max": mx, "schedule": sch}
        if kind == "hybrid":
            a["weights"] = list(rng.choice(WEIGHTS))
        metas.append(a)
        reqs.append({"m": "cache.interleave", "a": a})
    cases = []
    for a, out in zip(metas, ctx.lean(reqs)):
        r = out["r"]
        ctx.count("interleave:schedules")
        ctx.count("interleave:critical-sections", len(r["lin"]))
        ctx.count("interleave:blocked-or-overtaken", sum(1 for i, e in enumerate(r["log"]) if e[0] != i))
        if not r["seq_ok"]:
            ctx.violation({"stream": "interleave", **a}, "the process model's results differ from the sequential run of its linearisation "
                          "(extraction sanity check of C14_shared_linearisable)", found_input=False, item="C14_shared_linearisable")
            continue
        case = {"kind": a["kind"], "max": a["max"], "keys": [0, 1, 2, 3], "ops": [e[1] for e in r["lin"]], "procs": [e[0] for e in r["lin"]],
                "shared": True, "cloudpickle": True, "src": "interleave"}
        if a["kind"] == "hybrid":
            case["weights"] = a["weights"]
        if case["ops"]:
            cases.append(case)
    return cases


# ------------------------------------------------------------------------------------------------ preemption stream
# One operation P of the parent process is preempted, at one of its preemption points (c14_preempt.py), by one operation Q that
# a REAL second process (a worker holding a pickled copy of the shared cache) runs to completion.  Sound judgement for every
# correct implementation: (result of P, result of Q, everything observed afterwards) equals what the Lean model gives for
# H+[P,Q]+E or for H+[Q,P]+E; 'no operation raises' and 'len <= max_size' are checked on the implementation's answers directly.
PRE_EPILOGUE = [["put", 3, 301, 5], ["get", 0], ["get", 1], ["get", 2]]
IN_LOCK_WAIT = 0.25          # seconds a peer gets to finish inside P's critical section before it counts as blocked


def preempt_ops():
    ops = []
    for k in (0, 1, 2):                       # 0: the designated victim of H, 1: another (resident when max_size >= 2), 2: new
        ops += [["get", k], ["put", k], ["has", k]]
    return ops + [["len"], ["clear"]]


def preempt_histories(mx):
    hs = [[], [["put", 0, 101, 1]]]
    if mx >= 2:
        hs += [[["put", 0, 101, 1], ["put", 1, 102, 3]], [["put", 0, 101, 1], ["put", 1, 102, 3], ["get", 0]]]
    if mx >= 3:
        hs += [[["put", 0, 101, 1], ["put", 1, 102, 3], ["put", 2, 103, 2]], [["put", 0, 101, 1], ["put", 1, 102, 3], ["put", 2, 103, 2], ["get", 0], ["get", 0]]]
    return hs


def _with_value(op, v, d):
    return ["put", op[1], v, d] if op[0] == "put" else list(op)


class PreSlot:
    """one shared cache per configuration, reused for every run (creating a manager-backed cache costs ~0.25 s): the parent's
    object, the worker's pickled copy, and what a dry run found out about each operation (does it take the lock?)"""

    def __init__(self, env, cfg):
        self.cfg = cfg
        env.n += 1
        self.cid = env.n
        self.cache = make_cache(dict(cfg, shared=True), env.base / f"pre{env.n}")
        self.target = getattr(self.cache, "lru_cache", None) if cfg["kind"] == "disk" else self.cache    # the object whose lock/containers are wrapped
        self.err = None
        r = env.get_workers().call(0, "new", self.cid, pickle.dumps(self.cache))
        if r[0] != "ok":
            self.err = f"unpickling the shared cache in a worker raised {r[1]}"

    def drop(self, env):
        if env.workers:
            env.workers.call(0, "drop", self.cid)
        self.cache = self.target = None


def pre_probe(cache, kind, keys):
    pr = probe(cache, kind, keys)
    if kind == "hybrid" and "err" not in pr:
        try:
            ac, du = cache.access_counts, cache.computation_durations
            pr["ac"] = sorted([KEYS.index(k), int(n)] for k, n in ac.items())
            pr["du"] = sorted([KEYS.index(k), int(d)] for k, d in du.items())
        except Exception as e:  # noqa: BLE001
            pr["err"] = exc_enum(e)
    return pr


def preempt_run(env, slot, case):
    """one run: reset (public clear), H, then P with Q fired at `case['at']`, then probe, epilogue, probes"""
    kind, keys = case["kind"], case["keys"]
    cache = slot.cache
    out = {"fired": False}
    for op in [["clear"]] + case["H"]:
        o = do_op(cache, kind, op)
        if isinstance(o, dict):
            out["setup"] = f"set-up {op[0]} raised {o['err']}"
            return out
    q = {}

    def act():
        try:
            _act()
        except Exception as e:  # noqa: BLE001 — a broken pipe to the worker must not look like an exception of P
            q["infra"] = f"{type(e).__name__}: {e}"

    def _act():
        c = env.get_workers().conns[0]
        c.send(("op", slot.cid, kind, case["Q"]))
        if c.poll(IN_LOCK_WAIT if case["at"][0] == "in" else 60):
            r = c.recv()
            q["o"] = r[1] if r[0] == "ok" else {"err": r[1]}
            q["when"] = "inside" if case["at"][0] == "in" else "at-point"
        elif case["at"][0] == "in":
            q["pending"] = True
        else:
            q["o"] = {"err": "Other:Hang"}
            q["hang"] = True

    sched = pre.Sched(target=case["at"], action=act)
    saved, missing = pre.install(slot.target, sched)
    if saved is None:
        out["no_lock"] = True
        return out
    try:
        oP = do_op(cache, kind, case["P"])
    finally:
        pre.uninstall(slot.target, saved)
    if q.get("infra"):
        raise framework.Infra(f"C14 preemption stream: talking to the peer process failed ({q['infra']})")
    out.update(fired=sched.fired, n_out=sched.n_out, n_in=sched.n_in, trace=sched.trace, fired_at=sched.fired_at,
               acquires=sched.acquires, unlocked=sched.accesses_unlocked, missing=missing)
    if not sched.fired:
        return out
    if q.get("pending"):
        c = env.get_workers().conns[0]
        if c.poll(60):
            r = c.recv()
            q["o"] = r[1] if r[0] == "ok" else {"err": r[1]}
            q["when"] = "blocked-until-release"
        else:
            q["o"] = {"err": "Other:Hang"}
            q["hang"] = True
    out.update(P=oP, Q=q.get("o"), when=q.get("when"), hang=bool(q.get("hang")))
    if isinstance(oP, dict) or isinstance(out["Q"], dict):
        return out
    out["post"] = pre_probe(cache, kind, keys)
    if "err" in out["post"]:
        return out
    out["E"] = []
    for op in case["E"]:
        o = do_op(cache, kind, op)
        st = {"o": o}
        out["E"].append(st)
        if isinstance(o, dict):
            return out
    out["final"] = pre_probe(cache, kind, keys)
    return out


def pre_pick(mstep, kind):
    d = {"present": mstep["present"], "len": mstep["len"], "values": [canon_n(v) for v in mstep["values"]]}
    if kind == "hybrid":
        d["ac"] = sorted(list(p) for p in mstep["state"]["ac"])
        d["du"] = sorted(list(p) for p in mstep["state"]["du"])
    if kind == "disk":
        d.pop("values")
    return d


def pre_expected(case, msteps, order):
    h = len(case["H"])
    a, b = canon_mstep(msteps[h])["o"], canon_mstep(msteps[h + 1])["o"]
    kind = case["kind"]
    return {"P": a if order == "PQ" else b, "Q": b if order == "PQ" else a, "post": pre_pick(msteps[h + 1], kind),
            "E": [{"o": canon_mstep(s)["o"]} for s in msteps[h + 2:]], "final": pre_pick(msteps[-1], kind)}


def pre_diff(obs, exp, fields):
    """first difference between the observation and one linearisation, restricted to `fields` of the probes"""
    if obs["P"] != exp["P"]:
        return f"P answered {obs['P']} (this order gives {exp['P']})"
    if obs["Q"] != exp["Q"]:
        return f"Q answered {obs['Q']} (this order gives {exp['Q']})"
    for f in fields:
        if f in obs["post"] and obs["post"][f] != exp["post"].get(f):
            return f"afterwards {f} is {obs['post'][f]} (this order gives {exp['post'].get(f)})"
    for i, (a, b) in enumerate(zip(obs.get("E", []), exp["E"])):
        if a["o"] != b["o"]:
            return f"epilogue step {i} answered {a['o']} (this order gives {b['o']})"
    for f in fields:
        if f in obs.get("final", {}) and obs["final"][f] != exp["final"].get(f):
            return f"at the end {f} is {obs['final'][f]} (this order gives {exp['final'].get(f)})"
    return None


def pre_requests(case):
    base = {"kind": case["kind"], "max": case.get("max"), "keys": case["keys"]}
    if case["kind"] == "hybrid":
        base["weights"] = case["weights"]
    if case["kind"] == "disk":
        base["lru"] = case.get("lru")
    return [to_request(dict(base, ops=case["H"] + [case["P"], case["Q"]] + case["E"])),
            to_request(dict(base, ops=case["H"] + [case["Q"], case["P"]] + case["E"]))]


def pre_clauses(case, obs):
    """the property's own clauses on the implementation's answers"""
    mx = case.get("max")
    for who in ("P", "Q"):
        if isinstance(obs.get(who), dict):
            return f"{who} = {case[who][0]} raised {obs[who]['err']}"
    lens = [(f"{who} = len() answered", obs[who][1]) for who in ("P", "Q") if case[who][0] == "len"]
    if "post" in obs:
        if "err" in obs["post"]:
            return f"probing in/len/cache afterwards raised {obs['post']['err']}"
        lens.append(("afterwards len is", obs["post"]["len"]))
    for i, st in enumerate(obs.get("E", [])):
        if isinstance(st["o"], dict):
            return f"epilogue step {i} ({case['E'][i][0]}) raised {st['o']['err']}"
    if "final" in obs:
        if "err" in obs["final"]:
            return f"probing in/len/cache at the end raised {obs['final']['err']}"
        lens.append(("at the end len is", obs["final"]["len"]))
    if mx is not None and case["kind"] != "disk":
        for what, n in lens:
            if n > mx:
                return f"{what} {n}, max_size is {mx}"
    return None


def preempt_combos(ctx, cfgs):
    ops = preempt_ops()
    first, rest = [], []
    for ci, cfg in enumerate(cfgs):
        cap = cfg.get("lru") or cfg["max"]
        for H in preempt_histories(cap):
            full = len({op[1] for op in H if op[0] == "put"}) >= cap
            for P in ops:
                for Q in ops:
                    # the pairs in which an evicting/emptying peer meets a read or write of the victim come first
                    hot = full and Q[0] in ("put", "clear") and P[0] in ("get", "put") and len(H) <= cap
                    (first if hot else rest).append((ci, H, P, Q))
    ctx.rng.shuffle(rest)
    return first + rest


def preempt_stream(ctx, env):
    thorough = ctx.tier == "thorough"
    cfgs = [{"kind": k, "max": mx, "weights": [1, 1], "keys": [0, 1, 2, 3], "cloudpickle": True} for k in ("lru", "hybrid") for mx in (1, 2)]
    # DiskCache with a shared in-memory LRU (lru_shared=True), max_size=None: the points are those of the LRU's lock and containers
    cfgs += [{"kind": "disk", "max": None, "lru": n, "keys": [0, 1, 2, 3], "cloudpickle": True} for n in (1, 2)]
    if thorough:
        cfgs += [{"kind": k, "max": 3, "weights": [1, 1], "keys": [0, 1, 2, 3], "cloudpickle": True} for k in ("lru", "hybrid")]
        cfgs += [{"kind": k, "max": 2, "weights": [1, 3], "keys": [0, 1, 2, 3], "cloudpickle": False} for k in ("lru", "hybrid")]
    budget = ctx.n(300, 2500)
    slots = {}
    runs = []                     # (case, obs)
    lockfree = {}
    try:
        for ci, cfg in enumerate(cfgs):
            slots[ci] = PreSlot(env, cfg)
            if slots[ci].err:
                ctx.violation({"stream": "preempt", **cfg}, slots[ci].err)
                return
            # dry run: which operations take the lock at all?  (a lock-free peer can run inside P's critical section)
            for op in (["get", 0], ["put", 0], ["has", 0], ["len"], ["clear"]):
                case = dict(cfg, H=[["put", 0, 101, 1]], P=_with_value(op, 201, 2), Q=["len"], E=[], at=["none", 0])
                o = preempt_run(env, slots[ci], case)
                if o.get("no_lock"):
                    ctx.count("preempt:no-lock-attr")
                    return
                lockfree[(ci, op[0])] = o.get("acquires", 1) == 0
                ctx.count(f"preempt:dry:{cfg['kind']}:{op[0]}:acquires{o.get('acquires')}:unlocked-accesses{o.get('unlocked')}")
                for name in o.get("missing", []):
                    if (name == "_cache_queue") != (cfg["kind"] == "hybrid") or name == "_cache_dict":
                        ctx.count(f"preempt:no-container:{cfg['kind']}:{name}")
        # corpus first: the runs that exposed DF-C14-unlocked-len-in (a peer's len()/`in` inside put's critical section; with the
        # repair the peer blocks until the release), the seeded change C14-s1-B and DF-C14-get-race
        for c in PRE_CORPUS:
            ci = next((i for i, cfg in enumerate(cfgs) if cfg["kind"] == c["kind"] and cfg["max"] == c["max"] and cfg.get("lru") == c.get("lru")), None)
            if ci is None:
                continue
            case = dict(cfgs[ci], stream="preempt", E=PRE_EPILOGUE, **{k: c[k] for k in ("H", "P", "Q", "at")})
            obs = preempt_run(env, slots[ci], case)
            ctx.count("preempt:corpus" + ("" if obs.get("fired") else ":point-not-reached"))
            if obs.get("fired") and not obs.get("setup"):
                runs.append((case, obs))
        n = 0
        npoints = {}
        for ci, H, P0, Q0 in preempt_combos(ctx, cfgs):
            if n >= budget:
                ctx.count("preempt:combos-beyond-budget")
                continue
            cfg = cfgs[ci]
            P, Q = _with_value(P0, 201, 2), _with_value(Q0, 202, 4)
            hp = (ci, json.dumps(H), json.dumps(P))
            if hp not in npoints:
                # the points of P up to the one where the peer runs do not depend on the peer: count them once, without a peer
                o = preempt_run(env, slots[ci], dict(cfg, H=H, P=P, Q=["len"], E=[], at=["none", 0]))
                n += 1
                if o.get("setup"):
                    ctx.violation(dict(cfg, stream="preempt", H=H, P=P, Q=None, at=None), f"{cfg['kind']} shared: {o['setup']}", key="preempt-setup")
                    npoints[hp] = {"out": 0, "in": 0}
                else:
                    npoints[hp] = {"out": min(o["n_out"], 40), "in": min(o["n_in"], 40)}
                    if o["unlocked"]:
                        ctx.count(f"preempt:{cfg['kind']}:P={P[0]}:container-accesses-without-the-lock", o["unlocked"])
            for cls in ("out", "in"):
                if cls == "in" and not lockfree.get((ci, Q0[0])):
                    continue
                for i in range(1, npoints[hp][cls] + 1):
                    case = dict(cfg, stream="preempt", H=H, P=P, Q=Q, E=PRE_EPILOGUE, at=[cls, i])
                    obs = preempt_run(env, slots[ci], case)
                    n += 1
                    if obs.get("setup") or not obs["fired"]:
                        ctx.count("preempt:point-not-reached")
                        continue
                    runs.append((case, obs))
                    if obs.get("hang"):
                        ctx.violation(case, f"{cfg['kind']} shared: the peer's {Q[0]} did not return within 60 s (P = {P[0]} preempted at {cls} point {i}: "
                                      f"{obs['fired_at']})", key="preempt-hang")
                        env.workers.close()
                        env.workers = None
                        return
        preempt_judge(ctx, env, runs)
    finally:
        for s in slots.values():
            s.drop(env)


def pre_verdict(case, obs, models):
    """('ok'|'skip'|'clause'|'nonlin'|'counts'|'model-raises', text, expected)"""
    bad = pre_clauses(case, obs)
    if bad:
        return "clause", bad, None
    if any(m["err"] is not None for m in models.values()):
        return "model-raises", "the model raises on a linearisation", None
    if any(near_tie(dict(case, ops=case["H"] + pq + case["E"]), m["steps"], i) for m, pq in
           ((models["PQ"], [case["P"], case["Q"]]), (models["QP"], [case["Q"], case["P"]])) for i in range(len(m["steps"]))):
        return "skip", "near-tie", None
    exps = {o: pre_expected(case, models[o]["steps"], o) for o in ("PQ", "QP")}
    pub = ("present", "len", "values")
    d_pub = {o: pre_diff(obs, exps[o], pub) for o in exps}
    if all(d_pub.values()):
        return "nonlin", f"no sequential order of P and Q explains what was observed — as P;Q: {d_pub['PQ']}; as Q;P: {d_pub['QP']}", exps
    if case["kind"] == "hybrid":
        d_all = {o: pre_diff(obs, exps[o], pub + ("ac", "du")) for o in exps if not d_pub[o]}
        if all(d_all.values()):
            return "counts", "access_counts/computation_durations afterwards fit neither order — " + "; ".join(f"as {o}: {d}" for o, d in d_all.items()), exps
    return "ok", "+".join(o for o in d_pub if not d_pub[o]), exps


def pre_tag(case, obs):
    return (f"{case['kind']} shared, P = {case['P']} preempted at {case['at'][0]}-point {case['at'][1]} ({obs.get('fired_at')}) by a peer process "
            f"running Q = {case['Q']}")


def preempt_judge(ctx, env, runs):
    reqs, index = [], {}
    for case, _ in runs:
        key = json_key(case)
        if key not in index:
            index[key] = len(reqs)
            reqs += pre_requests(case)
    outs = ctx.lean(reqs) if reqs else []
    fresh_runs = 0
    seen_classes = collections.Counter()
    for case, obs in runs:
        kind = case["kind"]
        j = index[json_key(case)]
        models = {"PQ": outs[j]["r"], "QP": outs[j + 1]["r"]}
        slim = {k: v for k, v in case.items() if k != "cloudpickle" or not v}
        ctx.count(f"preempt:{kind}:P={case['P'][0]}:at={case['at'][0]}:{re.sub('[^A-Za-z_.]', '', str(obs['fired_at']))}")
        ctx.count(f"preempt:{kind}:Q={case['Q'][0]}:{obs.get('when')}")
        ctx.count("preempt:runs")
        ctx.record(slim, case["P"][0] in ("get", "put") and case["Q"][0] in ("put", "clear"))
        cls, text, exps = pre_verdict(case, obs, models)
        if cls == "ok":
            ctx.count(f"preempt:explained-as:{text}")
            continue
        if cls == "skip":
            ctx.skip("preempt-hybrid-near-tie")
            continue
        vkey = f"preempt:{kind}:{cls}:{case['P'][0]}:{case['Q'][0]}"
        seen_classes[vkey] += 1
        if seen_classes[vkey] > 2 or len(seen_classes) > 8:
            ctx.count("preempt:further-failures-of-a-reported-class")
            continue
        shown = {k: obs.get(k) for k in ("P", "Q", "when", "post", "E", "final", "trace")}
        if cls == "model-raises":
            ctx.violation(slim, f"{text} of {pre_tag(case, obs)}", found_input=False, item="correspondence:model-raises", key=vkey)
            continue
        # the run used a cache that had served earlier runs (reset with the public clear()): confirm on a new cache
        obs2, slot = None, None
        if fresh_runs < 16:
            fresh_runs += 1
            try:
                slot = PreSlot(env, {k: case[k] for k in ("kind", "max", "weights", "keys", "cloudpickle", "lru") if k in case})
                if not slot.err:
                    obs2 = preempt_run(env, slot, case)
                    if cls == "counts" and obs2.get("fired") and preempt_search_counts(ctx, env, slot, case, slim, pre_tag(case, obs2)):
                        continue
            finally:
                if slot:
                    slot.drop(env)
        if obs2 is not None and obs2.get("fired"):
            cls2, text2, _ = pre_verdict(case, obs2, models)
            if cls2 != cls:
                ctx.violation(slim, f"{pre_tag(case, obs)}: {text} — but only on a cache that had been used and cleared before (a new cache: {cls2})",
                              found_input=False, item="correspondence:preempt-reused-cache", impl=shown, model=exps, key=vkey)
                continue
            text, shown = text2, {k: obs2.get(k) for k in ("P", "Q", "when", "post", "E", "final", "trace")}
        if cls == "counts":
            ctx.violation(slim, f"{pre_tag(case, obs)}: {text}", found_input=False, item="correspondence:preempt-scoring-inputs", impl=shown, model=exps, key=vkey)
        else:
            ctx.violation(slim, f"{pre_tag(case, obs)}: {text}", impl=shown, model=exps, key=vkey)


def json_key(case):
    return json.dumps([case["kind"], case["max"], case.get("weights"), case.get("lru"), case["H"], case["P"], case["Q"], case["E"]])


def preempt_search_counts(ctx, env, slot, case, slim, tag):
    """continuations after P||Q that make a wrong access count / duration visible as a wrong eviction or an exception"""
    for extra in ([["put", 3, 301, 1], ["put", 0, 302, 1], ["put", 1, 303, 1]], [["put", 3, 301, 9], ["put", 2, 302, 1], ["put", 0, 303, 9]],
                  [["get", 0], ["put", 3, 301, 3], ["put", 1, 302, 2]], [["get", 1], ["get", 1], ["put", 3, 301, 2], ["put", 0, 302, 2]]):
        c2 = dict(case, E=extra)
        obs = preempt_run(env, slot, c2)
        if not obs.get("fired") or obs.get("setup"):
            continue
        outs = ctx.lean(pre_requests(c2))
        cls, text, exps = pre_verdict(c2, obs, {"PQ": outs[0]["r"], "QP": outs[1]["r"]})
        if cls in ("clause", "nonlin"):
            ctx.violation(dict(slim, E=extra), f"{tag}: {text}", impl={k: obs.get(k) for k in ("P", "Q", "post", "E", "final", "trace")}, model=exps,
                          key=f"preempt:hybrid:counts:{cls}")
            return True
    return False


# ------------------------------------------------------------------------------------------------ corpus
@framework.finding_matcher("c14_disk_put_clear_window")
def _kf_disk_put_clear(case, params, impl, model):
    """KF-C14-disk-put-not-atomic, narrowly: preemption stream, DiskCache, P = put(k) preempted by a peer's clear() between the
    file write and `lru_cache.put`; nothing raised; afterwards exactly k is answered (from the LRU) and the directory is empty.
    Anything else on such a pair (an exception, another key present, a wrong value) is still reported."""
    if not (isinstance(case, dict) and case.get("stream") == "preempt" and case.get("kind") == "disk" and isinstance(impl, dict)):
        return False
    if case["P"][0] != "put" or case["Q"] != ["clear"] or impl.get("P") != "unit" or impl.get("Q") != "unit":
        return False
    post = impl.get("post") or {}
    return post.get("len") == 0 and post.get("present") == [case["P"][1]] and all(not isinstance(st.get("o"), dict) for st in impl.get("E") or [])


def ensure_findings(ctx):
    """the finding of this extension travels in fixes/C14/ext/known_findings_entries.json until the integrator has merged it into
    known_findings.json (a shared file this module must not edit)"""
    ext = Path(__file__).resolve().parents[2] / "fixes" / "C14" / "ext" / "known_findings_entries.json"
    if not ext.exists():
        return
    have = {f["id"] for f in ctx.findings}
    for e in json.loads(ext.read_text()):
        if e.get("property") == PID and e.get("status") == "finding" and e["id"] not in have:
            ctx.findings.append(e)


PRE_CORPUS = [
    {"kind": "disk", "max": None, "lru": 1, "H": [["put", 0, 101, 1]], "P": ["get", 0], "Q": ["put", 1, 202, 4], "at": ["out", 2]},
    {"kind": "disk", "max": None, "lru": 1, "H": [["put", 0, 101, 1]], "P": ["get", 0], "Q": ["put", 1, 202, 4], "at": ["out", 3]},
    {"kind": "lru", "max": 2, "H": [["put", 0, 101, 1], ["put", 1, 102, 3]], "P": ["put", 2, 201, 2], "Q": ["len"], "at": ["in", 3]},
    {"kind": "hybrid", "max": 1, "H": [["put", 0, 101, 1]], "P": ["put", 0, 201, 2], "Q": ["has", 0], "at": ["in", 8]},
    {"kind": "hybrid", "max": 1, "H": [["put", 0, 101, 1]], "P": ["put", 1, 201, 2], "Q": ["len"], "at": ["in", 9]},
    {"kind": "hybrid", "max": 1, "H": [["put", 0, 101, 1]], "P": ["get", 0], "Q": ["put", 2, 202, 4], "at": ["out", 2]},
    {"kind": "hybrid", "max": 2, "H": [["put", 0, 101, 1], ["put", 1, 102, 3]], "P": ["get", 0], "Q": ["put", 2, 202, 4], "at": ["out", 2]},
    {"kind": "lru", "max": 1, "H": [["put", 0, 101, 1]], "P": ["get", 0], "Q": ["put", 2, 202, 4], "at": ["out", 1]},
    {"kind": "lru", "max": 2, "H": [["put", 0, 101, 1], ["put", 1, 102, 3]], "P": ["get", 0], "Q": ["clear"], "at": ["out", 2]},
]

CORPUS = [
    # DF-01: a re-put of a resident key queued it twice; the fourth distinct key then popped a key that had left the dict
    {"kind": "lru", "max": 2, "keys": [0, 1, 2, 3], "ops": [["put", 0, 1, 0], ["put", 0, 2, 0], ["put", 1, 3, 0], ["put", 2, 4, 0], ["put", 3, 5, 0]]},
    {"kind": "lru", "max": 1, "keys": [0, 1], "ops": [["put", 0, 1, 0], ["put", 0, 2, 0], ["has", 0], ["get", 0]]},
    {"kind": "lru", "max": 2, "keys": [0, 1, 2], "shared": True, "procs": [1, 2, 0, 1, 2, 0],
     "ops": [["put", 0, 1, 0], ["put", 0, 2, 0], ["put", 1, 3, 0], ["put", 2, 4, 0], ["get", 0], ["get", 2]]},
    # DF-02: every duration 0.0
    {"kind": "hybrid", "max": 1, "weights": [1, 1], "keys": [0, 1], "ops": [["put", 0, 1, 0], ["put", 1, 2, 0], ["get", 1]]},
    {"kind": "hybrid", "max": 2, "weights": [1, 1], "keys": [0, 1, 2], "ops": [["put", 0, 1, 0], ["put", 1, 2, 0], ["get", 0], ["put", 2, 3, 0], ["get", 1], ["get", 0]]},
    # DF-03: a directory holding more than max_size + 1 files
    {"kind": "disk", "max": None, "lru": None, "keys": [0, 1, 2, 3],
     "ops": [["put", 0, 1, 0], ["put", 1, 2, 0], ["put", 2, 3, 0], ["put", 3, 4, 0], ["reopen", 2, None], ["put", 0, 5, 0], ["len"], ["get", 3], ["get", 1]]},
    {"kind": "disk", "max": 3, "lru": 2, "keys": [0, 1, 2, 3],
     "ops": [["put", 0, 1, 0], ["put", 1, 2, 0], ["put", 2, 3, 0], ["reopen", 1, 1], ["put", 3, 4, 0], ["len"], ["get", 2], ["get", 3]]},
    # DiskCache through its LRU: re-put of a resident key (DF-01 reached through DiskCache.put)
    {"kind": "disk", "max": 2, "lru": 1, "keys": [0, 1], "ops": [["put", 0, 1, 0], ["put", 0, 2, 0], ["get", 0], ["put", 1, 3, 0], ["get", 0]]},
    # hybrid: first minimum in insertion order; a hit protects an entry
    {"kind": "hybrid", "max": 2, "weights": [1, 1], "keys": [0, 1, 2], "ops": [["put", 0, 1, 2], ["put", 1, 2, 2], ["get", 0], ["put", 2, 3, 2], ["has", 0], ["has", 1]]},
]


def run(ctx):
    ensure_findings(ctx)
    env = Env()
    try:
        ctx.notes.append(f"st_ctime_ns: {env.spacer.distinct}/300 distinct stamps over back-to-back rewrites of one file, smallest step "
                         f"{env.spacer.granularity_ns} ns, {env.spacer.per_write * 1e6:.0f} us per write (measured on {env.base.parent})")
        shared_n = ctx.n(34, 400)     # whole-operation interleavings from 2 more processes are also the first/last points of the preemption stream
        cases = [copy.deepcopy(c) for c in CORPUS]
        cases += exploration_cases(ctx)
        cases += [gen_case(ctx.rng) for _ in range(ctx.n(280, 30000))]
        cases += zero_duration_cases(ctx)
        cases += [gen_case(ctx.rng, kind=ctx.rng.choice(["lru", "lru", "hybrid", "hybrid", "disk"]), shared=True, maxlen=16) for _ in range(shared_n)]
        cases += interleave_cases(ctx)
        t0 = time.time()
        check_cases(ctx, env, cases)
        t1 = time.time()
        malformed_stream(ctx, env)
        preempt_stream(ctx, env)
        t2 = time.time()
        soak(ctx, env)
        ctx.notes.append(f"wall split: histories {t1 - t0:.0f} s, malformed + preemption stream {t2 - t1:.0f} s, soak {time.time() - t2:.0f} s")
        ctx.count("disk:ctime-spacing-spins", env.spacer.spins)
    finally:
        env.close()


def replay_preempt(ctx, env, case):
    slot = PreSlot(env, {k: case[k] for k in ("kind", "max", "weights", "keys", "cloudpickle", "lru") if k in case})
    try:
        print(f"{case['kind']}(max_size={case['max']}, shared=True); history {case['H']}; then P = {case['P']} in this process, preempted at "
              f"{case['at'][0]}-point {case['at'][1]} by Q = {case['Q']} run to completion in a second process; then {case['E']}")
        obs = preempt_run(env, slot, case)
        print("implementation:")
        for k in ("fired", "fired_at", "when", "P", "Q", "post", "E", "final"):
            print("  ", k, "=", obs.get(k))
        print("   points of P:", obs.get("trace"))
        if not obs.get("fired"):
            print("the preemption point was not reached")
            return
        outs = ctx.lean(pre_requests(case))
        models = {"PQ": outs[0]["r"], "QP": outs[1]["r"]}
        for o in ("PQ", "QP"):
            if models[o]["err"] is None:
                print(f"model, order {o}:", pre_expected(case, models[o]["steps"], o))
            else:
                print(f"model, order {o}: raises", models[o]["err"])
        print("verdict:", pre_verdict(case, obs, models)[:2])
    finally:
        slot.drop(env)


def replay(ctx, case):
    env = Env()
    if case.get("stream") == "preempt":
        try:
            return replay_preempt(ctx, env, case)
        finally:
            env.close()
    try:
        steps, bad = run_impl(env, case)
        print("implementation:")
        for op, s in zip(case["ops"], steps):
            print("  ", op, "->", {k: s.get(k) for k in ("o", "present", "len", "values") if k in s})
        print("failed clauses:", bad)
        r = ctx.lean([to_request(case)])[0]["r"]
        print("model:")
        for op, s in zip(case["ops"], r["steps"]):
            print("  ", op, "->", {k: canon_mstep(s).get(k) for k in ("o", "present", "len", "values")}, s["state"])
        print("model err:", r["err"])
    finally:
        env.close()
