"""Implementation side of C12: build the (possibly ill-formed) pipeline, start `map`, and observe
exception-vs-return, *where*, the user-call log and the run folder before/after."""
from __future__ import annotations

import hashlib
import os
import shutil
from concurrent.futures import ThreadPoolExecutor
from pathlib import Path

import pfimport  # noqa: F401
from pfimport import exc_enum

import mapgen
import terms


def py_inputs(desc):
    out = {}
    for name, v in desc["inputs"]:
        val = terms.dec(v)
        kind = desc["input_kinds"].get(name)
        if kind == "list" and hasattr(val, "shape") and val.ndim == 1:
            val = list(val)
        elif kind == "nested" and hasattr(val, "tolist"):
            val = val.tolist()
        out[name] = val
    return out


def py_storage(st):
    """`"dict"` or `{"d": [[key, name], …]}` (a tuple-valued output name is keyed by its names joined with ',')"""
    if isinstance(st, str):
        return st
    return {(tuple(k.split(",")) if "," in k else k): v for k, v in st["d"]}


def py_fixed(fx):
    return None if fx is None else {a: (s if isinstance(s, int) else slice(*s["sl"])) for a, s in fx}


def snapshot(folder):
    """path ↦ (sha256 of the content, inode, mtime_ns); directories are listed with an empty hash"""
    snap = {}
    root = Path(folder)
    if not root.exists():
        return snap
    for q in sorted(root.rglob("*")):
        st = q.stat()
        rel = str(q.relative_to(root))
        if q.is_file():
            snap[rel] = (hashlib.sha256(q.read_bytes()).hexdigest(), st.st_ino, st.st_mtime_ns)
        else:
            snap[rel] = ("dir", st.st_ino, 0)
    return snap


def diff_snap(s0, s1):
    """(paths whose presence or content changed, paths whose inode/mtime only changed)"""
    content, meta = [], []
    for k in sorted(set(s0) | set(s1)):
        a, b = s0.get(k), s1.get(k)
        if a is None or b is None or a[0] != b[0]:
            content.append(k)
        elif a[0] != "dir" and a[1:] != b[1:]:
            meta.append(k)
    return content, meta


def run_valid(req, folder):
    """The completed reference run that fills `folder` (cleanup=True). Returns None or the error observation."""
    try:
        p, _log = mapgen.build(req["desc"])
        mapgen.quiet(p.map, py_inputs(req["desc"]), run_folder=folder, internal_shapes=mapgen.internal_shapes_arg(req["desc"]),
                     parallel=False, storage=py_storage(req["storage"]), cleanup=True)
    except Exception as e:  # noqa: BLE001
        return {"err": exc_enum(e), "msg": str(e)[:200]}
    return None


def run_request(req, folder, cleanup=False):
    """Observation of one request: {"at": "construct"|"map"|None, "err": enum|None, "calls": [...], "msg": ...}."""
    log = terms.CallLog()
    obs = {"at": None, "err": None, "calls": [], "msg": ""}
    try:
        p, log = mapgen.build(req["desc"], log=log)
    except Exception as e:  # noqa: BLE001
        obs.update(at="construct", err=exc_enum(e), msg=str(e)[:160], calls=log.names())
        return obs
    ex = ThreadPoolExecutor(1) if req.get("executor") else None
    try:
        kw = {}
        if ex is not None:
            # the dict form (`{"": ex}` / `{output: ex, "": ex}`) must be refused with parallel=False exactly like a bare executor
            form = req.get("executor")
            if form == "dict-default":
                kw["executor"] = {"": ex}
            elif form == "dict-output":
                first = req["desc"]["funcs"][0]["outputs"]
                kw["executor"] = {(first[0] if len(first) == 1 else tuple(first)): ex, "": ex}
            else:
                kw["executor"] = ex
        if req.get("output_names") is not None:
            kw["output_names"] = set(req["output_names"])
        if req.get("fixed") is not None:
            kw["fixed_indices"] = py_fixed(req["fixed"])
        if req.get("auto"):
            kw["auto_subpipeline"] = True
        mapgen.quiet(p.map, py_inputs(req["desc"]), run_folder=folder, internal_shapes=mapgen.internal_shapes_arg(req["desc"]),
                     parallel=bool(req.get("parallel", False)), storage=py_storage(req["storage"]), cleanup=cleanup, **kw)
    except Exception as e:  # noqa: BLE001
        obs.update(at="map", err=exc_enum(e), msg=str(e)[:160])
    finally:
        if ex is not None:
            ex.shutdown(wait=True)
    obs["calls"] = log.names()
    return obs


def fresh(folder):
    shutil.rmtree(folder, ignore_errors=True)
    os.makedirs(folder, exist_ok=True)
