import PfModel.Lemmas.ErrorsSnap
import PfModel.Props.C13
import PfModel.Props.C13Async
/-!
# C13 (extension) — the snapshots exposed by the failing function and by the pipeline, in every mode and schedule

Clause: "for in-process execution the failing function and pipeline expose an ErrorSnapshot whose reproduce() raises the same
exception".  `C13_pipeline_snapshot` (Props/C13.lean) covers `Pipeline.error_snapshot` for sequential runs only and nothing
covers `PipeFunc.error_snapshot`.  Here, for `map` in both modes under every schedule (fair or not) and for `map_async` under
every pool schedule and loop order:

* the invocation whose exception surfaced was executed — it is in the call log (`…_raised_in_log`);
* the pipeline exposes the snapshot of a raising invocation of this run and `reproduce()`, also after save/load, raises that
  invocation's exception (`…_pipeline_snapshot_any`); the failing function exposes the snapshot of one of *its own* raising
  invocations of this run (`…_func_snapshot_any`).  With several raising invocations in an executor these need not be the
  invocation whose exception surfaced (examples at the end): the snapshot is the *last* one executed, the exception the
  *first* one in submission order (or the first one the loop observes);
* with one failing invocation (the property's quantifier) both snapshots are exactly the snapshot travelling with the raised
  exception (`…_snapshot_single`).
-/
namespace PF.C13
open PF PF.Map PF.Errors

/-! ## `Pipeline.map` (sequential and executor, every schedule) -/

/-- **The surfaced exception belongs to an executed invocation**: whatever the mode and the schedule, the raised exception is
    the oracle's answer for an invocation of the call log, passed through `handle_error`. -/
theorem C13_raised_in_log (mode : Mode) (fails : Oracle) (sched : Nat → List Nat) (R : Env → MFunc → M FuncResult)
    (gens : List (List MFunc)) (env : Env) (g g' : Nat) (r : Raised) (log : List Task) (store : List (String × Slot))
    (h : runGensE mode fails sched R gens env g = .raised g' r log store) :
    ∃ t, t ∈ log ∧ failOf fails t = some r.exn ∧ r = raisedOf t r.exn :=
  runGensE_in_log mode fails sched R gens env g g' r log store h

/-- **`Pipeline.error_snapshot` after a raised run, any mode, any schedule**: it is set, it is the snapshot of a raising
    invocation of this run (the last one executed), and `reproduce()` — also after `save_to_file`/`load_from_file` — raises
    that invocation's exception. -/
theorem C13_pipeline_snapshot_any (mode : Mode) (fails : Oracle) (sched : Nat → List Nat) (R : Env → MFunc → M FuncResult)
    (gens : List (List MFunc)) (env : Env) (g g' : Nat) (r : Raised) (log : List Task) (store : List (String × Slot))
    (h : runGensE mode fails sched R gens env g = .raised g' r log store) :
    ∃ s t, pipelineSnapshot fails log = some s ∧ t ∈ log ∧ failOf fails t = some s.exn ∧ s = (raisedOf t s.exn).snap ∧
      reproduce fails (load (save s)) = .error s.exn :=
  pipelineSnapshot_of_inLog fails r log (runGensE_in_log mode fails sched R gens env g g' r log store h)

/-- **`PipeFunc.error_snapshot` of the failing function after a raised run, any mode, any schedule**: the function named in
    the note exposes the snapshot of one of its own raising invocations of this run, and it reproduces that exception. -/
theorem C13_func_snapshot_any (mode : Mode) (fails : Oracle) (sched : Nat → List Nat) (R : Env → MFunc → M FuncResult)
    (gens : List (List MFunc)) (env : Env) (g g' : Nat) (r : Raised) (log : List Task) (store : List (String × Slot))
    (h : runGensE mode fails sched R gens env g = .raised g' r log store) :
    ∃ s t, funcSnapshot fails r.noteFunc log = some s ∧ t ∈ log ∧ t.f.name = r.noteFunc ∧ failOf fails t = some s.exn ∧
      s = (raisedOf t s.exn).snap ∧ reproduce fails (load (save s)) = .error s.exn :=
  funcSnapshot_of_inLog fails r log (runGensE_in_log mode fails sched R gens env g g' r log store h)

/-- **One failing invocation** (the property's quantifier): when every raising invocation of the log is the invocation of the
    surfaced exception (same function, same keyword arguments), pipeline and failing function both expose exactly the
    snapshot that travels with the exception — in every mode and under every schedule. -/
theorem C13_snapshot_single (mode : Mode) (fails : Oracle) (sched : Nat → List Nat) (R : Env → MFunc → M FuncResult)
    (gens : List (List MFunc)) (env : Env) (g g' : Nat) (r : Raised) (log : List Task) (store : List (String × Slot))
    (h : runGensE mode fails sched R gens env g = .raised g' r log store)
    (hone : ∀ u ∈ log, failOf fails u ≠ none → u.f.name = r.snap.fname ∧ u.c.args = r.snap.kwargs) :
    pipelineSnapshot fails log = some r.snap ∧ funcSnapshot fails r.noteFunc log = some r.snap :=
  snapshot_single_of_inLog fails r log (runGensE_in_log mode fails sched R gens env g g' r log store h) hone

/-! ## `Pipeline.map_async` (every pool schedule, every loop order) -/

theorem C13_async_raised_in_log (fails : Oracle) (sched loopo : Nat → List Nat) (R : Env → MFunc → M FuncResult)
    (gens : List (List MFunc)) (env : Env) (g g' : Nat) (r : Raised) (log : List Task) (store : List (String × Slot))
    (h : runGensA fails sched loopo R gens env g = .raised g' r log store) :
    ∃ t, t ∈ log ∧ failOf fails t = some r.exn ∧ r = raisedOf t r.exn :=
  runGensA_in_log fails sched loopo R gens env g g' r log store h

theorem C13_async_pipeline_snapshot_any (fails : Oracle) (sched loopo : Nat → List Nat) (R : Env → MFunc → M FuncResult)
    (gens : List (List MFunc)) (env : Env) (g g' : Nat) (r : Raised) (log : List Task) (store : List (String × Slot))
    (h : runGensA fails sched loopo R gens env g = .raised g' r log store) :
    ∃ s t, pipelineSnapshot fails log = some s ∧ t ∈ log ∧ failOf fails t = some s.exn ∧ s = (raisedOf t s.exn).snap ∧
      reproduce fails (load (save s)) = .error s.exn :=
  pipelineSnapshot_of_inLog fails r log (runGensA_in_log fails sched loopo R gens env g g' r log store h)

theorem C13_async_func_snapshot_any (fails : Oracle) (sched loopo : Nat → List Nat) (R : Env → MFunc → M FuncResult)
    (gens : List (List MFunc)) (env : Env) (g g' : Nat) (r : Raised) (log : List Task) (store : List (String × Slot))
    (h : runGensA fails sched loopo R gens env g = .raised g' r log store) :
    ∃ s t, funcSnapshot fails r.noteFunc log = some s ∧ t ∈ log ∧ t.f.name = r.noteFunc ∧ failOf fails t = some s.exn ∧
      s = (raisedOf t s.exn).snap ∧ reproduce fails (load (save s)) = .error s.exn :=
  funcSnapshot_of_inLog fails r log (runGensA_in_log fails sched loopo R gens env g g' r log store h)

theorem C13_async_snapshot_single (fails : Oracle) (sched loopo : Nat → List Nat) (R : Env → MFunc → M FuncResult)
    (gens : List (List MFunc)) (env : Env) (g g' : Nat) (r : Raised) (log : List Task) (store : List (String × Slot))
    (h : runGensA fails sched loopo R gens env g = .raised g' r log store)
    (hone : ∀ u ∈ log, failOf fails u ≠ none → u.f.name = r.snap.fname ∧ u.c.args = r.snap.kwargs) :
    pipelineSnapshot fails log = some r.snap ∧ funcSnapshot fails r.noteFunc log = some r.snap :=
  snapshot_single_of_inLog fails r log (runGensA_in_log fails sched loopo R gens env g g' r log store h) hone

/-! ## the snapshots without a run: what a call log exposes -/

/-- no executed invocation raised: neither the pipeline nor any function exposes a snapshot -/
theorem C13_snapshot_none (fails : Oracle) (log : List Task) (h : ∀ t ∈ log, failOf fails t = none) (fname : String) :
    pipelineSnapshot fails log = none ∧ funcSnapshot fails fname log = none :=
  ⟨pipelineSnapshot_none fails log h, funcSnapshot_none fails fname log fun t ht _ => h t ht⟩

/-! ## non-vacuity -/

def RR : Env → MFunc → M FuncResult :=
  runFuncWith opArray [g0, g1, g2] [("x", [3]), ("y", [3]), ("w", [3])] [("x", [true]), ("y", [true]), ("w", [true])]
def env0 : Env := { inputs := [("x", x3)], store := [] }
/-- one raising invocation only: `g0` at the element 2 -/
def orc1 : Oracle := fun name kw =>
  match name, kw with
  | "g0", [(_, .int 2)] => some ⟨"ValueError", [.str "boom"]⟩
  | _, _ => none

/-- (surfaced exception, function of the note, pipeline snapshot, snapshot of the noted function, raising invocations in the
    log, call log) -/
def snapSummary (fails : Oracle) : RunOut →
    String × String × Option (String × String) × Option (String × String) × Nat × List String
  | .raised _ r log _ =>
    (r.exn.cls, r.noteFunc, (pipelineSnapshot fails log).map (fun s => (s.fname, s.exn.cls)),
      (funcSnapshot fails r.noteFunc log).map (fun s => (s.fname, s.exn.cls)),
      (log.filter fun u => (failOf fails u).isSome).length, log.map (·.f.name))
  | _ => ("", "", none, none, 0, [])

/-- sequential (hypothesis of `C13_raised_in_log`, `C13_*_snapshot_any` with `mode = .seq`): one raising invocation ran -/
example : snapSummary orc (runGensE .seq orc (fun _ => []) RR (generations [g0, g1, g2]) env0 0) =
    ("ValueError", "g0", some ("g0", "ValueError"), some ("g0", "ValueError"), 1, ["g0", "g0"]) := by decide
/-- executor, submission order: both raising invocations run; the exception is `g0`'s (first in submission order) but the
    pipeline's snapshot is `g1`'s (last executed) — a raising invocation of this run, not the surfaced one; the failing
    function `g0` exposes its own -/
example : snapSummary orc (runGensE .pool orc (fun _ => [0, 1, 2, 3, 4, 5]) RR (generations [g0, g1, g2]) env0 0) =
    ("ValueError", "g0", some ("g1", "Custom"), some ("g0", "ValueError"), 2, ["g0", "g0", "g0", "g1", "g1", "g1"]) := by decide
/-- executor, reverse order: now `g0`'s raising invocation is the last executed -/
example : snapSummary orc (runGensE .pool orc (fun _ => [5, 4, 3, 2, 1, 0]) RR (generations [g0, g1, g2]) env0 0) =
    ("ValueError", "g0", some ("g0", "ValueError"), some ("g0", "ValueError"), 2, ["g1", "g1", "g1", "g0", "g0", "g0"]) := by decide
/-- an unfair schedule that still raises (tasks 2-5 never run): the theorems need no fairness -/
example : snapSummary orc (runGensE .pool orc (fun _ => [0, 1]) RR (generations [g0, g1, g2]) env0 0) =
    ("ValueError", "g0", some ("g0", "ValueError"), some ("g0", "ValueError"), 1, ["g0", "g0"]) := by decide
/-- two raising invocations of the *same* function in an executor: the exception is the ValueError of element 2, the function's
    snapshot the KeyError of element 3 (executed later) — `C13_func_snapshot_any` cannot be strengthened to `= r.snap` -/
example : snapSummary orcA (runGensE .pool orcA (fun _ => [0, 1, 2, 3, 4, 5]) RR (generations [g0, g1, g2]) env0 0) =
    ("ValueError", "g0", some ("g1", "Custom"), some ("g0", "KeyError"), 3, ["g0", "g0", "g0", "g1", "g1", "g1"]) := by decide
/-- hypotheses of `C13_snapshot_single` (one raising invocation in the log), executor in reverse order: both snapshots are the
    surfaced one -/
example : snapSummary orc1 (runGensE .pool orc1 (fun _ => [5, 4, 3, 2, 1, 0]) RR (generations [g0, g1, g2]) env0 0) =
    ("ValueError", "g0", some ("g0", "ValueError"), some ("g0", "ValueError"), 1, ["g1", "g1", "g1", "g0", "g0", "g0"]) := by decide
/-- `map_async` (hypothesis of the `C13_async_*` theorems): the loop observes the third future first, the KeyError surfaces;
    the pipeline's snapshot is `g1`'s, the function's its last raising invocation (here the surfaced one) -/
example : snapSummary orcA (runGensA orcA (fun _ => [0, 1, 2, 3, 4, 5]) (fun _ => [3, 2, 1, 0, 5, 4]) RR (generations [g0, g1, g2]) env0 0) =
    ("KeyError", "g0", some ("g1", "Custom"), some ("g0", "KeyError"), 3, ["g0", "g0", "g0", "g1", "g1", "g1"]) := by decide
/-- `map_async`, loop order = submission order: the ValueError surfaces, the function's snapshot is the KeyError -/
example : snapSummary orcA (runGensA orcA (fun _ => [0, 1, 2, 3, 4, 5]) (fun _ => [0, 1, 2, 3, 4, 5]) RR (generations [g0, g1, g2]) env0 0) =
    ("ValueError", "g0", some ("g1", "Custom"), some ("g0", "KeyError"), 3, ["g0", "g0", "g0", "g1", "g1", "g1"]) := by decide
/-- hypotheses of `C13_async_snapshot_single`: one raising invocation, pool in reverse order, any loop order -/
example : snapSummary orc1 (runGensA orc1 (fun _ => [5, 4, 3, 2, 1, 0]) (fun _ => [2, 1, 0]) RR (generations [g0, g1, g2]) env0 0) =
    ("ValueError", "g0", some ("g0", "ValueError"), some ("g0", "ValueError"), 1, ["g1", "g1", "g1", "g0", "g0", "g0"]) := by decide
/-- hypothesis of `C13_snapshot_none`: a failure-free log exposes nothing -/
example : ((pipelineSnapshot never [⟨g0, ⟨"g0", [("a", .int 1)]⟩⟩]).map (·.fname),
    (funcSnapshot never "g0" [⟨g0, ⟨"g0", [("a", .int 1)]⟩⟩]).map (·.fname)) = (none, none) := by decide

end PF.C13
