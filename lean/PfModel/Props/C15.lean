import PfModel.Lemmas.Hashable
/-!
C15 — Cache keys identify argument values: equal key iff equal value.
Property theorems only; the model is `Model/Hashable.lean` (`key true` = the repaired `to_hashable`, `key false` = the
pinned one), helper lemmas are in `Lemmas/Hashable.lean`.  Python's `==` on keys is `=` on model values (numbers are
identified by value in the model), "the same value" is `Equiv` (equal up to the iteration order of sets and mappings at
any depth), `wf` says what Python can build (hashable set elements and mapping keys, …).
-/
namespace PF.C15
open PF.Hashable

def one : PV := natAtom 1
def strA : PV := .atom (.str [97])
def strB : PV := .atom (.str [98])

/-- `to_hashable` returns a hashable key (whenever it returns). -/
theorem C15_hashable (v k : PV) (hwf : wf v = true) (h : key true v = .ok k) : hashable k = true :=
  key_hashable true v k hwf h

example : wf (.node .dict [tup [strA, .node .list [one]]]) = true ∧
    ∃ k, key true (.node .dict [tup [strA, .node .list [one]]]) = .ok k := ⟨by decide, _, rfl⟩

/-- Equal keys for equal values of the same type: values that are the same up to the iteration order of the sets and
    mappings they contain get the same key. -/
theorem C15_equal_values_equal_keys (a b : PV) (h : Equiv a b) (ha : wf a = true) (hb : wf b = true) (k : PV) :
    key true a = .ok k ↔ key true b = .ok k :=
  ⟨key_equiv a b h ha k, key_equiv b a (Equiv.symm a b h) hb k⟩

/-- The key does not depend on the order in which a set / dict / defaultdict / Counter is iterated (hash seed, insertion
    history): this is what makes the key the same in every process.  (At depth: `C15_equal_values_equal_keys`, `Equiv`
    is closed under such permutations anywhere inside the value.) -/
theorem C15_iteration_order_irrelevant (k : Kind) (hk : k.ordered = false) (xs ys : List PV) (hp : xs.Perm ys)
    (hwf : wf (.node k xs) = true) (r : PV) (h : key true (.node k xs) = .ok r) : key true (.node k ys) = .ok r := by
  refine key_equiv _ _ ?_ hwf r h
  exact .node k xs ys ys ys (by simp [hk, hp]) (equivL_of_all2 (all2_refl (fun x _ => Equiv.refl x))) (by simp [hk])

example : key true (.node .set [strB, strA]) = key true (.node .set [strA, strB]) ∧
    key true (.node .set [strB, strA]) = .ok (tagged .set (tup [strA, strB])) := by decide

/-- Unequal keys for values that differ in container type, structure, significant order or content: two values with
    the same key are the same value (same kinds at every level — incl. `default_factory`, `maxlen`, typecode, dtype and
    shape — and the same children up to the iteration order of sets and mappings). -/
theorem C15_injective (a b : PV) (k : PV) (ha : key true a = .ok k) (hb : key true b = .ok k) : Equiv a b :=
  key_injective a b k ha hb

/-- equal key iff equal value, for values whose keys are defined -/
theorem C15_key_eq_iff (a b ka kb : PV) (hwa : wf a = true) (ha : key true a = .ok ka) (hb : key true b = .ok kb) :
    ka = kb ↔ Equiv a b := by
  constructor
  · intro e; subst e; exact key_injective a b ka ha hb
  · intro e
    have := key_equiv a b e hwa ka ha
    rw [hb] at this
    cases this; rfl

/-- non-vacuity: a list and the tuple that imitates its key have (different) keys; a list and a tuple, a dict and an
    OrderedDict, deques of different `maxlen` differ -/
example : ∃ k1 k2, key true (.node .list [one]) = .ok k1 ∧ key true (tagged .list (tup [one])) = .ok k2 ∧ k1 ≠ k2 :=
  ⟨_, _, rfl, rfl, by decide⟩
example : key true (.node .list [.node .list [one]]) ≠ key true (tup [.node .list [one]]) := by decide
example : key true (.node .dict [tup [strA, one]]) ≠ key true (.node .odict [tup [strA, one]]) := by decide
example : key true (.node (.deque none) [one]) ≠ key true (.node (.deque (some 3)) [one]) := by decide
example : key true (.node .odict [tup [strA, one], tup [strB, one]]) ≠ key true (.node .odict [tup [strB, one], tup [strA, one]]) := by decide

/-- DF-32, the pinned code: the list `[1]` and the hashable tuple `("__CONVERTED__", list, (1,))` get the same key,
    although they are not the same value. -/
theorem C15_forged_tuple_collides_pinned :
    key false (.node .list [one]) = key false (tagged .list (tup [one])) ∧
    ¬ Equiv (.node .list [one]) (tagged .list (tup [one])) := by
  refine ⟨by decide, ?_⟩
  intro h
  cases h

/-- `to_hashable` returns a key when every collection it sorts is pairwise strictly ordered by `<`.  The complement is
    the known finding DF-20 (a) (`TypeError`) and (d) (partially ordered elements: the result of `sorted` is not
    determined by the set). -/
theorem C15_defined_partial (v : PV) (hwf : wf v = true) (hc : comparable v = true) : ∃ k, key true v = .ok k :=
  key_defined v hwf hc

example : wf (.node .set [strB, strA]) = true ∧ comparable (.node .set [strB, strA]) = true := by decide

/-- DF-20 (a): `{1: [1], 'a': [2]}` and `[{1, 'a'}]` raise `TypeError` -/
theorem C15_mixed_keys_raise :
    key true (.node .dict [tup [one, .node .list [one]], tup [strA, .node .list [natAtom 2]]]) = .error .typeError ∧
    key true (.node .list [.node .set [one, strA]]) = .error .typeError := by decide

/-- DF-20 (d): a set of frozensets is sorted under a partial order; the model leaves the key unspecified -/
theorem C15_partial_order_unspecified :
    key true (.node .set [.node .fset [strA], .node .fset [strB]]) = .error .partialOrder := by decide

/-- The memo table's invariant: every entry is stored under the key of the argument that produced it. -/
theorem C15_memoize_inv (m m' : Memo) (arg : PV) (r : Nat) (hit : Bool) (hi : m.Inv) (h : m.call arg = .ok (r, hit, m')) :
    m'.Inv := by
  unfold Memo.call at h
  cases hk : key true arg with
  | error e => rw [hk] at h; cases h
  | ok k =>
    rw [hk] at h
    simp only at h
    cases hl : Memo.lookup k m.entries with
    | some p => rw [hl] at h; cases h; exact hi
    | none =>
      rw [hl] at h; cases h
      intro e he
      cases he with
      | head => exact hk
      | tail _ he => exact hi e he

/-- memoize returns a stored result only for a call whose argument is the same value as the argument of the call that
    produced it. -/
theorem C15_memoize (m m' : Memo) (arg : PV) (r : Nat) (hi : m.Inv) (h : m.call arg = .ok (r, true, m')) :
    ∃ k a, (k, a, r) ∈ m.entries ∧ Equiv arg a := by
  unfold Memo.call at h
  cases hk : key true arg with
  | error e => rw [hk] at h; cases h
  | ok k =>
    rw [hk] at h
    simp only at h
    cases hl : Memo.lookup k m.entries with
    | none => rw [hl] at h; cases h
    | some p =>
      obtain ⟨a, r'⟩ := p
      rw [hl] at h
      cases h
      have hm := Memo.lookup_some hl
      exact ⟨k, a, hm, key_injective arg a k hk (hi _ hm)⟩

/-- non-vacuity: a second call with an equal list hits, a call with the look-alike tuple does not -/
example : Memo.run {} [.node .list [one], .node .list [one], tagged .list (tup [one])] =
    [some (0, false), some (0, true), some (1, false)] := by decide

end PF.C15
