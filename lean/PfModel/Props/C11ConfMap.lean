import PfModel.Props.C11Conf
import PfModel.Lemmas.SubPipeConformsMapped
/-!
C11, proof round 6 — **`Conforms` of the full pipeline gives `Conforms` of the partial pipeline, MapSpecs included, every cut.**

`C11_conforms_sub` (`C01.RightShapes` is defined in `Lemmas/SubPipeConformsMapped.lean`): `fs` with `inputsFull` is a valid map request (C01's `Conforms`); the request `map(inputs, output_names=S)` /
`auto_subpipeline` is computable and not over-provided; every root argument of the partial pipeline that one of its MapSpecs names
resolves (provided value, else default) to an array of the shape the FULL pipeline's declared table `declTbl fs inputsFull ui`
records for that name — for a root argument of `fs`: the shape of the full request's array; for a provided intermediate: the
declared shape of that intermediate —, and the provided values are well-formed arrays of those shapes.  Then the partial request
is a valid map request, and (`C11_map_succeeds_valid`) `map` answers: the `Conforms sub` hypothesis of `C11_map_succeeds` is gone.
`C11_conforms_sub_root_cut` / `C11_map_succeeds_root_cut`: for a root-only cut whose inputs are taken from the full request the
shape conditions hold by themselves.
-/
namespace PF.C11
open PF PF.Sub PF.Map

/-- **`Conforms` of the full pipeline ⇒ `Conforms` of the partial pipeline** (any pipeline, any cut). -/
theorem C11_conforms_sub (fs sub : List MFunc) (inputsFull inputs : List (String × Val)) (ui : List (String × List Nat))
    (S : List String) (auto : Bool) (hconf : C01.Conforms fs inputsFull ui = true)
    (hcomp : Computable mfuncNode fs (akeys inputs) S) (hprep : prepare fs inputs (some S) auto = .ok sub)
    (hex : extras sub inputs = []) (hsh : C01.RightShapes fs sub inputsFull inputs ui)
    (hv : C01.valuesTyped (C01.declTbl fs inputsFull ui) inputs = true)
    (hd : C01.valuesTyped (C01.declTbl fs inputsFull ui) (pdefaults sub) = true) :
    C01.Conforms sub inputs ui = true := by
  obtain ⟨sub', hprep', hsl, _, h1, h2, _⟩ := C11_conforms_sub_graph_partial fs inputsFull inputs ui S auto hconf hcomp
  have e : sub' = sub := by rw [hprep] at hprep'; cases hprep'; rfl
  rw [e] at hsl h1 h2
  exact C01.conforms_sublist fs sub inputsFull inputs ui hconf hsl h1 (h2.mpr hex) hsh hv hd

/-- **`map(output_names=S)` / `auto_subpipeline` on a valid pipeline — the `Conforms sub` hypothesis of `C11_map_succeeds`
    replaced by conditions on the request alone**: computable, not over-provided, provided arrays of the declared shapes ⇒ answered,
    by exactly the needed functions. -/
theorem C11_map_succeeds_valid (fs sub : List MFunc) (inputsFull inputs : List (String × Val)) (ui : List (String × List Nat))
    (S : List String) (auto : Bool) (hconf : C01.Conforms fs inputsFull ui = true)
    (hcomp : Computable mfuncNode fs (akeys inputs) S) (hprep : prepare fs inputs (some S) auto = .ok sub)
    (hex : extras sub inputs = []) (hsh : C01.RightShapes fs sub inputsFull inputs ui)
    (hv : C01.valuesTyped (C01.declTbl fs inputsFull ui) inputs = true)
    (hd : C01.valuesTyped (C01.declTbl fs inputsFull ui) (pdefaults sub) = true) :
    (∃ r, mapSub fs inputs ui (some S) auto = .ok (sub, r)) ∧ ∀ f, f ∈ sub ↔ NeededFn mfuncNode fs (akeys inputs) S f := by
  obtain ⟨sub', hprep', hmem, _, hrun, _⟩ := C11_map_succeeds fs inputs ui S auto hcomp
  have e : sub' = sub := by rw [hprep] at hprep'; cases hprep'; rfl
  rw [e] at hrun hmem
  exact ⟨hrun (C11_conforms_sub fs sub inputsFull inputs ui S auto hconf hcomp hprep hex hsh hv hd), hmem⟩

/-- **Root-only cuts with inputs taken from the full request**: every root argument of the partial pipeline is a root argument of
    the full one (nothing produced is provided), the provided items are items of the full request, and each root argument of the
    partial pipeline resolves to the value the full request resolves.  Then no shape condition is left. -/
theorem C11_conforms_sub_root_cut (fs sub : List MFunc) (inputsFull inputs : List (String × Val)) (ui : List (String × List Nat))
    (S : List String) (auto : Bool) (hconf : C01.Conforms fs inputsFull ui = true)
    (hcomp : Computable mfuncNode fs (akeys inputs) S) (hprep : prepare fs inputs (some S) auto = .ok sub)
    (hex : extras sub inputs = [])
    (hroot : ∀ p ∈ rootArgs sub, p ∈ rootArgs fs) (hin : ∀ kv ∈ inputs, kv ∈ inputsFull)
    (hres : ∀ p ∈ rootArgs sub, alookup (inputs ++ pdefaults sub) p = alookup (inputsFull ++ pdefaults fs) p) :
    C01.Conforms sub inputs ui = true := by
  obtain ⟨sub', hprep', hsl, _, _, h2, _⟩ := C11_conforms_sub_graph_partial fs inputsFull inputs ui S auto hconf hcomp
  have e : sub' = sub := by rw [hprep] at hprep'; cases hprep'; rfl
  rw [e] at hsl h2
  obtain ⟨_, _, _, _, c5, _, c7, c7', _, _⟩ := C01.conforms_clauses fs inputsFull ui hconf
  have hns := h2.mpr hex
  refine C11_conforms_sub fs sub inputsFull inputs ui S auto hconf hcomp hprep hex ?_ ?_ ?_
  · intro p hp hm
    have hpF := hroot p hp
    have hmF : p ∈ mapspecNames fs := by
      unfold mapspecNames at hm ⊢
      obtain ⟨f, hf, hfp⟩ := List.mem_flatMap.mp hm
      exact List.mem_flatMap.mpr ⟨f, hsl.subset hf, hfp⟩
    unfold C01.rootArrays at c5
    rw [List.all_eq_true] at c5
    have := c5 p hpF
    have hc : (mapspecNames fs).contains p = true := by simpa using hmF
    rw [hc] at this
    simp only [Bool.not_true, Bool.false_or] at this
    obtain ⟨sh, hsh⟩ := Option.isSome_iff_exists.mp this
    refine ⟨sh, by rw [hres p hp]; exact hsh, ?_⟩
    rw [C01.alookup_shapesOf]
    unfold C01.declTbl
    rw [PF.Validate.tblFrom_preserved _ _ _ _ _ (PF.Validate.rootTbl_lookup fs inputsFull p sh hpF hc hsh)]
    rfl
  · unfold C01.valuesTyped at c7 ⊢
    rw [List.all_eq_true] at c7 ⊢
    exact fun kv hkv => c7 kv (hin kv hkv)
  · unfold C01.valuesTyped at c7' ⊢
    rw [List.all_eq_true] at c7' ⊢
    intro kv hkv
    apply c7' kv
    -- a default of the partial pipeline is a default of the full pipeline: its key is a root argument of both
    have hk : kv.1 ∈ rootArgs sub := by
      unfold C01.noSurplus at hns
      rw [List.all_eq_true] at hns
      simpa using hns kv.1 (List.mem_append_right _ (List.mem_map_of_mem hkv))
    have hpF := Pieces.flow_rootArgs_producer fs kv.1 (hroot kv.1 hk)
    unfold pdefaults at hkv ⊢
    obtain ⟨f, hf, hfk⟩ := List.mem_flatMap.mp hkv
    refine List.mem_flatMap.mpr ⟨f, hsl.subset hf, ?_⟩
    rw [List.mem_filter] at hfk ⊢
    refine ⟨hfk.1, ?_⟩
    have := hfk.2
    simp only [Bool.and_eq_true] at this ⊢
    exact ⟨this.1, by rw [hpF]; rfl⟩

/-- `map` on a root-only cut of a valid request — hypothesis removed -/
theorem C11_map_succeeds_root_cut (fs sub : List MFunc) (inputsFull inputs : List (String × Val)) (ui : List (String × List Nat))
    (S : List String) (auto : Bool) (hconf : C01.Conforms fs inputsFull ui = true)
    (hcomp : Computable mfuncNode fs (akeys inputs) S) (hprep : prepare fs inputs (some S) auto = .ok sub)
    (hex : extras sub inputs = [])
    (hroot : ∀ p ∈ rootArgs sub, p ∈ rootArgs fs) (hin : ∀ kv ∈ inputs, kv ∈ inputsFull)
    (hres : ∀ p ∈ rootArgs sub, alookup (inputs ++ pdefaults sub) p = alookup (inputsFull ++ pdefaults fs) p) :
    ∃ r, mapSub fs inputs ui (some S) auto = .ok (sub, r) := by
  obtain ⟨sub', hprep', _, _, hrun, _⟩ := C11_map_succeeds fs inputs ui S auto hcomp
  have e : sub' = sub := by rw [hprep] at hprep'; cases hprep'; rfl
  rw [e] at hrun
  exact hrun (C11_conforms_sub_root_cut fs sub inputsFull inputs ui S auto hconf hcomp hprep hex hroot hin hres)

/-! ### non-vacuity -/

section Examples

private def pf (name : String) (params outputs : List String) (ms : Option MSpec := none) : MFunc :=
  { name := name, params := params.map fun p => (p, p), outputs := outputs, mapspec := ms, ret := none, internal := none,
    defaults := [], bound := [] }
private def ints (n : Nat) : List Val := (List.range n).map fun i => .int (Int.ofNat i)
private def mF : MFunc := pf "f" ["x"] ["y"] (some ⟨[⟨"x", [some "i"]⟩], [⟨"y", [some "i"]⟩]⟩)
private def mG : MFunc := pf "g" ["y"] ["z"] (some ⟨[⟨"y", [some "i"]⟩], [⟨"z", [some "i"]⟩]⟩)
/-- mapped: `x[i] → y[i]`, `y[i] → z[i]`, `z → s` -/
private def mp : List MFunc := [mF, mG, pf "h" ["z"] ["s"]]
private def mpIn : List (String × Val) := [("x", .arr [3] (ints 3))]
/-- the intermediate `y` provided as an array of its declared shape -/
private def inY : List (String × Val) := [("y", .arr [3] (ints 3))]

-- `C11_conforms_sub` / `C11_map_succeeds_valid` on an INTERIOR cut of a mapped pipeline: `z` from a provided `y`
example : ∃ r, mapSub mp inY [] (some ["z"]) false = .ok ([mG], r) :=
  (C11_map_succeeds_valid mp [mG] mpIn inY [] ["z"] false (by decide) ((computableB_iff ..).mp (by decide)) rfl (by decide)
    (by
      intro p hp _
      have : rootArgs [mG] = ["y"] := by decide
      rw [this, List.mem_singleton] at hp
      subst hp
      exact ⟨[3], by decide, by decide⟩)
    (by decide) (by decide)).1
-- the shape condition is a condition: a provided `y` of another length does not satisfy it
example : ¬ C01.RightShapes mp [mG] mpIn [("y", .arr [2] (ints 2))] [] := by
  intro h
  obtain ⟨sh, h1, h2⟩ := h "y" (by decide) (by decide)
  have e1 : sh = [2] := by
    have : (alookup ([("y", Val.arr [2] (ints 2))] ++ pdefaults [mG]) "y").bind shapeOf = some [2] := by decide
    rw [this] at h1; cases h1; rfl
  have e2 : alookup (C01.shapesOf (C01.declTbl mp mpIn [])) "y" = some [3] := by decide
  rw [e2, e1] at h2
  cases h2

-- `C11_conforms_sub_root_cut` / `C11_map_succeeds_root_cut`: `z` from the root `x`, `h` dropped
example : ∃ r, mapSub mp mpIn [] (some ["z"]) false = .ok ([mF, mG], r) :=
  C11_map_succeeds_root_cut mp [mF, mG] mpIn mpIn [] ["z"] false (by decide) ((computableB_iff ..).mp (by decide)) rfl (by decide)
    (by
      intro p hp
      have h1 : rootArgs [mF, mG] = ["x"] := by decide
      have h2 : rootArgs mp = ["x"] := by decide
      rw [h1] at hp; rw [h2]; exact hp)
    (fun _ h => h)
    (by
      intro p hp
      have h1 : rootArgs [mF, mG] = ["x"] := by decide
      rw [h1, List.mem_singleton] at hp
      subst hp
      rfl)

end Examples

end PF.C11
