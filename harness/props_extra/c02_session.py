"""C02 sessions: calls on ONE pipeline object interleaved with in-place edits through the public `update_*` methods.

A session = {"funcs": base description, "build": {"sig": bool, "order": [...] | None}, "steps": [step…]}; a step is
  {"k": "edit", "e": {"k": "member-defaults" | "member-bound" | "member-rename" | "pipe-defaults" | "pipe-rename", …}}   or
  {"k": "q", "entry": call|run|full|func|func_full|func_dict|callroot|noout|pfcall|argcombos|defaults, "out", "kw", "pos", "kind"}.
The real object is built once and every step is applied to it in order; the model is `PF.Pipe.cachedRun` (driver entry `session`,
lean/PfModel/Model/PipelineSession.lean), proved equal to the C02 model applied to the edited description (`C02_session_fresh`).
Every answer after an edit must be the answer of a freshly built pipeline over the edited functions.

The `Mirror` below follows the edits on the description for GENERATION only (which names exist, who has a default, what would
be a cycle); what is expected comes from Lean.  Edits stay inside the class the model covers: accepted edits that keep the pipeline
valid (unique outputs, acyclic, consistent defaults), plus unknown keys (refused before anything is assigned).  Output renames are
limited to single-output functions (the generated tuple functions return picks that carry the original output names).
"""
from __future__ import annotations

import copy

import pfimport  # noqa: F401
from pfimport import exc_enum

import pipegen
import terms

PIPE_ENTRY = {"call": "run", "run": "run", "full": "run", "func": "func", "func_full": "func", "func_dict": "func", "callroot": "callroot",
              "noout": "callleaf", "pfcall": "pfcall"}


# ------------------------------------------------------------------------------------------------ mirror (generation only)
class Mirror:
    def __init__(self, desc, sig):
        self.funcs = copy.deepcopy(desc["funcs"])
        # parameters whose default lives in `PipeFunc._defaults` (explicit `defaults=` or an earlier update_defaults): `update_bound`
        # on them is refused after the assignment (outside the modelled class)
        self.explicit = {f["name"]: (set() if sig else {d[0] for d in f["defaults"]}) for f in self.funcs}
        self.fresh_n = 0

    def desc(self):
        return {"funcs": self.funcs}

    def outputs(self):
        return [o for f in self.funcs for o in f["outputs"]]

    def names(self, f):
        return [p for p, _ in f["params"]] + list(f["outputs"])

    def roots(self):
        outs = set(self.outputs())
        return sorted({p for f in self.funcs for p, _ in f["params"] if p not in outs and p not in [b[0] for b in f["bound"]]})

    def users(self, p):
        """functions taking `p` without binding it"""
        return [f for f in self.funcs if p in [q for q, _ in f["params"]] and p not in [b[0] for b in f["bound"]]]

    def pipeline_default(self, p):
        for f in self.users(p):
            for k, v in f["defaults"]:
                if k == p:
                    return v
        return None

    def defaulted_roots(self):
        return [p for p in self.roots() if self.pipeline_default(p) is not None]

    def downstream(self, f):
        out, todo = [], [f]
        while todo:
            g = todo.pop()
            for h in self.funcs:
                if h is not f and h not in out and any(p in g["outputs"] and p not in [b[0] for b in h["bound"]] for p, _ in h["params"]):
                    out.append(h); todo.append(h)
        return out

    def fresh(self):
        self.fresh_n += 1
        return f"zr{self.fresh_n}"

    @staticmethod
    def _set(lst, k, v):
        for kv in lst:
            if kv[0] == k:
                kv[1] = v
                return
        lst.append([k, v])

    def _rename(self, f, old, new):
        r = lambda x: new if x == old else x  # noqa: E731
        f["params"] = [[r(p), o] for p, o in f["params"]]
        f["outputs"] = [r(o) for o in f["outputs"]]
        f["defaults"] = [[r(k), v] for k, v in f["defaults"]]
        f["bound"] = [[r(k), v] for k, v in f["bound"]]
        self.explicit[f["name"]] = {r(k) for k in self.explicit[f["name"]]}

    def apply(self, ed):
        k = ed["k"]
        by = {f["name"]: f for f in self.funcs}
        if k == "member-defaults":
            self._set(by[ed["fn"]]["defaults"], ed["p"], ed["v"]); self.explicit[ed["fn"]].add(ed["p"])
        elif k == "member-bound":
            self._set(by[ed["fn"]]["bound"], ed["p"], ed["v"])
        elif k == "member-rename":
            self._rename(by[ed["fn"]], ed["old"], ed["new"])
        elif k == "pipe-defaults":
            for f in self.users(ed["p"]):
                self._set(f["defaults"], ed["p"], ed["v"]); self.explicit[f["name"]].add(ed["p"])
        elif k == "pipe-rename":
            for f in self.funcs:
                if ed["old"] in self.names(f):
                    self._rename(f, ed["old"], ed["new"])


def gen_edits(rng, m, n_val, ctx):
    """a list of edits (applied without a call in between) that keeps the pipeline inside the class, with its operator name; or None"""
    val = lambda tag: {"s": f"edit{n_val}:{tag}"}  # noqa: E731
    kind = rng.choice(["member-default", "member-default", "member-default", "member-default-new", "pipe-default", "pipe-default",
                       "member-bound", "member-bound", "rename-param-fresh", "rename-param-root", "rename-param-output", "rename-output",
                       "pipe-rename", "unknown-key"])
    f = rng.choice(m.funcs)
    params = [p for p, _ in f["params"]]
    bound = [b[0] for b in f["bound"]]
    outs = set(m.outputs())
    if kind in ("member-default", "member-default-new"):
        # a root parameter: every function sharing it gets the same value, member by member (consistent when the next call comes)
        cands = [p for p in params if p not in bound and p not in outs]
        if kind == "member-default-new":
            cands = [p for p in cands if m.pipeline_default(p) is None]
        if not cands:
            return None
        p = rng.choice(cands)
        users = m.users(p)
        rng.shuffle(users)
        v = val(p)
        return kind + (":shared" if len(users) > 1 else ""), [{"k": "member-defaults", "fn": u["name"], "p": p, "v": v} for u in users]
    if kind == "pipe-default":
        roots = m.roots()
        if not roots:
            return None
        p = rng.choice(roots)
        return kind, [{"k": "pipe-defaults", "p": p, "v": val(p)}]
    if kind == "member-bound":
        cands = [p for p in params if p not in m.explicit[f["name"]]]
        if not cands:
            return None
        p = rng.choice(cands)
        tag = "over-output" if p in outs else ("over-default" if any(d[0] == p for d in f["defaults"]) else "root")
        if tag == "root" and p not in bound:
            # the others sharing `p` keep their defaults; consistent as before
            pass
        return f"{kind}:{tag}", [{"k": "member-bound", "fn": f["name"], "p": p, "v": val(p + ":bound")}]
    if kind.startswith("rename-param"):
        if not params:
            return None
        p = rng.choice(params)
        has_default = any(d[0] == p for d in f["defaults"])
        if kind == "rename-param-fresh":
            new = m.fresh()
        elif kind == "rename-param-root":
            cands = [r for r in m.roots() if r not in m.names(f) and (not has_default or m.pipeline_default(r) is None)]
            if not cands:
                return None
            new = rng.choice(cands)
            if has_default and p not in bound and len(m.users(new)) > 0 and m.pipeline_default(new) is None:
                pass    # `new` gets f's default for everybody: one default only, consistent
        else:
            down = m.downstream(f)
            cands = [o for g in m.funcs if g is not f and g not in down for o in g["outputs"] if o not in m.names(f)]
            if not cands:
                return None
            new = rng.choice(cands)
        return kind, [{"k": "member-rename", "fn": f["name"], "old": p, "new": new}]
    if kind == "rename-output":
        if len(f["outputs"]) != 1:
            return None
        return kind, [{"k": "member-rename", "fn": f["name"], "old": f["outputs"][0], "new": m.fresh()}]
    if kind == "pipe-rename":
        tuple_outs = {o for g in m.funcs if len(g["outputs"]) > 1 for o in g["outputs"]}
        cands = sorted({x for g in m.funcs for x in m.names(g)} - tuple_outs)
        if not cands:
            return None
        return kind, [{"k": "pipe-rename", "old": rng.choice(cands), "new": m.fresh()}]
    if kind == "unknown-key":
        k = rng.choice(["member-defaults", "member-bound", "member-rename", "pipe-defaults", "pipe-rename"])
        if k == "member-rename":
            return kind, [{"k": k, "fn": f["name"], "old": "zq", "new": "zz"}]
        if k == "pipe-rename":
            return kind, [{"k": k, "old": "zq", "new": "zz"}]
        if k == "pipe-defaults":
            return kind, [{"k": k, "p": "zq", "v": val("zq")}]
        return kind, [{"k": k, "fn": f["name"], "p": "zq", "v": val("zq")}]
    return None


# ------------------------------------------------------------------------------------------------ the implementation side
def _member(p, fn):
    for f in p.functions:
        if f.__name__ == fn:
            return f
    raise KeyError(fn)


def apply_edit(p, ed):
    k = ed["k"]
    try:
        if k == "member-defaults":
            pipegen.quiet(_member(p, ed["fn"]).update_defaults, {ed["p"]: terms.dec(ed["v"])})
        elif k == "member-bound":
            pipegen.quiet(_member(p, ed["fn"]).update_bound, {ed["p"]: terms.dec(ed["v"])})
        elif k == "member-rename":
            pipegen.quiet(_member(p, ed["fn"]).update_renames, {ed["old"]: ed["new"]})
        elif k == "pipe-defaults":
            pipegen.quiet(p.update_defaults, {ed["p"]: terms.dec(ed["v"])})
        elif k == "pipe-rename":
            pipegen.quiet(p.update_renames, {ed["old"]: ed["new"]})
        else:
            raise AssertionError(k)
    except Exception as e:  # noqa: BLE001
        return {"err": exc_enum(e)}
    return {"edit": "ok"}


def query_impl(c02, p, log, q):
    entry = q["entry"]
    if entry == "argcombos":
        try:
            return {"combos": sorted(sorted(c) for c in p.arg_combinations(q["out"])), "root_args": sorted(p.root_args(q["out"]))}
        except Exception as e:  # noqa: BLE001
            return {"err": exc_enum(e)}
    if entry == "defaults":
        try:
            return {"table": sorted([[k, c02.enc(v)] for k, v in p.defaults.items()], key=lambda kv: kv[0])}
        except Exception as e:  # noqa: BLE001
            return {"err": exc_enum(e)}
    return c02.call_impl(p, log, entry, q["out"], q["kw"], q.get("pos"))


def model_step(st):
    if st["k"] == "edit":
        return st
    entry = st["entry"]
    if entry in ("argcombos", "defaults"):
        return {"k": "q", "m": entry, "a": {"out": st.get("out")}}
    a = {"kw": st["kw"]}
    if entry != "noout":
        a["out"] = st["out"]
    if entry == "callroot":
        a["pos"] = st.get("pos", [])
    return {"k": "q", "m": PIPE_ENTRY[entry], "a": a}


def model_request(sess):
    return {"m": "session", "a": {"funcs": sess["funcs"], "steps": [model_step(st) for st in sess["steps"]]}}


# ------------------------------------------------------------------------------------------------ one session: generated while it runs
def queries_for(c02, ctx, rng, m, p, n):
    """up to `n` call cases on the object as it is now (arguments from the REAL arg_combinations/root_args, like the main stream), the
    defaulted root arguments omitted at random; plus the bookkeeping queries"""
    cases = [c for c in c02.cases_for(ctx, m.desc(), rng, p, max_combos=3) if c["entry"] in PIPE_ENTRY and c["kind"] != "getitem-unknown"]
    rng.shuffle(cases)
    # two thirds of the calls are ones that must be accepted (their values are what an edit changes)
    good = [c for c in cases if c["kind"] in c02.OK_KINDS or c["kind"] == "noout"]
    bad = [c for c in cases if c not in good]
    k_good = min(len(good), (2 * n + 2) // 3)
    cases = good[:k_good] + bad[: n - k_good]
    dflt = set(m.defaulted_roots())
    out = []
    for c in cases[:n]:
        c = dict(c)
        if c["kind"] in ("listed", "tuple-request", "func-each-output", "noout") and dflt:
            kw = [kv for kv in c["kw"] if not (kv[0] in dflt and rng.random() < 0.6)]
            if len(kw) != len(c["kw"]):
                c["kw"] = kw
                c["kind"] += "+defaults-omitted"          # still a combination that must be accepted
        out.append({"k": "q", **c})
    outs = m.outputs()
    if outs:
        out.append({"k": "q", "entry": "argcombos", "out": rng.choice(outs), "kw": None, "kind": "argcombos"})
    if rng.random() < 0.5:
        out.append({"k": "q", "entry": "defaults", "out": None, "kw": None, "kind": "defaults"})
    rng.shuffle(out)
    return out


def run_session(c02, ctx, rng, desc, rounds=None, per_round=5):
    """build the object once, generate and apply the steps; returns (session, observations)"""
    sig = rng.random() < 0.5
    n = len(desc["funcs"])
    order = None
    if n > 1 and rng.random() < 0.5:
        order = list(range(n)); rng.shuffle(order)
    p, log = pipegen.build(desc, order=order, defaults_in_signature=sig)
    m = Mirror(desc, sig)
    sess = {"session": True, "funcs": copy.deepcopy(desc["funcs"]), "build": {"sig": sig, "order": order}, "steps": [], "ops": []}
    obs = []
    rounds = rounds or rng.randint(2, 4)
    cold = rng.random() < 0.15          # no call before the first edit (the tables are still empty)
    for r in range(rounds + 1):
        if r > 0:
            g = None
            for _ in range(4):
                g = gen_edits(rng, m, r, ctx)
                if g is not None:
                    break
            if g is None:
                break
            op, eds = g
            sess["ops"].append(op)
            for ed in eds:
                sess["steps"].append({"k": "edit", "e": ed})
                ob = apply_edit(p, ed)
                obs.append(ob)
                if "err" not in ob:
                    m.apply(ed)
        if r == 0 and cold:
            continue
        for q in queries_for(c02, ctx, rng, m, p, per_round):
            sess["steps"].append(q)
            obs.append(query_impl(c02, p, log, q))
    return sess, obs


def replay_impl(c02, sess):
    """the recorded steps on a newly built object"""
    p, log = pipegen.build({"funcs": sess["funcs"]}, order=sess["build"]["order"], defaults_in_signature=sess["build"]["sig"])
    obs = []
    for st in sess["steps"]:
        obs.append(apply_edit(p, st["e"]) if st["k"] == "edit" else query_impl(c02, p, log, st))
    return obs


# ------------------------------------------------------------------------------------------------ verdict
def _model_obs(c02, st, a):
    entry = st["entry"]
    if "err" in a:
        return {"err": a["err"]}
    if entry == "argcombos":
        return {"combos": sorted(sorted(c) for c in (a["combos"] or [])), "root_args": sorted(a["root_args"] or [])}
    if entry == "defaults":
        return {"table": sorted([[k, c02.canon(v)] for k, v in a["table"]], key=lambda kv: kv[0])}
    o = {"value": c02.canon(a["value"])}
    if entry in ("full", "func_full"):
        o["full"] = sorted([[k, c02.canon(v)] for k, v in a["full_cf" if entry == "func_full" else "full"]], key=lambda kv: kv[0])
    o["calls"] = a.get("calls", None)
    return o


def judge(c02, ctx, sess, obs, resp):
    answers = resp["r"]["answers"]
    n_edits = 0
    ctx.count(f"session:build:{'signature-defaults' if sess['build']['sig'] else 'PipeFunc-defaults'}:{'permuted' if sess['build']['order'] else 'listed'}")
    for op in sess["ops"]:
        ctx.count(f"session:op:{op}")
    for i, (st, ob, a) in enumerate(zip(sess["steps"], obs, answers)):
        case = {**sess, "steps": sess["steps"][: i + 1]}
        if st["k"] == "edit":
            n_edits += 1
            if a.get("outside") or a.get("names_ok") is False or a.get("why") == "noMember":
                ctx.count("session:generator-left-the-modelled-class")     # not judged further (should not happen)
                return
            ctx.count(f"session:edit:{st['e']['k']}:{'refused' if 'err' in a else 'accepted'}")
            if ("err" in ob) != ("err" in a) or ("err" in a and ob["err"] != a["err"]):
                ctx.violation(case, f"in-place edit {st['e']['k']} {'refused' if 'err' in ob else 'accepted'} by the implementation "
                                    f"({ob.get('err', 'ok')}), model: {a.get('err', 'ok')}", found_input=False,
                              item="correspondence:session-edit", impl=ob, model=a)
                return
            continue
        entry, kind = st["entry"], st["kind"]
        model = _model_obs(c02, st, a)
        after = "after-edit" if n_edits else "before-edit"
        ctx.count(f"session:q:{entry}:{after}")
        ctx.record({"session": sess["funcs"], "build": sess["build"], "steps": sess["steps"][: i + 1]}, nontrivial=n_edits > 0)
        what = None
        where = f"step {i} ({entry}, {kind}) after {n_edits} in-place edit(s) {sess['ops'][:n_edits]}"
        corr = {}
        if entry in ("argcombos", "defaults", "pfcall"):
            corr = {"found_input": False, "item": f"correspondence:session-{entry}"}
        if entry == "argcombos" or entry == "defaults":
            if ob != model:
                what = f"{'arg_combinations/root_args' if entry == 'argcombos' else 'Pipeline.defaults'} differ from a fresh pipeline over the edited functions; {where}"
        elif ("err" in ob) != ("err" in model):
            ok_kind = kind.split("+")[0] in c02.OK_KINDS or kind.split("+")[0] == "noout" and "err" not in model
            if "err" in ob and ok_kind and entry != "pfcall":
                what = f"argument combination the edited pipeline must accept is rejected ({ob['err']}); {where}"
                corr = {}
            else:
                what = (f"request {'rejected' if 'err' in ob else 'accepted'} ({ob.get('err', 'ok')}) but a fresh pipeline over the edited functions "
                        f"{'accepts' if 'err' in ob else 'rejects'} it ({model.get('err', 'ok')}); {where}")
        elif "err" in ob:
            ctx.count(f"session:err:{kind.split('+')[0]}")
        elif ob["value"] != model["value"]:
            what = f"value differs from the composition over the edited functions (a freshly built pipeline); {where}"
        elif model.get("calls") is not None and sorted(ob["calls"]) != sorted(model["calls"]):
            what = f"functions executed {sorted(ob['calls'])} instead of {sorted(model['calls'])}; {where}"
        elif "full" in model and ob.get("full") != model["full"]:
            what = f"full_output is not the memo of the evaluation over the edited functions; {where}"
        if what is None and "err" not in ob and entry not in ("argcombos", "defaults"):
            ctx.count(f"session:ok:{kind}")
        if what:
            ctx.violation(case, what, impl=ob, model=model, **corr)
            return                       # later steps of a diverged session are not independent evidence


# ------------------------------------------------------------------------------------------------ corpus
def _f(name, params, outs, defaults=(), bound=()):
    return {"name": name, "params": [[p, p] for p in params], "outputs": list(outs),
            "defaults": [[p, {"s": f"dflt:{p}"}] for p in defaults], "bound": [[p, {"s": f"bound:{p}"}] for p in bound]}


def _q(entry, out, kw, kind="listed", pos=None):
    q = {"k": "q", "entry": entry, "out": out, "kw": [[k, {"s": f"kw:{k}"}] for k in kw], "kind": kind}
    if pos is not None:
        q["pos"] = pos
    return q


_DEMO = [_f("f", ["a", "b"], ["y"], ["b"]), _f("g", ["y", "c"], ["z"], ["c"]), _f("h", ["y", "b", "d"], ["w"]), _f("top", ["z", "w"], ["out"])]
CORPUS = [
    # seeded C02-s4-A: call, change a default on the MEMBER (shared `b`: both users), call again omitting it; then a parameter without a
    # default gets one (`d`) and must be omittable
    {"session": True, "funcs": _DEMO, "build": {"sig": True, "order": None}, "ops": ["member-default:shared", "member-default-new"], "steps": [
        _q("call", "out", ["a", "d"]), _q("defaults", None, [], "defaults"),
        {"k": "edit", "e": {"k": "member-defaults", "fn": "f", "p": "b", "v": {"s": "edit1:b"}}},
        {"k": "edit", "e": {"k": "member-defaults", "fn": "h", "p": "b", "v": {"s": "edit1:b"}}},
        _q("call", "out", ["a", "d"]), _q("run", "w", ["a", "d"]), _q("func", "out", ["a", "d"]), _q("full", "out", ["a", "d"]),
        _q("defaults", None, [], "defaults"),
        {"k": "edit", "e": {"k": "member-defaults", "fn": "h", "p": "d", "v": {"s": "edit2:d"}}},
        _q("call", "out", ["a"]), _q("callroot", "out", [], "root-bad:missing", pos=[{"s": "kw:a"}]), _q("func_full", "w", ["a"])]},
    # the same with the defaults given to PipeFunc(defaults=…), the functions listed in reverse, and a bound value put over an upstream output
    {"session": True, "funcs": _DEMO, "build": {"sig": False, "order": [3, 2, 1, 0]}, "ops": ["pipe-default", "member-bound:over-output", "rename-output"], "steps": [
        _q("func", "out", ["a", "d"]), _q("argcombos", "out", [], "argcombos"),
        {"k": "edit", "e": {"k": "pipe-defaults", "p": "b", "v": {"s": "edit1:b"}}},
        _q("func", "out", ["a", "d"]), _q("call", "w", ["y", "d"]),
        {"k": "edit", "e": {"k": "member-bound", "fn": "top", "p": "w", "v": {"s": "edit2:w"}}},
        _q("argcombos", "out", [], "argcombos"), _q("call", "out", ["a"]), _q("func", "out", ["a"]), _q("call", "out", ["a", "d"], "surplus"),
        {"k": "edit", "e": {"k": "member-rename", "fn": "f", "old": "y", "new": "zr1"}},
        _q("argcombos", "out", [], "argcombos"), _q("call", "out", ["y"]), _q("call", "zr1", ["a"]), _q("call", "out", ["a"], "missing")]},
]
