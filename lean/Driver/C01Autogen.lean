import PfModel.DriverVal
import PfModel.Model.MapAutogen
/-! Driver for the MapSpec autogeneration at `Pipeline` construction (`PF.MapAutogen.construct`, the function the
    `C01_autogen_*` theorems are about through `C01_autogen_construct`).  Entry "autogen": {"funcs": [...]} in the order the functions
    are added, the functions whose MapSpec is to be generated carry `"mapspec": null`. -/
open Lean PF PF.Drv PF.Map

def getASpec (j : Json) : R ASpec := do
  let (n, ax) ← asPair asStr (asList (asOpt asStr)) j
  return { name := n, axes := ax }

def getMSpec (j : Json) : R MSpec := do
  return { inputs := ← listF getASpec j "inputs", outputs := ← listF getASpec j "outputs" }

def getMFunc (j : Json) : R MFunc := do
  return { name := ← strF j "name", params := ← listF (asPair asStr asStr) j "params", outputs := ← listF asStr j "outputs",
           mapspec := ← optF getMSpec j "mapspec", ret := ← optF (asList asNat) j "ret", internal := ← optF (asList asNat) j "internal",
           defaults := (← optF getKw j "defaults").getD [], bound := (← optF getKw j "bound").getD [] }

def errName : PF.Map.Err → String
  | .value _ => "ValueError" | .type _ => "TypeError" | .index _ => "IndexError" | .key _ => "KeyError" | .fuel => "RecursionError"

def jASpec (a : ASpec) : Json := jArr [jStr a.name, jList (jOpt jStr) a.axes]

def jMSpec (ms : MSpec) : Json := jObj [("inputs", jList jASpec ms.inputs), ("outputs", jList jASpec ms.outputs)]

def handle (m : String) (a : Json) : R Json := do
  match m with
  | "autogen" =>
    let fs ← listF getMFunc a "funcs"
    match PF.MapAutogen.construct fs with
    | .error e => return jObj [("ok", jBool false), ("err", jStr (errName e))]
    | .ok fs' =>
      -- the table of the final run, to tell the harness where Python's set order decides (`ambiguous`)
      let amb := match PF.MapAutogen.finalTbl fs with
        | .ok t => (fs.filter (PF.MapAutogen.ambiguous t)).map (·.name)
        | .error _ => []
      return jObj [("ok", jBool true), ("mapspecs", jList (fun f => jArr [jStr f.name, jOpt jMSpec f.mapspec]) fs'),
                   ("ambiguous", jList jStr amb)]
  | _ => .error s!"unknown entry {m}"

def main : IO Unit := loop handle
