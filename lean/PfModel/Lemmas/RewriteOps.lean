import PfModel.Model.RewriteOps
import PfModel.Lemmas.RewriteSub
/-! Lemmas for `Model/RewriteOps.lean`: evaluation in a filtered pipeline (drop / replace) on a cone that avoids what was removed. -/
namespace PF.Rw
open PF PF.Pipe

/-- removing functions (`fs.filter P`) does not change the evaluation of any output whose cone `C` (closed under "is a
    parameter of the producer") contains no output and no default of a removed function -/
theorem eval_filter_cone (fs : List RFunc) (P : RFunc → Bool) (kw : List (String × Val)) (C : String → Prop)
    (hc : ConsistentDefaults (cores fs))
    (hclosed : ∀ x f, C x → rproducer fs x = some f → ∀ p ∈ f.core.params, C p.1)
    (hfree : ∀ x, C x → ∀ g ∈ fs, P g = false → x ∉ g.core.outputs ∧ ∀ v, (x, v) ∉ g.core.defaults) :
    ∀ (n : Nat) (o : String), C o → eval (fs.filter P) kw n o = eval fs kw n o := by
  have hprod : ∀ x, C x → rproducer (fs.filter P) x = rproducer fs x := by
    intro x hx
    unfold rproducer
    apply find?_filter_of
    intro a ha hq
    cases hP : P a with
    | true => rfl
    | false => exact absurd (by simpa using hq) (hfree x hx a ha hP).1
  have hc0 : ConsistentDefaults (cores (fs.filter P)) := by
    apply consistent_sublist _ _ _ hc
    intro g hg
    obtain ⟨f, hf, rfl⟩ := List.mem_map.mp hg
    exact List.mem_map.mpr ⟨f, (List.mem_filter.mp hf).1, rfl⟩
  apply eval_cone fs (fs.filter P) kw C hprod
  · intro x f hx hf p hpm
    have hCp := hclosed x f hx hf p hpm
    have hprod' : producer (cores (fs.filter P)) p.1 = producer (cores fs) p.1 := by
      rw [producer_cores, producer_cores, hprod p.1 hCp]
    have hdef : pdefault (cores (fs.filter P)) p.1 = pdefault (cores fs) p.1 := by
      apply pdefault_eq_of _ _ hc hc0
      intro v
      rw [mem_pdefaults, mem_pdefaults, hprod']
      constructor
      · rintro ⟨c, hcm, a, b, d⟩
        obtain ⟨f', hf', rfl⟩ := List.mem_map.mp hcm
        exact ⟨f'.core, List.mem_map.mpr ⟨f', (List.mem_filter.mp hf').1, rfl⟩, a, b, d⟩
      · rintro ⟨c, hcm, a, b, d⟩
        obtain ⟨f', hf', rfl⟩ := List.mem_map.mp hcm
        cases hP : P f' with
        | true => exact ⟨f'.core, List.mem_map.mpr ⟨f', List.mem_filter.mpr ⟨hf', hP⟩, rfl⟩, a, b, d⟩
        | false => exact absurd a ((hfree p.1 hCp f' hf' hP).2 v)
    unfold resolve
    simp only [hprod', hdef]
  · intro x f hx hf p hpm _
    exact hclosed x f hx hf p hpm

theorem validateP_ok (fs r : List RFunc) (h : validateP fs = .ok r) : r = fs := by
  unfold validateP at h
  split at h
  · cases h
  · split at h
    · cases h
    · injection h with h; exact h.symm

theorem pick_subset (s : Sel) (u : List String) (n : String) (h : n ∈ s.pick u) : n ∈ u := by
  cases s with
  | none => simp [Sel.pick] at h
  | all => exact h
  | names l =>
    simp only [Sel.pick, List.mem_filter, List.contains_eq_mem, decide_eq_true_eq] at h
    exact h.2

end PF.Rw
