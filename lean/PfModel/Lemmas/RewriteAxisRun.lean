import PfModel.Lemmas.RewriteAxisShape
/-!
`add_mapspec_axis` on a pipeline without prior MapSpecs (part 3): one function of the lifted pipeline, run on an array of `K`
variants of `p`, against the `K` runs of the original function, one per variant.
-/
namespace PF.Rw.Ax
open PF PF.Map PF.C01

/-! ### generic helpers -/

theorem mapM_congr_mem {α β : Type} (f g : α → M β) : ∀ (l : List α), (∀ a ∈ l, f a = g a) → l.mapM f = l.mapM g := by
  intro l
  induction l with
  | nil => intro _; rfl
  | cons a as ih =>
    intro h
    rw [List.mapM_cons, List.mapM_cons, h a List.mem_cons_self, ih (fun x hx => h x (List.mem_cons_of_mem _ hx))]

theorem mapM_ok_map {α β : Type} (f : α → M β) (g : α → β) : ∀ (l : List α), (∀ a ∈ l, f a = .ok (g a)) → l.mapM f = .ok (l.map g) := by
  intro l
  induction l with
  | nil => intro _; rfl
  | cons a as ih =>
    intro h
    rw [List.mapM_cons, h a List.mem_cons_self, ih (fun x hx => h x (List.mem_cons_of_mem _ hx))]
    rfl

theorem alookup_map_fn {β : Type} (os : List String) (F : String → β) (x : String) :
    alookup (os.map fun o => (o, F o)) x = if x ∈ os then some (F x) else none := by
  induction os with
  | nil => simp [alookup]
  | cons a as ih =>
    simp only [List.map_cons, alookup, List.mem_cons]
    by_cases h : a = x
    · simp [h]
    · have h' : ¬ x = a := fun e => h e.symm
      simp [h, h', ih]

theorem range_map_getD (vs : List Val) (d : Val) : (List.range vs.length).map (fun n => vs.getD n d) = vs := by
  apply List.ext_getElem
  · simp
  · intro i h1 h2
    simp only [List.length_map, List.length_range] at h1
    simp [List.getD, List.getElem?_eq_getElem h1]

/-- the values a store holds -/
def tv (st : List (String × Slot)) : List (String × Val) := st.map fun e => (e.1, e.2.toVal)

theorem alookup_tv (st : List (String × Slot)) (x : String) : alookup (tv st) x = (alookup st x).map Slot.toVal := by
  induction st with
  | nil => rfl
  | cons e es ih =>
    obtain ⟨k, s⟩ := e
    simp only [tv, List.map_cons, alookup] at ih ⊢
    split
    · rfl
    · exact ih

theorem tv_append (a b : List (String × Slot)) : tv (a ++ b) = tv a ++ tv b := by simp [tv]

/-! ### indexing arrays of `K` elements -/

theorem shapeToKey_one (K li : Nat) (h : li < K) : shapeToKey [K] li = [li] := by
  simp [shapeToKey, strides, prod, Nat.mod_eq_of_lt h]

theorem ravel_one (K i : Nat) : ravel [K] [i] = i := by simp [ravel, prod]

theorem allIdx_one (K : Nat) : allIdx [K] = (List.range K).map fun i => [i] := by
  simp only [allIdx, List.map_cons, List.map_nil]
  induction (List.range K) with
  | nil => rfl
  | cons a as ih => simp [List.flatMap_cons, ih]

theorem indexVal_one (K : Nat) (es : List Val) (n : Nat) (hn : n < es.length) :
    indexVal (.arr [K] es) [some n] = some (es.getD n .none) := by
  simp only [indexVal, List.length_cons, List.length_nil, ne_eq, not_true_eq_false, ↓reduceIte, List.all_cons, Option.isSome_some,
    List.all_nil, Bool.and_self, fillKey, ravel_one]
  simp [List.getD, List.getElem?_eq_getElem hn]

/-- the denotation of an output mapped along one external axis of size `K`: the `K` results -/
theorem denoteArray_one (f : MFunc) (K : Nat) (args : Nat → List (String × Val)) (o : String) :
    denoteArray f [K] [true] args o = .arr [K] ((List.range K).map fun i => outVal f (args i) o) := by
  unfold denoteArray
  simp only [allIdx_one, List.map_map]
  congr 1
  apply List.map_congr_left
  intro i _
  simp [elemAt, extOf, intOf, ravel_one]

/-! ### lifted values against the `K` pointwise values -/

section rel
variable (τ : List String → Option MSpec) (gs : List MFunc) (K : Nat)

/-- the values of the lifted run against those of the `K` runs, name by name: a lifted name holds the array of the `K` values,
    any other name holds the same value as in each of the runs -/
structure VRel (l' : List (String × Val)) (ls : Nat → List (String × Val)) : Prop where
  pres : ∀ x n, n < K → (alookup l' x).isSome = (alookup (ls n) x).isSome
  lifted : ∀ x, isL τ gs x = true → ∀ v', alookup l' x = some v' →
    v' = .arr [K] ((List.range K).map fun n => (alookup (ls n) x).getD .none)
  same : ∀ x, isL τ gs x = false → ∀ n, n < K → alookup l' x = alookup (ls n) x

theorem VRel.nil : VRel τ gs K [] (fun _ => []) :=
  ⟨fun _ _ _ => rfl, fun _ _ _ h => by simp [alookup] at h, fun _ _ _ _ => rfl⟩

theorem VRel.append {a' b' : List (String × Val)} {as bs : Nat → List (String × Val)}
    (ha : VRel τ gs K a' as) (hb : VRel τ gs K b' bs) : VRel τ gs K (a' ++ b') (fun n => as n ++ bs n) := by
  refine ⟨?_, ?_, ?_⟩
  · intro x n hn
    have h1 := ha.pres x n hn
    have h2 := hb.pres x n hn
    simp only [alookup_append]
    cases h : alookup a' x <;> cases h' : alookup (as n) x <;> simp_all
  · intro x hx v' hv
    simp only [alookup_append] at hv ⊢
    cases h : alookup a' x with
    | some w =>
      have hw : w = v' := by rw [h] at hv; injection hv
      subst hw
      rw [ha.lifted x hx w h]
      congr 1
      apply List.map_congr_left
      intro n hn
      have := ha.pres x n (List.mem_range.mp hn)
      rw [h] at this
      cases h' : alookup (as n) x with
      | none => rw [h'] at this; cases this
      | some u => rfl
    | none =>
      rw [h] at hv
      rw [hb.lifted x hx v' hv]
      congr 1
      apply List.map_congr_left
      intro n hn
      have := ha.pres x n (List.mem_range.mp hn)
      rw [h] at this
      cases h' : alookup (as n) x with
      | none => rfl
      | some u => rw [h'] at this; cases this
  · intro x hx n hn
    simp only [alookup_append]
    rw [ha.same x hx n hn, hb.same x hx n hn]

end rel

end PF.Rw.Ax
