/-
C11, round 3: the DECIDABLE mirror of "S is computable from I" (`PF.Sub.Computable`, `Lemmas/SubPipeComputable.lean`), read over the
FULL pipeline — what the driver answers for the harness's `pipe.computable` / `map.computable` requests — and the exact list of
over-provided names of a `map` request (`_validate_complete_inputs`, `pipefunc/map/_prepare.py:133-149`, second test).
Core Lean only.
-/
import PfModel.Model.SubPipe
namespace PF.Sub
open PF

section generic
variable {α : Type} (nd : α → Node)

/-- positions of the needed functions: the backward worklist from the producers of `S` over edges not cut by `inp`
    (`_find_nodes_between`, `_base.py`, repaired) -/
def neededIdx (fs : List α) (inp S : List String) : List Nat :=
  (reachSet (predsIdx nd fs (cutOf (some inp))) (S.filterMap (prodIdx nd fs))
    (fuelFor nd fs (S.filterMap (prodIdx nd fs)).length)).getD []

/-- the needed functions, in pipeline order -/
def neededFns (fs : List α) (inp S : List String) : List α := keepFrom (neededIdx nd fs inp S) 0 fs

/-- the names the request lacks: non-bound parameters of needed functions that are not provided, that NO function of the pipeline
    produces, and that no needed function defaults -/
def lackingNames (fs : List α) (inp S : List String) : List String :=
  ((neededFns nd fs inp S).flatMap fun f => (nd f).deps.filter fun p =>
    !inp.contains p && !(fs.any fun g => (nd g).outputs.contains p) &&
    !((neededFns nd fs inp S).any fun g => (nd g).dflt.contains p)).eraseDups

/-- requested names that are no output of the pipeline -/
def unknownOutputs (fs : List α) (S : List String) : List String :=
  S.filter fun o => !(fs.any fun g => (nd g).outputs.contains o)

/-- **S is computable from `inp`**, decided -/
def computableB (fs : List α) (inp S : List String) : Bool :=
  (unknownOutputs nd fs S).isEmpty && (lackingNames nd fs inp S).isEmpty

end generic

/-- the over-provided names of a `map` request on the (partial) pipeline `sub`: provided names and defaults of `sub` that are no
    root argument of `sub` (`_validate_complete_inputs`: `set(inputs) | set(pipeline.defaults) - root_args`) -/
def extras (sub : List Map.MFunc) (inputs : List (String × Val)) : List String :=
  (akeys inputs ++ akeys (Map.pdefaults sub)).filter fun r => !((Map.rootArgs sub).contains r)


/-- `run_map` with only the FIRST test of `_validate_complete_inputs` (nothing missing): the other admissible behaviour for an
    over-provided request — answer it.  Everything after the validation is `PF.Map.runMapWith` verbatim; a provided name wins over
    a stored output in `_func_kwargs` (`argWhole`), so an over-provided intermediate is substituted. -/
def runMapLenient (arr : Map.MFunc → List Nat → List Bool → (Nat → List (String × Val)) → String → Val)
    (fs : List Map.MFunc) (inputs : List (String × Val)) (userInternal : List (String × List Nat)) : Map.M Map.MapResult := do
  match (Map.rootArgs fs).filter (fun r => !((akeys inputs ++ akeys (Map.pdefaults fs)).contains r)) with
  | [] => pure ()
  | m :: _ => throw (.value s!"missing inputs: {m}")
  if (Map.generations fs).flatten.length ≠ fs.length then throw (.value "cyclic pipeline")
  let internal := Map.constructInternal fs userInternal
  let (shapes, masks) ← Map.mapShapes fs inputs internal
  let (rs, env) ← Map.runGensWith (Map.runFuncWith arr fs shapes masks) (Map.generations fs) { inputs := inputs, store := [] }
  return { outputs := rs.flatMap (·.outputs), stored := env.store.map fun (o, s) => (o, s.toVal), shapes := shapes, masks := masks,
           calls := rs.flatMap (·.calls), gens := (Map.generations fs).map fun g => g.map (·.name) }

/-- `map(inputs, output_names=S)` answering over-provided requests -/
def mapSubLenient (fs : List Map.MFunc) (inputs : List (String × Val)) (internal : List (String × List Nat))
    (S : Option (List String)) (auto : Bool) : Except PErr (List Map.MFunc × Map.MapResult) :=
  match prepare fs inputs S auto with
  | .error e => .error (.sub e)
  | .ok sub =>
    match runMapLenient Map.opArray sub inputs internal with
    | .error e => .error (.map e)
    | .ok r => .ok (sub, r)

end PF.Sub
