/-
Which raised objects pipefunc's `except Exception` sites see (C13, extension).

Mirrored code: `PipeFunc.__call__` (`pipefunc/_pipefunc.py:659-667`: `except Exception as e: … self.error_snapshot = ErrorSnapshot(…); raise`),
`_run_iteration` / `_execute_single` (`map/_run.py:466-472, 802-808`) and `_execute_func` (`_pipeline/_base.py:2076-2081`):
`except Exception as e: handle_error(e, func, kwargs)`.  A `BaseException` that is not an `Exception` (`KeyboardInterrupt`,
`SystemExit`, `GeneratorExit`, a user class deriving from `BaseException`) passes all of them untouched: no snapshot, no note;
everything else — `Future.result()`, leaving the generation loop and the executor's `with` block — is the same code path.
Core Lean only.
-/
import PfModel.Model.Errors
namespace PF.Errors
open PF

/-- what the caller observes: the exception, the note (function, keyword arguments) if one was added, the snapshot if one
    was stored -/
structure Surfaced where
  exn : Exn
  note : Option (String × List (String × Val))
  snap : Option Snapshot
  deriving Repr

/-- `isException x` = "`x`'s class derives from `Exception`".  `Raised` is what the `except Exception` sites *would* produce;
    for a `BaseException`-only class they are skipped. -/
def surface (isException : Exn → Bool) (r : Raised) : Surfaced :=
  if isException r.exn then { exn := r.exn, note := some (r.noteFunc, r.noteKw), snap := some r.snap }
  else { exn := r.exn, note := none, snap := none }

end PF.Errors
