#!/bin/sh
# MANIFEST.setup_cmd: build the Lean development (models, lemmas, property theorems, driver library) from files on disk.
set -e
cd "$(dirname "$0")"
# translators first: the Lean facts extracted from /repo's source (lean/PfModel/Generated) are regenerated from the tree as it is now
for p in $(grep -l "^def pre_build" harness/props/c*.py | sed 's#.*/c\([0-9]*\)\.py#C\1#'); do ./check "$p" --translate || true; done
cd lean
# a module proved against regenerated facts may not build on a modified tree: that is for the check of that property to report, not for setup
lake build 2>&1 | tail -5
# warm the driver interpreter (first load of Lean.Data.Json is slow)
echo '{"id":0,"m":"time","a":"00:10"}' | lake env lean --run Driver/C20.lean >/dev/null
echo "setup ok"
