import PfModel.Lemmas.ResourcesSlurm
/-!
C20 — `to_slurm_options` characterised exactly (not only "mentions"): which options appear (iff), with which values, how many, and in
which order.  `truthyI` / `truthyS`: a number counts as set when it is given and non-zero, a string when it is given and non-empty
(`if self.cpus:` …, `resources.py:193-207`; `gpus=0` prints nothing, DF-21 reading).
-/
namespace PF.C20
open PF.Res

/-- An option string is printed IFF it is the flag of a set quantity with that quantity's value, or `--key=value` of an `extra_args` entry:
    nothing else is ever printed, and nothing that is set is left out. -/
theorem C20_slurm_exact (r : R) (s : String) :
    s ∈ slurmOptions r ↔
      (∃ v, truthyI r.cpus = some v ∧ s = "--cpus-per-task=" ++ toString v) ∨
      (∃ v, truthyI r.gpus = some v ∧ s = "--gres=gpu:" ++ toString v) ∨
      (∃ v, truthyI r.nodes = some v ∧ s = "--nodes=" ++ toString v) ∨
      (∃ v, truthyI r.cpusPerNode = some v ∧ s = "--cpus-per-node=" ++ toString v) ∨
      (∃ v, truthyS r.memory = some v ∧ s = "--mem=" ++ v) ∨
      (∃ v, truthyS r.time = some v ∧ s = "--time=" ++ v) ∨
      (∃ v, truthyS r.partition = some v ∧ s = "--partition=" ++ v) ∨
      (∃ kv ∈ r.extra, s = "--" ++ kv.1 ++ "=" ++ toString kv.2) := by
  simp only [slurmOptions, List.mem_append, List.mem_map, mem_optI, mem_optS, or_assoc]
  constructor
  · rintro (h | h | h | h | h | h | h | ⟨kv, hkv, rfl⟩)
    · exact Or.inl h
    · exact Or.inr (Or.inl h)
    · exact Or.inr (Or.inr (Or.inl h))
    · exact Or.inr (Or.inr (Or.inr (Or.inl h)))
    · exact Or.inr (Or.inr (Or.inr (Or.inr (Or.inl h))))
    · exact Or.inr (Or.inr (Or.inr (Or.inr (Or.inr (Or.inl h)))))
    · exact Or.inr (Or.inr (Or.inr (Or.inr (Or.inr (Or.inr (Or.inl h))))))
    · exact Or.inr (Or.inr (Or.inr (Or.inr (Or.inr (Or.inr (Or.inr ⟨kv, hkv, rfl⟩))))))
  · rintro (h | h | h | h | h | h | h | ⟨kv, hkv, rfl⟩)
    · exact Or.inl h
    · exact Or.inr (Or.inl h)
    · exact Or.inr (Or.inr (Or.inl h))
    · exact Or.inr (Or.inr (Or.inr (Or.inl h)))
    · exact Or.inr (Or.inr (Or.inr (Or.inr (Or.inl h))))
    · exact Or.inr (Or.inr (Or.inr (Or.inr (Or.inr (Or.inl h)))))
    · exact Or.inr (Or.inr (Or.inr (Or.inr (Or.inr (Or.inr (Or.inl h))))))
    · exact Or.inr (Or.inr (Or.inr (Or.inr (Or.inr (Or.inr (Or.inr ⟨kv, hkv, rfl⟩))))))

/-- exactly one option per set quantity and one per `extra_args` entry (no duplicates, nothing dropped) -/
theorem C20_slurm_count (r : R) :
    (slurmOptions r).length =
      (if (truthyI r.cpus).isSome then 1 else 0) + (if (truthyI r.gpus).isSome then 1 else 0) +
      (if (truthyI r.nodes).isSome then 1 else 0) + (if (truthyI r.cpusPerNode).isSome then 1 else 0) +
      (if (truthyS r.memory).isSome then 1 else 0) + (if (truthyS r.time).isSome then 1 else 0) +
      (if (truthyS r.partition).isSome then 1 else 0) + r.extra.length := by
  simp only [slurmOptions, List.length_append, List.length_map, length_optI, length_optS]

/-- the order is fixed: cpus, gpus, nodes, cpus-per-node, mem, time, partition, then `extra_args` in insertion order; with every quantity
    set the output is exactly this string -/
theorem C20_slurm_order :
    toSlurm { nodes := some 2, cpusPerNode := some 4, gpus := some 1, memory := some "8GB", time := some "1:00:00",
              partition := some "p", extra := [("qos", 3), ("x", 0)] }
      = "--gres=gpu:1 --nodes=2 --cpus-per-node=4 --mem=8GB --time=1:00:00 --partition=p --qos=3 --x=0" ∧
    toSlurm { cpus := some 2, gpus := some 0 } = "--cpus-per-task=2" ∧ toSlurm {} = "" := by decide

end PF.C20
