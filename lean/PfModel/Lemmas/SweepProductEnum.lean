import PfModel.Lemmas.SweepProduct
/-! Lemmas for the *enumeration half* of the product clause of C17: the merged `items` / `dims` of `Sweep.product`
enumerate exactly the Cartesian product of the operands' raw combination lists (`rawList`). -/

namespace PF.Sweep

section Generic

theorem nodup_flatMap_of {α β : Type} (l : List α) (f : α → List β) (h1 : ∀ a ∈ l, (f a).Nodup)
    (h2 : l.Pairwise (fun a b => ∀ x ∈ f a, x ∉ f b)) : (l.flatMap f).Nodup := by
  unfold List.Nodup
  rw [List.pairwise_flatMap]
  refine ⟨h1, h2.imp ?_⟩
  intro a b hab x hx y hy e
  subst e
  exact hab x hx hy

theorem keys_flatMap {α β : Type} (l : List α) (f : α → Dict β) : keys (l.flatMap f) = l.flatMap (fun a => keys (f a)) := by
  simp [keys, List.map_flatMap]

theorem flatMap_congr_mem {α β : Type} {l : List α} {f g : α → List β} (h : ∀ a ∈ l, f a = g a) :
    l.flatMap f = l.flatMap g := by
  induction l with
  | nil => rfl
  | cons a r ih => simp only [List.flatMap_cons, h a (by simp), ih (fun b hb => h b (by simp [hb]))]

theorem mem_zip_map_self {α β : Type} {l : List α} {f : α → β} {ob : α × β} (h : ob ∈ l.zip (l.map f)) :
    ob.1 ∈ l ∧ ob.2 = f ob.1 := by
  induction l with
  | nil => simp at h
  | cons a r ih =>
    simp only [List.map_cons, List.zip_cons_cons, List.mem_cons] at h
    rcases h with rfl | h
    · simp
    · obtain ⟨h1, h2⟩ := ih h
      exact ⟨by simp [h1], h2⟩

theorem map_zip_map_self {α β γ : Type} (l : List α) (f : α → β) (g : α × β → γ) :
    (l.zip (l.map f)).map g = l.map (fun a => g (a, f a)) := by
  induction l with
  | nil => rfl
  | cons a r ih => simp only [List.map_cons, List.zip_cons_cons, ih]

theorem lookup_of_mem_keys_append_left {α : Type} (a b : Dict α) (k : Key) (h : k ∈ keys a) :
    lookup (a ++ b) k = lookup a k := by
  obtain ⟨v, hv⟩ := lookup_of_mem h
  rw [lookup_append, hv]

theorem lookup_of_not_mem_keys_append_left {α : Type} (a b : Dict α) (k : Key) (h : k ∉ keys a) :
    lookup (a ++ b) k = lookup b k := by
  rw [lookup_append, lookup_eq_none_of_not_mem h]

end Generic

section MergeProd
variable {V : Type}

theorem mergeProd_append_left (A A' B : List (Dict V)) : mergeProd (A ++ A') B = mergeProd A B ++ mergeProd A' B := by
  simp [mergeProd, List.flatMap_append]

theorem mergeProd_map_left (a : Dict V) (B C : List (Dict V)) :
    mergeProd (B.map (fun b => a ++ b)) C = (mergeProd B C).map (fun x => a ++ x) := by
  simp [mergeProd, List.flatMap_map, List.map_flatMap, List.map_map, Function.comp_def, List.append_assoc]

theorem mergeProd_assoc (A B C : List (Dict V)) : mergeProd (mergeProd A B) C = mergeProd A (mergeProd B C) := by
  induction A with
  | nil => rfl
  | cons a r ih =>
    have e : ∀ X : List (Dict V), mergeProd (a :: r) X = X.map (fun b => a ++ b) ++ mergeProd r X := by
      intro X; simp [mergeProd]
    rw [e, e, mergeProd_append_left, ih, mergeProd_map_left]

theorem mergeProd_unit_left (B : List (Dict V)) : mergeProd [[]] B = B := by
  simp [mergeProd]

theorem prodAll_append (A B : List (List (Dict V))) : prodAll (A ++ B) = mergeProd (prodAll A) (prodAll B) := by
  induction A with
  | nil => rw [List.nil_append, prodAll_nil, mergeProd_unit_left]
  | cons L r ih => rw [List.cons_append, prodAll_cons, prodAll_cons, ih, mergeProd_assoc]

/-- a product over a concatenation of factor lists is the product of the products -/
theorem prodAll_flatten (Ls : List (List (List (Dict V)))) : prodAll Ls.flatten = prodAll (Ls.map prodAll) := by
  induction Ls with
  | nil => rfl
  | cons L r ih => rw [List.flatten_cons, prodAll_append, ih, List.map_cons, prodAll_cons]

theorem length_mergeProd (A B : List (Dict V)) : (mergeProd A B).length = A.length * B.length := by
  induction A with
  | nil => simp [mergeProd]
  | cons a r ih =>
    have e : mergeProd (a :: r) B = B.map (fun b => a ++ b) ++ mergeProd r B := by simp [mergeProd]
    rw [e, List.length_append, List.length_map, ih, List.length_cons, Nat.succ_mul, Nat.add_comm]

theorem length_prodAll (Ls : List (List (Dict V))) : (prodAll Ls).length = (Ls.map List.length).foldr (· * ·) 1 := by
  induction Ls with
  | nil => rfl
  | cons L r ih => rw [prodAll_cons, length_mergeProd, ih, List.map_cons, List.foldr_cons]

end MergeProd

section Enum
variable {V : Type}

/-- the raw combinations of a sweep: the Cartesian product of its zipped groups, before constants / derivers / exclude -/
def rawList (s : Sweep V) : List (Dict V) := prodAll ((effGroups s).map (zipGroup s.items))

theorem specList_eq_raw (s : Sweep V) :
    specList s = if s.items.isEmpty then [] else (rawList s).filterMap (finish s) := by
  unfold specList rawList prodAll
  split
  · rfl
  · rw [finish_filterMap]

/-- the groups of a sweep as `product` passes them on: its `dims`, or one group per dimension -/
def gl (o : Sweep V) : List (List Key) := (dimsOf o).map Group.keys

/-- **The enumerated groups are the groups as written.**  False only when `dims` is a plain list of all the names in an
    order other than the item order: then `generate` takes the full-product branch (`sweep.py:120`) and enumerates in item
    order, while a product that contains this operand enumerates its `dims` in the order written. -/
def Nominal (o : Sweep V) : Prop := effGroups o = gl o

theorem nominal_of_dims_none {o : Sweep V} (h : o.dims = none) : Nominal o := by
  simp [Nominal, effGroups, fullBranch, gl, dimsOf, h, List.map_map, Function.comp_def, Group.keys]

theorem gl_of_dims_none {o : Sweep V} (h : o.dims = none) : gl o = (keys o.items).map (fun k => [k]) := by
  simp [gl, dimsOf, h, List.map_map, Function.comp_def, Group.keys]

def catItems (ops : List (Sweep V)) : Dict (List V) := ops.flatMap (·.items)
def catDims (ops : List (Sweep V)) : List Group := ops.flatMap dimsOf

/-- every name mentioned in the groups `D` is one of `K` -/
def NamesIn (D : List Group) (K : List Key) : Prop := ∀ g ∈ D, ∀ k ∈ g.keys, k ∈ K

theorem setEqKeys_split {D1 D2 : List Group} {K1 K2 : List Key} (h1 : NamesIn D1 K1) (h2 : NamesIn D2 K2)
    (hd : ∀ k ∈ K1, k ∉ K2) (h : setEqKeys (D1 ++ D2) (K1 ++ K2) = true) :
    setEqKeys D1 K1 = true ∧ setEqKeys D2 K2 = true := by
  simp only [setEqKeys, Bool.and_eq_true, List.all_eq_true, List.mem_append, List.contains_iff_mem] at h ⊢
  obtain ⟨ha, hb⟩ := h
  refine ⟨⟨?_, ?_⟩, ⟨?_, ?_⟩⟩
  · intro g hg
    have := ha g (Or.inl hg)
    cases g with
    | str k => simpa using h1 _ hg k (by simp [Group.keys])
    | tup _ => simp at this
  · intro k hk
    rcases hb k (Or.inl hk) with h | h
    · exact h
    · exact absurd (h2 _ h k (by simp [Group.keys])) (hd k hk)
  · intro g hg
    have := ha g (Or.inr hg)
    cases g with
    | str k => simpa using h2 _ hg k (by simp [Group.keys])
    | tup _ => simp at this
  · intro k hk
    rcases hb k (Or.inr hk) with h | h
    · exact absurd hk (hd k (h1 _ h k (by simp [Group.keys])))
    · exact h

theorem groupOK_names {items : Dict (List V)} {g : Group} (h : groupOK items g = true) : ∀ k ∈ g.keys, k ∈ keys items := by
  simp only [groupOK, Bool.and_eq_true, List.all_eq_true, List.contains_iff_mem] at h
  exact h.1.2

theorem namesIn_dimsOf {o : Sweep V} (h : wf o = true) : NamesIn (dimsOf o) (keys o.items) := by
  intro g hg k hk
  cases hd : o.dims with
  | none =>
    simp only [dimsOf, hd, List.mem_map] at hg
    obtain ⟨k', hk', rfl⟩ := hg
    simp only [Group.keys, List.mem_singleton] at hk
    subst hk; exact hk'
  | some d =>
    simp only [dimsOf, hd] at hg
    exact groupOK_names ((wf_dims h hd).2 g hg) k hk

theorem mem_keys_catItems {ops : List (Sweep V)} {k : Key} : k ∈ keys (catItems ops) ↔ ∃ o ∈ ops, k ∈ keys o.items := by
  simp only [catItems, keys_flatMap, List.mem_flatMap]

theorem namesIn_catDims {ops : List (Sweep V)} (h : ∀ o ∈ ops, wf o = true) : NamesIn (catDims ops) (keys (catItems ops)) := by
  intro g hg k hk
  simp only [catDims, List.mem_flatMap] at hg
  obtain ⟨o, ho, hg⟩ := hg
  exact mem_keys_catItems.mpr ⟨o, ho, namesIn_dimsOf (h o ho) g hg k hk⟩

/-- the operands' dimension names are pairwise disjoint -/
def ItemsDisjoint (ops : List (Sweep V)) : Prop := ops.Pairwise (fun a b => ∀ k ∈ keys a.items, k ∉ keys b.items)

theorem itemsDisjoint_head {o : Sweep V} {r : List (Sweep V)} (h : ItemsDisjoint (o :: r)) :
    ∀ k ∈ keys o.items, k ∉ keys (catItems r) := by
  intro k hk hm
  obtain ⟨o', ho', hk'⟩ := mem_keys_catItems.mp hm
  exact (List.pairwise_cons.mp h).1 o' ho' k hk hk'

theorem gl_of_setEq {o : Sweep V} (hn : Nominal o) (h : setEqKeys (dimsOf o) (keys o.items) = true) :
    gl o = (keys o.items).map (fun k => [k]) := by
  cases hd : o.dims with
  | none => exact gl_of_dims_none hd
  | some d =>
    rw [← hn]
    simp only [dimsOf, hd] at h
    simp [effGroups, fullBranch, hd, h]

/-- if the concatenated dims are just the set of all names, every operand's groups are its dimensions in item order -/
theorem gl_cat_of_setEq (ops : List (Sweep V)) (hwf : ∀ o ∈ ops, wf o = true) (hnom : ∀ o ∈ ops, Nominal o)
    (hdisj : ItemsDisjoint ops) (h : setEqKeys (catDims ops) (keys (catItems ops)) = true) :
    ops.flatMap gl = (keys (catItems ops)).map (fun k => [k]) := by
  induction ops with
  | nil => rfl
  | cons o r ih =>
    have e1 : catDims (o :: r) = dimsOf o ++ catDims r := by simp [catDims]
    have e2 : keys (catItems (o :: r)) = keys o.items ++ keys (catItems r) := by simp [catItems, keys_append]
    rw [e1, e2] at h
    obtain ⟨ha, hb⟩ := setEqKeys_split (namesIn_dimsOf (hwf o (by simp)))
      (namesIn_catDims (fun o' ho' => hwf o' (by simp [ho']))) (itemsDisjoint_head hdisj) h
    rw [List.flatMap_cons, e2, List.map_append, gl_of_setEq (hnom o (by simp)) ha,
      ih (fun o' ho' => hwf o' (by simp [ho'])) (fun o' ho' => hnom o' (by simp [ho'])) (List.pairwise_cons.mp hdisj).2 hb]

/-- **Groups of the product** when the receiver has `dims`: the operands' groups, one operand after the other. -/
theorem effGroups_cat (p : Sweep V) (ops : List (Sweep V)) (hi : p.items = catItems ops) (hd : p.dims = some (catDims ops))
    (hwf : ∀ o ∈ ops, wf o = true) (hnom : ∀ o ∈ ops, Nominal o) (hdisj : ItemsDisjoint ops) :
    effGroups p = ops.flatMap gl := by
  unfold effGroups
  by_cases hf : fullBranch p = true
  · simp only [hf, if_true]
    simp only [fullBranch, hd, hi] at hf
    rw [hi, gl_cat_of_setEq ops hwf hnom hdisj hf]
  · simp only [hf, Bool.false_eq_true, if_false, hd, Option.getD_some, catDims, List.map_flatMap]
    rfl

/-- **Groups of the product** when no operand has `dims`: all dimensions in item order. -/
theorem effGroups_cat_none (p : Sweep V) (ops : List (Sweep V)) (hi : p.items = catItems ops) (hd : p.dims = none)
    (hnone : ∀ o ∈ ops, o.dims = none) : effGroups p = ops.flatMap gl := by
  have : ops.flatMap gl = ops.flatMap (fun o => (keys o.items).map (fun k => [k])) :=
    flatMap_congr_mem (fun o ho => gl_of_dims_none (hnone o ho))
  rw [this]
  simp [effGroups, fullBranch, hd, hi, catItems, keys_flatMap, List.map_flatMap]

theorem nodup_keys_catItems (ops : List (Sweep V)) (hwf : ∀ o ∈ ops, wf o = true) (hdisj : ItemsDisjoint ops) :
    (keys (catItems ops)).Nodup := by
  rw [catItems, keys_flatMap]
  exact nodup_flatMap_of ops _ (fun o ho => wf_items (hwf o ho)) hdisj

theorem lookup_cat {ops : List (Sweep V)} (hn : (keys (catItems ops)).Nodup) {o : Sweep V} (ho : o ∈ ops) {k : Key}
    (hk : k ∈ keys o.items) : lookup (catItems ops) k = lookup o.items k := by
  induction ops with
  | nil => simp at ho
  | cons o' r ih =>
    have e : catItems (o' :: r) = o'.items ++ catItems r := by simp [catItems]
    rw [e] at hn ⊢
    rw [keys_append] at hn
    rcases List.mem_cons.mp ho with rfl | hm
    · exact lookup_of_mem_keys_append_left _ _ _ hk
    · have hnot : k ∉ keys o'.items := by
        intro hm'
        exact (List.nodup_append.mp hn).2.2 k hm' k (mem_keys_catItems.mpr ⟨o, hm, hk⟩) rfl
      rw [lookup_of_not_mem_keys_append_left _ _ _ hnot]
      exact ih (List.nodup_append.mp hn).2.1 hm

theorem zipGroup_congr {items items' : Dict (List V)} {g : List Key} (h : ∀ k ∈ g, lookup items k = lookup items' k) :
    zipGroup items g = zipGroup items' g := by
  unfold zipGroup
  have : g.map (col items) = g.map (col items') := List.map_congr_left (fun k hk => by simp [col, h k hk])
  rw [this]

theorem mem_gl_names {o : Sweep V} (h : wf o = true) {g : List Key} (hg : g ∈ gl o) : ∀ k ∈ g, k ∈ keys o.items := by
  simp only [gl, List.mem_map] at hg
  obtain ⟨g', hg', rfl⟩ := hg
  exact namesIn_dimsOf h g' hg'

/-- **Enumeration half of the product clause**, on `items` / `dims`: a sweep whose items are the operands' items one after
    the other and whose groups are the operands' groups one after the other has the Cartesian product of the operands' raw
    combination lists as its raw combinations. -/
theorem rawList_cat (p : Sweep V) (ops : List (Sweep V)) (hi : p.items = catItems ops) (hg : effGroups p = ops.flatMap gl)
    (hwf : ∀ o ∈ ops, wf o = true) (hnom : ∀ o ∈ ops, Nominal o) (hdisj : ItemsDisjoint ops) :
    rawList p = prodAll (ops.map rawList) := by
  have hn := nodup_keys_catItems ops hwf hdisj
  unfold rawList
  rw [hg, hi, List.map_flatMap]
  have : ops.flatMap (fun o => (gl o).map (zipGroup (catItems ops))) = (ops.map (fun o => (effGroups o).map (zipGroup o.items))).flatten := by
    rw [← List.flatMap_def]
    apply flatMap_congr_mem
    intro o ho
    rw [hnom o ho]
    apply List.map_congr_left
    intro g hgm
    exact zipGroup_congr (fun k hk => lookup_cat hn ho (mem_gl_names (hwf o ho) hgm k hk))
  rw [this, prodAll_flatten, List.map_map]
  rfl

/-! ### well-formedness of the product -/

theorem groupOK_dimsOf {o : Sweep V} (h : wf o = true) : ∀ g ∈ dimsOf o, groupOK o.items g = true := by
  intro g hg
  cases hd : o.dims with
  | none =>
    simp only [dimsOf, hd, List.mem_map] at hg
    obtain ⟨k, hk, rfl⟩ := hg
    simp [groupOK, Group.keys, sameLen, hk]
  | some d =>
    simp only [dimsOf, hd] at hg
    exact (wf_dims h hd).2 g hg

theorem nodup_dimsOf {o : Sweep V} (h : wf o = true) : ((dimsOf o).flatMap Group.keys).Nodup := by
  cases hd : o.dims with
  | none =>
    have : (dimsOf o).flatMap Group.keys = keys o.items := by
      simp only [dimsOf, hd, List.flatMap_map, Group.keys]
      induction keys o.items with
      | nil => rfl
      | cons k r ih => simp [List.flatMap_cons, ih]
    rw [this]; exact wf_items h
  | some d =>
    simp only [dimsOf, hd]
    exact (wf_dims h hd).1

theorem groupOK_cat {ops : List (Sweep V)} (hn : (keys (catItems ops)).Nodup) {o : Sweep V} (ho : o ∈ ops) {g : Group}
    (h : groupOK o.items g = true) : groupOK (catItems ops) g = true := by
  have hnames := groupOK_names h
  have hcol : g.keys.map (col (catItems ops)) = g.keys.map (col o.items) :=
    List.map_congr_left (fun k hk => by simp [col, lookup_cat hn ho (hnames k hk)])
  simp only [groupOK, Bool.and_eq_true, List.all_eq_true, List.contains_iff_mem] at h ⊢
  refine ⟨⟨h.1.1, fun k hk => mem_keys_catItems.mpr ⟨o, ho, h.1.2 k hk⟩⟩, ?_⟩
  rw [hcol]; exact h.2

theorem nodup_catDims (ops : List (Sweep V)) (hwf : ∀ o ∈ ops, wf o = true) (hdisj : ItemsDisjoint ops) :
    ((catDims ops).flatMap Group.keys).Nodup := by
  have e : (catDims ops).flatMap Group.keys = ops.flatMap (fun o => (dimsOf o).flatMap Group.keys) := by
    simp only [catDims, List.flatMap_def, List.map_flatten, List.map_map, List.flatten_flatten]
    rfl
  rw [e]
  apply nodup_flatMap_of ops _ (fun o ho => nodup_dimsOf (hwf o ho))
  have hall : ∀ o ∈ ops, ∀ k ∈ (dimsOf o).flatMap Group.keys, k ∈ keys o.items := by
    intro o ho k hk
    simp only [List.mem_flatMap] at hk
    obtain ⟨g, hg, hk⟩ := hk
    exact namesIn_dimsOf (hwf o ho) g hg k hk
  clear e
  induction ops with
  | nil => exact List.Pairwise.nil
  | cons o r ih =>
    obtain ⟨h1, h2⟩ := List.pairwise_cons.mp hdisj
    refine List.pairwise_cons.mpr ⟨?_, ih (fun o' ho' => hwf o' (by simp [ho'])) h2 (fun o' ho' => hall o' (by simp [ho']))⟩
    intro o' ho' k hk hk'
    exact h1 o' ho' k (hall o (by simp) k hk) (hall o' (by simp [ho']) k hk')

theorem wf_cat (p : Sweep V) (ops : List (Sweep V)) (hi : p.items = catItems ops) (hd : p.dims = some (catDims ops))
    (hwf : ∀ o ∈ ops, wf o = true) (hdisj : ItemsDisjoint ops) : wf p = true := by
  have hn := nodup_keys_catItems ops hwf hdisj
  simp only [wf, hd, hi, Bool.and_eq_true, decide_eq_true_eq, List.all_eq_true]
  refine ⟨hn, nodup_catDims ops hwf hdisj, ?_⟩
  intro g hg
  simp only [catDims, List.mem_flatMap] at hg
  obtain ⟨o, ho, hg⟩ := hg
  exact groupOK_cat hn ho (groupOK_dimsOf (hwf o ho) g hg)

theorem wf_cat_none (p : Sweep V) (ops : List (Sweep V)) (hi : p.items = catItems ops) (hd : p.dims = none)
    (hwf : ∀ o ∈ ops, wf o = true) (hdisj : ItemsDisjoint ops) : wf p = true := by
  simp only [wf, hd, hi, Bool.and_eq_true, decide_eq_true_eq, and_true]
  exact nodup_keys_catItems ops hwf hdisj

/-! ### the shape of `product`'s result -/

theorem foldl_update_cat (acc : Dict (List V)) (others : List (Sweep V))
    (h : (keys acc ++ keys (catItems others)).Nodup) :
    others.foldl (fun acc o => update acc o.items) acc = acc ++ catItems others := by
  induction others generalizing acc with
  | nil => simp [catItems]
  | cons o r ih =>
    have e : catItems (o :: r) = o.items ++ catItems r := by simp [catItems]
    rw [e, keys_append, ← List.append_assoc] at h
    simp only [List.foldl_cons]
    rw [update_of_nodup acc o.items (List.nodup_append.mp h).1, ih _ (by rw [keys_append]; exact h), e, List.append_assoc]

theorem foldl_dims_cat (d : List Group) (others : List (Sweep V)) :
    others.foldl (fun acc o => acc ++ dimsOf o) d = d ++ catDims others := by
  induction others generalizing d with
  | nil => simp [catDims]
  | cons o r ih => simp only [List.foldl_cons, ih, catDims, List.flatMap_cons, List.append_assoc]

/-- `product` does not raise when the constants' and the derivers' names are distinct, and merges `items` / `dims` -/
theorem product_ok (s : Sweep V) (others : List (Sweep V))
    (hne : (s.items.isEmpty || others.any (fun o => o.items.isEmpty)) = false)
    (hc : (keys ((s :: others).flatMap (fun o => o.constants.getD []))).Nodup)
    (hd : (keys ((s :: others).flatMap (fun o => o.derivers.getD []))).Nodup) :
    ∃ p, product s others = .ok p ∧ p.items = others.foldl (fun acc o => update acc o.items) s.items ∧
      p.dims = (match s.dims with | none => none | some d => some (others.foldl (fun acc o => acc ++ dimsOf o) d)) := by
  obtain ⟨rc, hrc, _⟩ := combineDicts_ok ((s :: others).map (·.constants)) (by simpa [List.flatMap_map] using hc)
  obtain ⟨rd, hrd, _⟩ := combineDicts_ok ((s :: others).map (·.derivers)) (by simpa [List.flatMap_map] using hd)
  unfold product
  simp only [hne, Bool.false_eq_true, if_false, hrc, hrd]
  exact ⟨_, rfl, rfl, rfl⟩

end Enum

section Hyps
variable {V : Type}

/-- the hypotheses of the product clause, for the operand list `ops = s :: others` -/
structure ProductHyps (s : Sweep V) (others : List (Sweep V)) : Prop where
  /-- every operand is a well-formed sweep … -/
  wf : ∀ o ∈ s :: others, wf o = true
  /-- … with at least one dimension (the other case is `C17_product_empty`) -/
  nonempty : ∀ o ∈ s :: others, o.items.isEmpty = false
  /-- the groups an operand enumerates are its groups as written (fails only for a `dims` that is a mere permutation of
      all names, which `generate` enumerates in item order — see `C17_product_order_witness`) -/
  nominal : ∀ o ∈ s :: others, Nominal o
  /-- **exactly the hypothesis that excludes DF-07**: the receiver has `dims`, or no operand has -/
  df07 : s.dims ≠ none ∨ ∀ o ∈ others, o.dims = none
  /-- constants and derivers are dictionaries -/
  constsDict : ∀ o ∈ s :: others, (keys (o.constants.getD [])).Nodup
  deriversDict : ∀ o ∈ s :: others, (keys (o.derivers.getD [])).Nodup
  /-- "disjoint keys": the names the operands can put into a combination are pairwise disjoint -/
  disjoint : (s :: others).Pairwise (fun a b => ∀ k ∈ ownKeys a, k ∉ ownKeys b)
  /-- derivers / exclude read only names of their own operand -/
  localFns : ∀ o ∈ s :: others, LocalFns o

theorem ProductHyps.itemsDisjoint {s : Sweep V} {others : List (Sweep V)} (h : ProductHyps s others) :
    ItemsDisjoint (s :: others) :=
  h.disjoint.imp (fun hab k hk hk' => hab k (by simp [ownKeys, hk]) (by simp [ownKeys, hk']))

theorem ProductHyps.hne {s : Sweep V} {others : List (Sweep V)} (h : ProductHyps s others) :
    (s.items.isEmpty || others.any (fun o => o.items.isEmpty)) = false := by
  simp only [Bool.or_eq_false_iff, List.any_eq_false]
  exact ⟨h.nonempty s (by simp), fun o ho => by simp [h.nonempty o (by simp [ho])]⟩

theorem ProductHyps.hc {s : Sweep V} {others : List (Sweep V)} (h : ProductHyps s others) :
    (keys ((s :: others).flatMap (fun o => o.constants.getD []))).Nodup := by
  rw [keys_flatMap]
  exact nodup_flatMap_of _ _ h.constsDict
    (h.disjoint.imp (fun hab k hk hk' => hab k (by simp [ownKeys, hk]) (by simp [ownKeys, hk'])))

theorem ProductHyps.hd {s : Sweep V} {others : List (Sweep V)} (h : ProductHyps s others) :
    (keys ((s :: others).flatMap (fun o => o.derivers.getD []))).Nodup := by
  rw [keys_flatMap]
  exact nodup_flatMap_of _ _ h.deriversDict
    (h.disjoint.imp (fun hab k hk hk' => hab k (by simp [ownKeys, hk]) (by simp [ownKeys, hk'])))

theorem keys_rawList {o : Sweep V} (hw : wf o = true) (hn : Nominal o) : ∀ c ∈ rawList o, ∀ k ∈ keys c, k ∈ keys o.items := by
  intro c hc k hk
  simp only [rawList, prodAll, List.mem_map] at hc
  obtain ⟨combo, hcombo, rfl⟩ := hc
  have hsub := keys_flatten_sublist o.items (effGroups o) combo hcombo
  have hk' := hsub.subset hk
  rw [hn] at hk'
  simp only [List.mem_flatten] at hk'
  obtain ⟨g, hg, hkg⟩ := hk'
  exact mem_gl_names hw hg k hkg

end Hyps

end PF.Sweep
