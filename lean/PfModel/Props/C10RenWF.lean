import PfModel.Lemmas.RewriteRenWF
import PfModel.Props.C10Ren
/-!
C10, `update_renames(update_from, overwrite)`: the hypothesis `WF` of the `C10_renames_*` theorems (round 3: "true of every PipeFunc that
passed `_validate`; the driver does not evaluate it per case") is decidable - `wfB`, which the driver now evaluates on every function of
the object before every `rename_x` / `mut_rename_x` / `mut_frename` step of every history - and the theorems are restated with the
Boolean in place of the proposition, so that what is proved applies to exactly the cases for which the driver answers `wf = true`.
-/
namespace PF.C10
open PF PF.Pipe PF.Rw

/-- `wfB` decides `WF` (distinct current names, distinct original names, one original name per output, defaults / bound values keyed by
    parameters, MapSpec arrays named after parameters and outputs). -/
theorem C10_renames_wf_iff (f : RFunc) : wfB f = true ↔ WF f := ⟨wfB_sound f, wfB_complete f⟩

/-- `C10_renames_function` from the decidable check. -/
theorem C10_renames_function_checked (m : List (String × String)) (fromOrig ow : Bool) (f f' : RFunc) (hf : wfB f = true)
    (h : updateRenamesF m fromOrig ow f = .ok f') : f' = renameF (rhoF m fromOrig ow f) f :=
  C10_renames_function m fromOrig ow f f' (wfB_sound f hf) h

/-- `C10_renames_pipeline` from the decidable check the driver reports per step (`wf`): an accepted
    `Pipeline.update_renames(m, update_from, overwrite)` renames every function by its own `rhoF`. -/
theorem C10_renames_pipeline_checked (m : List (String × String)) (fromOrig ow : Bool) (fs fs' : List RFunc) (hfs : fs.all wfB = true)
    (h : updateRenamesX m fromOrig ow fs = .ok fs') : fs' = fs.map fun f => renameF (rhoF m fromOrig ow f) f :=
  C10_renames_pipeline m fromOrig ow fs fs' (fun f hf => wfB_sound f (List.all_eq_true.mp hfs f hf)) h

/-- `C10_renames_uniform` from the decidable check: ONE injective renaming preserves what the pipeline computes. -/
theorem C10_renames_uniform_checked (m : List (String × String)) (fromOrig ow : Bool) (fs fs' : List RFunc) (hfs : fs.all wfB = true)
    (h : updateRenamesX m fromOrig ow fs = .ok fs') (ρ : String → String)
    (hρ : ∀ f ∈ fs, ∀ n ∈ curNames f, rhoF m fromOrig ow f n = ρ n)
    (N : String → Prop) (hinj : ∀ a b, N a → N b → ρ a = ρ b → a = b)
    (kw : List (String × Val)) (hN : ∀ f ∈ fs, NamesIn N f.core) (hkw : ∀ kv ∈ kw, N kv.1) (n : Nat) (o : String) (ho : N o) :
    fs' = renameAll ρ fs ∧ Agree (eval fs' (kw.map (rkv ρ)) n (ρ o)) (eval fs kw n o) :=
  C10_renames_uniform m fromOrig ow fs fs' (fun f hf => wfB_sound f (List.all_eq_true.mp hfs f hf)) h ρ hρ N hinj kw hN hkw n o ho

/-! ### non-vacuity: the seeded scenario of round 3 (`f(a, b)`, `b` bound, renamed `b → x` earlier) passes the check; a function whose
    bound value is keyed by a name that is no parameter does not -/
example : wfB { core := { name := "f", params := [("a", "a"), ("x", "b")], outputs := ["c"], defaults := [], bound := [("x", .str "bound:b")] },
                outOrig := ["c"], body := none } = true := by decide
example : wfB { core := { name := "f", params := [("a", "a"), ("x", "b")], outputs := ["c"], defaults := [], bound := [("b", .str "bound:b")] },
                outOrig := ["c"], body := none } = false := by decide
example : ∀ f', updateRenamesF [("a", "x"), ("x", "a")] false false
      { core := { name := "f", params := [("a", "a"), ("x", "b")], outputs := ["c"], defaults := [], bound := [("x", .str "bound:b")] },
        outOrig := ["c"], body := none } = .ok f' → f'.core.params = [("x", "a"), ("a", "b")] := by
  intro f' h
  rw [C10_renames_function_checked _ _ _ _ f' (by decide) h]
  decide
/-- `C10_renames_pipeline_checked` / `_uniform_checked` applied to an ACCEPTED pipeline-level call (parameterless function: string splitting
    in `validate_scopes` is not kernel-reducible): renamed from the original name `o`, the output is `z` and evaluates like `y` did -/
example : (updateRenamesX [("o", "z")] true false [nYW]).toOption.map allOutputs = some ["z"] := by decide
example : ∀ fs', updateRenamesX [("o", "z")] true false [nYW] = .ok fs' → fs' = [nYW].map fun f => renameF (rhoF [("o", "z")] true false f) f :=
  fun fs' h => C10_renames_pipeline_checked _ _ _ _ fs' (by decide) h
example (n : Nat) : ∀ fs', updateRenamesX [("o", "z")] true false [nYW] = .ok fs' → Agree (eval fs' [] n "z") (eval [nYW] [] n "y") := by
  intro fs' h
  have := (C10_renames_uniform_checked _ _ _ _ fs' (by decide) h (fun n => if n = "y" then "z" else n)
    (by intro f hf n hn; simp only [List.mem_singleton] at hf; subst hf; simp [curNames, nYW] at hn; subst hn; decide)
    (· = "y") (by intro a b ha hb _; rw [ha, hb]) []
    (by intro f hf; simp only [List.mem_singleton] at hf; subst hf
        exact ⟨(by intro p h; cases h), (by intro o h; simpa [nYW] using h), (by intro kv h; cases h), (by intro kv h; cases h)⟩)
    (by intro kv h; cases h) n "y" rfl).2
  simpa using this

end PF.C10
