import PfModel.Model.RewriteRen
import PfModel.Lemmas.RewriteRename
import PfModel.Lemmas.RewriteTotal3
/-! `update_renames(m, update_from, overwrite)` as written in the code (`applyRenames ∘ newRenames`: through the original
names) is ONE renaming of the function's names (`renameF (rhoF …)`): lemmas for `Props/C10Ren.lean`. -/
namespace PF.Rw
open PF PF.Pipe

/-! ### association lists with distinct keys and distinct values -/

theorem alookup_of_mem {β} : ∀ (l : List (String × β)) (k : String) (v : β), (l.map (·.1)).Nodup → (k, v) ∈ l → alookup l k = some v
  | [], _, _, _, h => by cases h
  | (k', v') :: r, k, v, hnd, h => by
    simp only [List.map_cons, List.nodup_cons] at hnd
    simp only [alookup]
    rcases List.mem_cons.mp h with e | h'
    · cases e; simp
    · have : k' ≠ k := by
        intro e; subst e
        exact hnd.1 (List.mem_map.mpr ⟨(k', v), h', rfl⟩)
      simp only [this, ↓reduceIte]
      exact alookup_of_mem r k v hnd.2 h'

theorem mem_of_alookup {β} : ∀ (l : List (String × β)) (k : String) (v : β), alookup l k = some v → (k, v) ∈ l
  | [], _, _, h => by simp [alookup] at h
  | (k', v') :: r, k, v, h => by
    simp only [alookup] at h
    split at h
    · next e => cases e; injection h with h; subst h; simp
    · exact List.mem_cons_of_mem _ (mem_of_alookup r k v h)

theorem alookup_none_of_not_mem {β} : ∀ (l : List (String × β)) (k : String), k ∉ l.map (·.1) → alookup l k = none
  | [], _, _ => rfl
  | (k', v') :: r, k, h => by
    simp only [List.map_cons, List.mem_cons, not_or] at h
    have : ¬ k' = k := fun e => h.1 e.symm
    simp only [alookup, this, ↓reduceIte]
    exact alookup_none_of_not_mem r k h.2

theorem alookup_filter_key {β} (P : String → Bool) : ∀ (l : List (String × β)) (k : String), P k = true →
    alookup (l.filter fun kv => P kv.1) k = alookup l k
  | [], _, _ => rfl
  | (k', v') :: r, k, h => by
    simp only [List.filter_cons]
    by_cases e : k' = k
    · subst e; simp [h, alookup]
    · cases hp : P k'
      · simp only [Bool.false_eq_true, ↓reduceIte, alookup, e]; exact alookup_filter_key P r k h
      · simp only [↓reduceIte, alookup, e]; exact alookup_filter_key P r k h

/-- the swapped list: original ↦ current -/
def swapL (l : List (String × String)) : List (String × String) := l.map fun co => (co.2, co.1)

theorem swapL_keys (l : List (String × String)) : (swapL l).map (·.1) = l.map (·.2) := by
  simp [swapL, List.map_map, Function.comp_def]

theorem mem_swapL (l : List (String × String)) (c o : String) (h : (c, o) ∈ l) : (o, c) ∈ swapL l :=
  List.mem_map.mpr ⟨(c, o), h, rfl⟩

/-- distinct keys: the value is determined -/
theorem val_unique {β} (l : List (String × β)) (k : String) (v w : β) (hnd : (l.map (·.1)).Nodup) (h1 : (k, v) ∈ l) (h2 : (k, w) ∈ l) :
    v = w := by
  have a := alookup_of_mem l k v hnd h1
  have b := alookup_of_mem l k w hnd h2
  rw [a] at b; injection b

/-- distinct values: the key is determined -/
theorem key_unique (l : List (String × String)) (k k' o : String) (hnd : (l.map (·.2)).Nodup) (h1 : (k, o) ∈ l) (h2 : (k', o) ∈ l) :
    k = k' :=
  val_unique (swapL l) o k k' (by rw [swapL_keys]; exact hnd) (mem_swapL l k o h1) (mem_swapL l k' o h2)

/-- `{inverse.get(k, k): v for k, v in renames.items()}` looked up at an original name is `renames` looked up at its
    current name, when every key is a current name -/
theorem alookup_convert (inv : List (String × String)) (hk : (inv.map (·.1)).Nodup) (hv : (inv.map (·.2)).Nodup)
    (c o : String) (hco : (c, o) ∈ inv) : ∀ (m : List (String × String)), (∀ k ∈ akeys m, k ∈ inv.map (·.1)) →
    alookup (m.map fun kv => (getSelf inv kv.1, kv.2)) o = alookup m c
  | [], _ => rfl
  | (k, v) :: r, hm => by
    have ih := alookup_convert inv hk hv c o hco r (fun x hx => hm x (by simp only [akeys, List.map_cons, List.mem_cons]; exact Or.inr hx))
    obtain ⟨⟨k1, o'⟩, hmem, e⟩ := List.mem_map.mp (hm k (by simp [akeys]))
    simp only at e; subst e
    have hg : getSelf inv k1 = o' := by simp [getSelf, alookup_of_mem inv k1 o' hk hmem]
    simp only [List.map_cons, alookup, hg]
    by_cases e : k1 = c
    · subst e
      have : o' = o := val_unique inv k1 o' o hk hmem hco
      simp [this]
    · have : o' ≠ o := by
        intro e'; subst e'
        exact e (key_unique inv k1 c o' hv hmem hco)
      simp only [this, e, ↓reduceIte]; exact ih

/-! ### the new dictionary, looked up at an original name, is `newName` -/

/-- well-formedness of a function's naming state: distinct current names, distinct original names, one original output
    per output; `defaults` / `bound` keyed by parameters, MapSpec arrays named after parameters and outputs (what
    `PipeFunc._validate` and `_validate_mapspec` maintain, `_pipefunc.py:589-603, 845-884`) -/
structure WF (f : RFunc) : Prop where
  cur : ((inverseOf f).map (·.1)).Nodup
  orig : ((inverseOf f).map (·.2)).Nodup
  outs : f.core.outputs.length = f.outOrig.length
  dflt : ∀ kv ∈ f.core.defaults, kv.1 ∈ f.core.params.map (·.1)
  bnd : ∀ kv ∈ f.core.bound, kv.1 ∈ f.core.params.map (·.1)
  spec : ∀ ms, f.mapspec = some ms → ∀ a ∈ ms.inputs ++ ms.outputs, a.name ∈ (inverseOf f).map (·.1)

theorem renamesOf_eq (f : RFunc) : renamesOf f = swapL (inverseOf f) := rfl

theorem getSelf_newRenames (m : List (String × String)) (fromOrig ow : Bool) (f : RFunc) (hf : WF f)
    (hm : ∀ k ∈ akeys m, k ∈ allowedKeys fromOrig f) (c o : String) (hco : (c, o) ∈ inverseOf f) :
    getSelf (newRenames m fromOrig ow f) o = newName m fromOrig ow c o := by
  have hsw : alookup (renamesOf f) o = some c := by
    rw [renamesOf_eq]
    exact alookup_of_mem _ o c (by rw [swapL_keys]; exact hf.orig) (mem_swapL _ c o hco)
  cases fromOrig with
  | true =>
    simp only [newRenames, newName, ↓reduceIte, getSelf]
    cases ow with
    | true => simp only [↓reduceIte]; cases alookup m o <;> rfl
    | false =>
      simp only [Bool.false_eq_true, ↓reduceIte, alookup_append]
      cases alookup m o with
      | some v => rfl
      | none => simp [hsw]
  | false =>
    have hconv := alookup_convert (inverseOf f) hf.cur hf.orig c o hco m (by simpa [allowedKeys] using hm)
    simp only [getSelf] at hconv
    simp only [newRenames, newName, Bool.false_eq_true, ↓reduceIte, getSelf]
    cases ow with
    | true => simp only [↓reduceIte, hconv]; cases alookup m c <;> rfl
    | false =>
      simp only [Bool.false_eq_true, ↓reduceIte, alookup_append, hconv]
      cases alookup m c with
      | some v => rfl
      | none => simp [hsw]

theorem rhoF_of_mem (m : List (String × String)) (fromOrig ow : Bool) (f : RFunc) (hf : WF f) (c o : String) (hco : (c, o) ∈ inverseOf f) :
    rhoF m fromOrig ow f c = newName m fromOrig ow c o := by
  simp only [rhoF, alookup_of_mem _ c o hf.cur hco]

theorem params_mem_inverse (f : RFunc) (po : String × String) (h : po ∈ f.core.params) : (po.1, po.2) ∈ inverseOf f :=
  List.mem_append_left _ h

theorem getSelf_inverse (f : RFunc) (hf : WF f) (c o : String) (hco : (c, o) ∈ inverseOf f) : getSelf (inverseOf f) c = o := by
  simp [getSelf, alookup_of_mem _ c o hf.cur hco]

theorem map_zip_congr {α β γ} (g : β → γ) (h : α → γ) : ∀ (as : List α) (bs : List β), as.length = bs.length →
    (∀ ab ∈ as.zip bs, g ab.2 = h ab.1) → bs.map g = as.map h
  | [], [], _, _ => rfl
  | [], _ :: _, hl, _ => by simp at hl
  | _ :: _, [], hl, _ => by simp at hl
  | a :: as, b :: bs, hl, hz => by
    simp only [List.map_cons]
    rw [hz (a, b) (by simp), map_zip_congr g h as bs (by simpa using hl) (fun ab hab => hz ab (by simp [hab]))]

theorem renameSpec_congr (g h : String → String) (ms : PF.Map.MSpec) (hgh : ∀ a ∈ ms.inputs ++ ms.outputs, g a.name = h a.name) :
    renameSpec g ms = renameSpec h ms := by
  simp only [renameSpec]
  congr 1
  · apply List.map_congr_left; intro a ha; rw [hgh a (List.mem_append_left _ ha)]
  · apply List.map_congr_left; intro a ha; rw [hgh a (List.mem_append_right _ ha)]

theorem renameSpec_comp (g h : String → String) (ms : PF.Map.MSpec) : renameSpec g (renameSpec h ms) = renameSpec (fun k => g (h k)) ms := by
  simp only [renameSpec, List.map_map, Function.comp_def]

/-- the fields of `applyRenames ren f` and `renameF ρ f` coincide as soon as `ρ` is "back to the original, forward with `ren`"
    on every name the function mentions -/
theorem applyRenames_eq_renameF (ren : List (String × String)) (ρ : String → String) (f : RFunc) (hf : WF f)
    (h : ∀ c o, (c, o) ∈ inverseOf f → getSelf ren o = ρ c) : applyRenames ren f = renameF ρ f := by
  have hp : f.core.params.map (fun po => (getSelf ren po.2, po.2)) = f.core.params.map (rkv ρ) := by
    apply List.map_congr_left
    intro po hpo
    simp only [rkv, h po.1 po.2 (params_mem_inverse f po hpo)]
  have ho : f.outOrig.map (getSelf ren) = f.core.outputs.map ρ :=
    map_zip_congr (getSelf ren) ρ f.core.outputs f.outOrig hf.outs
      (fun ab hab => h ab.1 ab.2 (List.mem_append_right _ hab))
  have hkey : ∀ (l : List (String × Val)), (∀ kv ∈ l, kv.1 ∈ f.core.params.map (·.1)) →
      l.map (fun kv => (getSelf ren (getSelf (inverseOf f) kv.1), kv.2)) = l.map (rkv ρ) := by
    intro l hl
    apply List.map_congr_left
    intro kv hkv
    obtain ⟨po, hpo, e⟩ := List.mem_map.mp (hl kv hkv)
    have hmem := params_mem_inverse f po hpo
    rw [e] at hmem
    simp only [rkv, getSelf_inverse f hf kv.1 po.2 hmem, h kv.1 po.2 hmem]
  have hs : f.mapspec.map (fun ms => renameSpec (getSelf ren) (renameSpec (getSelf (inverseOf f)) ms)) = f.mapspec.map (renameSpec ρ) := by
    cases hms : f.mapspec with
    | none => rfl
    | some ms =>
      simp only [Option.map_some, renameSpec_comp]
      congr 1
      apply renameSpec_congr
      intro a ha
      obtain ⟨co, hco, e⟩ := List.mem_map.mp (hf.spec ms hms a ha)
      have hmem : (a.name, co.2) ∈ inverseOf f := by rw [← e]; exact hco
      simp only [getSelf_inverse f hf a.name co.2 hmem, h a.name co.2 hmem]
  simp only [applyRenames, renameF, hp, ho, hkey _ hf.dflt, hkey _ hf.bnd, hs, rkv_eq]

theorem keys_allowed_of_filter (m : List (String × String)) (A : List String)
    (h : (akeys m).filter (fun k => !(A.contains k)) = []) : ∀ k ∈ akeys m, k ∈ A := by
  intro k hk
  have := List.filter_eq_nil_iff.mp h k hk
  simpa using this

theorem validNames_ok (f f' : RFunc) (h : validNames f = .ok f') : f' = f ∧ (curNames f).Nodup := by
  unfold validNames at h
  split at h
  · cases h
  · split at h
    · cases h
    · next hlen =>
      injection h with h
      refine ⟨h.symm, ?_⟩
      have hlen' : (curNames f).eraseDups.length = (curNames f).length := by
        simp only [ne_eq, decide_not, Bool.not_eq_true', decide_eq_false_iff_not, Decidable.not_not] at hlen
        exact hlen.symm
      exact (eraseDups_length_aux _ (curNames f) (Nat.le_refl _)).2 hlen'


theorem inj_of_nodup_map (ρ : String → String) : ∀ (l : List String), (l.map ρ).Nodup → ∀ a b, a ∈ l → b ∈ l → ρ a = ρ b → a = b
  | [], _, _, _, ha, _, _ => by cases ha
  | x :: r, hnd, a, b, ha, hb, e => by
    simp only [List.map_cons, List.nodup_cons] at hnd
    rcases List.mem_cons.mp ha with ha' | ha' <;> rcases List.mem_cons.mp hb with hb' | hb'
    · rw [ha', hb']
    · subst ha'
      have : ρ a ∈ r.map ρ := List.mem_map.mpr ⟨b, hb', e.symm⟩
      exact absurd this hnd.1
    · subst hb'
      have : ρ b ∈ r.map ρ := List.mem_map.mpr ⟨a, ha', e⟩
      exact absurd this hnd.1
    · exact inj_of_nodup_map ρ r hnd.2 a b ha' hb' e

theorem curNames_renameF (ρ : String → String) (f : RFunc) : curNames (renameF ρ f) = (curNames f).map ρ := by
  simp [curNames, renameF, List.map_map, Function.comp_def]


theorem rhoF_takes (m : List (String × String)) (fromOrig ow : Bool) (f : RFunc) :
    rhoF (takes m fromOrig f) fromOrig ow f = rhoF m fromOrig ow f := by
  funext k
  simp only [rhoF]
  cases hk : alookup (inverseOf f) k with
  | none => rfl
  | some o =>
    have hmem := mem_of_alookup _ k o hk
    have hkey : (allowedKeys fromOrig f).contains (if fromOrig then o else k) = true := by
      cases fromOrig with
      | true => simp only [allowedKeys, ↓reduceIte, List.contains_iff_mem]; exact List.mem_map.mpr ⟨(k, o), hmem, rfl⟩
      | false => simp only [allowedKeys, Bool.false_eq_true, ↓reduceIte, List.contains_iff_mem]; exact List.mem_map.mpr ⟨(k, o), hmem, rfl⟩
    simp only [newName, takes, alookup_filter_key (fun x => (allowedKeys fromOrig f).contains x) m _ hkey]


theorem renameF_congr (ρ σ : String → String) (f : RFunc) (hf : WF f) (h : ∀ n ∈ curNames f, ρ n = σ n) : renameF ρ f = renameF σ f := by
  have hpar : ∀ x, x ∈ f.core.params.map (·.1) → x ∈ curNames f := fun x hx => List.mem_append_left _ hx
  have hp : f.core.params.map (rkv ρ) = f.core.params.map (rkv σ) := by
    apply List.map_congr_left; intro po hpo; simp only [rkv, h _ (hpar _ (List.mem_map.mpr ⟨po, hpo, rfl⟩))]
  have ho : f.core.outputs.map ρ = f.core.outputs.map σ := by
    apply List.map_congr_left; intro o ho; exact h o (List.mem_append_right _ ho)
  have hkey : ∀ (l : List (String × Val)), (∀ kv ∈ l, kv.1 ∈ f.core.params.map (·.1)) → l.map (rkv ρ) = l.map (rkv σ) := by
    intro l hl; apply List.map_congr_left; intro kv hkv; simp only [rkv, h _ (hpar _ (hl kv hkv))]
  have hcur : ∀ x, x ∈ (inverseOf f).map (·.1) → x ∈ curNames f := by
    intro x hx
    simp only [inverseOf, List.map_append, List.mem_append] at hx
    rcases hx with hx | hx
    · exact List.mem_append_left _ hx
    · obtain ⟨co, hco, e⟩ := List.mem_map.mp hx
      rw [← e]; exact List.mem_append_right _ (List.of_mem_zip hco).1
  have hs : f.mapspec.map (renameSpec ρ) = f.mapspec.map (renameSpec σ) := by
    cases hms : f.mapspec with
    | none => rfl
    | some ms =>
      simp only [Option.map_some]
      congr 1
      exact renameSpec_congr ρ σ ms fun a ha => h _ (hcur _ (hf.spec ms hms a ha))
  simp only [renameF, rkv_eq, hp, ho, hkey _ hf.dflt, hkey _ hf.bnd, hs]


def fAB : RFunc := { core := { name := "f", params := [("a", "a"), ("b", "b")], outputs := ["c"], defaults := [], bound := [("b", .str "ten")] },
                     outOrig := ["c"], body := none }
def fAX : RFunc := renameF (rhoOf [("b", "x")]) fAB

theorem wf_fAB : WF fAB := by
  refine ⟨by decide, by decide, rfl, ?_, ?_, ?_⟩
  · intro kv h; simp [fAB] at h
  · intro kv h; simp only [fAB, List.mem_singleton] at h; subst h; decide
  · intro ms h; simp [fAB] at h

theorem wf_fAX : WF fAX := by
  refine ⟨by decide, by decide, rfl, ?_, ?_, ?_⟩
  · intro kv h; simp [fAX, fAB, renameF] at h
  · intro kv h; simp only [fAX, fAB, renameF, rhoOf, List.map_cons, List.map_nil, List.mem_singleton] at h; subst h; decide
  · intro ms h; simp [fAX, fAB, renameF] at h


/-! ### a reset forgets the rename history -/

theorem inverse_keys_cur (f : RFunc) (x : String) (hx : x ∈ (inverseOf f).map (·.1)) : x ∈ curNames f := by
  simp only [inverseOf, List.map_append, List.mem_append] at hx
  rcases hx with hx | hx
  · exact List.mem_append_left _ hx
  · obtain ⟨co, hco, e⟩ := List.mem_map.mp hx
    rw [← e]; exact List.mem_append_right _ (List.of_mem_zip hco).1

theorem inverseOf_renameF (ρ : String → String) (f : RFunc) :
    inverseOf (renameF ρ f) = f.core.params.map (rkv ρ) ++ (f.core.outputs.map ρ).zip f.outOrig := by
  simp only [inverseOf, renameF, rkv_eq]

/-- the inverse dictionary of the renamed function, looked up at a new name, is the old inverse at the old name -/
theorem getSelf_inverse_rename (ρ : String → String) (f : RFunc) (hf : WF f)
    (hinj : ∀ a b, a ∈ curNames f → b ∈ curNames f → ρ a = ρ b → a = b) (k : String) (hk : k ∈ (inverseOf f).map (·.1)) :
    getSelf (inverseOf (renameF ρ f)) (ρ k) = getSelf (inverseOf f) k := by
  have hkc := inverse_keys_cur f k hk
  obtain ⟨co, hco, e⟩ := List.mem_map.mp hk
  have hsome : alookup (inverseOf f) k = some co.2 := alookup_of_mem _ k co.2 hf.cur (by rw [← e]; exact hco)
  have hnew : alookup (inverseOf (renameF ρ f)) (ρ k) = alookup (inverseOf f) k := by
    rw [inverseOf_renameF]
    simp only [inverseOf, alookup_append]
    rw [alookup_rename ρ (· ∈ curNames f) hinj f.core.params k
          (fun kv hkv => List.mem_append_left _ (List.mem_map.mpr ⟨kv, hkv, rfl⟩)) hkc,
        alookup_zip_rename ρ (· ∈ curNames f) hinj f.core.outputs f.outOrig k (fun x hx => List.mem_append_right _ hx) hkc]
  simp only [getSelf, hnew, hsome, Option.getD_some]

theorem applyRenames_nil_renameF (ρ : String → String) (f : RFunc) (hf : WF f)
    (hinj : ∀ a b, a ∈ curNames f → b ∈ curNames f → ρ a = ρ b → a = b) :
    applyRenames [] (renameF ρ f) = applyRenames [] f := by
  have hg : getSelf [] = id := by funext k; rfl
  have hpk : ∀ x, x ∈ f.core.params.map (·.1) → x ∈ (inverseOf f).map (·.1) := by
    intro x hx; simp only [inverseOf, List.map_append, List.mem_append]; exact Or.inl hx
  have hkey : ∀ (l : List (String × Val)), (∀ kv ∈ l, kv.1 ∈ f.core.params.map (·.1)) →
      (l.map (rkv ρ)).map (fun kv => (getSelf [] (getSelf (inverseOf (renameF ρ f)) kv.1), kv.2)) =
      l.map (fun kv => (getSelf [] (getSelf (inverseOf f) kv.1), kv.2)) := by
    intro l hl
    rw [List.map_map]
    apply List.map_congr_left
    intro kv hkv
    simp only [Function.comp, rkv, getSelf_inverse_rename ρ f hf hinj kv.1 (hpk _ (hl kv hkv))]
  have hp : (f.core.params.map (rkv ρ)).map (fun po => (getSelf [] po.2, po.2)) = f.core.params.map (fun po => (getSelf [] po.2, po.2)) := by
    rw [List.map_map]; rfl
  have hs : (f.mapspec.map (renameSpec ρ)).map (fun ms => renameSpec (getSelf []) (renameSpec (getSelf (inverseOf (renameF ρ f))) ms)) =
      f.mapspec.map (fun ms => renameSpec (getSelf []) (renameSpec (getSelf (inverseOf f)) ms)) := by
    cases hms : f.mapspec with
    | none => rfl
    | some ms =>
      simp only [Option.map_some, renameSpec_comp]
      congr 1
      apply renameSpec_congr
      intro a ha
      simp only [getSelf_inverse_rename ρ f hf hinj a.name (hf.spec ms hms a ha)]
  have e1 : (renameF ρ f).core.params = f.core.params.map (rkv ρ) := by simp only [renameF, rkv_eq]
  have e2 : (renameF ρ f).core.defaults = f.core.defaults.map (rkv ρ) := by simp only [renameF, rkv_eq]
  have e3 : (renameF ρ f).core.bound = f.core.bound.map (rkv ρ) := by simp only [renameF, rkv_eq]
  have e4 : (renameF ρ f).mapspec = f.mapspec.map (renameSpec ρ) := rfl
  have e5 : (renameF ρ f).outOrig = f.outOrig := rfl
  simp only [applyRenames, e1, e2, e3, e4, e5, hp, hkey _ hf.dflt, hkey _ hf.bnd, hs]
  rfl

end PF.Rw
