import PfModel.Lemmas.RewriteJoin
/-!
C10, `Pipeline.join` / `|` as written (`Model/RewriteJoin.lean`): exactly when it refuses (for any number of operands, bare
`PipeFunc` operands included), that operands which OVERLAP - the same function object, copies of one function with different
bound values / defaults / input renames, any two functions with a common output name - are always refused, what every operand's
outputs compute in an accepted join, and the seeded change C10-s4-B (skip a function whose callable and output name are "already
there") as a definition: equal to the real `join` on operands without a common step, silently wrong on the seed's demo.
-/
namespace PF.C10
open PF PF.Pipe PF.Rw PF.Rw.Join

/-- **join accepts exactly when every `add` of the constructor loop does**: the result is the concatenation of the operands'
    functions, and every function `f` passes the checks of `Pipeline.add` against the functions `pre` listed before it
    (`addOK`: no output of `f` is produced in `pre`; scopes, consistent defaults and acyclicity of `pre ++ [f]`) - the PREFIXES
    are validated, not only the whole list. -/
theorem C10_join_accepts_iff (self : List RFunc) (others : List (List RFunc)) (r : List RFunc) :
    joinAll self others = .ok r ↔
      r = self ++ others.flatten ∧ ∀ pre f post, self ++ others.flatten = pre ++ f :: post → addOK pre f = true := by
  unfold joinAll pipelineOf
  rw [addAll_ok_iff]
  simp

/-- **join refuses exactly when some `add` does**: there is a function `f` of some operand that fails `addOK` against the
    functions listed before it. -/
theorem C10_join_refuses_iff (self : List RFunc) (others : List (List RFunc)) :
    (∃ e, joinAll self others = .error e) ↔
      ∃ pre f post, self ++ others.flatten = pre ++ f :: post ∧ addOK pre f = false := by
  constructor
  · rintro ⟨e, he⟩
    apply Classical.byContradiction
    intro hno
    have hall : ∀ pre f post, self ++ others.flatten = pre ++ f :: post → addOK pre f = true := by
      intro pre f post hl
      cases hb : addOK pre f with
      | true => rfl
      | false => exact absurd ⟨pre, f, post, hl, hb⟩ hno
    have := (C10_join_accepts_iff self others _).mpr ⟨rfl, hall⟩
    rw [he] at this
    cases this
  · rintro ⟨pre, f, post, hl, hb⟩
    cases h : joinAll self others with
    | error e => exact ⟨e, rfl⟩
    | ok r =>
      have := ((C10_join_accepts_iff self others r).mp h).2 pre f post hl
      rw [hb] at this
      cases this

/-- **an overlap is always refused** (any number of operands): if a function of the concatenation has an output name that a
    function listed before it produces too, `join` refuses - whatever the two functions' bound values, defaults, renames or
    bodies are.  (What the unmodified library answers with `ValueError: The function with output name … already exists`.) -/
theorem C10_join_overlap_refused (self : List RFunc) (others : List (List RFunc)) (pre : List RFunc) (g : RFunc) (post : List RFunc)
    (hl : self ++ others.flatten = pre ++ g :: post) (f : RFunc) (hf : f ∈ pre) (o : String)
    (hof : o ∈ f.core.outputs) (hog : o ∈ g.core.outputs) : ∃ e, joinAll self others = .error e := by
  unfold joinAll pipelineOf
  rw [hl]
  apply addAll_overlap [] pre g post o hog
  simp only [List.nil_append, allOutputs, List.mem_flatMap]
  exact ⟨f, hf, hof⟩

/-- **two pipelines (or a pipeline and a bare `PipeFunc`, `gs = [g]`) that share a step are refused**: `f` in the first, `g` in
    the second with a common output name - in particular the SAME function object in both, or two copies of one function that
    differ in a bound value, a default or the names of their inputs (none of which `addOK`'s first conjunct looks at). -/
theorem C10_join_shared_step_refused (fs gs : List RFunc) (f g : RFunc) (hf : f ∈ fs) (hg : g ∈ gs) (o : String)
    (hof : o ∈ f.core.outputs) (hog : o ∈ g.core.outputs) : ∃ e, joinAll fs [gs] = .error e := by
  obtain ⟨c, d, rfl⟩ := List.append_of_mem hg
  apply C10_join_overlap_refused fs [c ++ g :: d] (fs ++ c) g d (by simp) f (List.mem_append_left _ hf) o hof hog

/-- a pipeline joined with itself (or with a copy: the model does not tell them apart) is refused as soon as it has an output -/
theorem C10_join_self_refused (fs : List RFunc) (f : RFunc) (hf : f ∈ fs) (o : String) (ho : o ∈ f.core.outputs) :
    ∃ e, joinAll fs [fs] = .error e :=
  C10_join_shared_step_refused fs fs f f hf hf o ho ho

/-- **what an accepted join computes, for EVERY operand** (first, middle or last; a bare `PipeFunc` is a one-function operand): the
    result lists the operands' functions in order, and an output of the operand `ms` whose cone `C` (closed under "is a parameter of
    the producer" inside `ms`) contains no output and no default of any OTHER operand computes in the joined pipeline exactly what it
    computes in `ms` - value or refusal, any keywords, any fuel.  (Outputs of one operand that feed a root of another are wired
    together by the join; those cones are outside this clause and are compared with the model per case.) -/
theorem C10_join_each (self : List RFunc) (others : List (List RFunc)) (r : List RFunc) (h : joinAll self others = .ok r)
    (as : List (List RFunc)) (ms : List RFunc) (bs : List (List RFunc)) (hops : self :: others = as ++ ms :: bs)
    (kw : List (String × Val)) (C : String → Prop) (hc : ConsistentDefaults (cores r))
    (hclosed : ∀ x f, C x → rproducer ms x = some f → ∀ p ∈ f.core.params, C p.1)
    (hfree : ∀ x, C x → ∀ g ∈ as.flatten ++ bs.flatten, x ∉ g.core.outputs ∧ ∀ v, (x, v) ∉ g.core.defaults)
    (n : Nat) (o : String) (ho : C o) :
    r = as.flatten ++ ms ++ bs.flatten ∧ eval r kw n o = eval ms kw n o := by
  have hr : r = as.flatten ++ ms ++ bs.flatten := by
    have h1 := ((C10_join_accepts_iff self others r).mp h).1
    have h2 : self ++ others.flatten = (self :: others).flatten := by simp
    rw [h1, h2, hops]
    simp
  subst hr
  exact ⟨rfl, eval_join_mid as.flatten ms bs.flatten kw C hc hclosed hfree n o ho⟩

/-- **the same for the calling convention the check uses, with NO hypothesis on defaults**: if the keywords supply every root
    argument of the cone `C` (closed under "is a NON-BOUND parameter of the producer"; roots = its non-bound parameters that nothing in `ms`
    produces), the outputs of the other
    operands merely have to stay out of the cone - `ConsistentDefaults` and "no default of another operand" are not needed, because
    a supplied keyword is looked at before any default (`resolve`). -/
theorem C10_join_each_supplied (self : List RFunc) (others : List (List RFunc)) (r : List RFunc) (h : joinAll self others = .ok r)
    (as : List (List RFunc)) (ms : List RFunc) (bs : List (List RFunc)) (hops : self :: others = as ++ ms :: bs)
    (kw : List (String × Val)) (C : String → Prop)
    (hclosed : ∀ x f, C x → rproducer ms x = some f → ∀ p ∈ f.core.params, alookup f.core.bound p.1 = none → C p.1)
    (hfree : ∀ x, C x → ∀ g ∈ as.flatten ++ bs.flatten, x ∉ g.core.outputs)
    (hkw : ∀ x f, C x → rproducer ms x = some f → ∀ p ∈ f.core.params, alookup f.core.bound p.1 = none →
      rproducer ms p.1 = none → ∃ v, alookup kw p.1 = some v)
    (n : Nat) (o : String) (ho : C o) : eval r kw n o = eval ms kw n o := by
  have hr : r = as.flatten ++ ms ++ bs.flatten := by
    have h1 := ((C10_join_accepts_iff self others r).mp h).1
    have h2 : self ++ others.flatten = (self :: others).flatten := by simp
    rw [h1, h2, hops]
    simp
  subst hr
  exact eval_join_mid_kw as.flatten ms bs.flatten kw C hclosed hfree hkw n o ho

/-- **the checked form** (every hypothesis decidable; `joinKeeps` is what the driver evaluates for every output of every operand of
    every accepted join, and what the check's rule "compare the joined pipeline with the operand unless another operand produces one of
    its root arguments" is compared with): `join` accepted, `joinKeeps ms rest o` (the cone of `o` inside its operand, computed by
    `coneOf` and CHECKED closed, contains no output of the other operands), all root arguments of the cone supplied ⇒ output `o`
    computes in the joined pipeline exactly what it computes in its operand. -/
theorem C10_join_each_checked (self : List RFunc) (others : List (List RFunc)) (r : List RFunc) (h : joinAll self others = .ok r)
    (as : List (List RFunc)) (ms : List RFunc) (bs : List (List RFunc)) (hops : self :: others = as ++ ms :: bs)
    (kw : List (String × Val)) (o : String) (hk : joinKeeps ms (as.flatten ++ bs.flatten) o = true)
    (hsup : suppliedB ms kw (coneOf ms o) = true) (n : Nat) : eval r kw n o = eval ms kw n o := by
  have hr : r = as.flatten ++ ms ++ bs.flatten := by
    have h1 := ((C10_join_accepts_iff self others r).mp h).1
    have h2 : self ++ others.flatten = (self :: others).flatten := by simp
    rw [h1, h2, hops]
    simp
  subst hr
  simp only [joinKeeps, Bool.and_eq_true] at hk
  exact eval_join_mid_checked as.flatten ms bs.flatten kw (coneOf ms o) hk.1.2 hk.2 hsup n o (by simpa using hk.1.1)

/-- **the seeded change C10-s4-B agrees with the real `join` on operands without a common step**: if no function of the
    concatenation repeats an output name of an earlier one (and every function has an output), the seeded loop skips nothing -
    why every join of pipelines with disjoint outputs (every existing test) is unaffected. -/
theorem C10_join_seeded_same_when_disjoint (self : List RFunc) (others : List (List RFunc))
    (hne : ∀ f ∈ self ++ others.flatten, f.core.outputs ≠ [])
    (hdis : ∀ pre f post, self ++ others.flatten = pre ++ f :: post → ∀ o ∈ f.core.outputs, o ∉ allOutputs pre) :
    joinSeeded self others = joinAll self others := by
  unfold joinSeeded joinAll
  rw [skipJoined_id]
  · simp
  · intro pre f post hl
    rw [List.nil_append]
    cases hb : pre.any (sameStep f) with
    | false => rfl
    | true =>
      obtain ⟨g, hg, hs⟩ := List.any_eq_true.mp hb
      have hout := sameStep_outputs f g hs
      have hfm : f ∈ self ++ others.flatten := by rw [hl]; simp
      cases hfo : f.core.outputs with
      | nil => exact absurd hfo (hne f hfm)
      | cons o os =>
        have h1 : o ∈ f.core.outputs := by rw [hfo]; simp
        have h2 : o ∈ allOutputs pre := by
          simp only [allOutputs, List.mem_flatMap]
          exact ⟨g, hg, by rw [← hout]; exact h1⟩
        exact absurd h2 (hdis pre f post hl o h1)

/-! ### the demo of seeded change C10-s4-B in the model -/

/-- **the seeded join is silently wrong where the real one refuses**: on the demo (the second pipeline binds another value in the
    shared step) the real `join` refuses; the seeded loop keeps the FIRST configuration (`load` with `scale = 2`, `plus`, `times`),
    and output `b` of that list is `times(load(x, scale=2))` whereas the second pipeline computes `times(load(x, scale=3))`. -/
theorem C10_join_seeded_witness :
    (∃ e, joinAll PJ1 [PJ2] = .error e) ∧
    skipJoined [] (PJ1 ++ [PJ2].flatten) = [loadS "2", plusS, timesS] ∧
    eval [loadS "2", plusS, timesS] kwJ 4 "b" = .ok (.app "times" [("data", .app "load" [("x", .str "kw:x"), ("scale", .str "2")])]) ∧
    eval PJ2 kwJ 4 "b" = .ok (.app "times" [("data", .app "load" [("x", .str "kw:x"), ("scale", .str "3")])]) ∧
    Val.app "times" [("data", .app "load" [("x", .str "kw:x"), ("scale", .str "2")])] ≠
      Val.app "times" [("data", .app "load" [("x", .str "kw:x"), ("scale", .str "3")])] := by
  refine ⟨?_, rfl, rfl, rfl, ?_⟩
  · exact C10_join_shared_step_refused PJ1 PJ2 (loadS "2") (loadS "3") (by simp [PJ1]) (by simp [PJ2]) "data"
      (by simp [loadS, embed]) (by simp [loadS, embed])
  · intro h
    simp at h

/-! ### non-vacuity -/

/-- an accepted three-operand join (`p.join(q, f)` with a bare PipeFunc last) -/
example : joinAll [nullF "f0" "o0"] [[nullF "g0" "q0"], [nullF "h0" "z0"]] = .ok [nullF "f0" "o0", nullF "g0" "q0", nullF "h0" "z0"] := rfl

/-- `C10_join_each` applied end to end to the MIDDLE operand of that join -/
example (kw : List (String × Val)) (n : Nat) :
    eval [nullF "f0" "o0", nullF "g0" "q0", nullF "h0" "z0"] kw n "q0" = eval [nullF "g0" "q0"] kw n "q0" := by
  have h := C10_join_each [nullF "f0" "o0"] [[nullF "g0" "q0"], [nullF "h0" "z0"]]
    [nullF "f0" "o0", nullF "g0" "q0", nullF "h0" "z0"] rfl
    [[nullF "f0" "o0"]] [nullF "g0" "q0"] [[nullF "h0" "z0"]] rfl kw (fun x => x = "q0")
    (by intro f hf g hg p v w hv; simp [cores, nullF, embed] at hf; rcases hf with rfl | rfl | rfl <;> simp at hv)
    (by intro x f hx hf p hp
        subst hx
        simp [rproducer, nullF, embed] at hf
        subst hf
        simp at hp)
    (by intro x hx g hg
        subst hx
        simp [nullF, embed] at hg
        rcases hg with rfl | rfl <;> simp)
    n "q0" rfl
  exact h.2

/-- `C10_join_each_supplied` applied end to end to the demo with the shared step under ANOTHER output name in the second pipeline
    (accepted join): output `b` of the second operand, all root arguments supplied -/
example (r : List RFunc) (h : joinAll PJ1 [PJ3] = .ok r) (n : Nat) : eval r kwJ n "b" = eval PJ3 kwJ n "b" := by
  apply C10_join_each_supplied PJ1 [PJ3] r h [PJ1] PJ3 [] rfl kwJ (fun x => x = "b" ∨ x = "data3" ∨ x = "x" ∨ x = "scale")
  · intro x f hx hf p hp _
    rcases hx with rfl | rfl | rfl | rfl <;> simp [rproducer, PJ3, loadR, timesR, embed] at hf <;> subst hf <;> simp at hp <;>
      (try rcases hp with rfl | rfl) <;> simp [*]
  · intro x hx g hg
    simp [PJ1] at hg
    rcases hg with rfl | rfl <;> rcases hx with rfl | rfl | rfl | rfl <;> simp [loadS, plusS, embed]
  · intro x f hx hf p hp hb hpr
    rcases hx with rfl | rfl | rfl | rfl <;> simp [rproducer, PJ3, loadR, timesR, embed] at hf <;> subst hf <;> simp at hp <;>
      (try rcases hp with rfl | rfl) <;> simp_all [alookup, kwJ, rproducer, PJ3, loadR, timesR, embed]
  · exact Or.inl rfl

/-- `C10_join_each_checked` on the same accepted join: both hypotheses are closed Boolean facts -/
example (r : List RFunc) (h : joinAll PJ1 [PJ3] = .ok r) (n : Nat) : eval r kwJ n "b" = eval PJ3 kwJ n "b" :=
  C10_join_each_checked PJ1 [PJ3] r h [PJ1] PJ3 [] rfl kwJ "b" (by decide) (by decide) n
/-- ... and `joinKeeps` is false for an output that another operand feeds -/
example : joinKeeps [timesS] [loadS "2"] "b" = false := by decide

/-- `C10_join_overlap_refused` / `C10_join_shared_step_refused`: the same function object in both pipelines, and as a bare PipeFunc -/
example : ∃ e, joinAll PJ1 [PJ1] = .error e := C10_join_self_refused PJ1 (loadS "2") (by simp [PJ1]) "data" (by simp [loadS, embed])
example : ∃ e, joinAll PJ1 [[loadS "3"]] = .error e :=
  C10_join_shared_step_refused PJ1 [loadS "3"] (loadS "2") (loadS "3") (by simp [PJ1]) (by simp) "data" (by simp [loadS, embed]) (by simp [loadS, embed])

/-- `C10_join_seeded_same_when_disjoint` applies to the three-operand join above -/
example : joinSeeded [nullF "f0" "o0"] [[nullF "g0" "q0"], [nullF "h0" "z0"]] = joinAll [nullF "f0" "o0"] [[nullF "g0" "q0"], [nullF "h0" "z0"]] := by
  apply C10_join_seeded_same_when_disjoint
  · intro f hf
    simp at hf
    rcases hf with rfl | rfl | rfl <;> simp [nullF, embed]
  · intro pre f post hl o ho
    rcases pre with _ | ⟨a, _ | ⟨b, _ | ⟨c, pre⟩⟩⟩
    · simp [allOutputs]
    · simp at hl
      obtain ⟨rfl, rfl, _⟩ := hl
      simp [nullF, embed, allOutputs] at ho ⊢
      simp [ho]
    · simp at hl
      obtain ⟨rfl, rfl, rfl, _⟩ := hl
      simp [nullF, embed, allOutputs] at ho ⊢
      simp [ho]
    · simp at hl

end PF.C10
