import PfModel.Model.SchedExec
/-!
C03 (extension) — the executor-selection rule (`_executor_for_func`, `_maybe_executor`, the checks of `prepare_run`).
The executor a task is handed to is not part of `runMapSched`/`runPartSched`: whatever the assignment, it can only
influence the *schedule*, over which those theorems quantify.  What is stated here is the decision logic itself, which the
harness compares with the executor every task of a real run was handed to.
-/
namespace PF.C03
open PF PF.Sched PF.SchedX

/-- **The rule.** With a dictionary: the function's own key (`func.output_name` — the *tuple* for several outputs) wins,
    else the default `""`, else the request is refused; without one (sequential run) everything runs in the parent. -/
theorem C03_executor_rule {ε} (d : Option (List (XKey × ε))) (outs : List String) :
    (executorFor d outs = .inParent ↔ d = none) ∧
    (∀ e, executorFor d outs = .submit e ↔ ∃ l, d = some l ∧
        (klookup l (keyOf outs) = some e ∨ (klookup l (keyOf outs) = none ∧ klookup l XKey.default = some e))) ∧
    (executorFor d outs = .refuse ↔ ∃ l, d = some l ∧ klookup l (keyOf outs) = none ∧ klookup l XKey.default = none) := by
  cases d with
  | none => simp [executorFor]
  | some l =>
    simp only [executorFor]
    cases h1 : klookup l (keyOf outs) with
    | some e1 =>
      refine ⟨by simp, fun e => ?_, by simp [h1]⟩
      constructor
      · intro h; cases h; exact ⟨l, rfl, Or.inl h1⟩
      · rintro ⟨l', hl, h | ⟨h, _⟩⟩
        · cases hl; rw [h1] at h; cases h; rfl
        · cases hl; rw [h1] at h; cases h
    | none =>
      cases h2 : klookup l XKey.default with
      | some e2 =>
        refine ⟨by simp, fun e => ?_, by simp [h2]⟩
        constructor
        · intro h; cases h; exact ⟨l, rfl, Or.inr ⟨h1, h2⟩⟩
        · rintro ⟨l', hl, h | ⟨_, h⟩⟩
          · cases hl; rw [h1] at h; cases h
          · cases hl; rw [h2] at h; cases h; rfl
      | none =>
        refine ⟨by simp, fun e => ?_, by simp [h1, h2]⟩
        constructor
        · intro h; cases h
        · rintro ⟨l', hl, h | ⟨_, h⟩⟩
          · cases hl; rw [h1] at h; cases h
          · cases hl; rw [h2] at h; cases h

/-- a dictionary key that names *one* output of a function with several outputs never selects that function's executor -/
theorem C03_executor_tuple_key (o : String) (outs : List String) (h : 2 ≤ outs.length) : keyOf outs ≠ .name o := by
  match outs, h with
  | a :: b :: r, _ => simp [keyOf]

theorem executorFor_default {ε} (e : ε) (outs : List String) : executorFor (some [(XKey.default, e)]) outs = .submit e := by
  simp only [executorFor, klookup]
  by_cases h : XKey.default = keyOf outs
  · simp [h]
  · simp [h]

/-- an executor together with `parallel=False` is refused before anything happens — except an *empty* dictionary, which is
    falsy and passes this check (it is refused later, as a dictionary that names no executor); no executor and `parallel` ⇒ the fresh pool for everything; a single executor is the
    default for every output; an empty dictionary with `parallel` refuses every function -/
theorem C03_executor_normalise {ε} (pool e : ε) (d : List (XKey × ε)) (outs : List String) :
    normalise false (ExecArg.one e) = .error .needsParallel ∧
    (normalise false (ExecArg.dict d) = .error .needsParallel ↔ d ≠ []) ∧
    executorFor (maybeExecutor false pool none) outs = .inParent ∧
    executorFor (maybeExecutor true pool none) outs = .submit pool ∧
    (∀ l, normalise true (ExecArg.one e) = .ok l → executorFor (maybeExecutor true pool l) outs = .submit e) ∧
    executorFor (maybeExecutor true pool (some ([] : List (XKey × ε)))) outs = .refuse := by
  refine ⟨rfl, ?_, rfl, executorFor_default pool outs, ?_, rfl⟩
  · cases d with
    | nil => simp [normalise, pure, Except.pure]
    | cons a r => simp [normalise, throw, throwThe, MonadExceptOf.throw]
  · intro l hl
    simp only [normalise, ↓reduceIte, pure, Except.pure, Except.ok.injEq] at hl
    subst hl
    exact executorFor_default e outs

theorem selectGen_ok_iff {ε} (d : Option (List (XKey × ε))) (g : Nat) : ∀ (gen : List (List String)) (r : List (List String × Choice ε)),
    selectGen d g gen = .ok r ↔
      (∀ outs ∈ gen, (executorFor d outs).isRefuse = false) ∧ r = gen.map fun outs => (outs, executorFor d outs) := by
  intro gen
  induction gen with
  | nil => intro r; simp [selectGen, pure, Except.pure]
  | cons outs rest ih =>
    intro r
    simp only [selectGen]
    by_cases hc : (executorFor d outs).isRefuse = true
    · simp only [hc, ↓reduceIte]
      constructor
      · intro h; cases h
      · intro h; have := h.1 outs List.mem_cons_self; rw [hc] at this; cases this
    · simp only [hc, Bool.false_eq_true, ↓reduceIte, bind, Except.bind]
      cases hr : selectGen d g rest with
      | error e =>
        constructor
        · intro h; cases h
        · intro h
          have := (ih (rest.map fun outs => (outs, executorFor d outs))).mpr ⟨fun o ho => h.1 o (List.mem_cons_of_mem _ ho), rfl⟩
          rw [hr] at this; cases this
      | ok more =>
        have hm := (ih more).mp hr
        simp only [pure, Except.pure, Except.ok.injEq, List.map_cons, List.mem_cons, forall_eq_or_imp]
        constructor
        · intro h; subst h; exact ⟨⟨by simpa using hc, hm.1⟩, by rw [hm.2]⟩
        · intro h; rw [h.2, hm.2]

theorem selectGen_err {ε} (d : Option (List (XKey × ε))) (g : Nat) : ∀ (gen : List (List String)) (e : XErr),
    selectGen d g gen = .error e → ∃ outs ∈ gen, e = .noExecutor g outs ∧ (executorFor d outs).isRefuse = true := by
  intro gen
  induction gen with
  | nil => intro e h; simp [selectGen, pure, Except.pure] at h
  | cons outs rest ih =>
    intro e h
    simp only [selectGen] at h
    by_cases hc : (executorFor d outs).isRefuse = true
    · simp only [hc, ↓reduceIte, throw, throwThe, MonadExceptOf.throw, Except.error.injEq] at h
      exact ⟨outs, List.mem_cons_self, h.symm, hc⟩
    · simp only [hc, Bool.false_eq_true, ↓reduceIte, bind, Except.bind] at h
      cases hr : selectGen d g rest with
      | error e' =>
        rw [hr] at h
        simp only [Except.error.injEq] at h
        subst h
        obtain ⟨o, ho, h1, h2⟩ := ih e' hr
        exact ⟨o, List.mem_cons_of_mem _ ho, h1, h2⟩
      | ok more => rw [hr] at h; cases h

/-- **Accepted iff every function has an executor**, and then every function gets the executor of the rule. -/
theorem C03_executor_accepts {ε} (d : Option (List (XKey × ε))) :
    ∀ (gens : List (List (List String))) (g0 : Nat) (r : List (List (List String × Choice ε))),
      selectGens d g0 gens = .ok r ↔
        (∀ gen ∈ gens, ∀ outs ∈ gen, (executorFor d outs).isRefuse = false) ∧
        r = gens.map (fun gen => gen.map fun outs => (outs, executorFor d outs)) := by
  intro gens
  induction gens with
  | nil => intro g0 r; simp [selectGens, pure, Except.pure]
  | cons gen rest ih =>
    intro g0 r
    simp only [selectGens, bind, Except.bind]
    cases ha : selectGen d g0 gen with
    | error e =>
      obtain ⟨o, ho, _, hrf⟩ := selectGen_err d g0 gen e ha
      constructor
      · intro h; cases h
      · intro h; have := h.1 gen List.mem_cons_self o ho; rw [hrf] at this; cases this
    | ok a =>
      have ha' := (selectGen_ok_iff d g0 gen a).mp ha
      cases hr : selectGens d (g0 + 1) rest with
      | error e =>
        constructor
        · intro h; cases h
        · intro h
          have := (ih (g0 + 1) (rest.map fun gen => gen.map fun outs => (outs, executorFor d outs))).mpr
            ⟨fun gn hgn => h.1 gn (List.mem_cons_of_mem _ hgn), rfl⟩
          rw [hr] at this; cases this
      | ok more =>
        have hm := (ih (g0 + 1) more).mp hr
        simp only [pure, Except.pure, Except.ok.injEq, List.map_cons, List.mem_cons, forall_eq_or_imp]
        constructor
        · intro h; subst h; exact ⟨⟨ha'.1, hm.1⟩, by rw [ha'.2, hm.2]⟩
        · intro h; rw [h.2, ha'.2, hm.2]

/-- **Refused at the first function without an executor, in generation order**: the error names the generation `g` of that
    function; every function of the generations before `g` has an executor (in the run these generations have been executed
    completely when the `ValueError` is raised). -/
theorem C03_executor_refuses {ε} (d : Option (List (XKey × ε))) :
    ∀ (gens : List (List (List String))) (g0 : Nat) (e : XErr), selectGens d g0 gens = .error e →
      ∃ g outs gen, e = .noExecutor g outs ∧ (executorFor d outs).isRefuse = true ∧ g0 ≤ g ∧ gens[g - g0]? = some gen ∧ outs ∈ gen ∧
        ∀ k, k < g - g0 → ∀ gen', gens[k]? = some gen' → ∀ outs' ∈ gen', (executorFor d outs').isRefuse = false := by
  intro gens
  induction gens with
  | nil => intro g0 e h; simp [selectGens, pure, Except.pure] at h
  | cons gen rest ih =>
    intro g0 e h
    simp only [selectGens, bind, Except.bind] at h
    cases ha : selectGen d g0 gen with
    | error e0 =>
      rw [ha] at h
      simp only [Except.error.injEq] at h
      subst h
      obtain ⟨o, ho, he, hrf⟩ := selectGen_err d g0 gen e0 ha
      exact ⟨g0, o, gen, he, hrf, Nat.le_refl _, by simp, ho, fun k hk => by omega⟩
    | ok a =>
      have ha' := (selectGen_ok_iff d g0 gen a).mp ha
      rw [ha] at h
      simp only at h
      cases hr : selectGens d (g0 + 1) rest with
      | ok more => rw [hr] at h; cases h
      | error e1 =>
        rw [hr] at h
        simp only [Except.error.injEq] at h
        subst h
        obtain ⟨g, outs, gn, h0, h1, h2, h3, h4, h5⟩ := ih (g0 + 1) e1 hr
        refine ⟨g, outs, gn, h0, h1, by omega, ?_, h4, ?_⟩
        · have : g - g0 = (g - (g0 + 1)) + 1 := by omega
          rw [this, List.getElem?_cons_succ]; exact h3
        · intro k hk gen' hgen' outs' ho'
          cases k with
          | zero =>
            simp only [List.getElem?_cons_zero, Option.some.injEq] at hgen'
            subst hgen'
            exact ha'.1 outs' ho'
          | succ k =>
            simp only [List.getElem?_cons_succ] at hgen'
            exact h5 k (by omega) gen' hgen' outs' ho'

/-- **A validated dictionary is never refused later.** Once `_validate_executor_names` has accepted the (normalised) dictionary for the
    functions of the pipeline, `_executor_for_func` finds an executor for every one of them: no generation is ever submitted
    partially, and no user function runs before a refusal (the refusals are all in `prepare_run`). -/
theorem C03_executor_validated_total {ε} (parallel : Bool) (pool : ε) (d : Option (List (XKey × ε))) (fns : List (List String))
    (hv : validateNames d fns = .ok ()) : ∀ outs ∈ fns, (executorFor (maybeExecutor parallel pool d) outs).isRefuse = false := by
  intro outs ho
  cases d with
  | none =>
    cases parallel
    · simp [maybeExecutor, executorFor, Choice.isRefuse]
    · have hself : klookup [(XKey.default, pool)] XKey.default = some pool := by simp [klookup]
      have hm : maybeExecutor true pool (none : Option (List (XKey × ε))) = some [(XKey.default, pool)] := rfl
      rw [hm]
      simp only [executorFor]
      by_cases hk : XKey.default = keyOf outs
      · rw [← hk, hself]; rfl
      · have hne : klookup [(XKey.default, pool)] (keyOf outs) = none := by simp [klookup, hk]
        rw [hne, hself]; rfl
  | some d =>
    simp only [validateNames] at hv
    simp only [maybeExecutor, executorFor]
    split at hv
    · cases hv
    · split at hv
      · next hdef =>
        cases hk : klookup d (keyOf outs) with
        | some e => simp [Choice.isRefuse]
        | none =>
          cases hd : klookup d XKey.default with
          | some e => simp [Choice.isRefuse]
          | none => rw [hd] at hdef; cases hdef
      · split at hv
        · cases hv
        · next hnone =>
          have := List.find?_eq_none.mp hnone outs ho
          cases hk : klookup d (keyOf outs) with
          | some e => simp [Choice.isRefuse]
          | none => rw [hk] at this; simp at this

/-- **The whole decision never refuses at submission.** `selectAll` answers with a refusal of `prepare_run`
    (`needsParallel`, `badKey`, `uncovered`) or with a choice for every function — never with `noExecutor`. -/
theorem C03_executor_refusals_are_early {ε} (parallel : Bool) (pool : ε) (arg : ExecArg ε) (gens : List (List (List String)))
    (g : Nat) (outs : List String) : selectAll parallel pool arg gens ≠ .error (.noExecutor g outs) := by
  intro h
  simp only [selectAll, bind, Except.bind] at h
  cases hn : normalise parallel arg with
  | error e =>
    rw [hn] at h
    cases arg <;> simp only [normalise] at hn <;> (try split at hn) <;> simp_all [pure, Except.pure, throw, throwThe, MonadExceptOf.throw]
  | ok d =>
    rw [hn] at h
    simp only at h
    cases hv : validateNames d gens.flatten with
    | error e =>
      rw [hv] at h
      simp only [Except.error.injEq] at h
      subst h
      cases d with
      | none => simp [validateNames, pure, Except.pure] at hv
      | some d =>
        simp only [validateNames] at hv
        split at hv
        · cases hv
        · split at hv
          · cases hv
          · split at hv <;> cases hv
    | ok u =>
      rw [hv] at h
      simp only at h
      obtain ⟨g', o', gen, he, hrf, _, hg, hmem, _⟩ := C03_executor_refuses (maybeExecutor parallel pool d) gens 0 _ h
      have := C03_executor_validated_total parallel pool d gens.flatten hv o'
        (List.mem_flatten.mpr ⟨gen, List.mem_of_getElem? hg, hmem⟩)
      rw [hrf] at this; cases this

/-! non-vacuity: a dictionary with a tuple key, a single-name key of a tuple output (ignored), with and without default -/
private def d1 : Option (List (XKey × String)) := some [(.tuple ["a", "b"], "E1"), (.name "c", "E2"), (.name "", "E0")]
example : executorFor d1 ["a", "b"] = .submit "E1" := by decide
example : executorFor d1 ["c"] = .submit "E2" := by decide
example : executorFor d1 ["z"] = .submit "E0" := by decide
/-- the key `"a"` does not cover the function with outputs `(a, b)` -/
example : executorFor (some [(XKey.name "a", "E1")]) ["a", "b"] = .refuse := by rfl
/-- the generation loop alone would refuse only when the uncovered function's generation is submitted (what the code did before the
    DF-C12-executor-dict repair: `x`, `y` of generation 0 had already run when `z` was refused) … -/
example : selectGens (some [(XKey.name "y", "E1"), (.name "x", "E2")]) 0 [[["x"], ["y"]], [["z"]]] = .error (.noExecutor 1 ["z"]) := by rfl
/-- … `prepare_run` now refuses the same requests up front, before anything runs -/
example : selectAll true "pool" (.dict [(.name "y", "E1")]) [[["x"], ["y"]], [["z"]]] = .error (.uncovered ["x"]) := by rfl
example : selectAll true "pool" (.dict [(.name "y", "E1"), (.name "x", "E2")]) [[["x"], ["y"]], [["z"]]] = .error (.uncovered ["z"]) := by rfl
example : selectAll true "pool" (.dict [(.name "q", "E1"), (.name "", "E0")]) [[["x"]]] = .error .badKey := by rfl
/-- a single name of a tuple output is a known key, but does not cover the function -/
example : selectAll true "pool" (.dict [(.name "a", "E1")]) [[["a", "b"]]] = .error (.uncovered ["a", "b"]) := by rfl
/-- an empty dictionary passes the `parallel=False` check (it is falsy) but is still a dictionary without any executor -/
example : selectAll false "pool" (.dict []) [[["x"]]] = .error (.uncovered ["x"]) := by rfl
example : selectAll false "pool" (ExecArg.none) [[["x"]]] = .ok [[(["x"], .inParent)]] := by rfl
example : selectAll true "pool" (ExecArg.none) [[["x"]]] = .ok [[(["x"], .submit "pool")]] := by rfl

end PF.C03
