import PfModel.Model.ErrorsKinds
import PfModel.Props.C13
/-!
C13 (extension) — exception classes: what is promised for an `Exception` (with or without args — `Exn.args` is arbitrary,
`[]` included) and what a `BaseException`-only class gets (`surface`).
-/
namespace PF.C13
open PF PF.Map PF.Errors

/-- **Every class, with or without args: type and message unchanged; an `Exception` is annotated and snapshotted, a
    `BaseException`-only class is neither.**  For every mode and schedule, when the run raises: the exception the caller sees
    is the oracle's answer for an invocation `t` of a function of the failing generation — whatever its class and whatever
    its `args` (empty, unpicklable, …: the model never looks inside); if the class derives from `Exception` the caller also
    sees the note naming `t`'s function and arguments and a snapshot whose `reproduce` (also after save/load) raises the
    same exception; if not, no note and no snapshot exist — and in both cases nothing of a later generation ran
    (`C13_no_later_generation` does not depend on the class). -/
theorem C13_kinds (isException : Exn → Bool) (mode : Mode) (fails : Oracle) (sched : Nat → List Nat) (R : Env → MFunc → M FuncResult)
    (gens : List (List MFunc)) (env : Env) (g g' : Nat) (r : Raised) (log : List Task) (store : List (String × Slot))
    (h : runGensE mode fails sched R gens env g = .raised g' r log store) :
    ∃ (gen : List MFunc) (t : Task), gens[g' - g]? = some gen ∧ t.f ∈ gen ∧
      fails t.f.name t.c.args = some (surface isException r).exn ∧
      (isException r.exn = true →
        (surface isException r).note = some (t.f.name, noteKwOf t.f.params t.c.args) ∧
        ∃ s, (surface isException r).snap = some s ∧ s.fname = t.f.name ∧ s.kwargs = t.c.args ∧
          reproduce fails (load (save s)) = .error (surface isException r).exn) ∧
      (isException r.exn = false → (surface isException r).note = none ∧ (surface isException r).snap = none) := by
  obtain ⟨k, gen, t, x, _, _, _, e1, e2, ht, hx, hr, _, _, _⟩ := C13_raised_facts mode fails sched R gens env g g' r log store h
  subst hr
  have hx' : fails t.f.name t.c.args = some x := hx
  refine ⟨gen, t, by rw [e1]; simpa using e2, ht, ?_, ?_, ?_⟩
  · simp only [surface]; split <;> exact hx'
  · intro hE
    simp only [surface, hE, ↓reduceIte]
    refine ⟨rfl, _, rfl, rfl, rfl, ?_⟩
    simp [raisedOf, handleError, reproduce, save, load, hx']
  · intro hE
    simp [surface, hE]

/-- an exception without args is an exception like any other: the snapshot of `orcB`'s `KeyError()` reproduces it -/
example : (match Call.runTopE orcB [fC, fB, fA] [("x", .int 1)] (.name "c") with
    | .raised r _ => ((surface (fun _ => true) r).exn.args.length, (surface (fun _ => true) r).note.map (·.1), (surface (fun _ => false) r).note.map (·.1))
    | _ => (9, none, none)) = (0, some "fb", none) := by decide

end PF.C13
