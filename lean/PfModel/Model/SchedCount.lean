/-
Call counts of the parallel map runner (`PF.Sched.runMapSched`), as observables of a run: how often a function was invoked
(the cross-process append-only call log of the harness counts exactly this), how often the body of one submitted future ran
(the executor sees exactly this), and what the property demands for them: once per external index of a mapped function
(`_maybe_parallel_map :684-700` submits one future per index of `args.missing`, on a fresh store `range(prod(external_shape))`),
once in total for a function without a MapSpec or with an input-free one (`_maybe_execute_single :768-783`).
Core Lean only.
-/
import PfModel.Model.Sched
namespace PF.SchedC
open PF PF.Map PF.Sched

/-- how often the function named `n` was invoked in a run: the entries of the execution-order call log with that name -/
def callCount (n : String) (trs : List GenTrace) : Nat := (trs.flatMap (·.calls)).countP fun c => c.name == n

/-- how often the body of future `id` of generation `g` ran in a run -/
def taskCount (g : Nat) (id : TaskId) (trs : List GenTrace) : Nat := (runLog 0 trs).count (g, id)

/-- what the property demands: one invocation per external index (the product of the external — `mask = True` — axes of the
    function's first output, `_prepare_submit_map_spec :623-647`), one in total without a MapSpec / with an input-free MapSpec;
    nothing for a function whose shape look-up fails (the run is refused) -/
def demanded (shapes : List (String × List Nat)) (masks : List (String × List Bool)) (f : MFunc) : Nat :=
  nFut (planOf shapes masks f)

/-- per function of every generation: (name, how often invoked, how often demanded) -/
def callTable (fs : List MFunc) (shapes : List (String × List Nat)) (masks : List (String × List Bool)) (trs : List GenTrace) :
    List (String × Nat × Nat) :=
  (generations fs).flatten.map fun f => (f.name, callCount f.name trs, demanded shapes masks f)

/-- per generation and submitted future: (generation, function position, future position, how often its body ran) -/
def taskTable (trs : List GenTrace) : List (Nat × Nat × Nat × Nat) :=
  (List.zip (List.range trs.length) trs).flatMap fun (g, tr) => tr.ids.map fun id => (g, id.1, id.2, taskCount g id trs)

/-- bodies that ran without having been submitted (must be empty) -/
def strayTasks (trs : List GenTrace) : List (Nat × Nat × Nat) :=
  (List.zip (List.range trs.length) trs).flatMap fun (g, tr) => (tr.ran.filter fun id => !tr.ids.contains id).map fun id => (g, id.1, id.2)

end PF.SchedC
