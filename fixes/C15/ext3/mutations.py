"""Hand mutations of pipefunc/cache.py tried against ./check C15 (round 3).  Usage: mutations.py <worktree> <name> (applies one)."""
import sys
from pathlib import Path

MUT = {
    # Series: the name no longer enters the key
    "M1": ("return (m, tp, (obj.name, to_hashable(obj.to_dict(), fallback_to_pickle)))",
           "return (m, tp, to_hashable(obj.to_dict(), fallback_to_pickle))"),
    # DataFrame: the cells without the column labels
    "M2": ('return (m, tp, to_hashable(obj.to_dict("list"), fallback_to_pickle))',
           "return (m, tp, to_hashable(obj.values.tolist(), fallback_to_pickle))"),
    # Series: index labels through str() ("0" and 0 become one label)
    "M3": ("return (m, tp, (obj.name, to_hashable(obj.to_dict(), fallback_to_pickle)))",
           "return (m, tp, (obj.name, to_hashable({str(k): v for k, v in obj.to_dict().items()}, fallback_to_pickle)))"),
    # DataFrame: keyed through the transposed frame (column labels lost, index labels kept)
    "M4": ('return (m, tp, to_hashable(obj.to_dict("list"), fallback_to_pickle))',
           'return (m, tp, to_hashable(obj.T.to_dict("list"), fallback_to_pickle))'),
    # memoize: keyword names dropped from the key
    "M5": ("                    (args, kwargs),\n", "                    args + tuple(kwargs.values()),\n"),
    # memoize: keywords whose value is None are treated as not given
    "M6": ("                    (args, kwargs),\n", "                    (args, {k: v for k, v in kwargs.items() if v is not None}),\n"),
    # memoize: a call without keywords is keyed by its positionals alone, one with keywords by the pair
    "M7": ("                    (args, kwargs),\n", "                    (args, kwargs) if kwargs else args,\n"),
    # memoize: the kwargs dict appended to the positionals
    "M8": ("                    (args, kwargs),\n", "                    (*args, kwargs),\n"),
    # Series: values only, by position (labels AND name kept? no: labels dropped) — the seed's sibling through tolist()
    "M9": ("return (m, tp, (obj.name, to_hashable(obj.to_dict(), fallback_to_pickle)))",
           "return (m, tp, (obj.name, to_hashable(obj.tolist(), fallback_to_pickle)))"),
}

FILES = {"M10": "pipefunc/_pipeline/_base.py", "M11": "pipefunc/map/_run.py"}
# Pipeline.__call__: the function's defaults override the supplied values in the key
MUT["M10"] = ("                self._func_defaults(func) | flat_scope_kwargs,\n", "                flat_scope_kwargs | self._func_defaults(func),\n")
# Pipeline.map: the element cache key without the output name
MUT["M11"] = ("    cache_key = (func.output_name, to_hashable(kwargs))\n", "    cache_key = to_hashable(kwargs)\n")

if __name__ == "__main__":
    wt, name = sys.argv[1], sys.argv[2]
    f = Path(wt) / FILES.get(name, "pipefunc/cache.py")
    s = f.read_text()
    old, new = MUT[name]
    assert s.count(old) == 1, (name, s.count(old))
    f.write_text(s.replace(old, new))
