import PfModel.DriverLib
import PfModel.Model.Resources
import PfModel.Model.ResourcesHeap
import PfModel.Model.ResourcesPipe
/-! Driver for C20 (`resources.ops`). Run: `lake env lean --run Driver/C20.lean < requests.jsonl`. -/
open Lean PF.Drv PF.Res PF.ResH PF.ResPipe

def getExtra (j : Json) : R (List (String × Int)) := asList (asPair asStr asInt) j

/-- `{"cpus": 1, "memory": "2GB", "extra_args": [["k", 1]], ...}`; absent / null = None -/
def getR (j : Json) : R PF.Res.R := do
  return { cpus := ← optF asInt j "cpus", cpusPerNode := ← optF asInt j "cpus_per_node", nodes := ← optF asInt j "nodes",
           memory := ← optF asStr j "memory", gpus := ← optF asInt j "gpus", time := ← optF asStr j "time",
           partition := ← optF asStr j "partition",
           extra := (← optF getExtra j "extra_args").getD [],
           mode := (← optF asStr j "parallelization_mode").getD "external" }

def putR (r : PF.Res.R) : Json :=
  jObj [("cpus", jOpt jInt r.cpus), ("cpus_per_node", jOpt jInt r.cpusPerNode), ("nodes", jOpt jInt r.nodes),
        ("memory", jOpt jStr r.memory), ("gpus", jOpt jInt r.gpus), ("time", jOpt jStr r.time),
        ("partition", jOpt jStr r.partition), ("extra_args", jList (jPair jStr jInt) r.extra),
        ("parallelization_mode", jStr r.mode)]

def putOptR : Option PF.Res.R → Json
  | none => jObj [("err", jStr "ValueError")]
  | some r => jObj [("ok", putR r)]

/-- update keywords: `[key, value]` with value an int, a string, null, or (for `extra_args`) a list of pairs -/
def getUpd (j : Json) : R Upd := do
  let (k, v) ← asPair asStr pure j
  match k, v with
  | "cpus", .null => return .clearCpus
  | "nodes", .null => return .clearNodes
  | "cpus_per_node", .null => return .clearCpusPerNode
  | "memory", .null => return .clearMemory
  | "gpus", .null => return .clearGpus
  | "time", .null => return .clearTime
  | "partition", .null => return .clearPartition
  | "cpus", v => return .field (.cpus (← asInt v))
  | "nodes", v => return .field (.nodes (← asInt v))
  | "cpus_per_node", v => return .field (.cpusPerNode (← asInt v))
  | "gpus", v => return .field (.gpus (← asInt v))
  | "memory", v => return .field (.memory (← asStr v))
  | "time", v => return .field (.time (← asStr v))
  | "partition", v => return .field (.partition (← asStr v))
  | "parallelization_mode", v => return .field (.mode (← asStr v))
  | "extra_args", v => return .field (.extra (← getExtra v))
  | k, v => return .unknown k (← asInt v)


/-! ### the object model with a heap (`Model/ResourcesHeap.lean`), entry `heap` -/

def getRec (j : Json) : R Rec := do
  return { f := ← getR (← fld j "f"), ex := ← natF j "ex" }

/-- `["extra_args", {"ref": j}]` passes the existing dict object `j`; everything else as in `getUpd` -/
def getHUpd (m : Nat) (j : Json) : R HUpd := do
  let (k, v) ← asPair asStr pure j
  if k == "extra_args" then
    match fld? v "ref" with
    | some r =>
      let i ← asNat r
      if i < m then return .extraObj i else .error "heap: dangling dict reference"
    | none => return .plain (← getUpd j)
  else return .plain (← getUpd j)

inductive HOut
  | noneV | err | inst (o : Nat) | kw (d : KwDict)

def ofOpt : Option Nat → HOut
  | none => .err
  | some o => .inst o

def isExtraField : Field → Bool
  | .extra _ => true
  | _ => false

def runOp (h : Heap) (op : Json) : R (HOut × Heap) := do
  let n := h.recs.length
  let m := h.dicts.length
  let chk (i : Nat) : R Nat := if i < n then pure i else .error "heap: dangling instance reference"
  let ref (k : String) : R Nat := do chk (← natF op k)
  let oref (k : String) : R (Option Nat) := do
    match ← optF asNat op k with
    | none => pure none
    | some i => return some (← chk i)
  match ← strF op "k" with
  | "update" =>
    let out := updateH h (← ref "self") (← listF (getHUpd m) op "kw")
    return (ofOpt out.1, out.2)
  | "combine_max" =>
    let l ← listF asNat op "l"
    if !(l.all (· < n)) then .error "heap: dangling instance reference"
    if !(l.all (fun o => Valid (view h o))) then .error "heap: invalid operand"
    let out := combineMaxH h l
    return (ofOpt out.1, out.2)
  | "with_defaults" =>
    let out := withDefaultsH h (← ref "self") (← oref "default")
    return (ofOpt out.1, out.2)
  | "maybe_with_defaults" =>
    let out := maybeWithDefaultsH h (← oref "r") (← oref "default")
    return (match out.1 with | none => .err | some none => .noneV | some (some o) => .inst o, out.2)
  | "dict" =>
    let out := dictH h (← ref "self")
    return (.kw out.1, out.2)
  | "dict_roundtrip" =>
    let a := dictH h (← ref "self")
    let out := fromDictH a.2 a.1
    return (ofOpt out.1, out.2)
  | "from_dict" =>
    let f ← getR (← fld op "f")
    let data : KwDict ← (do
      match ← optF asNat op "ex" with
      | some e =>
        if e < m then pure ((toDict { f with extra := h.dict e }).map (tagField e)) else .error "heap: dangling dict reference"
      | none => pure (((toDict f).filter (fun x => !isExtraField x)).map (fun x => (x, none))))
    let out := fromDictH h data
    return (ofOpt out.1, out.2)
  | k => .error s!"heap: unknown operation {k}"

def exTag (m e : Nat) : Json := if e < m then jNat e else jStr "fresh"

/-- the `extra_args` object of the outcome, if it has one -/
def outRef (h' : Heap) : HOut → Option Nat
  | .inst o => some (h'.obj o).ex
  | .kw d => (d.foldl setFieldH ({}, none)).2
  | _ => none

/-- what Python sees of the outcome in heap `h'` -/
def outView (h' : Heap) : HOut → Json
  | .inst o => putR (view h' o)
  | .kw d =>
    let st := d.foldl setFieldH ({}, none)
    putR { st.1 with extra := match st.2 with | some e => h'.dict e | none => [] }
  | _ => Json.null

def describe (n m : Nat) (h' : Heap) (out : HOut) : Json :=
  match out with
  | .noneV => jStr "none"
  | .err => jObj [("err", jStr "ValueError")]
  | .inst o =>
    if o < n then jObj [("is", jNat o)]
    else jObj [("new", outView h' out), ("ex", exTag m (h'.obj o).ex)]
  | .kw _ => jObj [("dict", outView h' out), ("ex", match outRef h' out with | some e => exTag m e | none => Json.null)]

/-- every instance and every dict object that existed before the call, as they are now -/
def snap (n m : Nat) (h' : Heap) : List (String × Json) :=
  [("objs", jList (fun p => jObj [("view", putR (view h' p)), ("ex", jNat (h'.obj p).ex)]) (List.range n)),
   ("dicts", jList (fun r => jList (jPair jStr jInt) (h'.dict r)) (List.range m))]

def handleHeap (a : Json) : R Json := do
  let h : Heap := { recs := ← listF getRec a "recs", dicts := ← listF getExtra a "dicts" }
  let n := h.recs.length
  let m := h.dicts.length
  if !((List.range n).all (fun o => (h.obj o).ex < m)) then .error "heap: instance with a dangling dict reference"
  let (out, h') ← runOp h (← fld a "op")
  let mut res := [("res", describe n m h' out)] ++ snap n m h'
  match fld? a "mut" with
  | none => return jObj res
  | some mu =>
    let k ← strF mu "k"
    let v ← intF mu "v"
    let target : Option Nat ← (do
      match ← strF mu "on" with
      | "result" => pure (outRef h' out)
      | "dict" =>
        let r ← natF mu "ref"
        if r < m then pure (some r) else .error "heap: dangling dict reference"
      | o => .error s!"heap: unknown mutation target {o}")
    match target with
    | none => return jObj (res ++ [("after", Json.null)])
    | some r =>
      let h'' := setItem h' r k v
      return jObj (res ++ [("after", jObj ([("res_view", outView h'' out)] ++ snap n m h''))])

/-! ### resources of pipeline functions (`Model/ResourcesPipe.lean`), entries `nested` and `pipeline_add` -/

/-- `null` | `{"inst": fields}` | `{"dict": fields}` | `{"callable": fields}` (a callable returning that specification, as an instance or as
    a dict: both go through the constructor when called) -/
def getArg (j : Json) : R (Arg Unit) := do
  if j.isNull then return .none
  match fld? j "inst" with
  | some v => return .inst (← getR v)
  | none =>
  match fld? j "dict" with
  | some v => return .dict (toDict (← getR v))
  | none =>
  match fld? j "callable" with
  | some v => let r ← getR v; return .callable (fun _ => mk? r)
  | none => .error "resources spec: expected null, inst, dict or callable"

def getChild (j : Json) : R (Option (PRes Unit)) := do
  match maybeFromDict (← getArg j) with
  | some p => return p
  | none => .error "resources spec of a function is rejected by the constructor (the generator only makes valid ones)"

def putPRes : Option (PRes Unit) → Json
  | none => Json.null
  | some (.inst r) => jObj [("inst", putR r)]
  | some (.call g) => jObj [("call", putOptR (g ()))]

def handleNested (a : Json) : R Json := do
  let given ← getArg ((fld? a "given").getD Json.null)
  let children ← listF getChild a "children"
  match nestedResources given children with
  | .error .valueError => return jObj [("err", jStr "ValueError")]
  | .error .typeError => return jObj [("err", jStr "TypeError")]
  | .ok r => return jObj [("ok", jOpt putR r)]

def handlePipelineAdd (a : Json) : R Json := do
  let dflt : Option PF.Res.R ← (do
    match maybeFromDict (κ := Unit) (← getArg ((fld? a "default").getD Json.null)) with
    | some none => pure none
    | some (some (.inst r)) => pure (some r)
    | _ => .error "default_resources: an instance, a valid dict or null expected")
  let funcs ← listF (fun j => do return ((← boolF j "plain"), (← getChild ((fld? j "res").getD Json.null)))) a "funcs"
  let outs := funcs.map fun (plain, fres) => pipelineAdd plain fres dflt
  if outs.any Option.isNone then return jObj [("err", jStr "ValueError")]
  return jObj [("ok", jList (fun o => putPRes (o.getD none)) outs)]

def ratJ (q : Rat) : Json := jArr [jInt q.num, jNat q.den]

def handle (m : String) (a : Json) : R Json := do
  match m with
  | "make" => return putOptR (mk? (← getR a))
  | "mem" => return jOpt ratJ (memSize? (← asStr a))
  | "time" => return jOpt jNat (timeSecs? (← asStr a))
  | "combine_max" =>
    let l ← asList getR a
    if l.all Valid then return putR (combineMax l) else .error "combine_max: invalid operand"
  | "with_defaults" =>
    let self ← getR (← fld a "self")
    let d ← optF getR a "default"
    return putOptR (withDefaults? self d)
  | "update" =>
    let self ← getR (← fld a "self")
    let kw ← listF getUpd a "kw"
    let (res, after) := update self kw
    return jObj [("result", putOptR res), ("receiver_after", putR after)]
  | "dict_roundtrip" =>
    let r ← getR a
    return putOptR (fromDict? (toDict r))
  | "slurm" => return jStr (toSlurm (← getR a))
  | "heap" => handleHeap a
  | "nested" => handleNested a
  | "pipeline_add" => handlePipelineAdd a
  | _ => .error s!"unknown entry {m}"

def main : IO Unit := loop handle
