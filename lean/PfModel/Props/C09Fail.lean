import PfModel.Lemmas.PipeCacheFail
import PfModel.Props.C09Outcome
/-!
C09, extension (round 2) — histories that contain failing calls.

`PF.PipeCache.runTopF` / `histF` (Model/PipeCacheFail.lean) model what a call that raises in the middle of the evaluation
leaves in the cache (the entries stored by the frames that completed), and continue the history from there.
* `C09_runTopF_refines`: it is `runTopC` with the cache kept on the error path.
* `C09_any_call_keeps_inv`: every call — successful, ending in `UnusedParametersError`, or failing mid-run — leaves a cache
  whose entries are all right.
* `C09_transparent_all(_partial)`: over histories with failing calls, *every* call that succeeds without a cache returns
  normally with the cache the equal value (and `full_output` dictionary) — not only those before the first failure.
-/
namespace PF.C09
open PF PF.Pipe PF.PipeCache

/-- the model with the failure state is the model of round 1 with the cache kept when the call raises -/
theorem C09_runTopF_refines {H C} (P : Policy H C) (cached : Func → Bool) (ck : List (String × Val) → Func → String → Option (Key H))
    (fs : List Func) (c : C) (kw : List (String × Val)) (full : Bool) (o : String) :
    dropS (runTopF P cached ck fs c kw full o) = runTopC P cached ck fs c kw full o :=
  runTopF_drop P cached ck fs c kw full o

/-- the cache a call leaves, whatever its outcome -/
def cacheAfter {H C} : Except (Err × C) (COutcome H C) → C
  | .error (_, c') => c'
  | .ok out => out.cache

/-- **(3) Every call leaves a right cache.**  From a cache whose entries are right, a call — whether it returns, ends in
    `UnusedParametersError`, or raises in the middle of the evaluation (missing argument, unknown output) after some frames
    have stored their results — leaves a cache whose entries are all right for the pipeline.  No assumption that the call
    succeeds without a cache. -/
theorem C09_any_call_keeps_inv {H C} (P : Policy H C) (h : Val → H) (hinj : ∀ a b, h a = h b → a = b) (cached : Func → Bool)
    (fs : List Func) (rank : String → Nat) (wf : WF fs rank) (c : C) (kw : List (String × Val)) (full : Bool) (o : String)
    (hi : Inv P h fs c) : Inv P h fs (cacheAfter (runTopF P cached (computeKey h fs) fs c kw full o)) := by
  unfold runTopF
  cases hk : alookup kw o with
  | some x => simpa [cacheAfter] using hi
  | none =>
    simp only [Option.isSome_none, Bool.false_eq_true, ↓reduceIte]
    have hg0 : CondGood fs kw (initC kw c : CSt H C) := by
      intro p w hp hw
      simp only [initC] at hw
      rw [hp] at hw; cases hw
    have := runF_post P h cached fs rank kw full hinj wf (fuelFor fs) o (initC kw c) hk hg0 hi
    cases hx : runF P cached (computeKey h fs) fs kw full (fuelFor fs) o (initC kw c) with
    | error e => obtain ⟨e1, st⟩ := e; rw [hx] at this; exact this
    | ok r => obtain ⟨v, s⟩ := r; rw [hx] at this; exact this.2.2

/-- agreement on whole outcomes over a history *with* failing calls: a call that fails without a cache is skipped (the
    property is silent about it), the history goes on -/
def AgreesF {H C} : List Step → List (Option (Except Err Outcome)) → List (Option (Except Err (COutcome H C))) → Prop
  | [], us, cs => us = [] ∧ cs = []
  | .mutate _ :: ss, us, cs => ∃ us' cs', us = none :: us' ∧ cs = none :: cs' ∧ AgreesF ss us' cs'
  | .call _ _ full :: ss, us, cs => ∃ ur us' cr cs', us = some ur :: us' ∧ cs = some cr :: cs' ∧ AgreesF ss us' cs' ∧
      match ur with
      | .error _ => True
      | .ok u => ∃ out, cr = .ok out ∧ OutcomeOK full u out

/-- no `update_bound` / `replace` invalidates a resident entry, along the history that continues after failed calls -/
def MutSafeF {H C} (P : Policy H C) (h : Val → H) (cached : Func → Bool) : List Func → C → List Step → Prop
  | _, _, [] => True
  | fs, c, .mutate m :: rest =>
    (match m with
      | .updateDefaults _ => True
      | m => Inv P h (applyMut fs m) c) ∧ MutSafeF P h cached (applyMut fs m) c rest
  | fs, c, .call o kw full :: rest =>
    MutSafeF P h cached fs (cacheAfter (runTopF P cached (computeKey h fs) fs c kw full o)) rest

theorem C09_aux_histF_call {H C} (P : Policy H C) (cached : Func → Bool)
    (ck : List Func → List (String × Val) → Func → String → Option (Key H)) (fs : List Func) (c : C) (o : String)
    (kw : List (String × Val)) (full : Bool) (rest : List Step) :
    histF P cached ck fs c (.call o kw full :: rest) =
      some (dropS (runTopF P cached (ck fs) fs c kw full o)) :: histF P cached ck fs (cacheAfter (runTopF P cached (ck fs) fs c kw full o)) rest := by
  simp only [histF]
  cases runTopF P cached (ck fs) fs c kw full o with
  | error e => obtain ⟨e1, c'⟩ := e; rfl
  | ok out => rfl

/-- **Histories with failing calls, whole outcomes (partial for `update_bound` / `replace`).**  Along any history of calls —
    including calls that fail, with or without a cache, in the middle of the evaluation — and mutations on a pipeline that is
    well-formed at every stage, from a cache whose entries are right: *every* call that succeeds without a cache returns
    normally with the cache the equal value and, under `full_output`, the equal dictionary.
    Missing for the full statement: `MutSafeF` (no `update_bound` / `replace` invalidates a resident entry; false on the code,
    known findings KF-C09-update-bound / KF-C09-replace).  User functions that raise are outside the model (C13). -/
theorem C09_transparent_all_partial {H C} (P : Policy H C) (h : Val → H) (hinj : ∀ a b, h a = h b → a = b) (cached : Func → Bool) :
    ∀ (steps : List Step) (fs : List Func) (c : C), WFAll fs steps → Inv P h fs c → MutSafeF P h cached fs c steps →
      AgreesF steps (histU fs steps) (histF P cached (fun fs => computeKey h fs) fs c steps) := by
  intro steps
  induction steps with
  | nil => intro fs c _ _ _; simp [histU, histF, AgreesF]
  | cons st rest ih =>
    intro fs c hwf hi hs
    cases st with
    | mutate m =>
      simp only [histU, histF, AgreesF]
      simp only [WFAll] at hwf
      simp only [MutSafeF] at hs
      refine ⟨_, _, rfl, rfl, ih _ _ hwf.2 ?_ hs.2⟩
      cases m with
      | updateDefaults d =>
        obtain ⟨⟨rank, wf⟩, _⟩ := C09_aux_WFAll_head _ _ hwf.2
        exact C09_update_defaults_safe P h fs d rank wf c hi
      | updateBound n b => exact hs.1
      | replace new => exact hs.1
    | call o kw full =>
      simp only [WFAll] at hwf
      obtain ⟨⟨⟨rank, wf⟩, ⟨rk, hw⟩⟩, hwf'⟩ := hwf
      simp only [MutSafeF] at hs
      have hkeep := C09_any_call_keeps_inv P h hinj cached fs rank wf c kw full o hi
      rw [C09_aux_histF_call]
      simp only [histU, AgreesF]
      refine ⟨_, _, _, _, rfl, rfl, ih _ _ hwf' hkeep hs, ?_⟩
      cases htw : runTop fs kw (.name o) with
      | error e => trivial
      | ok u =>
        obtain ⟨out, hout, hverd, _, _, _, hfl, _⟩ := C09_call_outcome P h hinj cached fs rank rk wf hw c kw full o u hi htw
        simp only [runTopF_drop]
        exact ⟨out, hout, hverd, hfl⟩

theorem C09_aux_mutSafeF_of_noBoundReplace {H C} (P : Policy H C) (h : Val → H) (cached : Func → Bool) :
    ∀ (steps : List Step) (fs : List Func) (c : C), noBoundReplace steps = true → MutSafeF P h cached fs c steps := by
  intro steps
  induction steps with
  | nil => intro _ _ _; simp [MutSafeF]
  | cons st rest ih =>
    intro fs c hc
    cases st with
    | mutate m =>
      cases m with
      | updateDefaults d => simp only [noBoundReplace] at hc; exact ⟨trivial, ih _ _ hc⟩
      | updateBound n b => simp [noBoundReplace] at hc
      | replace new => simp [noBoundReplace] at hc
    | call o kw full =>
      simp only [noBoundReplace] at hc
      simp only [MutSafeF]
      exact ih _ _ hc

/-- **Caching is transparent over histories with failing calls and `update_defaults`.**  No side condition: for every
    pipeline well-formed at every stage, every cached subset, every container, every history of calls (any output, any
    argument cut, `full_output` or not, *failing or not*) and `update_defaults`, from a right (e.g. empty) cache, every call
    that succeeds without a cache returns normally with the cache the equal value / dictionary. -/
theorem C09_transparent_all {H C} (P : Policy H C) (h : Val → H) (hinj : ∀ a b, h a = h b → a = b) (cached : Func → Bool)
    (steps : List Step) (fs : List Func) (c : C) (hnb : noBoundReplace steps = true) (hwf : WFAll fs steps) (hi : Inv P h fs c) :
    AgreesF steps (histU fs steps) (histF P cached (fun fs => computeKey h fs) fs c steps) :=
  C09_transparent_all_partial P h hinj cached steps fs c hwf hi (C09_aux_mutSafeF_of_noBoundReplace P h cached steps fs c hnb)

/-! ### non-vacuity: a call that fails after a frame has stored its result -/

/-- `g(a)→c`, `k(c,z)→e` without a value for `z`: `e(a=1)` runs and stores `g`, then raises for `z`; the next call `c(a=1)`
    finds `g`'s entry -/
def kE : Func := ⟨"k", [("c", "c"), ("z", "z")], ["e"], [], []⟩
def hFail : List Step := [.call "e" [("a", .str "1")] false, .call "c" [("a", .str "1")] false]

example : (histF (simplePolicy String) (fun _ => true) (fun fs => computeKey hS fs) [gA, kE] [] hFail).map
      (fun r => match r with | some (.ok o) => some (o.value, o.calls, o.hits.length) | _ => none) =
      [none, some (.app "g" [("a", .str "1")], [], 1)] ∧
    valsU [gA, kE] hFail = [none, some (.app "g" [("a", .str "1")])] ∧
    -- the round-1 history stops at the failure
    (histC (simplePolicy String) (fun _ => true) (fun fs => computeKey hS fs) [gA, kE] [] hFail).length = 1 ∧
    noBoundReplace hFail = true := by
  refine ⟨?_, ?_, ?_, ?_⟩ <;> rfl

end PF.C09
