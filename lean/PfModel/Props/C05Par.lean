import PfModel.Props.C05
import PfModel.Lemmas.ResumePar
/-!
C05 for pool runs (`parallel=True`, thread or process pool): `PF.ResumeFS.runOnP cfg sched` is the resumable runner with the
events of every generation ordered by a scheduler `sched` (generation number, task bodies in submission order, the parent's
dumps ↦ what happened).  The crash/resume theorem holds for every scheduler that runs the bodies in any order, and the frame
theorem covers arbitrary event-level interleavings of threads that touch disjoint files.
-/
namespace PF.C05
open PF PF.Map PF.ResumeFS

/-- **A pool run loses nothing that is stored either** — `C05_par_resume` with monotonicity at every crash point of every
    body-order schedule: besides the invariant, every non-temporary file of the folder the scheduled run started on still exists
    after any prefix of its events (`Mono`), so a pool run that is killed cannot have un-stored anything
    (`C05_par_history_no_recompute`). -/
theorem C05_par_resume_keeps (cfg : Cfg) (hl : cfg.legacy = false) (sched : Sched) (hsched : PermSched sched)
    (fsd : List MFunc) (inputs : List (String × Val)) (ui : List (String × List Nat)) (r0 : MapResult)
    (h0 : runMap fsd inputs ui = .ok r0) (hnd : ((freshSlots fsd inputs ui).map (·.1)).Nodup)
    (fs : FS) (hg : Good fsd inputs ui fs) :
    (∀ k, Good fsd inputs ui (crashAt fs (runOnP cfg sched fs fsd inputs ui).evs k) ∧ Mono fs (crashAt fs (runOnP cfg sched fs fsd inputs ui).evs k)) ∧
    (∀ c ∈ (runOnP cfg sched fs fsd inputs ui).calls, ∃ f ∈ (generations fsd).flatten, c.fn = f.name ∧ doneInC cfg fs f c.li = false) ∧
    ((∃ x, (runOnP cfg sched fs fsd inputs ui).res = .ok x ∧ x.outputs = r0.outputs) ∨
     (cfg.failAt ≠ none ∧ ∃ fn, (runOnP cfg sched fs fsd inputs ui).res = .error (.raised fn))) := by
  obtain ⟨shapes, masks, rs, envF, hpre, hloop, hout⟩ := runMap_unfold fsd inputs ui r0 h0
  have hfresh : freshSlots fsd inputs ui = rs.flatMap (·.slots) := by simp [freshSlots, pfLoop, hpre, hloop]
  unfold Good at hg ⊢
  rw [hfresh] at hnd hg ⊢
  have hI : I (rightW (rs.flatMap (·.slots))) (akeys inputs) fs fs := I.start hg.1 hg.2
  have hW : ∀ p v, (∀ o li, p ≠ .cell o li) → (∀ o, p ≠ .single o) → (∀ o, p ≠ .dictArr o) → p.isTmp = false →
      rightW (rs.flatMap (·.slots)) p v := by
    intro p v h1 h2 h3 h4
    cases p with
    | cell o li => exact absurd rfl (h1 o li)
    | single o => exact absurd rfl (h2 o)
    | dictArr o => exact absurd rfl (h3 o)
    | tmp q => simp [Path.isTmp] at h4
    | _ => trivial
  have hcomp := compare_ok _ fs fs inputs hI
  have hdump := dumpAll_safe _ fs inputs hW fs hI
  have hIdump : I (rightW (rs.flatMap (·.slots))) (akeys inputs) fs (applyAll fs (dumpAllEvs false inputs)) := by
    have := hdump (dumpAllEvs false inputs).length
    rwa [crashAt_all _ _ _ (Nat.le_refl _)] at this
  obtain ⟨mem, hinit, hMem, hPlanMem, hinitS⟩ := initStore_spec (rightW (rs.flatMap (·.slots)))
    (I (rightW (rs.flatMap (·.slots))) (akeys inputs) fs) (fun d => safe_mkdirp _ _ _ d)
    (applyAll fs (dumpAllEvs false inputs)) hIdump.inv (storePlan cfg fsd)
  have hstep : ∀ env f r, f ∈ (generations fsd).flatten → runFuncWith opArray fsd shapes masks env f = .ok r →
      SlotsRight (rightW (rs.flatMap (·.slots))) r.slots →
      ∀ fs', I (rightW (rs.flatMap (·.slots))) (akeys inputs) fs fs' → ∀ nc,
        StepOk (rightW (rs.flatMap (·.slots))) (akeys inputs) fs cfg f r (stepFunc cfg fsd shapes masks mem env fs' nc f) := by
    intro env f r hf h1 h2 fs' h3 nc
    refine stepFunc_spec _ _ fs cfg hl fsd shapes masks mem env f r h1 h2 _ hIdump.mono hMem ?_ fs' h3 nc
    intro hm hdct o ho
    apply hPlanMem
    exact List.mem_flatMap.mpr ⟨f, List.mem_filter.mpr ⟨hf, hm⟩, List.mem_map.mpr ⟨o, ho, by rw [hdct]⟩⟩
  have hSR : ∀ r ∈ rs, SlotsRight (rightW (rs.flatMap (·.slots))) r.slots := fun r hr =>
    slotsRight_of_nodup _ _ hnd fun e he => List.mem_flatMap.mpr ⟨r, hr, he⟩
  obtain ⟨L1, L2, L3⟩ := runGensP_spec _ _ fs cfg _ _ sched hsched (fun f => f ∈ (generations fsd).flatten) hstep (generations fsd) 0
    { inputs := inputs, store := [] } rs envF
    (applyAll (applyAll fs (dumpAllEvs false inputs)) (initStore false (applyAll fs (dumpAllEvs false inputs)) (storePlan cfg fsd)).evs) 0
    (fun f hf => hf) hloop hSR (hinitS.final _ hIdump)
  obtain ⟨_, hwk, hstore⟩ := runGensWith_slots _ (fun env f r h => runFuncWith_slots fsd shapes masks env f r h) _ _ rs envF hloop
  have hpersist : Safe (I (rightW (rs.flatMap (·.slots))) (akeys inputs) fs) (persistEvs false envF.store (storePlan cfg fsd)) := by
    apply persist_safe
    intro o sh mk cells hlk
    rw [hstore] at hlk
    have hm : (o, Slot.array sh mk cells) ∈ rs.flatMap (·.slots) := alookup_some_mem _ _ _ (by simpa using hlk)
    exact ⟨_, hm, rfl, hwk o sh mk cells hm⟩
  have hev := prefix_then_safe (prefix_then_safe hdump hinitS) L1
  simp only [runOnP, hpre, hl, hcomp, List.nil_append, hinit]
  rcases L3 with ⟨rs', hres, ho⟩ | ⟨hne, fn, hres⟩
  · simp only [hres]
    have hev2 := prefix_then_safe hev hpersist
    exact ⟨fun k => ⟨⟨(hev2 k).inv, (hev2 k).metaOk⟩, (hev2 k).mono⟩, L2, Or.inl ⟨_, rfl, by rw [hout, ← ho]⟩⟩
  · simp only [hres]
    exact ⟨fun k => ⟨⟨(hev k).inv, (hev k).metaOk⟩, (hev k).mono⟩, L2, Or.inr ⟨hne, fn, rfl⟩⟩

/-- **C05 for any schedule of the pool runner** (repaired protocol, every storage mix): for every scheduler that runs the
    task bodies of each generation in *any order* (each body = the user call followed by its element dumps; the parent's
    dumps of single outputs after the bodies; the next generation after that), every folder state satisfying the invariant:
    1. every prefix of the event list of the scheduled run — the process dying at any point of any schedule — satisfies the invariant;
    2. a user function is called only for elements that were not completely stored in the folder the run started on;
    3. the run returns exactly the outputs of the uninterrupted sequential run (or stops with the injected exception).
    Hence (the invariant is the hypothesis of `C05_resume`) the resumed run — sequential or again scheduled — completes with
    the uninterrupted result, whatever the schedule of the crashed run was. -/
theorem C05_par_resume (cfg : Cfg) (hl : cfg.legacy = false) (sched : Sched) (hsched : PermSched sched)
    (fsd : List MFunc) (inputs : List (String × Val)) (ui : List (String × List Nat)) (r0 : MapResult)
    (h0 : runMap fsd inputs ui = .ok r0) (hnd : ((freshSlots fsd inputs ui).map (·.1)).Nodup)
    (fs : FS) (hg : Good fsd inputs ui fs) :
    (∀ k, Good fsd inputs ui (crashAt fs (runOnP cfg sched fs fsd inputs ui).evs k)) ∧
    (∀ c ∈ (runOnP cfg sched fs fsd inputs ui).calls, ∃ f ∈ (generations fsd).flatten, c.fn = f.name ∧ doneInC cfg fs f c.li = false) ∧
    ((∃ x, (runOnP cfg sched fs fsd inputs ui).res = .ok x ∧ x.outputs = r0.outputs) ∨
     (cfg.failAt ≠ none ∧ ∃ fn, (runOnP cfg sched fs fsd inputs ui).res = .error (.raised fn))) := by
  obtain ⟨a, b, c⟩ := C05_par_resume_keeps cfg hl sched hsched fsd inputs ui r0 h0 hnd fs hg
  exact ⟨fun k => (a k).1, b, c⟩

/-- **Crash at any point of any schedule, then resume** — the folder left by the pool runner dying after `k` events of any
    body-order schedule resumes (sequentially) to the uninterrupted outputs, calling nothing that was stored. -/
theorem C05_par_crash_then_resume (cfg cfg' : Cfg) (hl : cfg.legacy = false) (hl' : cfg'.legacy = false) (hf : cfg'.failAt = none)
    (sched : Sched) (hsched : PermSched sched)
    (fsd : List MFunc) (inputs : List (String × Val)) (ui : List (String × List Nat)) (r0 : MapResult)
    (h0 : runMap fsd inputs ui = .ok r0) (hnd : ((freshSlots fsd inputs ui).map (·.1)).Nodup)
    (fs : FS) (hg : Good fsd inputs ui fs) (k : Nat) :
    (∃ x, (runOn cfg' (crashAt fs (runOnP cfg sched fs fsd inputs ui).evs k) fsd inputs ui).res = .ok x ∧ x.outputs = r0.outputs) ∧
    (∀ c ∈ (runOn cfg' (crashAt fs (runOnP cfg sched fs fsd inputs ui).evs k) fsd inputs ui).calls,
      ∃ f ∈ (generations fsd).flatten, c.fn = f.name ∧ doneInC cfg' (crashAt fs (runOnP cfg sched fs fsd inputs ui).evs k) f c.li = false) := by
  have hg' := (C05_par_resume cfg hl sched hsched fsd inputs ui r0 h0 hnd fs hg).1 k
  obtain ⟨_, b, c⟩ := C05_resume cfg' hl' fsd inputs ui r0 h0 hnd _ hg'
  rcases c with c | ⟨hne, _⟩
  · exact ⟨c, b⟩
  · exact absurd hf hne

/-- **Event-level interleavings (partial).** Threads that (a) each keep the folder invariant at every prefix when run alone
    from a folder satisfying it, (b) touch pairwise disjoint files, (c) touch neither `run_info.json` nor inputs/defaults:
    every prefix of every interleaving of their events (each thread keeps its own order) satisfies the invariant — so a crash
    at any point of any interleaving resumes correctly by `C05_resume`.  This is what a thread pool can really produce (the
    bodies of a generation and the parent's dumps overlap at the granularity of system calls).
    MISSING for the full statement: that the bodies `splitCalls G.subEvs` and the parent's events `G.procEvs` of every
    generation of `runOnP` satisfy (b) and (c) — bodies own the element files (and their temporary names) of distinct
    (output, index) pairs, the parent owns the single-output files — and the chaining through `runGensP` for `ShufSched`
    schedulers.  (a) is proved: `Bodies` in `GenOk`. -/
theorem C05_interleave_partial (fsd : List MFunc) (inputs : List (String × Val)) (ui : List (String × List Nat))
    (fs : FS) (hg : Good fsd inputs ui fs) (ts : List (List Ev)) (m : List Ev) (hm : ShufN ts m)
    (hsafe : ∀ t ∈ ts, ∀ fs', Good fsd inputs ui fs' → (∀ p, p.isTmp = false → (fs.files p).isSome → (fs'.files p).isSome) →
      ∀ k, Good fsd inputs ui (crashAt fs' t k) ∧ (∀ p, p.isTmp = false → (fs.files p).isSome → ((crashAt fs' t k).files p).isSome))
    (hdisj : ts.Pairwise fun a b => ∀ q, Touches a q → Touches b q → False)
    (hmeta : ∀ t ∈ ts, ∀ q, isMeta q = true → ¬ Touches t q) :
    ∀ k, Good fsd inputs ui (crashAt fs m k) := by
  intro k
  have hI : I (rightW (freshSlots fsd inputs ui)) (akeys inputs) fs fs := I.start hg.1 hg.2
  have := shufN_safe (rightW (freshSlots fsd inputs ui)) (akeys inputs) fs fs hI hm hdisj hmeta
    (fun t ht k => by
      obtain ⟨g, mo⟩ := hsafe t ht fs hg (fun _ _ h => h) k
      exact ⟨g.1, g.2, mo⟩) k
  exact ⟨this.inv, this.metaOk⟩

/-! ### non-vacuity -/

/-- the sequential order and the reversed order of the bodies are schedules of the theorem -/
example : PermSched seqSched := fun _ bs _ => ⟨bs, List.Perm.refl _, rfl⟩
example : PermSched (fun _ bs pe => bs.reverse.flatten ++ pe) := fun _ bs _ => ⟨bs.reverse, List.reverse_perm _, rfl⟩

/-- reversed bodies, `x[i] -> y[i]` on two elements + reduction: the process dies after 22 events — element 1 is stored,
    element 0 is not — and the sequential re-run calls `f` for element 0 only, then `g` -/
example : ((runOn {} (crashAt FS.empty (runOnP {} (fun _ bs pe => bs.reverse.flatten ++ pe) FS.empty [fY, gZ] inp []).evs 22) [fY, gZ] inp []).calls.map
    fun c => (c.fn, c.li)) = [("f", 0), ("g", 0)] := by decide

/-- two element writes interleaved system call by system call -/
example : ShufN [writeEvs false (.cell "y" 0) (.int 1), writeEvs false (.cell "y" 1) (.int 2)]
    [.mkdirp (.arr "y"), .mkdirp (.arr "y"), .begin (.tmp (.cell "y" 0)), .begin (.tmp (.cell "y" 1)), .chunk (.tmp (.cell "y" 0)),
     .chunk (.tmp (.cell "y" 1)), .commit (.tmp (.cell "y" 1)) (.int 2), .commit (.tmp (.cell "y" 0)) (.int 1),
     .rename (.tmp (.cell "y" 1)) (.cell "y" 1), .rename (.tmp (.cell "y" 0)) (.cell "y" 0)] := by
  refine .cons (m' := writeEvs false (.cell "y" 1) (.int 2)) (.cons (m' := []) .nil ?_) ?_
  · exact .left _ (.left _ (.left _ (.left _ (.left _ .nil))))
  · simp only [writeEvs]
    exact .left _ (.right _ (.left _ (.right _ (.left _ (.right _ (.right _ (.left _ (.right _ (.left _ .nil)))))))))

end PF.C05
