import PfModel.Lemmas.TypingXSub
/-!
C16, "holds exactly when ..." over the extended annotation language: `compatX` decides the declarative relation `XSub`
(`Lemmas/TypingXSub.lean`: the rules of `Sub` plus `lit`, `vt`, `tuple_vt`, `vt_bare`), for all annotations of `XTy`.
-/
namespace PF.C16
open PF.Typing

/-- `compatX` accepts only what the rules derive -/
theorem C16X_sound (a b : XTy) (h : compatX a b = true) : XSub a b := compatX_sub a b h

/-- `compatX` accepts everything the rules derive -/
theorem C16X_complete (a b : XTy) (h : XSub a b) : compatX a b = true := xsub_compatX h

/-- `is_type_compatible` over classes, `Literal`, `Any`, missing, unions, builtin generics incl. `tuple[T, ...]`, `Annotated`,
    `Array` and TypeVars is exactly the declarative relation -/
theorem C16X_iff (a b : XTy) : compatX a b = true ↔ XSub a b := ⟨C16X_sound a b, C16X_complete a b⟩

example : compatX (.gen .tuple [.base .bool, .lit [.int 1]]) (.vtuple (.union [.base .int, .lit [.int 1, .int 2]])) = true :=
  C16X_complete _ _ (XSub.tuple_vt (by
    intro a ha
    simp only [List.mem_cons, List.not_mem_nil, or_false] at ha
    rcases ha with rfl | rfl
    · exact XSub.union_r (b := .base .int) (by simp) (XSub.base rfl)
    · exact XSub.union_r (b := .lit [.int 1, .int 2]) (by simp) (XSub.lit (by simp))))

example : XSub (.vtuple (.base .bool)) (.vtuple (.base .int)) := C16X_sound _ _ (by unfgx; unfgx; rfl)

/-- a variadic tuple is not derivable for a fixed-arity tuple with arguments -/
theorem C16X_variadic_not_fixed (s : XTy) (b : XTy) (bs : List XTy) : ¬ XSub (.vtuple s) (.gen .tuple (b :: bs)) := by
  intro h
  have := C16X_complete _ _ h
  rw [compatX] at this
  simp at this

end PF.C16
