import PfModel.Lemmas.SweepFilteredPlain2
/-! `filtered_sweep` without derivers, assembly: the raw combinations of the rebuilt sweep are the distinct restrictions of
the raw combinations of the original sweep, first occurrence first. -/

namespace PF.Sweep

section Assemble
variable {V : Type} [DecidableEq V]

/-- the rows of a group, restricted to `ks` -/
def Zr (ks : List Key) (items : Dict (List V)) (g : List Key) : List (Dict V) := (zipGroup items g).map (restrict ks)

theorem Zr_eq (ks : List Key) (items : Dict (List V)) (g : List Key) (h : GoodGroup items g) (n : Nat)
    (hn : ∀ k ∈ g, (col items k).length = n) :
    Zr ks items g =
      (zipRowsN n ((g.filter ks.contains).map (col items))).map (fun r => (g.filter ks.contains).zip r) := by
  unfold Zr zipGroup
  have hne : g.map (col items) ≠ [] := fun e => h.ne (List.map_eq_nil_iff.mp e)
  rw [zipRows_eq_N _ n hne (fun c hc => by obtain ⟨k', hk', rfl⟩ := List.mem_map.mp hc; exact hn k' hk'), List.map_map]
  exact zipRowsN_restrict ks items n g hn

theorem Zr_lengths (ks : List Key) (items : Dict (List V)) (g : List Key) (h : GoodGroup items g) :
    ∀ a ∈ Zr ks items g, ∀ b ∈ Zr ks items g, a.length = b.length := by
  obtain ⟨n, hn⟩ := h.len
  rw [Zr_eq ks items g h n hn]
  have key : ∀ a ∈ (zipRowsN n ((g.filter ks.contains).map (col items))).map (fun r => (g.filter ks.contains).zip r),
      a.length = (g.filter ks.contains).length := by
    intro a ha
    obtain ⟨r, hr, rfl⟩ := List.mem_map.mp ha
    rw [List.length_zip, width_zipRowsN _ _ r hr, List.length_map, Nat.min_self]
  intro a ha b hb
  rw [key a ha, key b hb]

theorem Zr_kept (ks : List Key) (items : Dict (List V)) (g : List Key) (h : GoodGroup items g)
    (hne : g.filter ks.contains ≠ []) :
    distinctFold (Zr ks items g) =
      (distinctFold (zipRows ((g.filter ks.contains).map (col items)))).map (fun r => (g.filter ks.contains).zip r) := by
  obtain ⟨n, hn⟩ := h.len
  have hne' : (g.filter ks.contains).map (col items) ≠ [] := fun e => hne (List.map_eq_nil_iff.mp e)
  have hz := zipRows_eq_N ((g.filter ks.contains).map (col items)) n hne'
    (fun c hc => by obtain ⟨k', hk', rfl⟩ := List.mem_map.mp hc; exact hn k' (List.mem_filter.mp hk').1)
  rw [Zr_eq ks items g h n hn, ← hz]
  apply distinctFold_map
  intro r1 h1 r2 h2 e
  rw [hz] at h1 h2
  have w1 := width_zipRowsN _ _ r1 h1
  have w2 := width_zipRowsN _ _ r2 h2
  rw [List.length_map] at w1 w2
  have := congrArg (List.map Prod.snd) e
  rwa [List.map_snd_zip (by omega), List.map_snd_zip (by omega)] at this

theorem Zr_dropped (ks : List Key) (items : Dict (List V)) (g : List Key) (hnil : g.filter ks.contains = [])
    (hne : zipGroup items g ≠ []) : distinctFold (Zr ks items g) = [[]] := by
  apply distinctFold_const
  · intro e; exact hne (List.map_eq_nil_iff.mp e)
  · intro x hx
    unfold Zr zipGroup at hx
    rw [List.map_map] at hx
    obtain ⟨r, _, rfl⟩ := List.mem_map.mp hx
    simp only [Function.comp_def, restrict]
    rw [List.filter_eq_nil_iff]
    intro kv hkv hc
    have hk : kv.1 ∈ g := (List.of_mem_zip (a := kv.1) (b := kv.2) hkv).1
    have : kv.1 ∈ g.filter ks.contains := List.mem_filter.mpr ⟨hk, hc⟩
    rw [hnil] at this
    simp at this

theorem filterMap_sel_sublist (ks : List Key) (G : List (List Key)) : ((G.filterMap (sel ks)).flatten).Sublist G.flatten := by
  induction G with
  | nil => simp
  | cons g r ih =>
    simp only [List.filterMap_cons, List.flatten_cons]
    cases hs : sel ks g with
    | none => exact ih.trans (List.sublist_append_right _ _)
    | some g' =>
      simp only [List.flatten_cons]
      rw [(sel_some hs).1]
      exact List.Sublist.append List.filter_sublist ih

/-- the groups of the rebuilt sweep are good groups of the original items, pairwise disjoint -/
theorem filteredDims_good (s : Sweep V) (ks : List Key) (hwf : wf s = true) :
    (∀ gr ∈ filteredDims s ks, GoodGroup s.items gr.keys) ∧ ((filteredDims s ks).flatMap Group.keys).Nodup := by
  obtain ⟨hG, hGnd⟩ := effGroups_good s hwf
  have hFD := filteredDims_keys s ks
  constructor
  · intro gr hgr
    have : gr.keys ∈ (effGroups s).filterMap (sel ks) := by rw [← hFD]; exact List.mem_map_of_mem hgr
    obtain ⟨g, hg, hs⟩ := List.mem_filterMap.mp this
    obtain ⟨e, hne⟩ := sel_some hs
    rw [e] at hne ⊢
    exact goodGroup_filter (hG g hg) ks hne
  · rw [List.flatMap_def, hFD]
    exact hGnd.sublist (filterMap_sel_sublist ks _)

/-- **The rebuilt sweep enumerates the distinct restrictions.**  For a sweep `f` whose items are the de-duplicated items and
    whose groups are the surviving groups (as `filtered_sweep` builds it), enumerated as written: its raw combinations are the
    raw combinations of `s` restricted to `ks`, each kept at its first occurrence. -/
theorem rawList_filtered (s f : Sweep V) (ks : List Key) (hwf : wf s = true)
    (hitems : f.items = (filteredDims s ks).foldl (dedupGroup s.items) s.items)
    (hnom : effGroups f = (filteredDims s ks).map Group.keys) (hne : rawList s ≠ []) :
    rawList f = distinctFold ((rawList s).map (restrict ks)) := by
  obtain ⟨hG, _⟩ := effGroups_good s hwf
  obtain ⟨hDgood, hDnd⟩ := filteredDims_good s ks hwf
  have hFD := filteredDims_keys s ks
  have hZne : ∀ g ∈ effGroups s, zipGroup s.items g ≠ [] := by
    intro g hg
    exact factors_ne_nil_of_prodAll hne _ (List.mem_map_of_mem hg)
  -- the factors of `f`, group by group
  have step1 : rawList f = prodAll ((effGroups s).map (fun g => distinctFold (Zr ks s.items g))) := by
    unfold rawList
    rw [hnom, hFD, List.map_filterMap]
    symm
    apply prodAll_filterMap_units
    intro g hg
    cases hs : sel ks g with
    | none =>
      exact Or.inl ⟨rfl, Zr_dropped ks s.items g (sel_none hs) (hZne g hg)⟩
    | some g' =>
      refine Or.inr ?_
      obtain ⟨e, hne'⟩ := sel_some hs
      have hmem : g' ∈ (filteredDims s ks).map Group.keys := by
        rw [hFD]; exact List.mem_filterMap.mpr ⟨g, hg, hs⟩
      obtain ⟨gr, hgr, hk⟩ := List.mem_map.mp hmem
      have hz := (zipGroup_after s.items (filteredDims s ks) hDgood hDnd s.items gr hgr).2
      rw [hk] at hz
      simp only [Option.map_some, Option.some.injEq]
      rw [hitems, hz, e] at *
      rw [Zr_kept ks s.items g (hG g hg) hne']
  rw [step1]
  -- de-duplicating factor by factor = de-duplicating the product
  have e1 : (effGroups s).map (fun g => distinctFold (Zr ks s.items g)) = ((effGroups s).map (Zr ks s.items)).map distinctFold := by
    rw [List.map_map]; rfl
  unfold prodAll
  rw [e1, ← distinctFold_cart]
  have hinj : ∀ x ∈ cart ((effGroups s).map (Zr ks s.items)), ∀ y ∈ cart ((effGroups s).map (Zr ks s.items)),
      x.flatten = y.flatten → x = y := by
    intro x hx y hy e
    refine flatten_inj_cart _ ?_ x y hx hy e
    intro L hL
    obtain ⟨g, hg, rfl⟩ := List.mem_map.mp hL
    exact Zr_lengths ks s.items g (hG g hg)
  rw [← distinctFold_map List.flatten _ hinj]
  congr 1
  -- restricting commutes with merging the rows
  have e2 : (effGroups s).map (Zr ks s.items) = ((effGroups s).map (zipGroup s.items)).map (List.map (restrict ks)) := by
    rw [List.map_map]; rfl
  rw [e2, cart_map, List.map_map]
  unfold rawList prodAll
  rw [List.map_map]
  apply List.map_congr_left
  intro rows _
  simp only [Function.comp_def]
  exact (restrict_flatten ks rows).symm

/-- the rebuilt sweep is well formed and has the names of the original one -/
theorem wf_filtered (s f : Sweep V) (ks : List Key) (hwf : wf s = true)
    (hitems : f.items = (filteredDims s ks).foldl (dedupGroup s.items) s.items)
    (hdims : f.dims = some (filteredDims s ks)) : wf f = true ∧ keys f.items = keys s.items := by
  obtain ⟨hDgood, hDnd⟩ := filteredDims_good s ks hwf
  obtain ⟨_, _, c⟩ := fold_dedup_lookup s.items (filteredDims s ks) hDgood hDnd s.items
  have hkeys : keys f.items = keys s.items := by
    rw [hitems]; exact c (fun gr hgr k hk => (hDgood gr hgr).names k hk)
  refine ⟨?_, hkeys⟩
  simp only [wf, hdims, Bool.and_eq_true, decide_eq_true_eq, List.all_eq_true]
  refine ⟨by rw [hkeys]; exact wf_items hwf, hDnd, ?_⟩
  intro gr hgr
  have hg := hDgood gr hgr
  have hcols := (zipGroup_after s.items (filteredDims s ks) hDgood hDnd s.items gr hgr).1
  rw [← hitems] at hcols
  simp only [groupOK, Bool.and_eq_true, Bool.not_eq_true', List.all_eq_true, List.contains_iff_mem]
  refine ⟨⟨?_, fun k hk => by rw [hkeys]; exact hg.names k hk⟩, ?_⟩
  · cases hk : gr.keys with
    | nil => exact absurd hk hg.ne
    | cons _ _ => rfl
  · rw [hcols]
    exact sameLen_of_all (vals_unzipRows_length gr.keys _ (rows_width hg))

end Assemble

section PlainMore
variable {V : Type}

theorem finish_plain (s : Sweep V) (hd : s.derivers = none) (hc : s.constants = none) (hx : s.exclude = none) :
    finish s = some := by
  funext c
  simp [finish, hd, hc, hx, addConstants, applyDerivers, excluded]

/-- for a sweep without `dims` the rebuilt sweep always enumerates its groups as written (they are in item order) -/
theorem nominal_filtered_of_dims_none (s f : Sweep V) (ks : List Key) (hs : s.dims = none)
    (hkeys : keys f.items = keys s.items) (hdims : f.dims = some (filteredDims s ks)) :
    effGroups f = (f.dims.getD []).map Group.keys := by
  have hD : filteredDims s ks = ((keys s.items).filter (fun k => ks.contains k)).map Group.str := by
    simp [filteredDims, fullBranch, hs]
  unfold effGroups
  by_cases hf : fullBranch f = true
  · simp only [hf, if_true, hdims, Option.getD_some, hD, List.map_map]
    simp only [fullBranch, hdims, hD, setEqKeys, Bool.and_eq_true, List.all_eq_true, hkeys] at hf
    have hall : (keys s.items).filter (fun k => ks.contains k) = keys s.items := by
      rw [List.filter_eq_self]
      intro k hk
      have := hf.2 k hk
      simp only [List.contains_iff_mem, List.mem_map, Group.str.injEq, exists_eq_right, List.mem_filter] at this
      simpa using this.2
    rw [hall, hkeys]
    rfl
  · simp [hf]

end PlainMore

end PF.Sweep
