"""Execution of one C10 case on the real pipefunc: an environment name -> Pipeline, a list of rewrite/mutation ops.

`Runner.apply(op)` performs the op on the real objects, evaluates the property clauses directly on the implementation
(new object vs old object on every retained output; old object unchanged) and appends the matching model steps
(`rewrite` entry of lean/Driver/C10.lean) to `self.history`, with a `plan` entry per model step saying what the real
side observed for it.  `judge_model` compares afterwards.
"""
from __future__ import annotations

import contextlib
import copy as _copy
import io
import itertools

import numpy as np

import pfimport  # noqa: F401
from pfimport import exc_enum
from pipefunc import NestedPipeFunc

import c10_picker as PK
import mapgen
import pipegen
import terms


class NullLog:
    """A call log that records nothing and pickles (terms.CallLog holds a lock)."""

    def add(self, *a, **k):
        pass

    def clear(self):
        pass


def quiet(fn, *a, **k):
    with contextlib.redirect_stdout(io.StringIO()), contextlib.redirect_stderr(io.StringIO()):
        return fn(*a, **k)


def at_least_tuple(x):
    return x if isinstance(x, tuple) else (x,)


def prepend_scope(scope, name):
    """The renaming `update_scope` is documented to perform."""
    base = name.split(".", 1)[1] if "." in name else name
    if scope is None:
        return base
    if name.startswith(scope + "."):
        return name
    return f"{scope}.{base}"


MUTATIONS = ("set_defaults", "set_bound", "mut_rename", "mut_scope", "mut_drop", "mut_add", "mut_replace")


MUTATIONS_X = ("mut_rename_x", "mut_frename")     # update_renames with update_from / overwrite, in place (pipeline / one function)


def fn_pairs(f):
    """[(current name, original name)] of the parameters and outputs of one PipeFunc."""
    return (list(zip(f.parameters, f.original_parameters)) +
            list(zip(at_least_tuple(f.output_name), at_least_tuple(f._output_name))))


def predict_names(f, m, from_original, overwrite, whole=False):
    """What `update_renames(m, update_from, overwrite)` is documented to do with the names of `f` (used by the generator to
    steer clear of captures and to classify; the judgement uses the names the implementation reports and the model)."""
    pairs = fn_pairs(f)
    keys = {(o if from_original else c) for c, o in pairs}
    mm = {k: v for k, v in m.items() if k in keys} if not whole else m
    return {c: mm.get(o if from_original else c, o if overwrite else c) for c, o in pairs}


def names_of(p):
    return [(list(f.parameters), list(at_least_tuple(f.output_name))) for f in p.functions]


def name_relation(before, after):
    """The renaming the implementation performed, read off position by position (the order of the parameters and of the
    outputs of a function is fixed by its signature).  -> (pairs (old, new), some function has two equal names, two producers of one output)"""
    rel, dup = set(), False
    for (bp, bo), (ap, ao) in zip(before, after):
        rel |= set(zip(bp, ap)) | set(zip(bo, ao))
        dup = dup or len(set(ap + ao)) < len(ap + ao)
    outs = [o for _, ao in after for o in ao]
    return rel, dup, len(set(outs)) < len(outs)


def output_relation(before, after):
    """{old output name: new output name}, position by position over the functions (functional and injective as long as no output is
    produced twice) - the wiring-independent part of `name_relation`: a function-level rename can leave a consumer's PARAMETER under
    the old name, so the relation on all names is not a function then, but the one on output names still is."""
    return {b: a for (_, bo), (_, ao) in zip(before, after) for b, a in zip(bo, ao)}


def rename_state(p):
    """Per function: ((current, original) pairs, names carrying a bound value, names carrying a default) before an update_renames call."""
    return [(fn_pairs(f), set(f.bound), set(f.defaults)) for f in p.functions]


def rename_cats(state, after, overwrite):
    """Which of the situations the rename histories are after does one performed `update_renames` call exercise."""
    cats = set()
    for (pairs, bound, dflt), (ap, ao) in zip(state, after):
        old = [c for c, _ in pairs]
        new = list(ap) + list(ao)
        if len(old) != len(new):
            continue
        for i, ((c, o), n) in enumerate(zip(pairs, new)):
            if c in bound and n != c:
                cats.add("cat:renames:bound-parameter-renamed")
                if c != o:
                    cats.add("cat:renames:bound-parameter-renamed-again")
                if overwrite and c != o and n == o:
                    cats.add("cat:renames:bound-parameter-sent-home-by-overwrite")
            if c in dflt and n != c and c != o:
                cats.add("cat:renames:defaulted-parameter-renamed-again")
            if n != c and n in old and old.index(n) != i:
                cats.add("cat:renames:freed-name-handed-over")
                if old[i] == new[old.index(n)]:
                    cats.add("cat:renames:swap-in-one-call")
                if c in bound or n in bound:
                    cats.add("cat:renames:freed-name-handed-over:bound-involved")
    return sorted(cats)


def uniform(rel, used):
    """One old name -> one new name and back, over the names in use."""
    fwd, bwd = {}, {}
    for o, n in rel:
        fwd.setdefault(o, set()).add(n)
        bwd.setdefault(n, set()).add(o)
    return all(len(v) == 1 for v in fwd.values()), all(len(v) == 1 for v in bwd.values())


def sel_arg(x):
    """JSON form (None | "*" | list) of an `inputs=` / `outputs=` argument -> what update_scope is called with."""
    return x if x is None or x == "*" else set(x)


def scope_names(p, inputs, outputs, exclude):
    """The names `Pipeline.update_scope(scope, inputs, outputs, exclude)` is documented to rename."""
    roots, outs = set(p.topological_generations.root_args), set(p.all_output_names)
    i = roots if inputs == "*" else (set(inputs) & roots if inputs else set())
    o = outs if outputs == "*" else (set(outputs) & outs if outputs else set())
    return (i | o) - set(exclude or ())


def used_names(p):
    return {a for f in p.functions for a in f.parameters} | set(p.all_output_names)


def injective(rho, names):
    return len({rho(a) for a in names}) == len(set(names))


def build_func(fd, kind):
    """A real PipeFunc for a one-function description (pipegen / mapgen format)."""
    if kind == "map":
        d = dict({"mapspec": None, "mapspec_str": None, "autogen": False, "ret": None, "internal": None, "defaults": [], "bound": []}, **fd)
        p, _ = PK.build_map({"funcs": [d]}, log=NullLog())
    else:
        p, _ = PK.build_call({"funcs": [fd]}, log=NullLog())
    return p.functions[0]


def model_func(fd):
    return {"name": fd["name"], "params": fd["params"], "outputs": fd["outputs"], "defaults": fd.get("defaults", []), "bound": fd.get("bound", []),
            "mapspec": fd.get("mapspec"), "ret": fd.get("ret"), "internal": fd.get("internal")}


def canon_spec(ms):
    """A MapSpec string with its input arrays sorted by name: the order of the inputs of a MapSpec carries no meaning (arrays are
    keyed by name) and depends on the traversal order of add_mapspec_axis."""
    if ms is None or " -> " not in ms:
        return ms
    left, right = ms.split(" -> ", 1)
    parts, depth, cur = [], 0, ""
    for ch in left:
        depth += ch == "["
        depth -= ch == "]"
        if ch == "," and depth == 0:
            parts.append(cur.strip()); cur = ""
        else:
            cur += ch
    parts.append(cur.strip())
    return ", ".join(sorted(parts)) + " -> " + right


def summary(p):
    out = []
    for f in p.functions:
        out.append({"outputs": list(at_least_tuple(f.output_name)), "params": list(f.parameters),
                    "defaults": sorted([[k, terms.enc(v)] for k, v in f.defaults.items()], key=lambda kv: kv[0]),
                    "bound": sorted([[k, terms.enc(v)] for k, v in f.bound.items()], key=lambda kv: kv[0]),
                    "mapspec": canon_spec(str(f.mapspec)) if f.mapspec is not None else None, "nested": isinstance(f, NestedPipeFunc)})
    return sorted(out, key=lambda d: d["outputs"])


def model_summary(js):
    out = []
    for d in js:
        out.append({"outputs": d["outputs"], "params": d["params"],
                    # the model's association lists stand for dicts: a later entry overwrites an earlier one
                    "defaults": sorted([[k, v] for k, v in {k: terms.canon(v) for k, v in d["defaults"]}.items()], key=lambda kv: kv[0]),
                    "bound": sorted([[k, v] for k, v in {k: terms.canon(v) for k, v in d["bound"]}.items()], key=lambda kv: kv[0]),
                    "mapspec": canon_spec(d["mapspec"]), "nested": d["nested"]})
    return sorted(out, key=lambda d: d["outputs"])


def relabel(j, lab, top=None):
    """Model terms of a renamed map pipeline record the current output name in a pick; the implementation the original.
    `top`: the names of the pipeline's own (un-nested) functions - a pick of a function INSIDE a NestedPipeFunc comes from the
    inner pipeline's evaluation and already records the original name."""
    if isinstance(j, dict):
        if "pick" in j:
            base = j["pick"][0]
            inner = top is not None and isinstance(base, dict) and "f" in base and base["f"] not in top
            return {"pick": [relabel(base, lab, top), j["pick"][1] if inner else lab.get(j["pick"][1], j["pick"][1])]}
        if "f" in j:
            return {"f": j["f"], "k": [[k, relabel(v, lab, top)] for k, v in j["k"]]}
        if "arr" in j:
            return {"arr": [j["arr"][0], [relabel(x, lab, top) for x in j["arr"][1]]]}
        if "proj" in j:
            return {"proj": [relabel(j["proj"][0], lab, top), j["proj"][1]]}
    return j


def top_names(p):
    """Names of the un-nested functions of `p` when it has a NestedPipeFunc (else None: every pick is the pipeline's own)."""
    if not any(isinstance(f, NestedPipeFunc) for f in p.functions):
        return None
    return sorted(f.__name__ for f in p.functions if not isinstance(f, NestedPipeFunc))


class Ent:
    def __init__(self, p, kind, tags, labels, inputs=None, internal=None, kinds=None):
        self.p, self.kind = p, kind
        self.tags = tags            # current root name -> tag (the name it had in the generated pipeline)
        self.labels = labels        # current output name -> original output name
        self.inputs = inputs or {}  # map pipelines: tag -> value json
        self.internal = internal or []   # [[current output name, shape]]
        self.kinds = kinds or {}    # tag -> "list" | "array"
        self.vals = {}              # output -> last observation
        self.dvals = {}             # output -> last observation with defaulted roots left out
        self.domit = {}             # output -> the roots that were left out
        self.summary = None
        self.loose = False          # values may legitimately differ from the ancestors' (a consumed output was dropped)
        self.rets = {}              # map pipelines: original output name -> shape of the arrays the wrapped function returns


def safe_json(j):
    """A value JSON the Lean driver can read: what `terms.enc` cannot express in `PF.Val` (a dict, an arbitrary object - only a misbehaving
    pipefunc hands those out) becomes a reserved string, so that the request never is a `bad` one."""
    if isinstance(j, dict):
        if "dict" in j or "opaque" in j:
            return {"s": "$unencodable:" + repr(j)[:80]}
        return {k: safe_json(v) for k, v in j.items()}
    if isinstance(j, list):
        return [safe_json(x) for x in j]
    return j


def tup_as_arr(j):
    """The model's `Val.tup` in the form `terms.enc` gives a Python tuple.  Nothing else is touched: `nest_wrap` only re-packs the values
    it was sent, which are encodings of the implementation's own values (`terms.canon` would interpret constant / sequence-valued calls
    in them a second time)."""
    if isinstance(j, dict):
        if set(j) == {"t"}:
            return {"arr": [[len(j["t"])], [tup_as_arr(x) for x in j["t"]]]}
        return {k: tup_as_arr(v) for k, v in j.items()}
    if isinstance(j, list):
        return [tup_as_arr(x) for x in j]
    return j


def judge_wraps(runner, resps):
    """Compare `PF.Rw.Wrap` (driver entry `nest_wrap`) with what the real wrapper / picker did on the same dictionary."""
    for (req, obs, name, fname), resp in zip(runner.wraps, resps):
        r = resp["r"]

        def same(impl, model):
            if "value" in model:
                return impl == {"value": tup_as_arr(model["value"])}
            return "err" in impl
        if not same(obs["ret"], r["ret"]):
            yield (f"`{fname}` in `{name}`: _NestedFuncWrapper.__call__ on the inner result dictionary differs from the model's wrapperCall",
                   False, "correspondence:nest-wrapper-return", obs["ret"], r["ret"])
            continue
        for (o, got), (o2, m) in zip(obs["outs"], r["outs"]):
            if not same(got, m):
                yield (f"`{fname}` in `{name}`: output `{o}` read out of the nested function's return value differs from the model's nestOut",
                       False, "correspondence:nest-wrapper-pick", got, m)
                break


def kwval(tag):
    return {"s": f"kw:{tag}"}


def nested_kw(kw):
    """{'S.a': v, 'b': w} -> {'S': {'a': v}, 'b': w}"""
    out = {}
    for k, v in kw.items():
        if "." in k:
            s, n = k.split(".", 1)
            out.setdefault(s, {})[n] = v
        else:
            out[k] = v
    return out


class Runner:
    def __init__(self, env_descs):
        """env_descs: [[name, {"kind": "call"|"map", "desc": ...}]]"""
        self.env = {}
        self.env_req = []
        self.history = []
        self.plan = []
        self.problems = []          # (what, found_input, item, impl, model) evaluated on the implementation alone
        self.counts = []
        self.halted = False         # a refused in-place mutation may leave its target half-changed: the history ends there
        self.last = None            # the last performed rewrite: (kind, new name, [old names])
        self.wraps = []             # ext5: (driver request `nest_wrap`, what the implementation did, pipeline name, nested function name)
        self.shared = {}            # round 9: function name -> the ONE Python callable all functions of that name wrap (`"shared": True` environments)
        for name, d in env_descs:
            try:
                self._add_env(name, d)
            except Exception as e:  # noqa: BLE001   (ext5) building / first observation of a generated, valid pipeline raised: an observation
                self.counts.append(f"build-raised:{exc_enum(e)}")
                self.problems.append((f"building the generated pipeline `{name}` and evaluating it raises {exc_enum(e)}: {str(e)[:120]}", True, None,
                                      {"err": exc_enum(e), "msg": str(e)[:200]}, None))
                self.env.pop(name, None)
                self.env_req = [x for x in self.env_req if x[0] != name]
                del self.history[:], self.plan[:]
                self.halted = True
                break

    def _add_env(self, name, d):
        if True:
            desc = d["desc"]
            if d["kind"] == "call" and d.get("shared"):
                # round 9 (harness/c10_join.py): functions of one name share one callable across the pipelines of the environment
                import c10_join as J
                p = quiet(J.build_shared, desc, self.shared, NullLog())
                funcs = PK.strip(desc["funcs"])
                ent = Ent(p, "call", {}, {})
            elif d["kind"] == "call":
                p, _ = PK.build_call(desc, log=NullLog(), defaults_in_signature=not d.get("explicit_defaults", False))
                funcs = PK.strip(desc["funcs"])
                ent = Ent(p, "call", {}, {})
            else:
                p, _ = PK.build_map(desc, log=NullLog())
                funcs = mapgen.model_request(desc)["funcs"]
                ent = Ent(p, "map", {}, {}, inputs={k: v for k, v in desc["inputs"]}, internal=[list(x) for x in desc["internal"]],
                          kinds=dict(desc["input_kinds"]))
            ent.tags = {r: r for r in self.roots(p)}
            ent.labels = {o: o for o in p.all_output_names}
            if d.get("shared"):
                ent.labels = {c: o for f in desc["funcs"] for c, o in zip(f["outputs"], f.get("outorig") or f["outputs"])}
            ent.rets = {o: f.get("ret") for f in desc["funcs"] for o in f["outputs"]} if d["kind"] == "map" else {}
            self.env[name] = ent
            self.env_req.append([name, {"funcs": funcs}])
            self.observe(name, first=True)

    # ------------------------------------------------------------------ observation of one pipeline
    @staticmethod
    def roots(p):
        return list(p.topological_generations.root_args)

    def ev(self, ent, o, nested=False, use_defaults=False, omit=()):
        try:
            kw = {r: terms.dec(kwval(ent.tags.get(r, r))) for r in ent.p.root_args(o)
                  if not (use_defaults and r in ent.p.defaults) and r not in omit}
            if nested:
                kw = nested_kw(kw)
            return {"value": terms.enc(quiet(ent.p, o, **kw))}
        except Exception as e:  # noqa: BLE001
            return {"err": exc_enum(e), "msg": str(e)[:160]}

    def map_inputs(self, ent):
        out = {}
        for r in self.roots(ent.p):
            tag = ent.tags.get(r, r)
            if tag in ent.inputs:
                v = terms.dec(ent.inputs[tag])
                if ent.kinds.get(tag) == "list":
                    v = list(v)
                out[r] = v
        return out

    def run_map(self, ent):
        try:
            res = quiet(ent.p.map, self.map_inputs(ent), internal_shapes={o: tuple(s) for o, s in ent.internal} or None,
                        parallel=False, storage="dict")
            return {o: {"value": terms.enc(r.output)} for o, r in res.items()}
        except Exception as e:  # noqa: BLE001
            return {"*": {"err": exc_enum(e), "msg": str(e)[:200]}}

    def observe(self, name, first=False):
        """Evaluate every output of `name` on the implementation and add the model steps for the same evaluations."""
        ent = self.env[name]
        ent.summary = summary(ent.p)
        outs = sorted(ent.p.all_output_names)
        if ent.kind == "map":
            obs = self.run_map(ent)
            ent.vals = obs
            inputs = [[r, ent.inputs[ent.tags.get(r, r)]] for r in self.roots(ent.p) if ent.tags.get(r, r) in ent.inputs]
            self.history.append({"op": "map", "target": name, "inputs": inputs, "internal": ent.internal})
            self.plan.append({"kind": "map", "name": name, "impl": obs, "labels": dict(ent.labels), "top": top_names(ent.p)})
            return
        ent.vals = {}
        ent.dvals, ent.domit = {}, {}
        for o in outs:
            ob = self.ev(ent, o)
            ent.vals[o] = ob
            try:
                ra = list(ent.p.root_args(o))
                dflt = [r for r in ra if r in ent.p.defaults]
            except Exception:  # noqa: BLE001
                ra, dflt = [], []
            kw = [[r, kwval(ent.tags.get(r, r))] for r in ra]
            self.history.append({"op": "eval", "target": name, "out": o, "kw": kw})
            self.plan.append({"kind": "eval", "name": name, "out": o, "impl": ob})
            if ob.get("err") == "UnusedParametersError":
                self.problems.append((f"`{name}`('{o}') called with exactly its own root_args {ra} is rejected (stale structure)", True, None, ob, ra))
            if dflt:
                # the same call with every defaulted root argument left out
                ob3 = self.ev(ent, o, use_defaults=True)
                ent.dvals[o] = ob3
                ent.domit[o] = list(dflt)
                self.history.append({"op": "eval", "target": name, "out": o, "kw": [x for x in kw if x[0] not in dflt]})
                self.plan.append({"kind": "eval", "name": name, "out": o, "impl": ob3, "defaults": True})
            if any("." in r for r in ra):
                ob2 = self.ev(ent, o, nested=True)
                if "value" in ob and ob2 != ob:
                    self.problems.append((f"`{o}` called with nested-dict scope keywords differs from the dotted-key call", True, None, ob2, ob))
                nk = nested_kw({r: kwval(ent.tags.get(r, r)) for r in ra})
                kw2 = [[k, ({"scope": [[n, v] for n, v in val.items()]} if "." not in k and isinstance(val, dict) and "s" not in val else val)]
                       for k, val in nk.items()]
                self.history.append({"op": "eval", "target": name, "out": o, "kw": kw2})
                self.plan.append({"kind": "eval", "name": name, "out": o, "impl": ob2, "nested": True})

    def check_unchanged(self, name, why):
        """The old object after an operation: same structure, same values."""
        ent = self.env[name]
        s = summary(ent.p)
        if s != ent.summary:
            self.problems.append((f"{why}: the structure of `{name}` changed", True, None, s, ent.summary))
            ent.summary = s
            return
        if ent.kind == "map":
            obs = self.run_map(ent)
            if obs != ent.vals:
                self.problems.append((f"{why}: the map results of `{name}` changed", True, None, obs, ent.vals))
            return
        for o, before in ent.vals.items():
            now = self.ev(ent, o)
            if ("value" in before or "value" in now) and now != before:
                self.problems.append((f"{why}: `{name}`('{o}') changed", True, None, now, before))
        for o, before in ent.dvals.items():
            now = self.ev(ent, o, use_defaults=True)
            if ("value" in before or "value" in now) and now != before:
                self.problems.append((f"{why}: `{name}`('{o}') called with its defaults changed", True, None, now, before))

    # ------------------------------------------------------------------ ops
    def apply(self, op):
        """`_apply`, never raising (ext5): whatever pipefunc - or replaying what it did: reading names, summaries, root arguments of the
        objects it returned - raises outside the places that already expect an exception is an OBSERVATION: the op's partial model steps are
        taken back (so that history and plan stay aligned), the failure is reported with this case as its replay, the history ends."""
        marks = (len(self.history), len(self.plan), len(self.wraps))
        try:
            return self._apply(op)
        except Exception as e:  # noqa: BLE001
            del self.history[marks[0]:], self.plan[marks[1]:], self.wraps[marks[2]:]
            self.counts.append(f"op-raised:{op.get('op')}:{exc_enum(e)}")
            self.problems.append((f"{op.get('op')}: performing the operation and observing its result raises {exc_enum(e)}: {str(e)[:120]}", True, None,
                                  {"err": exc_enum(e), "msg": str(e)[:200]}, None))
            self.halted = True
            return False

    def _apply(self, op):
        """Returns True when the implementation performed the op."""
        kind = op["op"]
        self.counts.append(f"op:{kind}")
        if kind in MUTATIONS or kind in MUTATIONS_X:
            return self.apply_mutation(op)
        if kind == "join_x":            # round 9: join / | with any number of operands, bare PipeFunc operands, overlapping operands
            import c10_join as J
            import sys
            return J.apply_join(self, op, sys.modules[__name__])
        src = self.env[op["src"]]
        rho = lambda n: n  # noqa: E731
        cats = []
        loose = False        # set for an op whose result is not required to compute what its source computes
        other = None
        try:
            if kind == "copy":
                p = quiet(src.p.copy)
            elif kind == "pickle":
                import cloudpickle
                p = quiet(lambda: cloudpickle.loads(cloudpickle.dumps(src.p)))
            elif kind == "join":
                other = self.env[op["other"]]
                try:
                    da, db = dict(src.p.defaults), dict(other.p.defaults)
                    shared = [k for k in da if k in db]
                    if any(da[k] != db[k] for k in shared):
                        self.counts.append("cat:join-clash")
                    elif shared:
                        self.counts.append("cat:join-equal-defaults")
                except Exception:  # noqa: BLE001
                    pass
                p = quiet(src.p.join, other.p) if op.get("via") != "or" else quiet(lambda: src.p | other.p)
                if any(r in src.tags and src.tags[r] != t for r, t in other.tags.items()):
                    # a root argument of both that stands for different inputs of the generated pipelines (renamed apart and back):
                    # the joined pipeline gives it ONE value, so it is not required to compute what both sources compute
                    loose = True
                    self.counts.append("join:shared-root-with-different-tags")
            elif kind == "rename":
                m = dict(op["map"])
                p = quiet(src.p.copy)
                rho = lambda n: m.get(n, n)  # noqa: E731
                quiet(p.update_renames, m)
            elif kind == "rename_x":
                p = quiet(src.p.copy)
                before_names, rstate = names_of(p), rename_state(p)
                quiet(p.update_renames, dict(op["map"]), update_from="original" if op["from_original"] else "current", overwrite=bool(op["overwrite"]))
                rel, dup, dup_out = name_relation(before_names, names_of(p))
                orel = output_relation(before_names, names_of(p))
                if dup or dup_out:
                    # two names of one function / two producers became one: a capture, outside the property
                    self.counts.append("capture:rename_x")
                    self.check_unchanged(op["src"], "after a capturing rename_x")
                    return False
                functional, inj = uniform(rel, None)
                if not (functional and inj):
                    # not ONE renaming of the pipeline (an overwrite returns names to originals that differ between the functions, or
                    # two roots meet): the wiring may change; the result is compared with the model only
                    loose = True
                    self.counts.append("rename_x:" + ("split" if not functional else "") + ("merge" if not inj else ""))
                try:
                    self.roots(p)
                    for o in p.all_output_names:
                        p.root_args(o)
                except Exception as e:  # noqa: BLE001   e.g. a cycle closed by two names that met
                    self.counts.append(f"rename_x:unreadable-result:{exc_enum(e)}")
                    self.check_unchanged(op["src"], "after rename_x")
                    return False
                fwd = {}
                for o_, n_ in sorted(rel):
                    fwd.setdefault(o_, n_)
                rho = lambda n: fwd.get(n, n)  # noqa: E731
                self.counts.append(f"rename_x:{'original' if op['from_original'] else 'current'}:{'overwrite' if op['overwrite'] else 'add'}"
                                   f":{'uniform' if not loose else 'loose'}")
                cats = rename_cats(rstate, names_of(p), op["overwrite"])
            elif kind == "scope":
                p = quiet(src.p.copy)
                names = set(self.roots(src.p)) | set(src.p.all_output_names)
                cats = self.scope_categories(src.p, dict(op, inputs="*", outputs="*"))
                rho = lambda n: prepend_scope(op["scope"], n) if n in names else n  # noqa: E731
                quiet(p.update_scope, op["scope"], "*", "*")
            elif kind == "scope_sel":
                p = quiet(src.p.copy)
                sel_names = scope_names(src.p, op["inputs"], op["outputs"], op["exclude"])
                cats = self.scope_categories(src.p, op)
                rho = lambda n: prepend_scope(op["scope"], n) if n in sel_names else n  # noqa: E731
                quiet(p.update_scope, op["scope"], sel_arg(op["inputs"]), sel_arg(op["outputs"]), set(op["exclude"]) if op["exclude"] is not None else None)
            elif kind == "nest":
                p = quiet(src.p.copy)
                sel = {p.output_to_func[o].output_name for o in op["sel"]}
                out = op.get("out")
                new_name = None if out is None else (out[0] if len(out) == 1 and not op.get("tuple1") else tuple(out))     # tuple1: `("o",)`
                if op.get("via") == "ctor":
                    # the same through the constructor: NestedPipeFunc(functions, output_name) put into a new Pipeline with the rest
                    inner = [f for f in p.functions if f.output_name in sel]
                    rest = [f for f in p.functions if f.output_name not in sel]
                    nest = quiet(NestedPipeFunc, inner, output_name=new_name)
                    p = quiet(type(p), rest + [nest])
                else:
                    quiet(p.nest_funcs, sel, new_name)
                loose = bool(op.get("malformed"))
            elif kind == "simplify":
                p = quiet(src.p.simplified_pipeline, op["out"], conservatively_combine=op["conservative"])
            elif kind == "split":
                parts = quiet(src.p.split_disconnected)
                p = next(q for q in parts if op["out"] in q.all_output_names)
            elif kind == "add_axis":
                return self.apply_add_axis(op)
            else:
                raise AssertionError(kind)
        except Exception as e:  # noqa: BLE001
            if kind in ("rename", "scope", "scope_sel") and not injective(rho, used_names(src.p)):
                # a capturing renaming that the implementation happens to refuse (e.g. two defaults meet): outside the property as well
                self.counts.append(f"capture-refused:{kind}")
                self.check_unchanged(op["src"], f"after a refused capturing {kind}")
                return False
            self.counts.append(f"refused:{kind}:{exc_enum(e)}")
            self.history.append(self.model_op(op))
            self.plan.append({"kind": "op", "op": op, "impl": {"err": exc_enum(e), "msg": str(e)[:200]}})
            self.check_unchanged(op["src"], f"after a refused {kind}")
            return False
        if kind in ("rename", "scope", "scope_sel"):
            used = {a for f in src.p.functions for a in f.parameters} | set(src.p.all_output_names)
            if len({rho(a) for a in used}) < len(used):
                # a capturing (non-injective) renaming is outside the property: only the original must stay intact
                self.counts.append(f"capture:{kind}")
                self.check_unchanged(op["src"], f"after a capturing {kind}")
                return False
        self.counts += cats
        # tags / labels of names the source no longer uses (the root of a dropped function, a dropped output) are stale: a later
        # renaming may hand such a name to another parameter
        used_src = used_names(src.p)
        tags = {rho(r): t for r, t in src.tags.items() if r in used_src}
        labels = {rho(o): l for o, l in src.labels.items() if o in used_src}
        if kind == "rename_x":      # output names follow the functions' own outputs (a name may also stay behind as somebody's parameter)
            labels = {orel.get(o, rho(o)): l for o, l in src.labels.items() if o in used_src}
        inputs, kinds, internal = dict(src.inputs), dict(src.kinds), [[rho(o), s] for o, s in src.internal]
        if kind == "rename_x":
            for o_, n_ in sorted(rel):          # a name that split: every new name carries the old one's tag / label
                if o_ in src.tags:
                    tags.setdefault(n_, src.tags[o_])
                if o_ in src.labels:
                    labels.setdefault(n_, src.labels[o_])
        if other is not None:
            tags.update(other.tags); labels.update(other.labels); inputs.update(other.inputs); kinds.update(other.kinds)
            internal += other.internal
        for r in self.roots(p):
            if r not in tags and not loose:
                self.problems.append((f"{kind}: the new pipeline needs an input `{r}` that the old one does not have", True, None,
                                      sorted(self.roots(p)), sorted(tags)))
            tags.setdefault(r, r)
        ent = Ent(p, "map" if (src.kind == "map" or (other is not None and other.kind == "map")) else "call", tags,
                  {o: labels.get(o, o) for o in p.all_output_names}, inputs, [x for x in internal if x[0] in p.all_output_names], kinds)
        ent.loose = loose
        ent.rets = dict(src.rets, **(other.rets if other is not None else {}))
        self.env[op["dst"]] = ent
        self.history.append(self.model_op(op))
        self.plan.append({"kind": "op", "op": op, "impl": {"ok": True, "summary": summary(p)}})
        self.observe(op["dst"])
        if any(isinstance(f, NestedPipeFunc) for f in p.functions) and not ent.loose:
            self.wrap_check(op["dst"], kind)
        if kind in ("nest", "simplify"):
            self.picker_categories(kind, ent.p)
            self.nested_under_map(op, src, ent)
        elif any(PK.style_of(f) for f in p.functions):
            self.counts.append(f"cat:picker:{kind}:on-a-pipeline-with-a-custom-picker")
            if kind in ("rename", "rename_x", "scope", "scope_sel") and any(
                    PK.style_of(f) and at_least_tuple(f.output_name) != at_least_tuple(f._output_name) for f in p.functions):
                self.counts.append(f"cat:picker:{kind}:output-of-a-custom-picker-function-renamed")
        # --- the property, on the implementation alone: every retained output computes what it computed before
        sources = [(op["src"], src, rho)] + ([(op["other"], other, lambda n: n)] if other is not None else [])
        for sname, s_ent, r in sources:
            for o, before in s_ent.vals.items():
                if o == "*":
                    if ent.kind == "map" and "*" not in ent.vals:
                        pass
                    continue
                if r(o) not in ent.vals:
                    if "*" in ent.vals and "value" in before and kind not in ("split", "nest", "simplify"):
                        self.problems.append((f"{kind}: the map of the new pipeline fails ({ent.vals['*'].get('err')}) where the old one ran",
                                              True, None, ent.vals["*"], before))
                        break
                    continue
                now = ent.vals[r(o)]
                if "value" in before and now != before and not ent.loose:
                    if kind == "join" and sname == op.get("other") and "err" not in now:
                        # joining may feed outputs of the first pipeline into the second: not covered by the conservative clause
                        if any(x in src.p.all_output_names for x in self.roots(other.p)):
                            continue
                    if kind == "join" and sname == op["src"] and any(x in other.p.all_output_names for x in self.roots(src.p)):
                        continue
                    self.problems.append((f"{kind}: output `{r(o)}` of the new pipeline differs from `{o}` of the old one", True, None, now, before))
            for o, before in s_ent.dvals.items():
                if r(o) not in ent.vals or "value" not in before:
                    continue
                # the same call on the new object: the roots the old one took from its defaults are left out again
                now = self.ev(ent, r(o), omit={r(x) for x in s_ent.domit[o]})
                if now != before and not ent.loose and kind != "join":
                    self.problems.append((f"{kind}: output `{r(o)}` of the new pipeline, called with its defaults, differs from `{o}` of the old one",
                                          True, None, now, before))
        self.check_unchanged(op["src"], f"after {kind}")
        if other is not None:
            self.check_unchanged(op["other"], f"after {kind}")
        self.last = ("scope" if kind == "scope_sel" else "rename" if kind == "rename_x" else kind, op["dst"], [op["src"]] + ([op["other"]] if other is not None else []))
        return True

    def wrap_check(self, name, kind):
        """ext5: the way OUT of every NestedPipeFunc of the call pipeline `name`, step by step on the real objects: the dictionary that
        `call_full_output` returns (`nf.func.func`), the return value of `_NestedFuncWrapper.__call__` (`nf.func`) and what the nested
        function's picker reads out of it for every output.  Property, on the implementation alone: every exported output is the inner
        pipeline's value for that name.  The same dictionary goes to the driver (`nest_wrap`: `PF.Rw.Wrap.wrapperCall/nestOut`, the
        functions `C10_nest_wrapper_roundtrip` / `C10_nest_call_*` are about); the answers are compared in `judge_wraps`."""
        ent = self.env[name]
        if ent.kind != "call":
            return
        for nf in ent.p.functions:
            if not isinstance(nf, NestedPipeFunc):
                continue
            try:
                inner_names = at_least_tuple(nf._output_name)
                cur_names = at_least_tuple(nf.output_name)
                args = {}
                for orig in nf.original_parameters:
                    cur = nf.renames.get(orig, orig)
                    if cur in nf.bound:
                        args[orig] = nf.bound[cur]
                    elif cur in ent.p.all_output_names:
                        args[orig] = quiet(ent.p, cur, **{r: terms.dec(kwval(ent.tags.get(r, r))) for r in ent.p.root_args(cur)})
                    else:
                        args[orig] = terms.dec(kwval(ent.tags.get(cur, cur)))
                wrapper = nf.func
                rd = quiet(wrapper.func, **args)
            except Exception as e:  # noqa: BLE001   the evaluation itself is judged by `observe`
                self.counts.append(f"wrap:not-evaluated:{exc_enum(e)}")
                continue
            obs = {"rd_keys": sorted(str(k) for k in rd)}
            try:
                ret = quiet(wrapper, **args)
                obs["ret"] = {"value": safe_json(terms.enc(ret))}
            except Exception as e:  # noqa: BLE001
                ret, obs["ret"] = None, {"err": exc_enum(e), "msg": str(e)[:120]}
            outs = []
            for cur, orig in zip(cur_names, inner_names):
                if "err" in obs["ret"]:
                    outs.append([orig, dict(obs["ret"])])
                    continue
                try:
                    v = ret if isinstance(nf.output_name, str) else nf.output_picker(ret, cur)
                    outs.append([orig, {"value": safe_json(terms.enc(v))}])
                except Exception as e:  # noqa: BLE001
                    outs.append([orig, {"err": exc_enum(e), "msg": str(e)[:120]}])
            obs["outs"] = outs
            rdj = [[k, safe_json(terms.enc(v))] for k, v in rd.items() if isinstance(k, str)]
            want = dict((k, {"value": v}) for k, v in rdj)
            self.counts.append(f"wrap:checked:{kind}:{'single' if isinstance(nf._output_name, str) else 'tuple'}"
                               f"{':dict-has-the-tuple-key' if nf._output_name in rd and isinstance(nf._output_name, tuple) else ''}")
            for orig, got in outs:
                if got != want.get(orig):
                    self.problems.append((f"{kind}: output `{orig}` of `{nf.__name__}` in `{name}` is not the value the inner pipeline computed for `{orig}` "
                                          f"(call_full_output -> _NestedFuncWrapper -> output_picker)", True, None, got, want.get(orig)))
                    break
            req = {"single": isinstance(nf._output_name, str), "names": list(inner_names), "rd": rdj, "picks": list(inner_names)}
            if cur_names != inner_names and isinstance(nf._output_name, tuple):
                req["cur"] = list(cur_names)          # a renamed / scoped nest: `PF.Rw.Wrap.nestOutCur` (C10_nest_wrapper_renamed), compared by position
                self.counts.append(f"wrap:checked:{kind}:outputs-of-the-nest-renamed")
            self.wraps.append(({"m": "nest_wrap", "a": req}, obs, name, nf.__name__))

    def picker_categories(self, kind, p):
        """ext5 coverage counters: what the NestedPipeFuncs of a freshly nested / simplified pipeline export, and from which kind of leaf."""
        try:
            for nf in p.functions:
                if not isinstance(nf, NestedPipeFunc):
                    continue
                leaf = nf.pipeline.unique_leaf_node
                styles = sorted({PK.style_of(g) for g in nf.pipeline.functions if PK.style_of(g)})
                lstyle = PK.style_of(leaf) or ("default" if isinstance(leaf.output_name, tuple) else "single")
                if styles:
                    self.counts.append(f"cat:picker:{kind}:nest-contains-custom-picker")
                if isinstance(leaf.output_name, tuple):
                    exact = nf._output_name == leaf.output_name
                    perm = not exact and isinstance(nf._output_name, tuple) and sorted(nf._output_name) == sorted(leaf.output_name)
                    self.counts.append(f"cat:picker:{kind}:exports-{'exactly-the-leaf-tuple' if exact else 'a-permutation-of-the-leaf-tuple' if perm else 'other'}:leaf-{lstyle}")
        except Exception as e:  # noqa: BLE001
            self.counts.append(f"cat:picker:unreadable:{exc_enum(e)}")

    def nested_under_map(self, op, src, ent):
        """nest_funcs / simplified_pipeline "under map" (round 4).  MapSpec pipelines: the new object was just mapped by `observe`
        (every retained output is compared with the old map below and with the model) - here a map that fails as a whole where the
        old one ran is reported.  Call pipelines (no MapSpec anywhere): old and new are mapped too (every function runs once) and
        every retained output must be the array-free value the old map returns; the new map is compared with the model as well."""
        kind = op["op"]
        nest = next((f for f in ent.p.functions if isinstance(f, NestedPipeFunc)), None)
        self.counts.append(f"nested-under-map:{kind}:{ent.kind}:{'combined-mapspec' if nest is not None and nest.mapspec is not None else 'no-mapspec'}")
        if ent.kind == "map":
            if "*" in ent.vals and "*" not in src.vals and not ent.loose:
                self.problems.append((f"{kind}: the map of the new pipeline fails ({ent.vals['*'].get('err')}: {ent.vals['*'].get('msg', '')[:80]}) "
                                      f"where the map of the old one ran", True, None, ent.vals["*"], "ran"))
            return
        if any(f.mapspec is not None for f in ent.p.functions) or any(f.mapspec is not None for f in src.p.functions):
            return
        fnames = [f.__name__ for f in ent.p.functions]
        if len(set(fnames)) < len(fnames):
            # the map model tells functions apart by NAME; a NestedPipeFunc is named after its inner output names, so a scoped nest
            # (`NestedPipeFunc_o2` exporting `T.o2`) joined with its origin and simplified again gives two functions of one name
            # (the model then reports a cycle; 1 case in 12 033, ext5 thorough seed 1).  The call-level checks above still apply.
            self.counts.append("nested-under-map:skipped:two-functions-of-one-name")
            return
        old_map = self.run_map_plain(src)
        new_map = self.run_map_plain(ent)
        inputs = [[r, kwval(ent.tags.get(r, r))] for r in self.roots(ent.p)]
        self.history.append({"op": "map", "target": op["dst"], "inputs": inputs, "internal": []})
        self.plan.append({"kind": "map", "name": op["dst"], "impl": new_map, "labels": dict(ent.labels), "top": top_names(ent.p)})
        if "*" in old_map:
            self.counts.append(f"nested-under-map:old-map-refused:{old_map['*'].get('err')}")
            return
        if "*" in new_map:
            if not ent.loose:
                self.problems.append((f"{kind}: the map of the new pipeline fails ({new_map['*'].get('err')}: {new_map['*'].get('msg', '')[:80]}) "
                                      f"where the map of the old one ran", True, None, new_map["*"], "ran"))
            return
        for o, now in new_map.items():
            if o in old_map and now != old_map[o] and not ent.loose:
                self.problems.append((f"{kind}: output `{o}` of the new pipeline under map differs from the old pipeline's", True, None, now, old_map[o]))
                break
            if o in ent.vals and "value" in ent.vals[o] and now != ent.vals[o]:
                self.problems.append((f"{kind}: output `{o}` of the new pipeline under map differs from pipeline('{o}', ...)", True, None, now, ent.vals[o]))
                break

    def run_map_plain(self, ent):
        """`map` of a pipeline without MapSpecs: one plain value per root argument (defaults are supplied explicitly too)."""
        try:
            kw = {r: terms.dec(kwval(ent.tags.get(r, r))) for r in self.roots(ent.p)}
            res = quiet(ent.p.map, kw, parallel=False, storage="dict")
            return {o: {"value": terms.enc(r.output)} for o, r in res.items()}
        except Exception as e:  # noqa: BLE001
            return {"*": {"err": exc_enum(e), "msg": str(e)[:200]}}

    def inconsistent(self, e, ops):
        """Reading the structure of an object of the environment (graph, root_args, leaf_nodes, ...) raised: its caches are
        stale or its state is inconsistent after the operations so far."""
        self.counts.append(f"inconsistent-object:{exc_enum(e)}")
        self.problems.append((f"after {[o['op'] for o in ops]} reading the structure of a pipeline raises {exc_enum(e)}: {str(e)[:120]}", True, None,
                              {"err": exc_enum(e), "msg": str(e)[:200]}, None))
        self.halted = True

    def model_op(self, op):
        m = {k: v for k, v in op.items() if k not in ("malformed", "via", "sibling", "pair", "after", "which", "tuple1")}
        if isinstance(m.get("func"), dict) and "picker" in m["func"]:
            m["func"] = {k: v for k, v in m["func"].items() if k != "picker"}      # the picker style is invisible in the values
        if m.get("op") == "join":
            # round 9: the driver executes `Pipeline.join` as written (`PF.Rw.Join.joinAll`: every prefix of the constructor loop is
            # validated, a cycle is refused) - the model the C10Join theorems are about - for the two-pipeline joins of every stream too
            m = {"op": "join_x", "src": m["src"], "others": [{"p": m["other"]}], "dst": m["dst"]}
        return m

    def scope_categories(self, p, op):
        """Which of the update_scope argument forms a (selective) scope op exercises."""
        out = []
        i, o, ex = op.get("inputs"), op.get("outputs"), op.get("exclude")
        if i == "*" and o is None:
            out.append("cat:scope-inputs-only")
        if o == "*" and i is None:
            out.append("cat:scope-outputs-only")
        if isinstance(i, list) or isinstance(o, list):
            out.append("cat:scope-explicit")
        if ex:
            out.append("cat:scope-exclude")
        try:
            bound = {a for f in p.functions for a in f.bound}
            if bound and (i is not None or o is not None):
                roots = set(self.roots(p))
                out.append("cat:scope-bound:" + ("root-elsewhere" if bound & roots else "output" if bound & set(p.all_output_names) else "bound-everywhere"))
            if (op.get("scope") and "." in op["scope"]) or any("." in n for n in used_names(p)):
                out.append("cat:scope-nested:" + ("dotted-scope" if op.get("scope") and "." in op["scope"] else "rescope" if op.get("scope") else "unscope"))
        except Exception:  # noqa: BLE001
            pass
        return out

    def apply_mutation(self, op):
        """An in-place mutation of ONE object (`target`).  Afterwards the target is observed again (the model rebinds only
        that name), every other object must be unchanged (structure, values, fresh copy), and the `pair` object — the other
        side of the rewrite this mutation follows — is observed again too, so that BOTH are compared with the model."""
        ent = self.env[op["target"]]
        kind = op["op"]
        rho = lambda n: n  # noqa: E731
        cats = []
        try:
            used_before = used_names(ent.p)
        except Exception:  # noqa: BLE001
            used_before = None
        try:
            if kind == "set_defaults":
                m = {k: terms.dec(v) for k, v in op["map"]}
                quiet(ent.p.update_defaults, m)
            elif kind == "set_bound":
                m = {k: terms.dec(v) for k, v in op["map"]}
                quiet(ent.p[op["out"]].update_bound, m)
            elif kind == "mut_rename":
                m = dict(op["map"])
                rho = lambda n: m.get(n, n)  # noqa: E731
                if not injective(rho, used_names(ent.p)):
                    self.counts.append("capture:mut_rename")
                    return False
                quiet(ent.p.update_renames, m)
            elif kind == "mut_scope":
                sel_names = scope_names(ent.p, op["inputs"], op["outputs"], op["exclude"])
                rho = lambda n: prepend_scope(op["scope"], n) if n in sel_names else n  # noqa: E731
                if not injective(rho, used_names(ent.p)):
                    self.counts.append("capture:mut_scope")
                    return False
                cats = self.scope_categories(ent.p, op)
                quiet(ent.p.update_scope, op["scope"], sel_arg(op["inputs"]), sel_arg(op["outputs"]),
                      set(op["exclude"]) if op["exclude"] is not None else None)
            elif kind in ("mut_rename_x", "mut_frename"):
                before_names, rstate = names_of(ent.p), rename_state(ent.p)
                target_obj = ent.p if kind == "mut_rename_x" else ent.p[op["out"]]
                quiet(target_obj.update_renames, dict(op["map"]), update_from="original" if op["from_original"] else "current",
                      overwrite=bool(op["overwrite"]))
                rel, dup, dup_out = name_relation(before_names, names_of(ent.p))
                orel = output_relation(before_names, names_of(ent.p))
                if dup or dup_out:
                    self.counts.append(f"capture:{kind}")
                    self.halted = True          # the object was changed in place into something outside the property
                    return False
                functional, inj = uniform(rel, None)
                is_uniform = functional and inj
                try:
                    self.roots(ent.p)
                    for o in ent.p.all_output_names:
                        ent.p.root_args(o)
                except Exception as e:  # noqa: BLE001
                    self.counts.append(f"{kind}:unreadable-result:{exc_enum(e)}")
                    self.halted = True
                    return False
                fwd = {}
                for o_, n_ in sorted(rel):
                    fwd.setdefault(o_, n_)
                rho = lambda n: fwd.get(n, n)  # noqa: E731
                cats = [f"{kind}:{'original' if op['from_original'] else 'current'}:{'overwrite' if op['overwrite'] else 'add'}"
                        f":{'uniform' if is_uniform else 'loose'}"] + rename_cats(rstate, names_of(ent.p), op["overwrite"])
            elif kind == "mut_drop":
                quiet(lambda: ent.p.drop(output_name=op["out"]))
                cats = ["cat:drop"]
            elif kind == "mut_add":
                quiet(ent.p.add, build_func(op["func"], ent.kind))
                cats = ["cat:add"]
            elif kind == "mut_replace":
                quiet(ent.p.replace, build_func(op["func"], ent.kind))
                cats = ["cat:replace"]
            else:
                raise AssertionError(kind)
        except Exception as e:  # noqa: BLE001
            self.counts.append(f"refused:{kind}:{exc_enum(e)}")
            self.history.append(self.model_op(op))
            self.plan.append({"kind": "op", "op": op, "impl": {"err": exc_enum(e), "msg": str(e)[:200]}})
            if kind.startswith("mut_"):
                # NOT part of the property text ("operations that return a new pipeline leave the original unchanged" speaks of the
                # rewrites that succeed; nothing is said about an in-place call that raises): counted, not judged
                try:
                    same = summary(ent.p) == ent.summary
                    self.counts.append(f"failed-in-place:{kind}:{'object-unchanged' if same else 'object-half-changed'}")
                except Exception as e2:  # noqa: BLE001
                    self.counts.append(f"failed-in-place:{kind}:object-unreadable:{exc_enum(e2)}")
                self.halted = True
            return False
        self.counts += cats
        if op.get("after"):
            self.counts.append(f"mutation-after:{op['after']}:{kind}:{op['which']}")
        self.history.append(self.model_op(op))
        self.plan.append({"kind": "op", "op": op, "impl": {"ok": True, "summary": summary(ent.p)}})
        # --- name tracking of the mutated entry
        if used_before is not None:             # stale entries (names the object no longer used before this call) are dropped
            ent.tags = {r: t for r, t in ent.tags.items() if r in used_before}
            ent.labels = {o: l for o, l in ent.labels.items() if o in used_before}
        old_tags, old_labels = dict(ent.tags), dict(ent.labels)
        ent.tags = {rho(r): t for r, t in ent.tags.items()}
        ent.labels = {rho(o): l for o, l in ent.labels.items()}
        if kind in MUTATIONS_X:
            # ext5: output names follow the functions' own outputs; `mut_frename` may leave the old name behind as a consumer's parameter,
            # so `rho` (first image on ALL names) can send two outputs to one name (false alarm found on quick seed 0)
            ent.labels = {orel.get(o, rho(o)): l for o, l in old_labels.items()}
        if kind in MUTATIONS_X:
            for o_, n_ in sorted(rel):          # a name that split: every new name carries the old one's tag / label
                if o_ in old_tags:
                    ent.tags.setdefault(n_, old_tags[o_])
                if o_ in old_labels:
                    ent.labels.setdefault(n_, old_labels[o_])
        ent.internal = [[(orel.get(o, rho(o)) if kind in MUTATIONS_X else rho(o)), sh] for o, sh in ent.internal]
        if kind in ("mut_add", "mut_replace"):
            for o in op["func"]["outputs"]:
                ent.labels[o] = o           # a fresh function: its terms record its own names
                ent.rets[o] = op["func"].get("ret")
        outs_now = set(ent.p.all_output_names)
        ent.labels = {o: ent.labels.get(o, o) for o in outs_now}
        ent.internal = [x for x in ent.internal if x[0] in outs_now]
        for r in self.roots(ent.p):
            ent.tags.setdefault(r, r)       # a parameter that became a root argument (dropped producer, fresh function)
        before = dict(ent.vals)
        self.observe(op["target"])
        if (kind in ("mut_rename", "mut_scope") or (kind == "mut_rename_x" and is_uniform)) and not ent.loose:
            # the property, on the implementation alone: update_renames / update_scope IN PLACE keep every output's value up to the renaming
            for o, b in before.items():
                if o != "*" and "value" in b and "*" not in ent.vals and ent.vals.get(rho(o)) != b:
                    self.problems.append((f"{kind} in place: output `{rho(o)}` of `{op['target']}` differs from `{o}` before the renaming", True, None,
                                          ent.vals.get(rho(o)), b))
            if "*" in ent.vals and "*" not in before and before:
                self.problems.append((f"{kind} in place: the map of `{op['target']}` fails ({ent.vals['*'].get('err')}) where it ran before", True, None,
                                      ent.vals["*"], None))
        for name in self.env:
            if name != op["target"]:
                self.check_unchanged(name, f"after {kind} on `{op['target']}`")
                # state shared with the mutated object may hide behind cached properties: a fresh copy reads it
                other = self.env[name]
                try:
                    s2 = summary(quiet(other.p.copy))
                except Exception as e:  # noqa: BLE001
                    s2 = {"err": exc_enum(e)}
                if s2 != other.summary:
                    self.problems.append((f"after {kind} on `{op['target']}` a fresh copy of `{name}` no longer has the structure of `{name}` (shared state)",
                                          True, None, s2, other.summary))
        pair = op.get("pair")
        if pair is not None and pair in self.env and pair != op["target"]:
            self.observe(pair)              # the OTHER object of the rewrite, compared with the model once more
        return True

    # ------------------------------------------------------------------ add_mapspec_axis
    def apply_add_axis(self, op):
        src = self.env[op["src"]]
        q, axis, K = op["param"], op["axis"], int(op.get("K", 2))
        tag = src.tags.get(q, q)
        # a pipeline without MapSpecs (call kind) is mapped with one plain value per root argument
        src_inputs = dict(src.inputs) if src.kind == "map" else {src.tags.get(r, r): kwval(src.tags.get(r, r)) for r in self.roots(src.p)}
        if [src.tags.get(r, r) for r in self.roots(src.p)].count(tag) != 1:
            self.counts.append("add_axis:skipped-shared-tag")
            return False
        base = src_inputs[tag]

        def variant(n):
            if isinstance(base, dict) and "arr" in base:
                return {"arr": [base["arr"][0], [{"f": "var", "k": [["n", n], ["v", e]]} for e in base["arr"][1]]]}
            return {"f": "var", "k": [["n", n], ["v", base]]}

        try:
            p = quiet(src.p.copy)
            quiet(p.add_mapspec_axis, q, axis=axis)
        except Exception as e:  # noqa: BLE001
            self.counts.append(f"refused:add_axis:{exc_enum(e)}")
            self.problems.append((f"add_mapspec_axis('{q}', axis='{axis}') with a fresh axis is refused ({exc_enum(e)}: {str(e)[:100]})", True, None,
                                  {"err": exc_enum(e)}, None))
            self.check_unchanged(op["src"], "after a refused add_mapspec_axis")
            return False
        vs = [variant(n) for n in range(K)]
        ranks = {len(sp.axes) for f in p.functions if f.mapspec for sp in f.mapspec.inputs if sp.name == q}
        rank = ranks.pop() if len(ranks) == 1 else 0
        if rank > 1 and isinstance(base, dict) and "arr" in base and len(base["arr"][0]) == rank - 1:
            sh = base["arr"][0]          # q was already mapped: the new axis is its last one
            stacked = {"arr": [sh + [K], [vs[n]["arr"][1][i] for i in range(len(base["arr"][1])) for n in range(K)]]}
        elif rank == 1:
            stacked = {"arr": [[K], vs]}  # q was delivered whole: a 1-D array of the variants
        else:
            self.counts.append("add_axis:skipped-shape")
            self.check_unchanged(op["src"], "after add_mapspec_axis")
            return False
        # pointwise runs of the ORIGINAL pipeline, one per variant
        point = []
        for n in range(K):
            e = Ent(src.p, "map", src.tags, src.labels, dict(src_inputs, **{tag: vs[n]}), src.internal, dict(src.kinds, **{tag: "array"}))
            point.append(self.run_map(e))
            # the pointwise run of the ORIGINAL for variant n is compared with the model as well (with `lifted == model` and
            # `slices of lifted == pointwise` on the implementation this carries the clause over to the model's runs)
            pin = dict(src_inputs, **{tag: vs[n]})
            self.history.append({"op": "map", "target": op["src"],
                                 "inputs": [[r, pin[src.tags.get(r, r)]] for r in self.roots(src.p) if src.tags.get(r, r) in pin],
                                 "internal": src.internal})
            self.plan.append({"kind": "map", "name": op["src"], "impl": point[n], "labels": dict(src.labels), "pointwise": n,
                              "top": top_names(src.p)})      # ext5: was missing - picks inside a renamed nest were relabelled (latent false alarm)
            self.counts.append("add_axis:pointwise-run-compared-with-model")
        ent = Ent(p, "map", dict(src.tags), dict(src.labels), dict(src_inputs, **{tag: stacked}), [list(x) for x in src.internal],
                  dict(src.kinds, **{tag: "array"}))
        ent.loose = True
        ent.rets = dict(src.rets)
        self.env[op["dst"]] = ent
        self.history.append(self.model_op(op))
        self.plan.append({"kind": "op", "op": op, "impl": {"ok": True, "summary": summary(p)}})
        self.observe(op["dst"])
        lifted = ent.vals
        if "*" in point[0]:
            self.counts.append("add_axis:original-refuses-variant")
        elif "*" in lifted:
            self.counts.append(f"add_axis:lifted-map-refused:{lifted['*'].get('err')}")
            self.plan.append({"kind": "lift-refused", "op": op, "impl": lifted["*"]})
            self.history.append({"op": "summary", "target": op["dst"]})
        else:
            try:
                dependents = set()
                for f in p.functions:
                    outs = at_least_tuple(f.output_name)
                    if q in f.parameters and q not in f.bound:
                        dependents |= set(outs)
                changed = True
                while changed:
                    changed = False
                    for f in p.functions:
                        outs = set(at_least_tuple(f.output_name))
                        if not outs <= dependents and any(a in dependents and a not in f.bound for a in f.parameters):
                            dependents |= outs; changed = True
            except Exception:  # noqa: BLE001
                dependents = set()
            for o, ob in lifted.items():
                if "value" not in ob or "value" not in point[0].get(o, {}):
                    continue
                if o in dependents:
                    arr = terms.dec(ob["value"]) if isinstance(ob["value"], dict) and "arr" in ob["value"] else None
                    if arr is None or arr.shape[-1] != K:
                        self.problems.append((f"add_mapspec_axis: output `{o}` depends on `{q}` but did not gain the axis", True, None, ob, point[0][o]))
                        continue
                    for n in range(K):
                        sl = arr[..., n]
                        got = terms.enc(sl if isinstance(sl, np.ndarray) and sl.ndim > 0 else (sl.item() if isinstance(sl, np.ndarray) else sl))
                        if got != point[n][o]["value"]:
                            self.problems.append((f"add_mapspec_axis: slice {n} of `{o}` is not the original result for {q}=variant {n}", True, None,
                                                  got, point[n][o]["value"]))
                            break
                elif any(ob != point[n][o] for n in range(K)):
                    self.problems.append((f"add_mapspec_axis: output `{o}` does not depend on `{q}` but changed", True, None, ob, point[0][o]))
            self.counts.append(f"add_axis:checked:{min(len(dependents), 4)}{'+' if len(dependents) > 4 else ''}-dependents")
            self.counts.append(f"add_axis:K={K}:{src.kind}")
        self.check_unchanged(op["src"], "after add_mapspec_axis")
        self.last = ("add_axis", op["dst"], [op["src"]])
        return True


# Refusal classes that are compared (op kind -> the model's classes for which the implementation's exception class is a stable
# fact of the pipefunc code, verified over seeds 0-3 and the thorough tier).  Left out on purpose: KeyError of nest / split (raised
# by the harness's own lookup of the selected output, not by pipefunc), `scope` with "*","*" (no refusal was ever observed), refused
# evaluations and maps (none / 4 observed).  Messages are never compared.
CLASS_CHECKED = {
    "join": {"ValueError", "RecursionError"}, "join_x": {"ValueError", "RecursionError"}, "rename": {"ValueError"}, "scope_sel": {"ValueError"}, "mut_scope": {"ValueError"},
    "nest": {"ValueError", "RecursionError"}, "simplify": {"ValueError", "KeyError", "NotImplementedError"}, "split": {"ValueError"},
    "mut_drop": {"KeyError"}, "mut_replace": {"KeyError"}, "mut_add": {"ValueError"},
    "rename_x": {"ValueError", "RecursionError"}, "mut_rename_x": {"ValueError", "RecursionError"}, "mut_frename": {"ValueError"},
}


REASONS_IMPL = [("mix of None", "combine:mix"), ("different input and output mappings", "combine:in-out"), ("different input mappings", "combine:inputs"),
                ("different output mappings", "combine:outputs"), ("differently", "combine:axes"), ("takes it whole", "combine:whole"),
                ("only one leaf", "one-leaf"), ("at least two", "two-functions"), ("should be a subset", "subset"),
                ("cannot be simplified currently", "mapspec-predecessor"), ("No combinable nodes", "nothing-combinable")]
REASONS_MODEL = [("combine:mix", "combine:mix"), ("combine:in-out", "combine:in-out"), ("combine:inputs", "combine:inputs"), ("combine:outputs", "combine:outputs"),
                 ("combine:axes", "combine:axes"), ("combine:whole", "combine:whole"), ("only one leaf", "one-leaf"), ("at least two", "two-functions"),
                 ("not a subset", "subset"), ("no combinable", "nothing-combinable")]


def impl_reason(impl):
    """Why the implementation refused a nest / simplify: read off the message for the documented refusals (never compared otherwise)."""
    if impl.get("err") == "Other:NetworkXUnfeasible":
        return "cycle"
    msg = impl.get("msg", "")
    return next((r for k, r in REASONS_IMPL if k in msg), "other")


def model_reason(st):
    if st.get("err") == "RecursionError":
        return "cycle"
    if st.get("err") == "NotImplementedError":
        return "mapspec-predecessor"
    why = st.get("why", "")
    return next((r for k, r in REASONS_MODEL if k in why), "other")


def impl_class(err):
    """A cycle is `.fuel` (printed RecursionError) in the model and networkx's NetworkXUnfeasible in the implementation."""
    return "RecursionError" if err == "Other:NetworkXUnfeasible" else err


def judge_model(runner, steps):
    """Compare the model's answers with what the implementation did.  Yields (what, found_input, item, impl, model)."""
    assert len(steps) == len(runner.plan), (len(steps), len(runner.plan))
    dead = set()      # names the model did not bind (refused) — later steps on them are `bad` requests, so we stop before
    for pl, st in zip(runner.plan, steps):
        if pl["kind"] == "op":
            impl, op = pl["impl"], pl["op"]
            if "wf" in st:
                # round 9: the hypothesis WF of the C10_renames_* theorems, decided by `wfB` on every function before this update_renames call
                runner.counts.append(f"theorem-domain:C10_renames:{'in' if st['wf'] else 'out'}")
                if st["wf"] is False:
                    yield (f"{op['op']}: a function of the object does not pass wfB (hypothesis WF of C10_renames_pipeline_checked fails on this case)",
                           False, "theorem:C10_renames_pipeline_checked-hypothesis", impl.get("summary"), st.get("summary"))
            if "err" in impl and "err" in st:
                runner.counts.append(f"refusal-class:{op['op']}:{impl['err']}/{st['err']}")
                if op["op"] in ("nest", "simplify"):
                    ri, rm = impl_reason(impl), model_reason(st)
                    runner.counts.append(f"refusal-reason:{op['op']}:{ri}/{rm}")
                    if (ri != rm and {ri, rm} <= {"combine:in-out", "combine:inputs", "combine:outputs"} and op["op"] == "nest"
                            and len(op.get("sel", [])) >= 3):
                        # `_validate_combinable_mapspecs` compares every MapSpec with the FIRST one; `nest_funcs` takes a SET of names, so
                        # with three or more selected functions which of several applicable reasons is reported depends on the iteration
                        # order of a Python set (hash seed) - not a fact of the code (found in the ext5 thorough run; two functions: no)
                        runner.counts.append("refusal-reason:nest:order-dependent-among-index-reasons")
                    elif ri != rm and "other" not in (ri, rm):
                        yield (f"{op['op']} is refused by both, but the implementation's reason is `{ri}` ({impl.get('msg', '')[:70]}) and the model's `{rm}`",
                               False, f"correspondence:{op['op']}-refusal-reason", impl, st)
                if op["op"] in ("join", "join_x"):
                    # round 9: WHY a join is refused (the documented refusals, read off the message; anything else is `other`, not compared)
                    import c10_join as J
                    ri, rm = J.impl_reason(impl), J.model_reason(st)
                    runner.counts.append(f"refusal-reason:{op['op']}:{ri}/{rm}")
                    if ri != rm and "other" not in (ri, rm):
                        yield (f"{op['op']} is refused by both, but the implementation's reason is `{ri}` ({impl.get('msg', '')[:70]}) and the model's `{rm}`",
                               False, f"correspondence:{op['op']}-refusal-reason", impl, st)
                if st["err"] in CLASS_CHECKED.get(op["op"], ()) and impl_class(impl["err"]) != st["err"]:
                    yield (f"{op['op']} is refused by both, but with {impl['err']} ({impl.get('msg', '')[:60]}) where the model has {st['err']} ({st.get('why')})",
                           False, f"correspondence:{op['op']}-refusal-class", impl, st)
                continue
            if "err" in impl:
                yield (f"{op['op']} is refused by the implementation ({impl['err']}: {impl.get('msg', '')[:80]}) on an input the model rewrites",
                       True, None, impl, {"ok": True})
                continue
            if "err" in st:
                yield (f"{op['op']} is performed by the implementation but refused by the model ({st.get('why')})", False,
                       f"correspondence:{op['op']}-refusal", impl, st)
                return
            if st.get("retains") is False and not op.get("malformed"):
                yield (f"{op['op']}: the nested functions do not expose every inner output that is consumed outside "
                       f"(hypothesis `retainsAll` of C10_{'simplify' if op['op'] == 'simplify' else 'nest'}_partial fails on this case)", False,
                       f"theorem:C10_{op['op']}_partial-hypothesis", impl["summary"], st["summary"])
            if op["op"] == "add_axis":
                # `fragment`: the decidable hypotheses of C10_add_axis_kahn hold for this case; `liftok`: its intermediate conclusion
                runner.counts.append(f"theorem-domain:C10_add_axis:{'in' if st.get('fragment') else 'out'}")
                if st.get("liftok") is False:
                    yield ("add_mapspec_axis: the MapSpecs the model attaches do not pass liftOKb although the hypotheses of C10_add_axis_kahn hold",
                           False, "theorem:C10_add_axis_kahn", impl["summary"], st["summary"])
            if op["op"] in ("nest", "simplify") and "domain" in st:
                runner.counts.append(f"theorem-domain:C10_{op['op']}:{'in' if st['domain'] else 'out'}")
            if "order" in impl and "order" in st and impl["order"] != st["order"]:
                # round 9: the joined pipeline lists the operands' functions in operand order (`C10_join_accepts_iff`)
                yield (f"{op['op']}: the functions of the joined pipeline are listed in the order {impl['order']}, the model's concatenation is {st['order']}",
                       False, f"correspondence:{op['op']}-order", impl["order"], st["order"])
            if "rule" in impl and "keeps" in st:
                # round 9: the check's rule "compare an operand's output with the joined pipeline unless another operand produces one of its root
                # arguments" against the decidable hypothesis `joinKeeps` of C10_join_each_checked, output by output
                keeps = {(i, o): k for i, o, k in st["keeps"]}
                for i, o, compared in impl["rule"]:
                    k = keeps.get((i, o))
                    runner.counts.append(f"theorem-domain:C10_join_each_checked:{'in' if k else 'out'}:{'compared' if compared else 'skipped'}")
                    if k is not None and k != compared:
                        yield (f"{op['op']}: output `{o}` of operand {i} is {'compared with' if compared else 'not compared with'} the joined pipeline by the "
                               f"check's rule, but joinKeeps (hypothesis of C10_join_each_checked) is {k}", False, f"correspondence:{op['op']}-cone", compared, k)
                        break
            ms = model_summary(st["summary"])
            if ms != impl["summary"]:
                yield (f"structure after {op['op']} (parameters/outputs/defaults/bound/MapSpec) differs from the model", False,
                       f"correspondence:{op['op']}-summary", impl["summary"], ms)
        elif pl["kind"] == "eval":
            impl = pl["impl"]
            if "err" in impl and "err" in st:
                runner.counts.append(f"eval-refusal-class:{impl['err']}/{st['err']}")
                continue
            if "err" in impl or "err" in st:
                yield (f"`{pl['name']}`('{pl['out']}'){' [nested-dict keywords]' if pl.get('nested') else ''}: "
                       f"{'implementation' if 'err' in impl else 'model'} refuses, the other evaluates", False, "correspondence:eval-refusal", impl, st)
                continue
            mv = terms.canon(st["value"])
            if mv != impl["value"]:
                yield (f"`{pl['name']}`('{pl['out']}') differs from the model's composition", False, "correspondence:eval-value", impl, mv)
        elif pl["kind"] == "map":
            impl = pl["impl"]
            if "skip" in st:
                continue
            if "*" in impl and "err" in st:
                runner.counts.append(f"map-refusal-class:{impl['*'].get('err')}/{st['err']}")
                continue
            if "*" in impl or "err" in st:
                yield (f"map of `{pl['name']}`: {'implementation' if '*' in impl else 'model'} refuses, the other runs", False,
                       "correspondence:map-refusal", impl.get("*", "ran"), st if "err" in st else "ran")
                continue
            lab = pl["labels"]
            for o, v in st["outputs"]:
                mv = terms.canon(relabel(v, lab, pl.get("top")))
                if o in impl and impl[o].get("value") != mv:
                    yield (f"map output `{o}` of `{pl['name']}` differs from the model", False, "correspondence:map-value", impl[o], mv)
                    break
        elif pl["kind"] == "lift-refused":
            yield (f"the map of the pipeline lifted by add_mapspec_axis is refused ({pl['impl'].get('err')}: {pl['impl'].get('msg', '')[:80]})", True, None,
                   pl["impl"], st.get("summary"))
