import PfModel.Model.MapPieces
import PfModel.Lemmas.MapRun
/-! Helper lemmas for `Props/C06.lean`: the cell-level theory of running one mapped function in pieces. -/
namespace PF.Pieces
open PF PF.Map

/-! ### cells -/

theorem cellLookup_append (l1 l2 : List (Nat × Val)) (i : Nat) :
    cellLookup (l1 ++ l2) i = match cellLookup l1 i with | some v => some v | none => cellLookup l2 i := by
  induction l1 with
  | nil => simp [cellLookup]
  | cons e es ih => obtain ⟨k, v⟩ := e; simp only [List.cons_append, cellLookup]; split <;> simp_all

theorem cellLookup_cellsPart (f : MFunc) (todo : List Nat) (A : Nat → List (String × Val)) (o : String) (li : Nat) :
    cellLookup (cellsPart f todo A o) li = if li ∈ todo then some (outVal f (A li) o) else none := by
  unfold cellsPart
  induction todo with
  | nil => simp [cellLookup]
  | cons t ts ih =>
    simp only [List.map_cons, cellLookup, List.mem_cons]
    by_cases h : t = li
    · subst h; simp
    · have h' : ¬ li = t := fun e => h e.symm
      simp [h, h', ih]

theorem cellsPart_congr (f : MFunc) (todo : List Nat) (A B : Nat → List (String × Val)) (o : String)
    (h : ∀ li ∈ todo, A li = B li) : cellsPart f todo A o = cellsPart f todo B o := by
  unfold cellsPart
  apply List.map_congr_left
  intro li hli
  rw [h li hli]

theorem mem_todoOf (outs : List String) (n : Nat) (sel : Nat → Bool) (C : String → List (Nat × Val)) (li : Nat) :
    li ∈ todoOf outs n sel C ↔ li < n ∧ sel li = true ∧ missingIn outs C li = true := by
  unfold todoOf
  simp [List.mem_filter, List.mem_range]

theorem todoOf_nodup (outs : List String) (n : Nat) (sel : Nat → Bool) (C : String → List (Nat × Val)) :
    (todoOf outs n sel C).Nodup :=
  List.Nodup.sublist List.filter_sublist List.nodup_range

/-- all outputs of the function hold the same set `D` of elements -/
def Dom (outs : List String) (C : String → List (Nat × Val)) (D : Nat → Bool) : Prop :=
  ∀ o ∈ outs, ∀ li, (cellLookup (C o) li).isSome = D li

theorem missingIn_of_dom (outs : List String) (C : String → List (Nat × Val)) (D : Nat → Bool) (hne : outs ≠ [])
    (hd : Dom outs C D) (li : Nat) : missingIn outs C li = !D li := by
  unfold missingIn
  cases hD : D li with
  | true =>
    simp only [Bool.not_true, List.any_eq_false]
    intro o ho
    have := hd o ho li
    rw [hD] at this
    cases hc : cellLookup (C o) li <;> simp_all
  | false =>
    simp only [Bool.not_false, List.any_eq_true]
    cases outs with
    | nil => exact absurd rfl hne
    | cons o os =>
      refine ⟨o, List.mem_cons_self, ?_⟩
      have := hd o List.mem_cons_self li
      rw [hD] at this
      cases hc : cellLookup (C o) li <;> simp_all

/-- the store of one function after a run that computed `todo` with arguments `A` -/
def stepC (f : MFunc) (A : Nat → List (String × Val)) (todo : List Nat) (C : String → List (Nat × Val)) : String → List (Nat × Val) :=
  fun o => cellsPart f todo A o ++ C o

theorem lookup_stepC (f : MFunc) (A : Nat → List (String × Val)) (todo : List Nat) (C : String → List (Nat × Val)) (o : String) (li : Nat) :
    cellLookup (stepC f A todo C o) li = if li ∈ todo then some (outVal f (A li) o) else cellLookup (C o) li := by
  unfold stepC
  rw [cellLookup_append, cellLookup_cellsPart]
  split <;> simp_all

theorem dom_stepC (f : MFunc) (A : Nat → List (String × Val)) (todo : List Nat) (C : String → List (Nat × Val)) (D : Nat → Bool)
    (hd : Dom f.outputs C D) : Dom f.outputs (stepC f A todo C) (fun li => decide (li ∈ todo) || D li) := by
  intro o ho li
  rw [lookup_stepC]
  by_cases h : li ∈ todo
  · simp [h]
  · simp [h, hd o ho li]

/-- a sequence of runs of one function, each with its own selection, on the store the previous one left; returns the final
    cells and, per run, the indices it computed -/
def runParts (f : MFunc) (n : Nat) (A : Nat → List (String × Val)) :
    List (Nat → Bool) → (String → List (Nat × Val)) → (String → List (Nat × Val)) × List (List Nat)
  | [], C => (C, [])
  | sel :: rest, C =>
    let t := todoOf f.outputs n sel C
    let r := runParts f n A rest (stepC f A t C)
    (r.1, t :: r.2)

/-- the elements a sequence of selections computes: selected by some part, inside the index space, not stored before -/
def Ufn (n : Nat) (sels : List (Nat → Bool)) (D : Nat → Bool) (li : Nat) : Bool :=
  decide (li < n) && sels.any (fun s => s li) && !D li

theorem ite_bool_merge {α} (a b c d : Bool) (X Y : α) (p : Prop) [Decidable p] (hp : decide p = (a && b && !d)) :
    (if (a && c && !(decide p || d)) = true then X else (if p then X else Y)) = if (a && (b || c) && !d) = true then X else Y := by
  by_cases h : p
  · have : (a && b && !d) = true := by rw [← hp]; simp [h]
    cases a <;> cases b <;> cases c <;> cases d <;> simp_all
  · have : (a && b && !d) = false := by rw [← hp]; simp [h]
    cases a <;> cases b <;> cases c <;> cases d <;> simp_all

/-- **the cell-level theorem of running in pieces**, for any list of selections (any order, overlapping or not) -/
theorem runParts_spec (f : MFunc) (n : Nat) (A : Nat → List (String × Val)) (hne : f.outputs ≠ []) :
    ∀ (sels : List (Nat → Bool)) (C : String → List (Nat × Val)) (D : Nat → Bool), Dom f.outputs C D →
      (∀ o ∈ f.outputs, ∀ li, cellLookup ((runParts f n A sels C).1 o) li =
          if Ufn n sels D li = true then some (outVal f (A li) o) else cellLookup (C o) li) ∧
      Dom f.outputs (runParts f n A sels C).1 (fun li => Ufn n sels D li || D li) ∧
      (runParts f n A sels C).2.flatten.Nodup ∧ (∀ li, li ∈ (runParts f n A sels C).2.flatten ↔ Ufn n sels D li = true) ∧
      (runParts f n A sels C).2.length = sels.length := by
  intro sels
  induction sels with
  | nil =>
    intro C D hd
    refine ⟨fun o _ li => by simp [runParts, Ufn], ?_, by simp [runParts], by simp [runParts, Ufn], rfl⟩
    intro o ho li; simp [runParts, Ufn, hd o ho li]
  | cons sel rest ih =>
    intro C D hd
    have hmiss := missingIn_of_dom f.outputs C D hne hd
    have hd' := dom_stepC f A (todoOf f.outputs n sel C) C D hd
    have hdec : ∀ li, decide (li ∈ todoOf f.outputs n sel C) = (decide (li < n) && sel li && !D li) := by
      intro li
      rw [Bool.eq_iff_iff]
      simp [mem_todoOf, hmiss, and_assoc]
    obtain ⟨h1, h2, h3, h4, h5⟩ := ih (stepC f A (todoOf f.outputs n sel C) C) _ hd'
    have hU : ∀ li, Ufn n (sel :: rest) D li =
        (Ufn n rest (fun li => decide (li ∈ todoOf f.outputs n sel C) || D li) li || decide (li ∈ todoOf f.outputs n sel C)) := by
      intro li
      simp only [Ufn, List.any_cons, hdec]
      cases decide (li < n) <;> cases sel li <;> cases (rest.any fun s => s li) <;> cases D li <;> rfl
    refine ⟨?_, ?_, ?_, ?_, by simp [runParts, h5]⟩
    · intro o ho li
      show cellLookup ((runParts f n A rest (stepC f A (todoOf f.outputs n sel C) C)).1 o) li = _
      rw [h1 o ho li, lookup_stepC]
      simp only [Ufn, List.any_cons]
      exact ite_bool_merge _ _ _ _ _ _ _ (hdec li)
    · intro o ho li
      show (cellLookup ((runParts f n A rest (stepC f A (todoOf f.outputs n sel C) C)).1 o) li).isSome = _
      rw [h2 o ho li]
      show (Ufn n rest (fun li => decide (li ∈ todoOf f.outputs n sel C) || D li) li ||
          (decide (li ∈ todoOf f.outputs n sel C) || D li)) = (Ufn n (sel :: rest) D li || D li)
      rw [hU li, Bool.or_assoc]
    · show (todoOf f.outputs n sel C :: (runParts f n A rest (stepC f A (todoOf f.outputs n sel C) C)).2).flatten.Nodup
      simp only [List.flatten_cons]
      rw [List.nodup_append]
      refine ⟨todoOf_nodup _ _ _ _, h3, ?_⟩
      intro a ha b hb hab
      subst hab
      have := (h4 a).mp hb
      simp [Ufn, ha] at this
    · intro li
      show li ∈ (todoOf f.outputs n sel C :: (runParts f n A rest (stepC f A (todoOf f.outputs n sel C) C)).2).flatten ↔ _
      simp only [List.flatten_cons, List.mem_append, h4 li, hU li, Bool.or_eq_true, decide_eq_true_eq]
      exact Or.comm

/-! ### the operational runner of one mapped function -/

theorem mapM_ok_of {α β} (g : α → M β) (A : α → β) : ∀ (l : List α), (∀ a ∈ l, g a = .ok (A a)) → l.mapM g = .ok (l.map A) := by
  intro l
  induction l with
  | nil => intro _; rfl
  | cons a as ih =>
    intro h
    rw [List.mapM_cons, h a List.mem_cons_self, ih (fun x hx => h x (List.mem_cons_of_mem _ hx))]
    rfl

theorem tlookup_zip_map {β} (A : Nat → β) : ∀ (todo : List Nat) (li : Nat), li ∈ todo →
    tlookup (List.zip todo (todo.map A)) li = some (A li) := by
  intro todo
  induction todo with
  | nil => intro li h; simp at h
  | cons t ts ih =>
    intro li h
    simp only [List.map_cons, List.zip_cons_cons, tlookup]
    by_cases e : t = li
    · subst e; simp
    · simp only [e, ↓reduceIte]
      rcases List.mem_cons.mp h with h | h
      · exact absurd h.symm e
      · exact ih li h

theorem mapM_ok_tlookup {β} (g : Nat → M β) (d : β) : ∀ (l : List Nat) (r : List β), l.mapM g = .ok r →
    ∀ a ∈ l, g a = .ok ((tlookup (List.zip l r) a).getD d) := by
  intro l
  induction l with
  | nil => intro r _ a h; simp at h
  | cons x xs ih =>
    intro r h a ha
    rw [List.mapM_cons] at h
    cases hx : g x with
    | error e => simp [hx, bind, Except.bind] at h
    | ok b =>
      cases hr : xs.mapM g with
      | error e => simp [hx, hr, bind, Except.bind] at h
      | ok bs =>
        simp [hx, hr, bind, Except.bind, pure, Except.pure] at h
        subst h
        simp only [List.zip_cons_cons, tlookup]
        by_cases e : x = a
        · subst e; simpa using hx
        · simp only [e, ↓reduceIte]
          rcases List.mem_cons.mp ha with h' | h'
          · exact absurd h'.symm e
          · exact ih bs hr a h'

/-- the result of `runMappedSel` when the arguments selected at the computed indices are `A` -/
def selResult (old : List (String × Slot)) (sel : Nat → Bool) (f : MFunc) (shape : List Nat) (mask : List Bool)
    (A : Nat → List (String × Val)) : FuncResult :=
  let todo := todoOf f.outputs (prod (extOf mask shape)) sel (oldCells old)
  { outputs := f.outputs.map fun o => (o, partArray shape mask sel (stepC f A todo (oldCells old) o)),
    slots := f.outputs.map fun o => (o, Slot.array shape mask (stepC f A todo (oldCells old) o)),
    calls := todo.map fun li => ({ name := f.name, args := A li } : Call) }

theorem runMappedSel_ok (fs : List MFunc) (old : List (String × Slot)) (sel : Nat → Bool) (env : Env) (f : MFunc) (ms : MSpec)
    (shape : List Nat) (mask : List Bool) (A : Nat → List (String × Val))
    (h : ∀ li ∈ todoOf f.outputs (prod (extOf mask shape)) sel (oldCells old),
      selectArgs fs env f ms (shapeToKey (extOf mask shape) li) = .ok (A li)) :
    runMappedSel fs old sel env f ms shape mask = .ok (selResult old sel f shape mask A) := by
  unfold runMappedSel selResult
  simp only []
  rw [mapM_ok_of _ A _ h]
  simp only [bind, Except.bind, pure, Except.pure, List.map_map]
  have hc : ∀ o, cellsPart f (todoOf f.outputs (prod (extOf mask shape)) sel (oldCells old))
      (fun li => (tlookup (List.zip (todoOf f.outputs (prod (extOf mask shape)) sel (oldCells old))
        (List.map A (todoOf f.outputs (prod (extOf mask shape)) sel (oldCells old)))) li).getD []) o =
      cellsPart f (todoOf f.outputs (prod (extOf mask shape)) sel (oldCells old)) A o := by
    intro o
    apply cellsPart_congr
    intro li hli
    rw [tlookup_zip_map A _ li hli]; rfl
  simp only [hc, stepC]
  rfl

theorem runMappedSel_inv (fs : List MFunc) (old : List (String × Slot)) (sel : Nat → Bool) (env : Env) (f : MFunc) (ms : MSpec)
    (shape : List Nat) (mask : List Bool) (r : FuncResult) (h : runMappedSel fs old sel env f ms shape mask = .ok r) :
    ∃ A, (∀ li ∈ todoOf f.outputs (prod (extOf mask shape)) sel (oldCells old),
        selectArgs fs env f ms (shapeToKey (extOf mask shape) li) = .ok (A li)) ∧ r = selResult old sel f shape mask A := by
  cases hm : (todoOf f.outputs (prod (extOf mask shape)) sel (oldCells old)).mapM
      (fun li => selectArgs fs env f ms (shapeToKey (extOf mask shape) li)) with
  | error e =>
    unfold runMappedSel at h
    simp only [] at h
    rw [hm] at h
    simp [bind, Except.bind] at h
  | ok argsAt =>
    have hA := mapM_ok_tlookup _ ([] : List (String × Val)) _ _ hm
    refine ⟨_, hA, ?_⟩
    have := runMappedSel_ok fs old sel env f ms shape mask _ hA
    rw [h] at this
    exact (Except.ok.inj this)

/-! ### with nothing fixed and an empty store a partial run is the run of `PF.Map` -/

theorem map_getD_range {β} (d : β) : ∀ (l : List β) (n : Nat), l.length = n → (List.range n).map (fun i => l.getD i d) = l := by
  intro l n hn
  apply List.ext_getElem
  · simp [hn]
  · intro i h1 h2
    simp [List.getD, List.getElem?_eq_getElem h2]

theorem todo_full (outs : List String) (n : Nat) (hne : outs ≠ []) :
    todoOf outs n (fun _ => true) (oldCells []) = List.range n := by
  unfold todoOf
  rw [List.filter_eq_self]
  intro li _
  cases outs with
  | nil => exact absurd rfl hne
  | cons o os => simp [missingIn, oldCells, alookup, cellLookup]

theorem runMappedSel_full (fs : List MFunc) (env : Env) (f : MFunc) (ms : MSpec) (shape : List Nat) (mask : List Bool)
    (hl : shape.length = mask.length) (hne : f.outputs ≠ []) :
    runMappedSel fs [] (fun _ => true) env f ms shape mask = runMappedWith opArray fs env f ms shape mask := by
  cases hm : (List.range (prod (extOf mask shape))).mapM (fun li => selectArgs fs env f ms (shapeToKey (extOf mask shape) li)) with
  | error e =>
    unfold runMappedSel runMappedWith
    simp only [todo_full _ _ hne]
    rw [hm]
    rfl
  | ok argsAt =>
    have hlen := mapM_ok_length _ _ _ hm
    simp only [List.length_range] at hlen
    have hA : ∀ li ∈ todoOf f.outputs (prod (extOf mask shape)) (fun _ => true) (oldCells []),
        selectArgs fs env f ms (shapeToKey (extOf mask shape) li) = .ok (argsAt.getD li []) := by
      intro li hli
      rw [todo_full _ _ hne, List.mem_range] at hli
      have := mapM_ok_get _ _ _ hm li (by simpa using hli) (by omega)
      simp only [List.getElem_range] at this
      rw [this]
      simp [List.getD, List.getElem?_eq_getElem (show li < argsAt.length by omega)]
    rw [runMappedSel_ok fs [] _ env f ms shape mask _ hA]
    unfold runMappedWith selResult
    simp only []
    rw [hm]
    simp only [bind, Except.bind, pure, Except.pure, todo_full _ _ hne]
    have hcells : ∀ o, stepC f (fun li => argsAt.getD li []) (List.range (prod (extOf mask shape))) (oldCells []) o =
        cellsOf f (prod (extOf mask shape)) (fun li => argsAt.getD li []) o := by
      intro o; simp [stepC, oldCells, alookup, cellsPart, cellsOf]
    congr 2
    · apply List.map_congr_left
      intro o _
      rw [hcells, opArray_eq_denote _ _ _ _ _ hl]
      unfold partArray denoteArray
      simp only []
      congr 2
      apply List.map_congr_left
      intro F hF
      have hin : InRange shape F := (mem_allIdx shape F).mp hF
      have hE : InRange (extOf mask shape) (extOf mask F) := inRange_ext mask shape F hin hl
      have hlt := ravel_lt _ _ hE
      rw [cellLookup_cellsOf]
      simp [hlt]
    · apply List.map_congr_left
      intro o _
      rw [hcells]
    · have := map_getD_range ([] : List (String × Val)) argsAt _ hlen
      conv => rhs; rw [← this]
      simp [List.map_map]

theorem loadSingles_nil (o : String) (r : List String) : loadSingles [] (o :: r) = none := by
  simp [loadSingles, alookup]

theorem runSinglePart_nil (fs : List MFunc) (env : Env) (f : MFunc) : runSinglePart fs [] env f = runSingle fs env f := by
  unfold runSinglePart
  cases h : f.outputs with
  | nil => simp
  | cons o r => simp [loadSingles_nil]

theorem runFuncPart_full (fs : List MFunc) (shapes : List (String × List Nat)) (masks : List (String × List Bool)) (env : Env)
    (f : MFunc) : runFuncPart fs shapes masks none [] env f = runFuncWith opArray fs shapes masks env f := by
  unfold runFuncPart runFuncWith
  cases hms : f.mapspec with
  | none => exact runSinglePart_nil fs env f
  | some ms =>
    simp only []
    by_cases hi : ms.inputs.isEmpty = true
    · simp only [hi, ↓reduceIte]; exact runSinglePart_nil fs env f
    · simp only [hi, Bool.false_eq_true, ↓reduceIte]
      cases ho : f.outputs.head? with
      | none => rfl
      | some o =>
        simp only []
        cases hs : alookup shapes o with
        | none => rfl
        | some sh =>
          cases hk : alookup masks o with
          | none => rfl
          | some mk =>
            simp only []
            by_cases hl : sh.length = mk.length
            · have hne : f.outputs ≠ [] := by intro e; simp [e] at ho
              simp only [hl, ne_eq, not_true_eq_false, ↓reduceIte]
              unfold runMappedPart
              simp only [fixedMask, bind, Except.bind, pure, Except.pure]
              exact runMappedSel_full fs env f ms sh mk hl hne
            · simp [hl]

end PF.Pieces
