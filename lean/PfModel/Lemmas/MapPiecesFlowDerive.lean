import PfModel.Lemmas.MapPiecesFlowWF
/-!
C06, round 3 (item 2) — `flowWF` DERIVED.  For a pipeline that is acyclic, constructible (distinct output names, consistent
axes, MapSpec outputs = the function's outputs with every axis named: what pipefunc's constructors and
`validate_consistent_axes` enforce; C01's `constructible`) and whose functions are typed against the declared shape table
(C01's `funcTyped`, clause 8 of `Conforms`), a `fixed_indices` dictionary none of whose axes is reduced satisfies the static
well-formedness `flowWF` on the shapes and masks of the declared table (= what `map_shapes` returns, `mapShapes_ok`).
-/
namespace PF.Pieces
open PF PF.Map PF.C01

theorem all_some_eq : ∀ l : List (Option String), l.all Option.isSome = true → l = (l.filterMap id).map some
  | [], _ => rfl
  | none :: _, h => by simp at h
  | some x :: l, h => by
    simp only [List.all_cons, Option.isSome_some, Bool.true_and] at h
    simp only [List.filterMap_cons, id, List.map_cons]
    rw [← all_some_eq l h]

theorem extOf_nil_right {α} (m : List Bool) : extOf m ([] : List α) = [] := by
  cases m with
  | nil => rfl
  | cons b m => cases b <;> rfl

theorem not_fixed_of_reduced (fs : List MFunc) (fx : List (String × Sel))
    (hred : ∀ kv ∈ fx, kv.1 ∉ reducedAxes fs (mapspecAxes fs)) (x : String) (hx : x ∈ reducedAxes fs (mapspecAxes fs)) :
    isFixed fx x = false := by
  cases h : isFixed fx x with
  | false => rfl
  | true =>
    obtain ⟨kv, hkv, e⟩ := isFixed_mem fx x h
    exact absurd (e ▸ hx) (hred kv hkv)

/-- what `constructible` says about one function -/
theorem constructible_func (Γ : Tbl) (fs : List MFunc) (h : constructible Γ fs = true) :
    nodupB (allOutputs fs) = true ∧ consistentAxes fs = true ∧
    ∀ f ∈ fs, f.outputs.isEmpty = false ∧ ∀ ms, f.mapspec = some ms →
      ms.outputs.map (·.name) = f.outputs ∧
      (∀ o ∈ ms.outputs, o.axes.all Option.isSome = true ∧ o.axes = (ms.outputs.headD default).axes) := by
  unfold constructible at h
  simp only [Bool.and_eq_true, List.all_eq_true] at h
  obtain ⟨⟨h1, h2⟩, h3⟩ := h
  refine ⟨h1, h2, ?_⟩
  intro f hf
  have := h3 f hf
  simp only [Bool.and_eq_true, Bool.not_eq_eq_eq_not, Bool.not_true] at this
  refine ⟨this.1, ?_⟩
  intro ms hms
  have h4 := this.2
  rw [hms] at h4
  simp only [Bool.and_eq_true, beq_iff_eq, List.all_eq_true] at h4
  exact ⟨h4.1.1.1, fun o ho => ⟨List.all_eq_true.mpr (h4.1.1.2 o ho).1, (h4.1.1.2 o ho).2⟩⟩

/-- the output spec of `p` in its producer's MapSpec names every axis: its axes are the output indices -/
theorem out_spec (Γ : Tbl) (fs : List MFunc) (hcon : constructible Γ fs = true) (f : MFunc) (hf : f ∈ fs) (ms : MSpec)
    (hms : f.mapspec = some ms) (p : String) (hp : p ∈ f.outputs) :
    ∃ op ∈ ms.outputs, op.name = p ∧ op.axes = ms.outputIndices.map some := by
  obtain ⟨_, _, h3⟩ := constructible_func Γ fs hcon
  obtain ⟨_, h4⟩ := h3 f hf
  obtain ⟨hn, ha⟩ := h4 ms hms
  rw [← hn] at hp
  obtain ⟨op, hop, hopn⟩ := List.mem_map.mp hp
  refine ⟨op, hop, hopn, ?_⟩
  obtain ⟨hall, heq⟩ := ha op hop
  have hoi : ms.outputIndices = op.axes.filterMap id := by
    unfold MSpec.outputIndices
    cases hout : ms.outputs with
    | nil => rw [hout] at hop; cases hop
    | cons o r =>
      simp only []
      rw [heq, hout]
      rfl
  rw [hoi]
  exact all_some_eq op.axes hall

theorem producer_mem' (fs : List MFunc) (p : String) (f : MFunc) (h : producer fs p = some f) : f ∈ fs ∧ p ∈ f.outputs := by
  unfold producer at h
  refine ⟨List.mem_of_find?_eq_some h, ?_⟩
  have := List.find?_some h
  simpa using this

section derive
variable (fs : List MFunc) (inputs : List (String × Val)) (ui : List (String × List Nat)) (fx : List (String × Sel))
variable (hac : acyclic fs = true) (hcon : constructible (declTbl fs inputs ui) fs = true)
variable (hred : ∀ kv ∈ fx, kv.1 ∉ reducedAxes fs (mapspecAxes fs))
include hac hcon hred

/-- a consumer that takes a stored array whole: no axis of the array is fixed -/
theorem wholeOK_of_valid (g : MFunc) (hg : g ∈ fs) (p : String) (hp : g.params.any (·.1 = p) = true)
    (hw : g.mapspec = none ∨ ∃ ms, g.mapspec = some ms ∧ ms.inputSpec p = none) :
    wholeOK fs (masksOf (declTbl fs inputs ui)) fx p = true := by
  unfold wholeOK axesOf
  cases hpr : producer fs p with
  | none => simp [extOf_nil_right]
  | some f =>
    obtain ⟨hf, hpf⟩ := producer_mem' fs p f hpr
    simp only []
    cases hms : f.mapspec with
    | none => simp [extOf_nil_right]
    | some ms' =>
      simp only []
      rw [List.all_eq_true]
      intro x hx
      have hx' := mem_extOf _ _ x hx
      obtain ⟨_, hca, _⟩ := constructible_func _ fs hcon
      obtain ⟨op, hop, hopn, hopa⟩ := out_spec _ fs hcon f hf ms' hms p hpf
      obtain ⟨i, hi⟩ := List.mem_iff_getElem?.mp hx'
      have hopi : op.axes[i]? = some (some x) := by rw [hopa, List.getElem?_map, hi]; rfl
      have hax := mapspecAxes_getElem fs hac hca f hf ms' hms op hop i x hopi
      rw [hopn] at hax
      have hmn : p ∈ mapspecNames fs := by
        unfold mapspecNames
        refine List.mem_flatMap.mpr ⟨f, hf, ?_⟩
        rw [hms]
        exact List.mem_append_right _ (List.mem_map.mpr ⟨op, hop, hopn⟩)
      have := not_fixed_of_reduced fs fx hred x (mem_reducedAxes fs _ p hmn g hg x (reduced_whole g p _ hp hw i x hax))
      simp [this]

/-- a consumer that reads a stored array through its MapSpec: `posOK` holds position by position -/
theorem posOK_of_valid (g : MFunc) (hg : g ∈ fs) (hty : funcTyped (declTbl fs inputs ui) g = true) (p : String)
    (hp : g.params.any (·.1 = p) = true) (ms : MSpec) (hms : g.mapspec = some ms) (hne : ms.inputs.isEmpty = false)
    (a : ASpec) (ha : ms.inputSpec p = some a) (o : String) (ho : g.outputs.head? = some o)
    (f : MFunc) (hpr : producer fs p = some f) :
    posOK fx ms.externalIndices
      (extOf (maskOfName (masksOf (declTbl fs inputs ui)) o) (shapeOfName (shapesOf (declTbl fs inputs ui)) o))
      (maskOfName (masksOf (declTbl fs inputs ui)) p) (axesOf fs p) a.axes (shapeOfName (shapesOf (declTbl fs inputs ui)) p) = true := by
  obtain ⟨hnd, hca, _⟩ := constructible_func _ fs hcon
  obtain ⟨hf, hpf⟩ := producer_mem' fs p f hpr
  have haIn : a ∈ ms.inputs := List.mem_of_find?_eq_some ha
  have haN : a.name = p := by have := List.find?_some ha; simpa using this
  -- the typing of the consumer
  unfold funcTyped runsMapped at hty
  rw [hms] at hty
  simp only [hne, Bool.false_eq_true, ↓reduceIte] at hty
  unfold mappedTyped at hty
  rw [ho] at hty
  simp only [] at hty
  cases hΓo : alookup (declTbl fs inputs ui) o with
  | none => rw [hΓo] at hty; cases hty
  | some e =>
    rw [hΓo] at hty
    simp only [Bool.and_eq_true, List.all_eq_true] at hty
    have hta := hty.1.2 a haIn
    rw [haN] at hta
    cases hΓp : alookup (declTbl fs inputs ui) p with
    | none => rw [hΓp] at hta; simp at hta
    | some ea =>
      rw [hΓp] at hta
      simp only [] at hta
      have hax := hta.2
      obtain ⟨hlen, hpt⟩ := axesOK_elim ms (extOf e.2 e.1) a.axes ea.1 hax
      -- the producer's entry
      obtain ⟨t', ht'⟩ := declTbl_lookup fs inputs ui hac hnd f hf
      have hΓp' := ht' p hpf
      rw [hΓp] at hΓp'
      cases hmsf : f.mapspec with
      | none => rw [hmsf] at hΓp'; cases hΓp'
      | some ms' =>
        rw [hmsf] at hΓp'
        simp only [Option.map_some, Option.some.injEq] at hΓp'
        obtain ⟨hmask, hshl⟩ := goTot_mask ms' (shapesOf t') ((ishOf ms' (constructInternal fs ui)).getD []) ms'.outputIndices 0
        have hea2 : ea.2.length = ms'.outputIndices.length := by
          rw [hΓp']; unfold funcShape; rw [hmask]; simp
        have hea1 : ea.1.length = ms'.outputIndices.length := by
          rw [hΓp']; unfold funcShape; exact hshl
        obtain ⟨op, hop, hopn, hopa⟩ := out_spec _ fs hcon f hf ms' hmsf p hpf
        have hmn : p ∈ mapspecNames fs := by
          unfold mapspecNames
          refine List.mem_flatMap.mpr ⟨f, hf, ?_⟩
          rw [hmsf]
          exact List.mem_append_right _ (List.mem_map.mpr ⟨op, hop, hopn⟩)
        have e1 : maskOfName (masksOf (declTbl fs inputs ui)) o = e.2 := by
          unfold maskOfName; rw [alookup_masksOf, hΓo]; rfl
        have e2 : shapeOfName (shapesOf (declTbl fs inputs ui)) o = e.1 := by
          unfold shapeOfName; rw [alookup_shapesOf, hΓo]; rfl
        have e3 : maskOfName (masksOf (declTbl fs inputs ui)) p = ea.2 := by
          unfold maskOfName; rw [alookup_masksOf, hΓp]; rfl
        have e4 : shapeOfName (shapesOf (declTbl fs inputs ui)) p = ea.1 := by
          unfold shapeOfName; rw [alookup_shapesOf, hΓp]; rfl
        have e5 : axesOf fs p = ms'.outputIndices := by
          unfold axesOf; rw [hpr]; simp only []; rw [hmsf]
        rw [e1, e2, e3, e4, e5]
        apply posOK_intro fx ms.externalIndices (extOf e.2 e.1) ea.2 ms'.outputIndices a.axes ea.1 hea2 (by omega) hlen
        · intro i x hx hn
          have hopi : op.axes[i]? = some (some x) := by rw [hopa, List.getElem?_map, hx]; rfl
          have hmx := mapspecAxes_getElem fs hac hca f hf ms' hmsf op hop i x hopi
          rw [hopn] at hmx
          exact not_fixed_of_reduced fs fx hred x
            (mem_reducedAxes fs _ p hmn g hg x (reduced_partial g p _ hp ms hms a ha i x hmx hn))
        · intro i x n d hx hn hd
          refine ⟨hpt i n d hn hd, ?_⟩
          have hopi : op.axes[i]? = some (some x) := by rw [hopa, List.getElem?_map, hx]; rfl
          have haA : a ∈ allSpecs fs := by
            unfold allSpecs
            refine List.mem_flatMap.mpr ⟨g, hg, ?_⟩
            rw [hms]
            exact List.mem_append_left _ haIn
          have hoA : op ∈ allSpecs fs := by
            unfold allSpecs
            refine List.mem_flatMap.mpr ⟨f, hf, ?_⟩
            rw [hmsf]
            exact List.mem_append_right _ hop
          have hag := List.all_eq_true.mp (List.all_eq_true.mp hca a haA) op hoA
          simp only [Bool.or_eq_true, bne_iff_ne, ne_eq] at hag
          have hag := hag.resolve_left (fun h => h (haN.trans hopn.symm))
          exact (axesAgree_elim _ _ hag).2 i n x hn hopi

/-- **every function of a valid pipeline satisfies `funcOK`** -/
theorem funcOK_of_valid (hty : fs.all (funcTyped (declTbl fs inputs ui)) = true) (g : MFunc) (hg : g ∈ fs) :
    funcOK fs (shapesOf (declTbl fs inputs ui)) (masksOf (declTbl fs inputs ui)) inputs fx g = true := by
  obtain ⟨hnd, hca, hfun⟩ := constructible_func _ fs hcon
  have hpw : fs.Pairwise Disj := pairwise_disj_of_nodup fs (nodupB_nodup _ hnd)
  obtain ⟨t', ht'⟩ := declTbl_lookup fs inputs ui hac hnd g hg
  obtain ⟨hne, hspec⟩ := hfun g hg
  unfold funcOK
  simp only [Bool.and_eq_true]
  refine ⟨⟨?_, ?_⟩, ?_⟩
  · -- all outputs: same producer MapSpec, same shape, same mask
    rw [List.all_eq_true]
    intro o ho
    have hhead : g.outputs.headD "" ∈ g.outputs := by
      cases hout : g.outputs with
      | nil => rw [hout] at ho; cases ho
      | cons o0 r => simp
    simp only [Bool.and_eq_true, beq_iff_eq]
    refine ⟨⟨?_, ?_⟩, ?_⟩
    · rw [producer_of_disj fs hpw g hg o ho]; rfl
    · rw [alookup_shapesOf, alookup_shapesOf, ht' o ho, ht' _ hhead]
    · rw [alookup_masksOf, alookup_masksOf, ht' o ho, ht' _ hhead]
  · -- external indices = the output indices at the external positions of the mask
    cases hms : g.mapspec with
    | none => rfl
    | some ms =>
      simp only []
      cases ho : g.outputs.head? with
      | none => simp
      | some o =>
        have hoM : o ∈ g.outputs := List.mem_of_mem_head? (by rw [ho]; rfl)
        have hΓo := ht' o hoM
        rw [hms] at hΓo
        simp only [Option.map_some] at hΓo
        obtain ⟨hmask, _⟩ := goTot_mask ms (shapesOf t') ((ishOf ms (constructInternal fs ui)).getD []) ms.outputIndices 0
        have e1 : maskOfName (masksOf (declTbl fs inputs ui)) o = ms.outputIndices.map (fun ix => ms.inputIndices.contains ix) := by
          unfold maskOfName; rw [alookup_masksOf, hΓo]
          simp only [Option.map_some, Option.getD_some]
          unfold funcShape
          exact hmask
        simp only [e1, Bool.or_eq_true, Bool.and_eq_true, beq_iff_eq, List.length_map, and_true]
        right
        unfold MSpec.externalIndices
        rw [extOf_map_filter]
  · -- every parameter read from the store
    rw [List.all_eq_true]
    intro pq hpq
    cases hpr : producer fs pq.1 with
    | none => simp
    | some f =>
      have hp : g.params.any (·.1 = pq.1) = true := List.any_eq_true.mpr ⟨pq, hpq, by simp⟩
      have hpar : paramOK fs (shapesOf (declTbl fs inputs ui)) (masksOf (declTbl fs inputs ui)) fx g pq.1 = true := by
        unfold paramOK
        cases hms : g.mapspec with
        | none => exact wholeOK_of_valid fs inputs ui fx hac hcon hred g hg pq.1 hp (Or.inl hms)
        | some ms =>
          simp only []
          by_cases hemp : ms.inputs.isEmpty = true
          · rw [if_pos hemp]
            refine wholeOK_of_valid fs inputs ui fx hac hcon hred g hg pq.1 hp (Or.inr ⟨ms, hms, ?_⟩)
            unfold MSpec.inputSpec
            rw [List.isEmpty_iff.mp hemp]
            rfl
          · rw [if_neg hemp]
            cases ha : ms.inputSpec pq.1 with
            | none => exact wholeOK_of_valid fs inputs ui fx hac hcon hred g hg pq.1 hp (Or.inr ⟨ms, hms, ha⟩)
            | some a =>
              simp only []
              cases ho : g.outputs.head? with
              | none =>
                have : g.outputs = [] := List.head?_eq_none_iff.mp ho
                rw [this] at hne
                simp at hne
              | some o =>
                simp only []
                exact posOK_of_valid fs inputs ui fx hac hcon hred g hg (List.all_eq_true.mp hty g hg) pq.1 hp ms hms
                  (by simpa using hemp) a ha o ho f hpr
      simp [hpar]

/-- **`flowWF` derived** -/
theorem flowWF_of_valid (hty : fs.all (funcTyped (declTbl fs inputs ui)) = true) :
    flowWF fs (shapesOf (declTbl fs inputs ui)) (masksOf (declTbl fs inputs ui)) inputs fx = true := by
  unfold flowWF
  rw [List.all_eq_true]
  exact fun g hg => funcOK_of_valid fs inputs ui fx hac hcon hred hty g hg

end derive

/-- the clauses of `Conforms` the derivation uses, and what `map_shapes` returns for a conforming request -/
theorem conforms_parts (fs : List MFunc) (inputs : List (String × Val)) (ui : List (String × List Nat)) (h : Conforms fs inputs ui = true) :
    acyclic fs = true ∧ constructible (declTbl fs inputs ui) fs = true ∧ fs.all (funcTyped (declTbl fs inputs ui)) = true ∧
    mapShapes fs inputs (constructInternal fs ui) = .ok (shapesOf (declTbl fs inputs ui), masksOf (declTbl fs inputs ui)) := by
  unfold Conforms at h
  simp only [Bool.and_eq_true] at h
  obtain ⟨⟨⟨⟨⟨⟨⟨⟨⟨_, _⟩, hac⟩, _⟩, hra⟩, hsh⟩, _⟩, _⟩, hty⟩, hcon⟩ := h
  exact ⟨hac, hcon, hty, mapShapes_ok fs inputs (constructInternal fs ui) hra hsh⟩

/-- the shapes and masks a successful partial run reports are the ones `map_shapes` computed -/
theorem runPart_shapes (fs : List MFunc) (inputs : List (String × Val)) (ui : List (String × List Nat))
    (fixed : Option (List (String × Sel))) (old : List (String × Slot)) (r : PartResult) (h : runPart fs inputs ui fixed old = .ok r) :
    mapShapes fs inputs (constructInternal fs ui) = .ok (r.res.shapes, r.res.masks) := by
  unfold runPart at h
  cases hv : validateInputs fs inputs with
  | error e => rw [hv] at h; cases h
  | ok u =>
    rw [hv] at h
    simp only [bind, Except.bind, pure, Except.pure] at h
    split at h
    · cases h
    · cases hf : validateFixed fs inputs fixed with
      | error e => rw [hf] at h; cases h
      | ok u' =>
        rw [hf] at h
        simp only [] at h
        cases hm : mapShapes fs inputs (constructInternal fs ui) with
        | error e => rw [hm] at h; cases h
        | ok sm =>
          obtain ⟨shapes, masks⟩ := sm
          rw [hm] at h
          simp only [] at h
          cases hg : runGensWith (runFuncPart fs shapes masks fixed old) (generations fs) { inputs := inputs, store := [] } with
          | error e => rw [hg] at h; cases h
          | ok re =>
            rw [hg] at h
            simp only [Except.ok.injEq] at h
            subst h
            rfl

end PF.Pieces
