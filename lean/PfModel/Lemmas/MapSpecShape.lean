/-
Lemmas for the shape clause of C08: `MapSpec.shape` against a declarative description of the implied output shape.
-/
import PfModel.Lemmas.MapSpecKeys
namespace PF.MS

/-- the dictionaries handed to `shape` fit the spec: no foreign input, every input present with the rank of its
    spec, internal shapes only for output arrays -/
structure ShapesFit (m : MapSpec) (ins internal : ShapeDict) : Prop where
  no_extra : ∀ n ∈ keys ins, n ∈ inputNames m
  ranks : ∀ x ∈ m.inputs, ∃ s, lookup x.name ins = some s ∧ s.length = x.axes.length
  internal_names : ∀ n ∈ keys internal, n ∈ outputNames m

theorem lookup_some_mem_keys {β} (k : String) (v : β) : ∀ (d : List (String × β)), lookup k d = some v → k ∈ keys d
  | [], h => by simp [lookup] at h
  | (k', v') :: r, h => by
      simp only [lookup] at h
      simp only [keys, List.map_cons, List.mem_cons]
      split at h
      · next e => exact Or.inl e.symm
      · exact Or.inr (lookup_some_mem_keys k v r h)

theorem validateShapes_iff (m : MapSpec) (ins internal : ShapeDict) :
    validateShapes m ins internal = true ↔ ShapesFit m ins internal := by
  unfold validateShapes
  simp only [Bool.and_eq_true, List.all_eq_true, List.contains_iff_mem]
  constructor
  · rintro ⟨⟨⟨h1, _⟩, h3⟩, h4⟩
    refine ⟨h1, ?_, h4⟩
    intro x hx
    have := h3 x hx
    split at this
    · next s hs => exact ⟨s, hs, by simpa using this⟩
    · cases this
  · intro h
    refine ⟨⟨⟨h.no_extra, ?_⟩, ?_⟩, h.internal_names⟩
    · intro n hn
      obtain ⟨x, hx, rfl⟩ := List.mem_map.mp hn
      obtain ⟨s, hs, _⟩ := h.ranks x hx
      exact lookup_some_mem_keys _ _ _ hs
    · intro x hx
      obtain ⟨s, hs, hl⟩ := h.ranks x hx
      rw [hs]; simpa using hl

/-- Walking along the axes of the first output: an axis that occurs in some input takes the dimension all those inputs
    have along it (mask `true`); an axis that occurs in no input takes the next unused internal size (mask `false`). -/
def AxesSpec (m : MapSpec) (ins : ShapeDict) : List Nat → List (Option String) → List Nat → List Bool → Prop
  | _, [], [], [] => True
  | isz, some ax :: r, d :: sh, b :: mk =>
      (relevant m ax ≠ [] ∧ b = true ∧ (∀ x ∈ relevant m ax, getDim ins x ax = some d) ∧ AxesSpec m ins isz r sh mk) ∨
      (relevant m ax = [] ∧ b = false ∧ isz.head? = some d ∧ AxesSpec m ins isz.tail r sh mk)
  | _, _, _, _ => False

theorem commonDim_ok_iff (ins : ShapeDict) (ax : String) (x : ArraySpec) (xs : List ArraySpec) (d : Nat) :
    commonDim ins ax (x :: xs) = .ok d ↔ ∀ y ∈ x :: xs, getDim ins y ax = some d := by
  simp only [commonDim]
  cases hx : getDim ins x ax with
  | none =>
    simp only []
    constructor
    · intro h; cases h
    · intro h; have := h x List.mem_cons_self; rw [hx] at this; cases this
  | some d' =>
    simp only []
    by_cases hall : (xs.all fun y => getDim ins y ax == some d') = true
    · simp only [hall, ↓reduceIte]
      constructor
      · intro h; injection h with h; subst h
        intro y hy
        rcases List.mem_cons.mp hy with e | e
        · subst e; exact hx
        · simpa using (List.all_eq_true.mp hall) y e
      · intro h
        have := h x List.mem_cons_self
        rw [hx] at this; injection this with this; rw [this]
    · simp only [Bool.eq_false_iff.mpr hall, Bool.false_eq_true, ↓reduceIte]
      constructor
      · intro h; cases h
      · intro h
        exfalso; apply hall
        have hd := h x List.mem_cons_self
        rw [hx] at hd; injection hd with hd; subst hd
        apply List.all_eq_true.mpr
        intro y hy
        simpa using h y (List.mem_cons_of_mem _ hy)

theorem commonDim_err (ins : ShapeDict) (ax : String) (l : List ArraySpec) (e : Err)
    (hsome : ∀ y ∈ l, (getDim ins y ax).isSome) (hne : l ≠ []) (h : commonDim ins ax l = .error e) : e = .valueError := by
  cases l with
  | nil => exact absurd rfl hne
  | cons x xs =>
    simp only [commonDim] at h
    have hx := hsome x List.mem_cons_self
    cases hd : getDim ins x ax with
    | none => rw [hd] at hx; cases hx
    | some d =>
      rw [hd] at h
      simp only [] at h
      split at h
      · cases h
      · injection h with h; exact h.symm

theorem outputDim_ok_iff (isz : Option (List Nat)) (k d : Nat) :
    outputDim isz k = .ok d ↔ ((isz.getD []).drop k).head? = some d := by
  unfold outputDim
  cases isz with
  | none => simp
  | some l =>
    simp only [Option.getD_some, List.head?_drop]
    cases h : l[k]? with
    | none => simp
    | some v =>
      simp only []
      constructor
      · intro h'; injection h' with h'; rw [h']
      · intro h'; injection h' with h'; rw [h']

theorem outputDim_err (isz : Option (List Nat)) (k : Nat) (e : Err) (h : outputDim isz k = .error e) : e = .valueError := by
  unfold outputDim at h
  split at h
  · injection h with h; exact h.symm
  · split at h
    · injection h with h; exact h.symm
    · cases h

theorem shapeLoop_ok_iff (m : MapSpec) (ins : ShapeDict) (isz : Option (List Nat)) :
    ∀ (oax : List (Option String)) (k : Nat) (sh : List Nat) (mk : List Bool),
      shapeLoop m ins isz k oax = .ok (sh, mk) ↔ AxesSpec m ins ((isz.getD []).drop k) oax sh mk
  | [], k, sh, mk => by
      simp only [shapeLoop]
      constructor
      · intro h; injection h with h; injection h with h1 h2; subst h1; subst h2; trivial
      · intro h
        cases sh <;> cases mk <;> simp_all [AxesSpec]
  | none :: r, k, sh, mk => by
      simp only [shapeLoop]
      constructor
      · intro h; cases h
      · intro h; cases sh <;> cases mk <;> simp [AxesSpec] at h
  | some ax :: r, k, sh, mk => by
      simp only [shapeLoop]
      cases hrel : relevant m ax with
      | nil =>
        simp only []
        cases hod : outputDim isz k with
        | error e =>
          simp only []
          constructor
          · intro h; cases h
          · intro h
            cases sh with
            | nil => cases mk <;> simp [AxesSpec] at h
            | cons d sh =>
              cases mk with
              | nil => simp [AxesSpec] at h
              | cons b mk =>
                simp only [AxesSpec, hrel, ne_eq, not_true_eq_false, false_and, false_or, true_and] at h
                have := (outputDim_ok_iff isz k d).mpr h.2.1
                rw [hod] at this; cases this
        | ok d =>
          simp only []
          have hd := (outputDim_ok_iff isz k d).mp hod
          cases hrec : shapeLoop m ins isz (k + 1) r with
          | error e =>
            simp only []
            constructor
            · intro h; cases h
            · intro h
              cases sh with
              | nil => cases mk <;> simp [AxesSpec] at h
              | cons d' sh =>
                cases mk with
                | nil => simp [AxesSpec] at h
                | cons b mk =>
                  simp only [AxesSpec, hrel, ne_eq, not_true_eq_false, false_and, false_or, true_and] at h
                  have h3 := h.2.2
                  rw [List.tail_drop] at h3
                  have := (shapeLoop_ok_iff m ins isz r (k + 1) sh mk).mpr h3
                  rw [hrec] at this; cases this
          | ok p =>
            obtain ⟨sh', mk'⟩ := p
            simp only []
            have hrec' := (shapeLoop_ok_iff m ins isz r (k + 1) sh' mk').mp hrec
            constructor
            · intro h; injection h with h; injection h with h1 h2; subst h1; subst h2
              simp only [AxesSpec, hrel, ne_eq, not_true_eq_false, false_and, false_or, true_and]
              refine ⟨hd, ?_⟩
              rw [List.tail_drop]; exact hrec'
            · intro h
              cases sh with
              | nil => cases mk <;> simp [AxesSpec] at h
              | cons d' sh =>
                cases mk with
                | nil => simp [AxesSpec] at h
                | cons b mk =>
                  simp only [AxesSpec, hrel, ne_eq, not_true_eq_false, false_and, false_or, true_and] at h
                  obtain ⟨hb, hh, h3⟩ := h
                  rw [List.tail_drop] at h3
                  have := (shapeLoop_ok_iff m ins isz r (k + 1) sh mk).mpr h3
                  rw [hrec] at this; injection this with this; injection this with e1 e2
                  rw [hd] at hh; injection hh with hh
                  subst e1; subst e2; subst hb; subst hh; rfl
      | cons x xs =>
        simp only []
        cases hcd : commonDim ins ax (x :: xs) with
        | error e =>
          simp only []
          constructor
          · intro h; cases h
          · intro h
            cases sh with
            | nil => cases mk <;> simp [AxesSpec] at h
            | cons d sh =>
              cases mk with
              | nil => simp [AxesSpec] at h
              | cons b mk =>
                simp only [AxesSpec, hrel, ne_eq, reduceCtorEq, not_false_eq_true, true_and, false_and, or_false] at h
                have := (commonDim_ok_iff ins ax x xs d).mpr h.2.1
                rw [hcd] at this; cases this
        | ok d =>
          simp only []
          have hd := (commonDim_ok_iff ins ax x xs d).mp hcd
          cases hrec : shapeLoop m ins isz k r with
          | error e =>
            simp only []
            constructor
            · intro h; cases h
            · intro h
              cases sh with
              | nil => cases mk <;> simp [AxesSpec] at h
              | cons d' sh =>
                cases mk with
                | nil => simp [AxesSpec] at h
                | cons b mk =>
                  simp only [AxesSpec, hrel, ne_eq, reduceCtorEq, not_false_eq_true, true_and, false_and, or_false] at h
                  have := (shapeLoop_ok_iff m ins isz r k sh mk).mpr h.2.2
                  rw [hrec] at this; cases this
          | ok p =>
            obtain ⟨sh', mk'⟩ := p
            simp only []
            have hrec' := (shapeLoop_ok_iff m ins isz r k sh' mk').mp hrec
            constructor
            · intro h; injection h with h; injection h with h1 h2; subst h1; subst h2
              simp only [AxesSpec, hrel, ne_eq, reduceCtorEq, not_false_eq_true, true_and, false_and, or_false]
              exact ⟨hd, hrec'⟩
            · intro h
              cases sh with
              | nil => cases mk <;> simp [AxesSpec] at h
              | cons d' sh =>
                cases mk with
                | nil => simp [AxesSpec] at h
                | cons b mk =>
                  simp only [AxesSpec, hrel, ne_eq, reduceCtorEq, not_false_eq_true, true_and, false_and, or_false] at h
                  obtain ⟨hb, hh, h3⟩ := h
                  have := (shapeLoop_ok_iff m ins isz r k sh mk).mpr h3
                  rw [hrec] at this; injection this with this; injection this with e1 e2
                  have hx := hh x List.mem_cons_self
                  rw [hd x List.mem_cons_self] at hx; injection hx with hx
                  subst e1; subst e2; subst hb; subst hx; rfl

/-! ### the only exception is `ValueError` -/

theorem axisPos_some (ax : String) : ∀ (axes : List (Option String)), some ax ∈ axes →
    ∃ p, axisPos ax axes = some p ∧ p < axes.length ∧ axes[p]? = some (some ax)
  | [], h => by simp at h
  | a :: r, h => by
      simp only [axisPos]
      by_cases e : a = some ax
      · exact ⟨0, by simp [e], by simp, by simp [e]⟩
      · have hr : some ax ∈ r := by
          rcases List.mem_cons.mp h with h' | h'
          · exact absurd h'.symm e
          · exact h'
        obtain ⟨p, hp, hl, hg⟩ := axisPos_some ax r hr
        exact ⟨p + 1, by simp [e, hp], by simp; omega, by simpa using hg⟩

theorem mem_relevant (m : MapSpec) (ax : String) (y : ArraySpec) :
    y ∈ relevant m ax ↔ y ∈ m.inputs ∧ some ax ∈ y.axes := by
  unfold relevant
  rw [List.mem_filter, List.contains_iff_mem, mem_indices]

theorem getDim_isSome (m : MapSpec) (ins internal : ShapeDict) (hf : ShapesFit m ins internal) (ax : String)
    (y : ArraySpec) (hy : y ∈ relevant m ax) : (getDim ins y ax).isSome := by
  obtain ⟨hin, hax⟩ := (mem_relevant m ax y).mp hy
  obtain ⟨s, hs, hl⟩ := hf.ranks y hin
  obtain ⟨p, hp, hlt, _⟩ := axisPos_some ax y.axes hax
  unfold getDim
  rw [hs, hp]
  simp only []
  rw [List.getElem?_eq_getElem (by omega)]
  rfl

theorem shapeLoop_err (m : MapSpec) (ins : ShapeDict) (isz : Option (List Nat))
    (hsome : ∀ ax, ∀ y ∈ relevant m ax, (getDim ins y ax).isSome) :
    ∀ (oax : List (Option String)) (k : Nat) (e : Err), (∀ a ∈ oax, a ≠ none) →
      shapeLoop m ins isz k oax = .error e → e = .valueError
  | [], k, e, _, h => by simp [shapeLoop] at h
  | none :: r, k, e, hn, _ => absurd rfl (hn none List.mem_cons_self)
  | some ax :: r, k, e, hn, h => by
      have hn' : ∀ a ∈ r, a ≠ none := fun a ha => hn a (List.mem_cons_of_mem _ ha)
      simp only [shapeLoop] at h
      split at h
      · split at h
        · next e' he => injection h with h; subst h; exact outputDim_err _ _ _ he
        · split at h
          · next e' he => injection h with h; subst h; exact shapeLoop_err m ins isz hsome r _ _ hn' he
          · cases h
      · next x xs hrel =>
        split at h
        · next e' he =>
          injection h with h; subst h
          exact commonDim_err ins ax (x :: xs) _ (fun y hy => hsome ax y (hrel ▸ hy)) (by simp) he
        · split at h
          · next e' he => injection h with h; subst h; exact shapeLoop_err m ins isz hsome r _ _ hn' he
          · cases h

/-! ### reading `AxesSpec` position by position -/

/-- the axis occurs in some input -/
def isExt (m : MapSpec) : Option String → Bool
  | none => false
  | some ax => !(relevant m ax).isEmpty

theorem axesSpec_mask (m : MapSpec) (ins : ShapeDict) : ∀ (oax : List (Option String)) (isz sh : List Nat) (mk : List Bool),
    AxesSpec m ins isz oax sh mk → mk = oax.map (isExt m) ∧ sh.length = oax.length
  | [], isz, sh, mk, h => by cases sh <;> cases mk <;> simp_all [AxesSpec]
  | none :: r, isz, sh, mk, h => by cases sh <;> cases mk <;> simp [AxesSpec] at h
  | some ax :: r, isz, sh, mk, h => by
      cases sh with
      | nil => cases mk <;> simp [AxesSpec] at h
      | cons d sh =>
        cases mk with
        | nil => simp [AxesSpec] at h
        | cons b mk =>
          simp only [AxesSpec] at h
          rcases h with ⟨hr, hb, _, h⟩ | ⟨hr, hb, _, h⟩
          · have ih := axesSpec_mask m ins r _ sh mk h
            subst hb
            simp only [List.map_cons, List.length_cons, isExt, ← ih.1, ih.2, and_true]
            cases hrel : relevant m ax with
            | nil => exact absurd hrel hr
            | cons _ _ => rfl
          · have ih := axesSpec_mask m ins r _ sh mk h
            subst hb
            simp only [List.map_cons, List.length_cons, isExt, ← ih.1, ih.2, and_true, hr]
            rfl

theorem axesSpec_external (m : MapSpec) (ins : ShapeDict) : ∀ (oax : List (Option String)) (isz sh : List Nat) (mk : List Bool),
    AxesSpec m ins isz oax sh mk → ∀ (q : Nat) (ax : String), oax[q]? = some (some ax) →
      ∀ x ∈ relevant m ax, getDim ins x ax = sh[q]?
  | [], isz, sh, mk, _, q, ax, hq => by simp at hq
  | none :: r, isz, sh, mk, h, _, _, _ => by cases sh <;> cases mk <;> simp [AxesSpec] at h
  | some a :: r, isz, sh, mk, h, q, ax, hq => by
      cases sh with
      | nil => cases mk <;> simp [AxesSpec] at h
      | cons d sh =>
        cases mk with
        | nil => simp [AxesSpec] at h
        | cons b mk =>
          simp only [AxesSpec] at h
          cases q with
          | zero =>
            simp only [List.getElem?_cons_zero, Option.some.injEq] at hq
            subst hq
            intro x hx
            rcases h with ⟨_, _, hd, _⟩ | ⟨hr, _, _, _⟩
            · simpa using hd x hx
            · rw [hr] at hx; cases hx
          | succ q =>
            simp only [List.getElem?_cons_succ] at hq ⊢
            rcases h with ⟨_, _, _, h⟩ | ⟨_, _, _, h⟩
            · exact axesSpec_external m ins r _ sh mk h q ax hq
            · exact axesSpec_external m ins r _ sh mk h q ax hq

theorem axesSpec_internal (m : MapSpec) (ins : ShapeDict) : ∀ (oax : List (Option String)) (isz sh : List Nat) (mk : List Bool),
    AxesSpec m ins isz oax sh mk → PF.intOf mk sh = isz.take (PF.nFalse mk) ∧ PF.nFalse mk ≤ isz.length
  | [], isz, sh, mk, h => by cases sh <;> cases mk <;> simp_all [AxesSpec, PF.intOf, PF.nFalse]
  | none :: r, isz, sh, mk, h => by cases sh <;> cases mk <;> simp [AxesSpec] at h
  | some ax :: r, isz, sh, mk, h => by
      cases sh with
      | nil => cases mk <;> simp [AxesSpec] at h
      | cons d sh =>
        cases mk with
        | nil => simp [AxesSpec] at h
        | cons b mk =>
          simp only [AxesSpec] at h
          rcases h with ⟨_, hb, _, h⟩ | ⟨_, hb, hh, h⟩
          · subst hb
            simpa [PF.intOf, PF.nFalse] using axesSpec_internal m ins r _ sh mk h
          · subst hb
            have ih := axesSpec_internal m ins r _ sh mk h
            cases isz with
            | nil => simp at hh
            | cons d' t =>
              simp only [List.head?_cons, Option.some.injEq] at hh
              subst hh
              simp only [List.tail_cons] at ih
              simp only [PF.intOf, PF.nFalse, List.take_succ_cons, ih.1, List.length_cons, true_and]
              omega

end PF.MS
