import PfModel.Lemmas.LazyRun
/-! Helper lemmas for `Props/C18.lean`, part 3: `largs`/`lrun` preserve the invariant and return objects that stand for `compose`. -/
namespace PF.Lazy
open PF PF.Pipe

variable {fs : List Func} {kw : List (String × Val)}

/-- what the recursive lazy evaluator must guarantee -/
def LRecSound (fs : List Func) (kw : List (String × Val)) (r : String → LSt → Except Err (LArg × LSt)) : Prop :=
  ∀ o s a s', Inv fs kw s → r o s = .ok (a, s') →
    Step s s' ∧ Inv fs kw s' ∧ (alookup kw o = none → ∃ v k, den s'.nodes a = some v ∧ compose fs kw k o = .ok v)

theorem resolve_upstream_kw {f : Func} {p : String} (h : resolve fs kw f p = .upstream) : alookup kw p = none := by
  unfold resolve at h
  split at h
  · cases h
  · split at h
    · cases h
    · next hk => exact hk

theorem largs_sound (r : String → LSt → Except Err (LArg × LSt)) (hr : LRecSound fs kw r) (f : Func) :
    ∀ ps s args s', Inv fs kw s → largs r fs kw f ps s = .ok (args, s') →
      Step s s' ∧ Inv fs kw s' ∧
      ∃ k vals, composeArgsWith (compose fs kw k) fs kw f ps = .ok vals ∧ denArgs (denAll s'.nodes) args = some vals := by
  intro ps
  induction ps with
  | nil =>
    intro s args s' hi h
    simp [largs] at h; obtain ⟨rfl, rfl⟩ := h
    exact ⟨Step.refl _, hi, 0, [], by simp [composeArgsWith], by simp [denArgs]⟩
  | cons p ps ih =>
    obtain ⟨p, orig⟩ := p
    intro s args s' hi h
    simp only [largs] at h
    split at h
    · simp at h
    · next v hv =>
      split at h
      · simp at h
      · next rest s2 hrest =>
        simp at h; obtain ⟨rfl, rfl⟩ := h
        have hi' : Inv fs kw { s with used := s.used ++ [p] } := ⟨hi.closed, hi.memo, hi.cache, hi.graph⟩
        obtain ⟨hs, hi2, k, vals, hk, hd⟩ := ih _ rest s2 hi' hrest
        exact ⟨hs, hi2, k, (orig, v) :: vals, by simp [composeArgsWith, hv, hk], by simp [denArgs, denArg, hd]⟩
    · next hup =>
      split at h
      · simp at h
      · next a s1 hrun =>
        split at h
        · simp at h
        · next rest s2 hrest =>
          simp at h; obtain ⟨rfl, rfl⟩ := h
          obtain ⟨hs1, hi1, hv⟩ := hr p s a s1 hi hrun
          have hkwp : alookup kw p = none := resolve_upstream_kw hup
          obtain ⟨v, k1, hd1, hk1⟩ := hv hkwp
          have hi1' : Inv fs kw { s1 with used := s1.used ++ [p] } := ⟨hi1.closed, hi1.memo, hi1.cache, hi1.graph⟩
          obtain ⟨hs2, hi2, k2, vals, hk2, hd2⟩ := ih _ rest s2 hi1' hrest
          have hs2' : Step s1 s2 := hs2
          refine ⟨hs1.trans hs2', hi2, max k1 k2, (orig, v) :: vals, ?_, ?_⟩
          · have a1 := compose_mono fs kw (Nat.le_max_left k1 k2) hk1
            have a2 := composeArgsWith_mono fs kw (compose fs kw k2) (compose fs kw (max k1 k2))
              (fun o v h => compose_mono fs kw (Nat.le_max_right k1 k2) h) f ps vals hk2
            simp [composeArgsWith, hup, a1, a2]
          · obtain ⟨⟨ext, hext⟩, _, _⟩ := hs2'
            have : den s2.nodes a = some v := by rw [hext]; exact den_ext ext hd1
            have this' : denArg (denAll s2.nodes) a = some v := this
            simp [denArgs, this', hd2]

/-- after `_update_all_results`, the memo is sound again and the requested name stands for the specification's value -/
theorem tail_sound (hu : Unique fs) {f : Func} {o : String} {k : Nat} {vals : List (String × Val)} {r : LArg} {s : LSt} {a : LArg}
    (hf : producer fs o = some f) (hk : composeArgsWith (compose fs kw k) fs kw f f.params = .ok vals)
    (hi : Inv fs kw s) (hr : den s.nodes r = some (result f vals)) (hl : alookup (updateAll f r s).memo o = some a) :
    Step s (updateAll f r s) ∧ Inv fs kw (updateAll f r s) ∧
    (alookup kw o = none → ∃ v k', den (updateAll f r s).nodes a = some v ∧ compose fs kw k' o = .ok v) := by
  obtain ⟨hs, _, hcl, hcs, hg, newm, hmemo, hnew⟩ := updateAll_spec (fs := fs) (kw := kw) f r vals s hi hr
  have hall : ∀ q w', alookup (outVals f vals) q = some w' → compose fs kw (k+1) q = .ok w' := by
    intro q w' hq
    have hqmem : q ∈ f.outputs := outVals_mem f vals q w' hq
    have hp : producer fs q = some f := hu f o hf q hqmem
    rw [compose_succ]; simp [hp, hk, hq]
  have hms : MemoSound fs kw (updateAll f r s) := by
    intro p a' hkp hp
    rw [hmemo, alookup_append] at hp
    split at hp
    · next a'' h =>
      injection hp with e; subst e
      obtain ⟨w, hw, hd⟩ := hnew p a'' h
      exact ⟨w, k+1, hd, hall p w hw⟩
    · obtain ⟨v, k', hd, hc⟩ := hi.memo p a' hkp hp
      obtain ⟨⟨ext, hext⟩, _, _⟩ := hs
      exact ⟨v, k', by rw [hext]; exact den_ext ext hd, hc⟩
  exact ⟨hs, ⟨hcl, hms, hcs, hg⟩, fun hko => hms o a hko hl⟩

/-! ### the task graph's cache -/

theorem cacheGet_mem : ∀ (c : List (Key × LArg)) (k' : Key) (a : LArg), cacheGet c k' = some a →
    ∃ key, (key, a) ∈ c ∧ keq key k' = true := by
  intro c
  induction c with
  | nil => intro k' a h; simp [cacheGet] at h
  | cons e c ih =>
    obtain ⟨k, b⟩ := e
    intro k' a h
    simp only [cacheGet] at h
    split at h
    · next hk => injection h with h; subst h; exact ⟨k, List.mem_cons_self, hk⟩
    · obtain ⟨key, hm, hq⟩ := ih k' a h
      exact ⟨key, List.mem_cons_of_mem _ hm, hq⟩

theorem keq_fst {k k' : Key} (h : keq k k' = true) : k.1 = k'.1 := by
  simp only [keq, Bool.and_eq_true] at h
  exact eq_of_beq h.1

theorem activeKey_fst {f : Func} {o : String} {s : LSt} {k : Key} (h : activeKey fs kw f o s = some k) : k.1 = f.outputs := by
  unfold activeKey at h
  split at h
  · cases h
  · unfold cacheKey at h
    split at h
    · cases h
    · split at h
      · cases h
      · injection h with h; rw [← h]

theorem cacheLookup_sound {s : LSt} {key : Option Key} {r : LArg} (h : cacheLookup s key = some r) :
    ∃ g k k', key = some k' ∧ s.tg = some g ∧ (k, r) ∈ g.cache ∧ k.1 = k'.1 := by
  unfold cacheLookup at h
  split at h
  · cases h
  · next k' =>
    split at h
    · cases h
    · next g hg =>
      obtain ⟨k, hm, hq⟩ := cacheGet_mem g.cache k' r h
      exact ⟨g, k, k', rfl, hg, hm, keq_fst hq⟩

theorem cachePut_inv (hu : Unique fs) {f : Func} {o : String} {k : Nat} {vals : List (String × Val)} (key : Option Key) (a : LArg)
    (s : LSt) (hi : Inv fs kw s) (hf : producer fs o = some f) (hkey : ∀ k', key = some k' → k'.1 = f.outputs)
    (hk : composeArgsWith (compose fs kw k) fs kw f f.params = .ok vals) (hd : den s.nodes a = some (result f vals)) :
    Inv fs kw (cachePut key a s) ∧ Step s (cachePut key a s) ∧ (cachePut key a s).nodes = s.nodes ∧
    (cachePut key a s).memo = s.memo := by
  unfold cachePut
  split
  · next k' g hg =>
    refine ⟨⟨hi.closed, hi.memo, ?_, ?_⟩, ⟨⟨[], by simp⟩, rfl, by simp [hg]⟩, rfl, rfl⟩
    · intro g' hg' key' a' hmem f' o' hf' hkey'
      simp only [Option.some.injEq] at hg'; subst hg'
      simp only [List.mem_cons, Prod.mk.injEq] at hmem
      rcases hmem with ⟨rfl, rfl⟩ | hmem
      · have hout : f'.outputs = f.outputs := by rw [← hkey', hkey _ rfl]
        have ho' : o' ∈ f'.outputs := by
          have := List.find?_some hf'; simpa using this
        have : producer fs o' = some f := hu f o hf o' (by rw [← hout]; exact ho')
        rw [hf'] at this; injection this with this; subst this
        exact ⟨k, vals, hk, hd⟩
      · exact hi.cache g hg key' a' hmem f' o' hf' hkey'
    · intro g' hg'
      simp only [Option.some.injEq] at hg'; subst hg'
      exact hi.graph g hg
  · exact ⟨hi, Step.refl s, rfl, rfl⟩

theorem lrun_succ (n : Nat) (o : String) (s : LSt) : lrun fs kw (n+1) o s =
    match alookup s.memo o with
    | some a => .ok (a, s)
    | none =>
      match producer fs o with
      | none => .error (.noFunc o)
      | some f =>
        match cacheLookup s (activeKey fs kw f o s) with
        | some r =>
          match alookup (updateAll f r { s with usedNone := true }).memo o with
          | some a => .ok (a, updateAll f r { s with usedNone := true })
          | none => .error (.noFunc o)
        | none =>
          match largs (lrun fs kw n) fs kw f f.params s with
          | .error e => .error e
          | .ok (args, s1) =>
            match alookup (updateAll f (.ref s1.nodes.length)
                (cachePut (activeKey fs kw f o s) (.ref s1.nodes.length) (mkNode (.call f args) s1).2)).memo o with
            | some a => .ok (a, updateAll f (.ref s1.nodes.length)
                (cachePut (activeKey fs kw f o s) (.ref s1.nodes.length) (mkNode (.call f args) s1).2))
            | none => .error (.noFunc o) := by
  rw [lrun]; rfl

/-- the node `_execute_func` creates stands for the function applied to what its arguments stand for -/
theorem call_node_sound {f : Func} {args : List (String × LArg)} {vals : List (String × Val)} (s1 : LSt) (hi : Inv fs kw s1)
    (hd : denArgs (denAll s1.nodes) args = some vals) :
    Inv fs kw (mkNode (.call f args) s1).2 ∧ den (mkNode (.call f args) s1).2.nodes (.ref s1.nodes.length) = some (result f vals) := by
  refine ⟨mkNode_inv _ s1 hi ?_, ?_⟩
  · intro j hj
    have := denArgs_refs_lt hd j hj
    rwa [denAll_length] at this
  · rw [mkNode_nodes, den_new]; simp [nodeVal, hd]

theorem lrun_sound (hu : Unique fs) : ∀ (n : Nat), LRecSound fs kw (lrun fs kw n) := by
  intro n
  induction n with
  | zero => intro o s a s' _ h; simp [lrun] at h
  | succ n ihn =>
    intro o s a s' hi h
    rw [lrun_succ] at h
    split at h
    · next a' hw =>
      simp at h; obtain ⟨rfl, rfl⟩ := h
      exact ⟨Step.refl _, hi, fun hk => hi.memo o a' hk hw⟩
    · split at h
      · simp at h
      · next f hf =>
        split at h
        · next r hr =>
          -- cache hit
          obtain ⟨g, key, k', hkey, hg, hmem, hfst⟩ := cacheLookup_sound hr
          have hk'out : k'.1 = f.outputs := activeKey_fst hkey
          obtain ⟨k, vals, hk, hd⟩ := hi.cache g hg key r hmem f o hf (hfst.trans hk'out)
          have hi' : Inv fs kw { s with usedNone := true } := ⟨hi.closed, hi.memo, hi.cache, hi.graph⟩
          split at h
          · next a' hl =>
            simp at h; obtain ⟨rfl, rfl⟩ := h
            exact tail_sound hu hf hk hi' hd hl
          · simp at h
        · split at h
          · simp at h
          · next args s1 hargs =>
            obtain ⟨hs1, hi1, k, vals, hk, hdargs⟩ := largs_sound _ ihn f f.params s args s1 hi hargs
            obtain ⟨hi2, hd2⟩ := call_node_sound (f := f) s1 hi1 hdargs
            obtain ⟨hi3, hs3, hn3, _⟩ := cachePut_inv hu (activeKey fs kw f o s) (.ref s1.nodes.length) _ hi2 hf
              (fun k' hk' => activeKey_fst hk') hk hd2
            split at h
            · next a' hl =>
              simp at h; obtain ⟨rfl, rfl⟩ := h
              obtain ⟨hs4, hi4, hv4⟩ := tail_sound hu hf hk hi3 (by rw [hn3]; exact hd2) hl
              exact ⟨(hs1.trans ((mkNode_step _ s1).trans hs3)).trans hs4, hi4, hv4⟩
            · simp at h

end PF.Lazy
