import PfModel.Lemmas.SweepProduct
/-! Lemmas for the `filtered_sweep` clause of C17 (read-back of the rebuilt sweep). -/

namespace PF.Sweep

section Transpose
variable {V : Type}

/-- append one value to every column -/
def snocCols (C : List (List V)) (row : List V) : List (List V) := List.zipWith (fun c v => c ++ [v]) C row

theorem zipRows_cons_cons (s s' : List V) (ss : List (List V)) :
    zipRows (s :: s' :: ss) = List.zipWith (fun v r => v :: r) s (zipRows (s' :: ss)) := rfl

theorem length_zipRows_all {C : List (List V)} {m : Nat} (hne : C ≠ []) (h : ∀ c ∈ C, c.length = m) :
    (zipRows C).length = m := by
  cases C with
  | nil => exact absurd rfl hne
  | cons c cs =>
    rw [length_zipRows c cs, h c (by simp)]
    simp only [sameLen, List.all_eq_true, beq_iff_eq]
    intro c' hc'
    rw [h c' (by simp [hc']), h c (by simp)]

/-- adding a row to the columns adds it to the rows read back -/
theorem zipRows_snocCols (C : List (List V)) (row : List V) (m : Nat) (hne : C ≠ []) (h : ∀ c ∈ C, c.length = m)
    (hl : row.length = C.length) : zipRows (snocCols C row) = zipRows C ++ [row] := by
  induction C generalizing row with
  | nil => exact absurd rfl hne
  | cons c cs ih =>
    cases row with
    | nil => simp at hl
    | cons v w =>
      cases cs with
      | nil =>
        cases w with
        | nil => simp [snocCols, zipRows]
        | cons _ _ => simp at hl
      | cons c2 cs' =>
        cases w with
        | nil => simp at hl
        | cons v2 w' =>
          have hl' : (v2 :: w').length = (c2 :: cs').length := by simpa using hl
          have ih' := ih (v2 :: w') (by simp) (fun c' hc' => h c' (by simp [hc'])) hl'
          have e : snocCols (c :: c2 :: cs') (v :: v2 :: w') = (c ++ [v]) :: snocCols (c2 :: cs') (v2 :: w') := rfl
          have e2 : snocCols (c2 :: cs') (v2 :: w') = (c2 ++ [v2]) :: snocCols cs' w' := rfl
          rw [e]
          rw [e2] at ih' ⊢
          rw [zipRows_cons_cons, ih', zipRows_cons_cons]
          have hlen : c.length = (zipRows (c2 :: cs')).length := by
            rw [length_zipRows_all (m := m) (by simp) (fun c' hc' => h c' (by simp [hc'])), h c (by simp)]
          rw [List.zipWith_append hlen]
          simp

theorem zipRows_singletons (v : V) (w : List V) : zipRows ((v :: w).map (fun v => [v])) = [v :: w] := by
  induction w generalizing v with
  | nil => rfl
  | cons v2 w' ih =>
    have := ih v2
    simp only [List.map_cons] at this ⊢
    rw [zipRows_cons_cons, this]
    rfl

theorem snocCols_length (C : List (List V)) (row : List V) (hl : row.length = C.length) : (snocCols C row).length = C.length := by
  simp [snocCols, hl]

theorem snocCols_all (C : List (List V)) (row : List V) (m : Nat) (h : ∀ c ∈ C, c.length = m) :
    ∀ c ∈ snocCols C row, c.length = m + 1 := by
  induction C generalizing row with
  | nil => simp [snocCols]
  | cons c cs ih =>
    cases row with
    | nil => simp [snocCols]
    | cons v w =>
      intro c' hc'
      have e : snocCols (c :: cs) (v :: w) = (c ++ [v]) :: snocCols cs w := rfl
      rw [e, List.mem_cons] at hc'
      rcases hc' with rfl | hc'
      · simp [h c (by simp)]
      · exact ih w (fun c'' hc'' => h c'' (by simp [hc''])) c' hc'

/-- columns grown row by row read back as the rows -/
theorem zipRows_foldl_snoc (R : List (List V)) (C : List (List V)) (R0 : List (List V)) (m : Nat) (hne : C ≠ [])
    (h : ∀ c ∈ C, c.length = m) (h0 : zipRows C = R0) (hR : ∀ r ∈ R, r.length = C.length) :
    zipRows (R.foldl snocCols C) = R0 ++ R ∧ (R.foldl snocCols C).length = C.length ∧
      ∀ c ∈ R.foldl snocCols C, c.length = m + R.length := by
  induction R generalizing C R0 m with
  | nil => simpa using ⟨h0, h⟩
  | cons r rest ih =>
    have hl := hR r (by simp)
    have hlen := snocCols_length C r hl
    have hne' : snocCols C r ≠ [] := by
      intro e; rw [e] at hlen; cases C with
      | nil => exact hne rfl
      | cons _ _ => simp at hlen
    obtain ⟨a, b, c⟩ := ih (snocCols C r) (R0 ++ [r]) (m + 1) hne' (snocCols_all C r m h)
      (by rw [zipRows_snocCols C r m hne h hl, h0]) (fun r' hr' => by rw [hlen]; exact hR r' (by simp [hr']))
    refine ⟨by simpa [List.append_assoc] using a, by rw [List.foldl_cons, b, hlen], ?_⟩
    intro c' hc'
    rw [List.foldl_cons] at hc'
    rw [c c' hc', List.length_cons]; omega

end Transpose

section Columns
variable {V : Type}

theorem insert_append_hit {α : Type} (pre r : Dict α) (k : Key) (c v : α) (hk : k ∉ keys pre) :
    insert (pre ++ (k, c) :: r) k v = pre ++ (k, v) :: r := by
  induction pre with
  | nil => simp [insert]
  | cons p t ih =>
    obtain ⟨k', v'⟩ := p
    simp only [keys, List.map_cons, List.mem_cons, not_or] at hk
    simp only [List.cons_append, insert]
    rw [if_neg (fun e => hk.1 e.symm), ih hk.2]

/-- the first row creates the columns -/
theorem appendTo_first (ks : List Key) (row : List V) (pre : Dict (List V)) (hn : ks.Nodup) (hd : ∀ k ∈ ks, k ∉ keys pre) :
    (ks.zip row).foldl (fun acc kv => appendTo acc kv.1 kv.2) pre = pre ++ ks.zip (row.map (fun v => [v])) := by
  induction ks generalizing row pre with
  | nil => simp
  | cons k t ih =>
    cases row with
    | nil => simp
    | cons v w =>
      simp only [List.zip_cons_cons, List.foldl_cons, List.map_cons]
      have : appendTo pre k v = pre ++ [(k, [v])] := by
        simp [appendTo, lookup_eq_none_of_not_mem (hd k (by simp))]
      rw [this, ih w _ (List.nodup_cons.mp hn).2]
      · simp [List.append_assoc]
      · intro k' hk'
        simp only [keys_append, List.mem_append, not_or]
        refine ⟨hd k' (by simp [hk']), ?_⟩
        simp only [keys, List.map_cons, List.map_nil, List.mem_singleton]
        intro e; subst e; exact (List.nodup_cons.mp hn).1 hk'

/-- every further row is appended to the columns -/
theorem appendTo_next (ks : List Key) (row : List V) (C : List (List V)) (pre : Dict (List V)) (hn : ks.Nodup)
    (hd : ∀ k ∈ ks, k ∉ keys pre) (hC : C.length = ks.length) (hr : row.length = ks.length) :
    (ks.zip row).foldl (fun acc kv => appendTo acc kv.1 kv.2) (pre ++ ks.zip C) = pre ++ ks.zip (snocCols C row) := by
  induction ks generalizing row C pre with
  | nil => simp
  | cons k t ih =>
    cases row with
    | nil => simp at hr
    | cons v w =>
      cases C with
      | nil => simp at hC
      | cons c C' =>
        have e : snocCols (c :: C') (v :: w) = (c ++ [v]) :: snocCols C' w := rfl
        simp only [List.zip_cons_cons, List.foldl_cons, e]
        have hk : k ∉ keys pre := hd k (by simp)
        have : appendTo (pre ++ (k, c) :: t.zip C') k v = (pre ++ [(k, c ++ [v])]) ++ t.zip C' := by
          simp [appendTo, lookup_append_hit pre _ k c hk, insert_append_hit pre _ k c _ hk, List.append_assoc]
        rw [this, ih w C' _ (List.nodup_cons.mp hn).2 ?_ (by simpa using hC) (by simpa using hr)]
        · simp [List.append_assoc]
        · intro k' hk'
          simp only [keys_append, List.mem_append, not_or]
          refine ⟨hd k' (by simp [hk']), ?_⟩
          simp only [keys, List.map_cons, List.map_nil, List.mem_singleton]
          intro e; subst e; exact (List.nodup_cons.mp hn).1 hk'

theorem columnsOf_foldl (ks : List Key) (R : List (List V)) (C : List (List V)) (hn : ks.Nodup) (hC : C.length = ks.length)
    (hR : ∀ r ∈ R, r.length = ks.length) :
    R.foldl (fun acc row => (ks.zip row).foldl (fun acc kv => appendTo acc kv.1 kv.2) acc) (ks.zip C) =
      ks.zip (R.foldl snocCols C) := by
  induction R generalizing C with
  | nil => rfl
  | cons r rest ih =>
    simp only [List.foldl_cons]
    have := appendTo_next ks r C [] hn (by simp [keys]) hC (hR r (by simp))
    simp only [List.nil_append] at this
    rw [this, ih _ (by rw [snocCols_length C r (by rw [hC]; exact hR r (by simp)), hC]) (fun r' hr' => hR r' (by simp [hr']))]

/-- **`new_items` of `filtered_sweep`** (derivers branch): the columns of the rows, by name; the rows can be read back. -/
theorem columnsOf_spec (ks : List Key) (r0 : List V) (R : List (List V)) (hn : ks.Nodup) (hne : ks ≠ [])
    (hR : ∀ r ∈ r0 :: R, r.length = ks.length) :
    ∃ C, columnsOf ks (r0 :: R) = ks.zip C ∧ C.length = ks.length ∧ C ≠ [] ∧ (∀ c ∈ C, c.length = 1 + R.length) ∧
      zipRows C = r0 :: R := by
  have h0 := hR r0 (by simp)
  have hC0 : (r0.map (fun v => [v])).length = ks.length := by simp [h0]
  have hne0 : r0.map (fun v => [v]) ≠ [] := by
    intro e
    have : ks.length = 0 := by rw [← hC0, e]; rfl
    exact hne (List.eq_nil_of_length_eq_zero this)
  have hz : zipRows (r0.map (fun v => [v])) = [r0] := by
    cases r0 with
    | nil => exact absurd rfl hne0
    | cons v w => exact zipRows_singletons v w
  obtain ⟨a, b, c⟩ := zipRows_foldl_snoc R (r0.map (fun v => [v])) [r0] 1 hne0 (by simp) hz
    (fun r hr => by rw [hC0]; exact hR r (by simp [hr]))
  refine ⟨R.foldl snocCols (r0.map (fun v => [v])), ?_, by rw [b, hC0], ?_, c, by simpa using a⟩
  · unfold columnsOf
    simp only [List.foldl_cons]
    have := appendTo_first ks r0 [] hn (by simp [keys])
    simp only [List.nil_append] at this
    rw [this]
    exact columnsOf_foldl ks R _ hn hC0 (fun r hr => hR r (by simp [hr]))
  · intro e
    rw [e] at b
    have : ks.length = 0 := by rw [← hC0, ← b]; rfl
    exact hne (List.eq_nil_of_length_eq_zero this)

theorem cols_zip (ks : List Key) (C : List (List V)) (pre : Dict (List V)) (hn : ks.Nodup) (hd : ∀ k ∈ ks, k ∉ keys pre)
    (hC : C.length = ks.length) : cols (pre ++ ks.zip C) ks = .ok C ∧ True := by
  refine ⟨?_, trivial⟩
  have key : ∀ (done : List Key) (pre : Dict (List V)) (ks : List Key) (C : List (List V)), (done ++ ks).Nodup →
      (∀ k ∈ ks, k ∉ keys pre) → C.length = ks.length → cols (pre ++ ks.zip C) ks = .ok C := by
    intro done pre ks
    induction ks generalizing done pre with
    | nil => intro C _ _ hC; cases C with
      | nil => rfl
      | cons _ _ => simp at hC
    | cons k t ih =>
      intro C hn hd hC
      cases C with
      | nil => simp at hC
      | cons c C' =>
        have hk : k ∉ keys pre := hd k (by simp)
        have hnt : (k :: t).Nodup := (List.nodup_append.mp hn).2.1
        simp only [List.zip_cons_cons, cols, lookup_append_hit pre _ k c hk]
        have := ih (done ++ [k]) (pre ++ [(k, c)]) C' (by simpa [List.append_assoc] using hn) (by
          intro k' hk'
          simp only [keys_append, List.mem_append, not_or]
          refine ⟨hd k' (by simp [hk']), ?_⟩
          simp only [keys, List.map_cons, List.map_nil, List.mem_singleton]
          intro e; subst e; exact (List.nodup_cons.mp hnt).1 hk') (by simpa using hC)
        simp only [List.append_assoc, List.singleton_append] at this
        rw [this]
  exact key [] pre ks C (by simpa using hn) hd hC

theorem keys_zip_of_length {α : Type} (ks : List Key) (C : List α) (h : C.length = ks.length) : keys (ks.zip C) = ks := by
  simp only [keys]
  exact List.map_fst_zip (by omega)

end Columns

section ReadBack
variable {V : Type}

/-- **Read-back.**  A sweep whose items are the columns `C` of the rows `R`, zipped into one group `ks`, yields the rows. -/
theorem generate_columns (f : Sweep V) (ks : List Key) (C R : List (List V)) (hi : f.items = ks.zip C)
    (hdims : f.dims = some [.tup ks]) (hx : f.exclude = none) (hc : f.constants = none) (hdv : f.derivers = none)
    (hn : ks.Nodup) (hC : C.length = ks.length) (hCne : C ≠ []) (m : Nat) (hm : ∀ c ∈ C, c.length = m)
    (hz : zipRows C = R) : generate f = .ok (R.map (fun r => ks.zip r)) := by
  have hcols : cols f.items ks = .ok C := by
    have := (cols_zip ks C [] hn (by simp [keys]) hC).1
    simpa [hi] using this
  have hie : f.items.isEmpty = false := by
    rw [hi]
    cases ks with
    | nil => cases C with
      | nil => exact absurd rfl hCne
      | cons _ _ => simp at hC
    | cons k t => cases C with
      | nil => exact absurd rfl hCne
      | cons _ _ => rfl
  have hfb : fullBranch f = false := by simp [fullBranch, hdims, setEqKeys]
  have hfin : ∀ c, finish f c = some c := by intro c; simp [finish, hx, hc, hdv, addConstants, applyDerivers, excluded]
  unfold generate
  simp only [hie, hfb, Bool.false_eq_true, if_false, hdims, Option.getD_some, parts, part, Group.keys, hcols]
  cases C with
  | nil => exact absurd rfl hCne
  | cons c cs =>
    have hs : sameLen (c :: cs) = true := by
      simp only [sameLen, List.all_eq_true, beq_iff_eq]
      intro c' hc'; rw [hm c' (by simp [hc']), hm c (by simp)]
    simp only [hs, if_true, hz]
    clear hz
    congr 1
    simp only [cart, List.map_cons, List.map_nil, List.flatMap_def, List.map_map]
    induction R with
    | nil => rfl
    | cons r rest ih =>
      simp only [List.map_cons, List.flatten_cons, List.singleton_append, List.filterMap_cons, Function.comp_def] at ih ⊢
      have : mergeDicts [ofPairs (ks.zip r)] = ks.zip r := by
        simp only [mergeDicts, List.foldl_cons, List.foldl_nil, ofPairs_zip hn r]
        exact ofPairs_zip hn r
      rw [this, hfin]
      simp only
      rw [ih]

end ReadBack

section Project
variable {V : Type}

theorem projectD_spec {ks : List Key} (hn : ks.Nodup) {c p : Dict V} (h : projectD ks c = .ok p) :
    keys p = ks ∧ p = ks.zip (vals p) := by
  induction ks generalizing p with
  | nil => simp only [projectD, Except.ok.injEq] at h; subst h; exact ⟨rfl, rfl⟩
  | cons k r ih =>
    simp only [projectD] at h
    split at h
    · cases h
    · next v hv =>
      split at h
      · cases h
      · next d hd =>
        simp only [Except.ok.injEq] at h
        obtain ⟨i1, i2⟩ := ih (List.nodup_cons.mp hn).2 hd
        have : update [(k, v)] d = (k, v) :: d := by
          have := update_of_nodup [(k, v)] d (by
            rw [i1]; simpa [keys] using hn)
          simpa using this
        rw [this] at h
        subst h
        refine ⟨by simp [keys] at i1 ⊢; exact i1, ?_⟩
        simp only [vals, List.map_cons, List.zip_cons_cons]
        congr 1

theorem projectAll_spec {ks : List Key} (hn : ks.Nodup) {combos ps : List (Dict V)} (h : projectAll ks combos = .ok ps) :
    ∀ p ∈ ps, keys p = ks ∧ p = ks.zip (vals p) := by
  induction combos generalizing ps with
  | nil => simp only [projectAll, Except.ok.injEq] at h; subst h; simp
  | cons c r ih =>
    simp only [projectAll] at h
    split at h
    · cases h
    · next p hp =>
      split at h
      · cases h
      · next ps' hps =>
        simp only [Except.ok.injEq] at h
        subst h
        intro q hq
        rcases List.mem_cons.mp hq with rfl | hq
        · exact projectD_spec hn hp
        · exact ih hps q hq

end Project

section DistinctMore
variable {α β : Type} [DecidableEq α] [DecidableEq β]

theorem distinct_fold_map (f : α → β) (l acc : List α) (hinj : ∀ x ∈ acc ++ l, ∀ y ∈ acc ++ l, f x = f y → x = y) :
    (l.map f).foldl (fun acc x => if x ∈ acc then acc else acc ++ [x]) (acc.map f) =
      (l.foldl (fun acc x => if x ∈ acc then acc else acc ++ [x]) acc).map f ∧
    ∀ z ∈ l.foldl (fun acc x => if x ∈ acc then acc else acc ++ [x]) acc, z ∈ acc ++ l := by
  induction l generalizing acc with
  | nil => simp
  | cons x r ih =>
    simp only [List.map_cons, List.foldl_cons]
    have hmem : f x ∈ acc.map f ↔ x ∈ acc := by
      constructor
      · intro h
        obtain ⟨y, hy, e⟩ := List.mem_map.mp h
        have := hinj y (by simp [hy]) x (by simp) e
        rw [← this]; exact hy
      · exact List.mem_map_of_mem
    by_cases hx : x ∈ acc
    · have hfx : f x ∈ acc.map f := hmem.mpr hx
      simp only [hx, hfx, if_true]
      obtain ⟨a, b⟩ := ih acc (fun u hu v hv => hinj u (by simp at hu ⊢; rcases hu with h | h <;> simp [h])
        v (by simp at hv ⊢; rcases hv with h | h <;> simp [h]))
      exact ⟨a, fun z hz => by have := b z hz; simp at this ⊢; rcases this with h | h <;> simp [h]⟩
    · have hfx : f x ∉ acc.map f := fun h => hx (hmem.mp h)
      simp only [hx, hfx, if_false]
      have e : acc.map f ++ [f x] = (acc ++ [x]).map f := by simp
      rw [e]
      obtain ⟨a, b⟩ := ih (acc ++ [x]) (fun u hu v hv => hinj u (by simpa [List.append_assoc] using hu)
        v (by simpa [List.append_assoc] using hv))
      exact ⟨a, fun z hz => by have := b z hz; simpa [List.append_assoc] using this⟩

/-- de-duplicating the images = the images of the de-duplicated list, for a function that is injective on the list -/
theorem distinctFold_map (f : α → β) (l : List α) (hinj : ∀ x ∈ l, ∀ y ∈ l, f x = f y → x = y) :
    distinctFold (l.map f) = (distinctFold l).map f := by
  have := (distinct_fold_map f l [] (by simpa using hinj)).1
  simpa [distinctFold] using this

theorem distinct_fold_acc (l acc : List α) :
    l.foldl (fun acc x => if x ∈ acc then acc else acc ++ [x]) acc =
      acc ++ (distinctFold l).filter (fun y => decide (y ∉ acc)) := by
  induction l generalizing acc with
  | nil => simp [distinctFold]
  | cons y r ih =>
    have e1 : distinctFold (y :: r) = [y] ++ (distinctFold r).filter (fun z => decide (z ∉ [y])) := by
      have := ih [y]
      simpa [distinctFold] using this
    simp only [List.foldl_cons]
    rw [e1, List.filter_append, List.filter_filter]
    by_cases hy : y ∈ acc
    · simp only [hy, if_true]
      rw [ih acc]
      congr 1
      have : List.filter (fun z => decide (z ∉ acc)) [y] = [] := by simp [hy]
      rw [this, List.nil_append]
      apply List.filter_congr
      intro z _
      by_cases hz : z ∈ acc
      · simp [hz]
      · have : z ≠ y := fun e => hz (e ▸ hy)
        simp [hz, this]
    · simp only [hy, if_false]
      rw [ih (acc ++ [y])]
      have : List.filter (fun z => decide (z ∉ acc)) [y] = [y] := by simp [hy]
      rw [this, List.append_assoc]
      congr 2
      apply List.filter_congr
      intro z _
      simp only [List.mem_append, List.mem_singleton, not_or, List.mem_cons, List.not_mem_nil, or_false,
        Bool.decide_and, Bool.and_comm]

/-- `distinctFold` keeps the first occurrence of every element: the head stays, later copies of it are dropped -/
theorem distinctFold_cons (x : α) (l : List α) : distinctFold (x :: l) = x :: (distinctFold l).filter (fun y => decide (y ≠ x)) := by
  have := distinct_fold_acc l [x]
  simpa [distinctFold] using this

end DistinctMore

end PF.Sweep
