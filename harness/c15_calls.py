"""C15, the keys pipefunc builds *around* `to_hashable` (model: lean/PfModel/Model/HashableKeys.lean):

* `memoize`                      key `to_hashable((args, kwargs))`      — functions of 1..3 positional-or-keyword parameters
                                 with defaults, called with the same effective arguments passed in different ways
                                 (positional / keyword, keyword order, defaults given explicitly) and with look-alike values;
* `compute_cache_key`            `(output_name, ((root, to_hashable(v)), …))` — called directly, and through
                                 `Pipeline.__call__` of one- and two-function pipelines with every cache type;
* `_get_or_set_cache`            `(output_name, to_hashable(kwargs))` — through `Pipeline.map(…)` with a cache.

Property clause judged on the implementation: a stored result is returned only for a call whose effective arguments are the
same values (`c15_values.py_same` per parameter) as those of the call that produced it.  Also judged: a call that passes the
same values in the same way as a stored call is a hit.  Compared with the model: the keys (`memokeys`, `pipekeys`), Python's
argument binding (`bind` vs `inspect.Signature.bind`), the hit patterns (`memo`, `pcache`, `mapkeys`).
"""
from __future__ import annotations

import inspect
import tempfile

import pfimport  # noqa: F401
import c15_values as V
from pipefunc import PipeFunc, Pipeline
from pipefunc._pipeline._cache import compute_cache_key
from pipefunc.cache import DiskCache, HybridCache, LRUCache, SimpleCache, memoize, to_hashable

NAMES = ["a", "b", "c"]


def cp(s: str) -> list[int]:
    return [ord(c) for c in s]


def plain_eq(v) -> bool:
    try:
        return (v == v) is True or (v == v) is False
    except Exception:  # noqa: BLE001
        return False


class Res:
    """the opaque result of one real call (numbered)"""

    def __init__(self, n):
        self.n = n


def make_func(params, defaults, log):
    """`def f(a, b=<default>, …)`: appends its arguments to `log`, returns `Res(call number)`"""
    ns = {"_log": log, "Res": Res}
    parts = []
    for p in params:
        if p in defaults:
            ns[f"_d_{p}"] = defaults[p]
            parts.append(f"{p}=_d_{p}")
        else:
            parts.append(p)
    src = f"def f({', '.join(parts)}):\n    _log.append(({', '.join(params)},))\n    return Res(len(_log) - 1)\n"
    exec(src, ns)  # noqa: S102
    return ns["f"]


class RecordingCache(SimpleCache):
    """A SimpleCache that remembers every key `memoize` hands to it: the key of every call, hit or miss — the observation the
    property talks about (what `memoize` REALLY looks up), not a key the harness computes with `to_hashable` on its own."""

    def __init__(self):
        super().__init__()
        self.asked, self.stored = [], []

    def __contains__(self, key):
        self.asked.append(key)
        return super().__contains__(key)

    def put(self, key, value):
        self.stored.append(key)
        return super().put(key, value)

    def key_of_last_call(self, n_asked, n_stored):
        """the key used since the marks `n_asked`, `n_stored` were taken (None: memoize did not touch the cache)"""
        if len(self.asked) > n_asked:
            return ("ok", self.asked[-1])
        if len(self.stored) > n_stored:
            return ("ok", self.stored[-1])
        return ("none", None)


VAR_SIGS = {
    "var": "def f(*args, **kwargs):\n    _log.append((args, kwargs))\n    return Res(len(_log) - 1)\n",
    "mixed": "def f(a, b=_d_b, *args, **kwargs):\n    _log.append((a, b, args, kwargs))\n    return Res(len(_log) - 1)\n",
    "opt": "def f(x, label=None, **options):\n    _log.append((x, label, options))\n    return Res(len(_log) - 1)\n",
}


def make_varfunc(kind, default_b, log):
    """functions that accept a value positionally AND as a keyword (`*args` / `**kwargs` / an optional parameter)"""
    ns = {"_log": log, "Res": Res, "_d_b": default_b}
    exec(VAR_SIGS[kind], ns)  # noqa: S102
    return ns["f"]


# ------------------------------------------------------------------------------------------------ model encodings
def enc_kw(enc, kwargs: dict):
    return [[cp(k), enc.enc(v)] for k, v in kwargs.items()]


def enc_callarg(enc, args, kwargs):
    return {"k": "tuple", "x": [{"k": "tuple", "x": [enc.enc(a) for a in args]},
                                {"k": "dict", "x": [{"k": "tuple", "x": [{"s": cp(k)}, enc.enc(v)]} for k, v in kwargs.items()]}]}


def same_key_json(enc, key, model_resp) -> bool:
    try:
        return V.dumps(V.norm_fresh(enc.enc(key))) == V.dumps(V.norm_fresh(model_resp["key"]))
    except Exception:  # noqa: BLE001
        return False


# ------------------------------------------------------------------------------------------------ call generation
def gen_signature(rng):
    n = rng.randint(1, 3)
    params = NAMES[:n]
    n_def = rng.randint(0, n)
    return params, params[n - n_def:]


def passing_styles(rng, params, with_default, assign, k):
    """k ways of passing the effective assignment `assign` (name -> index into the value pool, or None = take the default)"""
    out = []
    for _ in range(k):
        given = [p for p in params if assign[p] is not None]
        # positional arguments are a prefix of the parameters, every one of them given
        max_pos = 0
        while max_pos < len(params) and assign[params[max_pos]] is not None:
            max_pos += 1
        npos = rng.randint(0, max_pos)
        kw_names = [p for p in given if params.index(p) >= npos]
        rng.shuffle(kw_names)
        out.append((params[:npos], kw_names))
    return out


def gen_invalid(rng, params, pool_n):
    """calls Python's binding rejects (or not): duplicates, unknown keywords, missing arguments, too many positionals"""
    npos = rng.randint(0, len(params) + 1)
    kw = rng.sample(NAMES + ["z"], rng.randint(0, 3))
    return [rng.randrange(pool_n) for _ in range(npos)], {k: rng.randrange(pool_n) for k in kw}


KW_NAMES = ["a", "b", "label", "tol", "k"]


def call_lookalikes(rng, A, K):  # noqa: C901, PLR0912
    """Calls that LOOK like the call `f(*A, **K)` (specs) under another way of laying the arguments out: what a key built from a
    flattened / re-grouped / re-labelled `(args, kwargs)` would confuse.  Every one of them passes other arguments."""
    items = [["tuple", [["str", n], v]] for n, v in K.items()]
    srt = [["tuple", [["str", n], K[n]]] for n in sorted(K)]
    out = []
    if K:
        out.append((A + srt, {}))                                            # keywords as trailing (name, value) pairs, sorted
        out.append((A + items, {}))                                          # … in the order written
        n0 = rng.choice(list(K))
        out.append((A + [["tuple", [["str", n0], K[n0]]]], {n: v for n, v in K.items() if n != n0}))   # … one of them only
        out.append((A + [["dict", [[["str", n], v] for n, v in K.items()]]], {}))                    # the kwargs dict as last positional
        out.append((A + [["tuple", srt]], {}))                                # the sorted items as ONE tuple
        out.append((A + [["fset", srt]] if all(_hashable_spec(x) for x in srt) else A + [["list", srt]], {}))
        out.append((A + [x for n in sorted(K) for x in (["str", n], K[n])], {}))                     # names and values flattened
        out.append((A, {rng.choice([m for m in KW_NAMES if m not in K] or ["zz"]) if i == 0 else n: v
                        for i, (n, v) in enumerate(K.items())}))               # one keyword renamed
        out.append((A + list(K.values()), {}))                                # keyword values passed positionally
        if len(K) > 1:
            ns = list(K)
            out.append((A, dict(zip(ns, [K[n] for n in ns[1:] + ns[:1]]))))   # the values move to the next name
        out.append((A, {n: v for n, v in K.items() if n != n0}))              # one keyword left out
        out.append((A, {n: (["none"] if n == n0 else v) for n, v in K.items()}))   # … passed as None
    free = [m for m in KW_NAMES if m not in K]
    if free:
        out.append((A, {**K, rng.choice(free): rng.choice([["none"], ["int", 0], ["bool", False], ["tuple", []]])}))   # an extra falsy keyword
    out.append((A + [rng.choice([["none"], ["int", 0], ["bool", False]])], dict(K)))   # an extra falsy positional
    out.append(([["tuple", A], ["dict", [[["str", n], v] for n, v in K.items()]]], {}))             # (args, kwargs) as two positionals
    out.append(([["tuple", [["tuple", A], ["dict", [[["str", n], v] for n, v in K.items()]]]]], {}))  # … as one
    out.append(([["tuple", A]], dict(K)))                                     # the positionals as one tuple
    out.append((A + [["tuple", []]], dict(K)))
    out.append((A + [["dict", []]], dict(K)))
    if A:
        free = [m for m in KW_NAMES if m not in K]
        if free:
            out.append((A[:-1], {**K, rng.choice(free): A[-1]}))              # the last positional as a keyword
        if A[-1][0] == "tuple" and len(A[-1][1]) == 2 and A[-1][1][0][0] == "str" and A[-1][1][0][1] not in K:
            out.append((A[:-1], {**K, A[-1][1][0][1]: A[-1][1][1]}))          # a trailing (name, value) pair as that keyword
        if len(A) > 1:
            out.append((A[1:] + A[:1], dict(K)))                              # positional order
            out.append((A[:-2] + [["tuple", A[-2:]]], dict(K)))               # the last two grouped
        if A[-1][0] in ("tuple", "list") and A[-1][1]:
            out.append((A[:-1] + A[-1][1], dict(K)))                          # the last one splatted
    return out


def _hashable_spec(s):
    try:
        hash(V.build(s))
        return True
    except Exception:  # noqa: BLE001
        return False


PARTIAL_ORDER = None      # set by props/c15.py: does a value hold a set / mapping whose elements are only partially ordered by `<`?


def _has_obj(spec) -> bool:
    d = V.dumps(spec)
    return '"obj"' in d or '"fobj"' in d


def _call_spec(A, K):
    """the `(args, kwargs)` pair of a call as one value spec (finding matchers and replays read `a` / `b` of a case)"""
    return ["tuple", [["tuple", list(A)], ["dict", [[["str", n], v] for n, v in K.items()]]]]


class CallCheck:
    """One batch of values (`pool`: specs, objects, model encodings) shared by the three streams."""

    def __init__(self, ctx, rng, specs, vals, pvs, tmp):
        self.ctx, self.rng, self.specs, self.vals, self.pvs, self.tmp = ctx, rng, specs, vals, pvs, tmp
        self.enc = V.Encoder()
        self.reqs = []          # (request, callback)
        self.idx = list(range(len(specs)))
        self.new_sub()
        # two long arrays that differ in one middle element (their `str` / `repr` are equal: numpy elides the middle) — map stream only
        big = [float(i % 7) for i in range(1500)]
        big2 = list(big)
        big2[750] = 6.0 if big2[750] != 6.0 else 5.0
        self.big = []
        for flat in (big, big2, big):
            self.specs = self.specs + [["nd", [1500], "<i8", flat]]
            self.vals = self.vals + [V.build(["nd", [1500], "<i8", flat])]
            self.pvs = self.pvs + [None]
            self.big.append(len(self.specs) - 1)

    def new_sub(self):
        """a handful of values (mostly look-alikes of each other: neighbours in the batch) from which repeated calls are drawn"""
        start = self.rng.randrange(len(self.idx))
        self.sub = [self.idx[(start + k) % len(self.idx)] for k in range(5)]

    # -- helpers
    def same(self, i, j):
        return V.py_same(self.vals[i], self.vals[j])

    def same_key_expected(self, i, j):
        """`same`, and the implementation can be expected to give the two values the same key: the digest of a pickle is not a
        function of the value (False / 0, sharing, insertion histories inside the object), so objects that reach the pickle
        fallback count only when they were built from identical specs"""
        if not self.same(i, j):
            return False
        if PARTIAL_ORDER is not None and V.dumps(self.specs[i]) != V.dumps(self.specs[j]) and (PARTIAL_ORDER(self.vals[i]) or PARTIAL_ORDER(self.vals[j])):
            return False      # the key of such a value depends on its iteration order (the known finding KF-C15-partial-order-sort)
        return not (_has_obj(self.specs[i]) or _has_obj(self.specs[j])) or V.dumps(self.specs[i]) == V.dumps(self.specs[j])

    def same_eff(self, e1, e2):
        return e1.keys() == e2.keys() and all(V.py_same(e1[k], e2[k]) for k in e1)

    def spec_call(self, args_i, kw_i):
        return {"args": [self.specs[i] for i in args_i], "kwargs": {k: self.specs[i] for k, i in kw_i.items()}}

    def near(self, i):
        """an index whose value is a look-alike of value i if the pool has one (same printed leaf content), else random"""
        return self.rng.choice(self.idx)

    # ------------------------------------------------------------------------------------------ memoize
    def memoize_stream(self, n_sigs, n_calls):  # noqa: C901, PLR0912, PLR0915
        ctx, rng = self.ctx, self.rng
        for _ in range(n_sigs):
            self.new_sub()
            params, with_default = gen_signature(rng)
            d_idx = {p: rng.choice(self.idx) for p in with_default}
            defaults = {p: self.vals[i] for p, i in d_idx.items()}
            # effective assignments: a few bases, each passed in several ways, plus look-alike replacements
            calls = []                                        # (args_i, kw_i)
            bases = []
            for _b in range(max(2, n_calls // 8)):
                assign = {}
                for p in params:
                    if p in with_default and rng.random() < 0.4:
                        assign[p] = None
                    elif p in with_default and rng.random() < 0.25:
                        assign[p] = d_idx[p]                  # the default, given explicitly
                    else:
                        assign[p] = rng.choice(self.sub)     # a small sub-pool: repeats happen
                bases.append(assign)
            while len(calls) < n_calls:
                assign = dict(rng.choice(bases))
                if rng.random() < 0.3:
                    p = rng.choice(params)
                    assign[p] = rng.choice(self.idx)
                for pos_names, kw_names in passing_styles(rng, params, with_default, assign, 1):
                    calls.append(([assign[p] for p in pos_names], {k: assign[k] for k in kw_names}))
            sig = None
            self.real_keys = None
            hits_simple = []
            for cname, cache in self.caches() + [("recording", RecordingCache())]:
                log = []
                f = make_func(params, defaults, log)
                sig = sig or inspect.signature(f)
                g = memoize(cache=cache)(f)
                stored = []                                    # (call number -> (position in calls, effective arguments))
                hits = []
                if cname == "recording":                       # the keys memoize really uses, one per call
                    self.real_keys = []
                    for args_i, kw_i in calls[:12]:
                        na, ns = len(cache.asked), len(cache.stored)
                        try:
                            g(*[self.vals[i] for i in args_i], **{k: self.vals[i] for k, i in kw_i.items()})
                            self.real_keys.append(cache.key_of_last_call(na, ns))
                        except Exception as e:  # noqa: BLE001
                            self.real_keys.append(("exc", pfimport.exc_enum(e)))
                    self.model_memo(params, d_idx, calls, hits_simple)
                    continue
                for pos, (args_i, kw_i) in enumerate(calls):
                    args = [self.vals[i] for i in args_i]
                    kwargs = {k: self.vals[i] for k, i in kw_i.items()}
                    ba = sig.bind(*args, **kwargs)
                    ba.apply_defaults()
                    eff = dict(ba.arguments)
                    before = len(log)
                    case = {"kind": "memo-call", "cache": cname, "params": params, "defaults": {p: self.specs[i] for p, i in d_idx.items()},
                            **self.spec_call(args_i, kw_i)}
                    try:
                        res = g(*args, **kwargs)
                    except Exception as e:  # noqa: BLE001
                        ctx.violation(case, f"memoized call raised {pfimport.exc_enum(e)}")
                        hits.append(None)
                        continue
                    ctx.record({"kind": "memo-call", "sig": params, **self.spec_call(args_i, kw_i)}, nontrivial=True)
                    if len(log) > before:
                        stored.append((pos, eff))
                        hits.append(False)
                        # the same values passed in the same way as a stored call must have been a hit
                        for p0, _e0 in (stored[:-1] if cname != "disk" else []):   # DiskCache: keyed by the pickled key (1 is not True)
                            a0, k0 = calls[p0]
                            if (len(a0) == len(args_i) and k0.keys() == kw_i.keys() and all(self.same_key_expected(x, y) for x, y in zip(a0, args_i))
                                    and all(self.same_key_expected(k0[k], kw_i[k]) for k in kw_i)):
                                ctx.violation({**case, "earlier": self.spec_call(a0, k0)}, f"memoize({cname}) recomputed a call that passes "
                                              "the same values in the same way as a stored call (equal values, different keys)")
                                break
                        continue
                    hits.append(True)
                    ctx.count(f"calls:memoize:{cname}:hit")
                    src = stored[res.n] if isinstance(res, Res) and res.n < len(stored) else None
                    if src is None or not self.same_eff(src[1], eff):
                        sf = self.spec_call(*calls[src[0]]) if src else None
                        ctx.violation({**case, "stored_for": sf, "a": _call_spec(case["args"], case["kwargs"]),
                                       "b": _call_spec(sf["args"], sf["kwargs"]) if sf else None},
                                      f"memoize({cname}) returned the result stored for a call with different effective arguments")
                    elif (len(calls[src[0]][0]), list(calls[src[0]][1])) != (len(args_i), list(kw_i)):
                        ctx.count("calls:memoize:hit-across-keyword-order")
                ctx.count(f"calls:memoize:{cname}:calls", len(calls))
                if cname == "simple":
                    hits_simple = hits
        return self

    # ------------------------------------------------------------------------------------------ memoize: the layout of a call
    def varcall_stream(self, n_groups, n_base):  # noqa: C901, PLR0912, PLR0915
        """Functions that take a value positionally AND by keyword (`*args, **kwargs`; `a, b=…, *args, **kwargs`; `x, label=None,
        **options`), called with base calls and with their `call_lookalikes`: the same leaves laid out differently over
        positionals and keywords.  Judged on the implementation: a stored result comes back only for a call with the same
        effective arguments (`inspect.Signature.bind` of the real function); the same call again, also with its keywords in
        another order, is a hit.  Compared with the model: the key memoize really used (RecordingCache) with `memoKey`, the hit
        pattern with the memo table over `(args, kwargs)`."""
        ctx, rng = self.ctx, self.rng
        pool = [i for i in self.idx if self.pvs[i] is not None] or self.idx
        for gi in range(n_groups):
            kind = ["var", "opt", "mixed", "var"][gi % 4]
            self.new_sub()
            sub = [i for i in self.sub if self.pvs[i] is not None] or [rng.choice(pool)]
            d_b = rng.choice(sub)
            small = [["int", 1], ["int", 2], ["list", [["int", 0]]], ["list", [["float", 0.5]]], ["str", "label"], ["none"]]
            calls = []                                             # (arg specs, {name: spec})
            for _ in range(n_base):
                pick = lambda: self.specs[rng.choice(sub)] if rng.random() < 0.5 else rng.choice(small)  # noqa: E731
                A = [pick() for _ in range(rng.choice([1, 1, 2, 2, 3] if kind != "var" else [0, 1, 1, 2, 3]))]
                if kind == "opt":
                    A = A[:rng.choice([1, 2])]
                names = rng.sample(KW_NAMES if kind != "mixed" else KW_NAMES[2:], rng.choice([0, 1, 1, 2]))
                K = {n: pick() for n in names}
                if kind == "opt" and len(A) == 2:
                    K.pop("label", None)
                group = [(A, K)] + call_lookalikes(rng, A, K)
                rng.shuffle(group)
                group = group[:7] + [(A, K)]
                if len(K) > 1:
                    ns = list(K)
                    rng.shuffle(ns)
                    group.append((A, {n: K[n] for n in ns}))       # the same call, keywords in another order: a hit
                calls += group
            sig = None
            hits_simple, keys = None, None
            for cname, cache in self.caches() + [("recording", RecordingCache())]:
                log = []
                f = make_varfunc(kind, self.vals[d_b], log)
                sig = sig or inspect.signature(f)
                g = memoize(cache=cache)(f)
                stored, hits, made = [], [], []                    # made: the calls Python's binding accepts, in order
                keys_here = []
                for A, K in calls:
                    try:
                        args = [V.build(x) for x in A]
                        kwargs = {n: V.build(x) for n, x in K.items()}
                        ba = sig.bind(*args, **kwargs)
                        ba.apply_defaults()
                    except TypeError:
                        continue
                    eff = dict(ba.arguments)
                    case = {"kind": "memo-call", "cache": cname, "sig": kind, "default_b": self.specs[d_b], "args": A, "kwargs": K}
                    before = len(log)
                    marks = (len(cache.asked), len(cache.stored)) if cname == "recording" else None
                    try:
                        res = g(*args, **kwargs)
                    except Exception as e:  # noqa: BLE001
                        ctx.violation(case, f"memoized call raised {pfimport.exc_enum(e)}")
                        continue
                    made.append((A, K))
                    if marks is not None:
                        keys_here.append(cache.key_of_last_call(*marks))
                    ctx.record({"kind": "memo-call", "sig": kind, "args": A, "kwargs": K}, nontrivial=True)
                    if len(log) > before:
                        hits.append(False)
                        for A0, K0, _e0 in (stored if cname != "disk" else []):
                            if (len(A0) == len(args) and K0.keys() == K.keys() and all(V.py_same(V.build(x), y) for x, y in zip(A0, args))
                                    and all(V.py_same(V.build(K0[n]), kwargs[n]) for n in K)
                                    and (not _has_obj([A0, A, list(K0.values()), list(K.values())])
                                         or V.dumps([A0, [K0[n] for n in K]]) == V.dumps([A, [K[n] for n in K]]))):
                                ctx.violation({**case, "earlier": {"args": A0, "kwargs": K0}}, f"memoize({cname}) recomputed a call that passes "
                                              "the same values in the same way as a stored call (equal values, different keys)")
                                break
                        stored.append((A, K, eff))
                        continue
                    hits.append(True)
                    ctx.count(f"calls:varcall:{cname}:hit")
                    src = stored[res.n] if isinstance(res, Res) and res.n < len(stored) else None
                    if src is None or not self.same_eff(src[2], eff):
                        ctx.violation({**case, "stored_for": {"args": src[0], "kwargs": src[1]} if src else None,
                                       "a": _call_spec(A, K), "b": _call_spec(src[0], src[1]) if src else None},
                                      f"memoize({cname}) returned the result stored for a call with different effective arguments")
                    elif (len(src[0]), list(src[1])) != (len(A), list(K)):
                        ctx.count("calls:varcall:hit-across-keyword-order-or-passing-style")
                ctx.count(f"calls:varcall:{cname}:calls", len(made))
                if cname == "simple":
                    hits_simple, made_simple = hits, made
                if cname == "recording":
                    keys = keys_here
                    if made != made_simple:
                        keys = None
            self.model_varcalls(kind, made_simple, hits_simple, keys)
        return self

    def model_varcalls(self, kind, calls, hits, keys):
        ctx = self.ctx
        try:
            enc_calls = [([self.enc.enc(V.build(x)) for x in A], [(n, self.enc.enc(V.build(x))) for n, x in K.items()]) for A, K in calls]
        except Exception:  # noqa: BLE001   (a value outside the modelled fragment)
            ctx.count("calls:varcall:sequence-outside-model")
            return
        args = [{"k": "tuple", "x": [{"k": "tuple", "x": a}, {"k": "dict", "x": [{"k": "tuple", "x": [{"s": cp(n)}, v]} for n, v in k]}]}
                for a, k in enc_calls]

        def cb_memo(resp):
            if any(not isinstance(r, list) for r in resp):
                ctx.skip("memo-sequence-with-unspecified-key")
                return
            if [r[1] for r in resp] != hits:
                ctx.violation({"kind": "memo-call-model", "sig": kind, "calls": [{"args": A, "kwargs": K} for A, K in calls]},
                              "memoize hit pattern differs from the model's memo table over (args, kwargs)", found_input=False,
                              item="correspondence:memoize-calls", impl=hits, model=[r[1] for r in resp])
            ctx.count("calls:varcall:sequences-compared-with-model")
        self.reqs.append(({"m": "memo", "a": {"args": args}}, cb_memo))
        if keys is None:
            return
        mk = [{"args": a, "kwargs": [[cp(n), v] for n, v in k]} for a, k in enc_calls]

        def cb_keys(resp):
            for (A, K), (st, key), r in zip(calls, keys, resp):
                if "unspec" in r:
                    continue
                if st == "none" or ("err" in r) != (st == "exc") or (st == "ok" and not same_key_json(self.enc, key, r)):
                    ctx.violation({"kind": "memo-key-model", "sig": kind, "args": A, "kwargs": K}, "the key memoize hands to its cache differs "
                                  "from the model's memoKey = to_hashable((args, kwargs))", found_input=False,
                                  item="correspondence:memo-key", impl=repr(key)[:300], model=r)
            ctx.count("calls:varcall:keys-compared-with-model", len(calls))
        self.reqs.append(({"m": "memokeys", "a": {"calls": mk}}, cb_keys))

    def caches(self):
        return [("simple", SimpleCache()), ("lru", LRUCache(max_size=10_000, shared=False)),
                ("hybrid", HybridCache(max_size=10_000, shared=False)),
                ("disk", DiskCache(tempfile.mkdtemp(prefix="disk-", dir=self.tmp), with_lru_cache=False))]

    def model_memo(self, params, d_idx, calls, hits):
        ctx = self.ctx
        if any(self.pvs[i] is None for a, k in calls for i in list(a) + list(k.values())) or any(self.pvs[i] is None for i in d_idx.values()):
            ctx.count("calls:memoize:sequence-outside-model")
            return
        args = [{"k": "tuple", "x": [{"k": "tuple", "x": [self.pvs[i] for i in a]},
                                     {"k": "dict", "x": [{"k": "tuple", "x": [{"s": cp(n)}, self.pvs[i]]} for n, i in k.items()]}]}
                for a, k in calls]

        def cb_memo(resp):
            if any(not isinstance(r, list) for r in resp):
                ctx.skip("memo-sequence-with-unspecified-key")
                return
            if [r[1] for r in resp] != hits:
                ctx.violation({"kind": "memo-call-model", "params": params, "calls": [self.spec_call(a, k) for a, k in calls]},
                              "memoize hit pattern differs from the model's memo table over (args, kwargs)", found_input=False,
                              item="correspondence:memoize-calls", impl=hits, model=[r[1] for r in resp])
            ctx.count("calls:memoize:sequences-compared-with-model")
        self.reqs.append(({"m": "memo", "a": {"args": args}}, cb_memo))
        # the key itself and Python's binding, for a sample of the calls
        sample = calls[:12]
        mk = [{"args": [self.pvs[i] for i in a], "kwargs": [[cp(n), self.pvs[i]] for n, i in k.items()]} for a, k in sample]
        real = self.real_keys or [V.describe(to_hashable, (tuple(self.vals[i] for i in a), {n: self.vals[i] for n, i in k.items()})) for a, k in sample]

        def cb_keys(resp):
            for (a, k), (st, key), r in zip(sample, real, resp):
                if "unspec" in r:
                    continue
                if st == "none":
                    ctx.violation({"kind": "memo-key-model", **self.spec_call(a, k)}, "memoize did not hand any key to its cache for this call",
                                  found_input=False, item="correspondence:memo-key", model=r)
                    continue
                if ("err" in r) != (st == "exc") or (st == "ok" and not same_key_json(V.Encoder(), key, r)):
                    # encode with the shared NaN identities
                    if st == "ok" and "key" in r and same_key_json(self.enc, key, r):
                        continue
                    ctx.violation({"kind": "memo-key-model", **self.spec_call(a, k)}, "memoize's key differs from the model's memoKey",
                                  found_input=False, item="correspondence:memo-key", impl=repr(key)[:300], model=r)
            ctx.count("calls:memoize:keys-compared-with-model", len(sample))
        self.reqs.append(({"m": "memokeys", "a": {"calls": mk}}, cb_keys))

    # ------------------------------------------------------------------------------------------ argument binding
    def bind_stream(self, n):
        ctx, rng = self.ctx, self.rng
        modelled = [i for i in self.idx if self.pvs[i] is not None]
        if not modelled:
            return self
        cases, expect = [], []
        for _ in range(n):
            params, with_default = gen_signature(rng)
            d_idx = {p: rng.choice(modelled) for p in with_default}
            f = make_func(params, {p: self.vals[i] for p, i in d_idx.items()}, [])
            sig = inspect.signature(f)
            if rng.random() < 0.5:
                args_i, kw_i = gen_invalid(rng, params, len(modelled))
                args_i, kw_i = [modelled[i] for i in args_i], {k: modelled[i] for k, i in kw_i.items()}
            else:
                assign = {p: (None if p in with_default and rng.random() < 0.5 else rng.choice(modelled)) for p in params}
                (pos_names, kw_names), = passing_styles(rng, params, with_default, assign, 1)
                args_i, kw_i = [assign[p] for p in pos_names], {k: assign[k] for k in kw_names}
            try:
                ba = sig.bind(*[self.vals[i] for i in args_i], **{k: self.vals[i] for k, i in kw_i.items()})
                ba.apply_defaults()
                exp = [(k, id(v)) for k, v in ba.arguments.items()]
            except TypeError:
                exp = None
            ids = {id(self.vals[i]): i for i in modelled}
            cases.append({"params": [{"name": cp(p), **({"default": self.pvs[d_idx[p]]} if p in d_idx else {})} for p in params],
                          "args": [self.pvs[i] for i in args_i], "kwargs": [[cp(k), self.pvs[i]] for k, i in kw_i.items()]})
            expect.append((exp, ids, params, args_i, kw_i))

        def cb(resp):
            for r, (exp, ids, params, args_i, kw_i) in zip(resp, expect):
                ctx.count("calls:bind:rejected" if exp is None else "calls:bind:bound")
                if exp is None:
                    ok = "rejected" in r
                else:
                    ok = "bound" in r and [b[0] for b in r["bound"]] == [cp(k) for k, _ in exp] and all(
                        V.dumps(b[1]) == V.dumps(self.pvs[ids[v]]) for b, (_, v) in zip(r["bound"], exp))
                if not ok:
                    ctx.violation({"kind": "bind-model", "params": params, **self.spec_call(args_i, kw_i)},
                                  "the model's bindArgs differs from inspect.Signature.bind (the model of 'effective arguments' is wrong)",
                                  found_input=False, item="correspondence:bind", impl=str(exp)[:200], model=r)
        self.reqs.append(({"m": "bind", "a": {"calls": cases}}, cb))
        return self

    def bindsig_stream(self, n):
        """`bindSig` (Model/HashableCalls.lean) against `inspect.Signature.bind` for signatures with `*args` / `**kwargs`"""
        ctx, rng = self.ctx, self.rng
        modelled = [i for i in self.idx if self.pvs[i] is not None]
        if not modelled:
            return self
        cases, expect = [], []
        for _ in range(n):
            params = ["a", "b"][:rng.randint(0, 2)]
            with_default = params[len(params) - rng.randint(0, len(params)):]
            vp, vk = rng.random() < 0.6, rng.random() < 0.6
            d_idx = {p: rng.choice(modelled) for p in with_default}
            ns = {f"_d_{p}": self.vals[i] for p, i in d_idx.items()}
            parts = [f"{p}=_d_{p}" if p in d_idx else p for p in params] + (["*args"] if vp else []) + (["**kwargs"] if vk else [])
            exec(f"def f({', '.join(parts)}):\n    pass\n", ns)  # noqa: S102
            sig = inspect.signature(ns["f"])
            args_i = [rng.choice(modelled) for _ in range(rng.choice([0, 1, 1, 2, 3, 4]))]
            kw_i = {k: rng.choice(modelled) for k in rng.sample(["a", "b", "c", "z"], rng.choice([0, 0, 1, 2, 3]))}
            ids = {id(self.vals[i]): i for i in modelled}
            try:
                ba = sig.bind(*[self.vals[i] for i in args_i], **{k: self.vals[i] for k, i in kw_i.items()})
                ba.apply_defaults()
                exp = ([(p, id(ba.arguments[p])) for p in params], [id(x) for x in ba.arguments.get("args", ())],
                       [(k, id(v)) for k, v in ba.arguments.get("kwargs", {}).items()])
            except TypeError:
                exp = None
            cases.append({"params": [{"name": cp(p), **({"default": self.pvs[d_idx[p]]} if p in d_idx else {})} for p in params],
                          "vp": vp, "vk": vk, "args": [self.pvs[i] for i in args_i], "kwargs": [[cp(k), self.pvs[i]] for k, i in kw_i.items()]})
            expect.append((exp, ids, parts, args_i, kw_i))

        def cb(resp):
            for r, (exp, ids, parts, args_i, kw_i) in zip(resp, expect):
                ctx.count("calls:bindsig:rejected" if exp is None else "calls:bindsig:bound")
                if exp is None:
                    ok = "rejected" in r
                else:
                    pv = lambda v: V.dumps(self.pvs[ids[v]])  # noqa: E731
                    ok = ("bound" in r and [[b[0], V.dumps(b[1])] for b in r["bound"]] == [[cp(k), pv(v)] for k, v in exp[0]]
                          and [V.dumps(x) for x in r["star"]] == [pv(v) for v in exp[1]]
                          and [[b[0], V.dumps(b[1])] for b in r["kw"]] == [[cp(k), pv(v)] for k, v in exp[2]])
                if not ok:
                    ctx.violation({"kind": "bind-model", "params": parts, **self.spec_call(args_i, kw_i)},
                                  "the model's bindSig differs from inspect.Signature.bind (the model of 'effective arguments' is wrong)",
                                  found_input=False, item="correspondence:bindsig", impl=str(exp)[:200], model=r)
        self.reqs.append(({"m": "bindsig", "a": {"calls": cases}}, cb))
        return self

    # ------------------------------------------------------------------------------------------ compute_cache_key
    def pipekey_stream(self, n_groups, n_per):
        ctx, rng = self.ctx, self.rng
        for _ in range(n_groups):
            self.new_sub()
            outs = [rng.choice(["y", "z", ("y", "z")]) for _ in range(2)]
            calls, real = [], []
            base = {p: rng.choice(self.sub) for p in NAMES}
            for _c in range(n_per):
                out = rng.choice(outs)
                roots = rng.choice([["a"], ["a", "b"], ["b", "a"], ["a", "b", "c"], []])
                kw_i = dict(base)
                for p in NAMES:
                    r = rng.random()
                    if r < 0.25:
                        kw_i[p] = rng.choice(self.idx)
                    elif r < 0.33:
                        kw_i.pop(p)
                names = list(kw_i)
                rng.shuffle(names)
                kw_i = {k: kw_i[k] for k in names}
                st, key = V.describe(lambda kw, o=out, r=roots: compute_cache_key(o, kw, tuple(r)), {k: self.vals[i] for k, i in kw_i.items()})
                calls.append((out, roots, kw_i))
                real.append((st, key))
            for x in range(len(calls)):
                ox, rx, kx = calls[x]
                stx, keyx = real[x]
                case_x = {"kind": "pipe-key", "out": ox, "roots": rx, "kwargs": {k: self.specs[i] for k, i in kx.items()}}
                if stx != "ok":
                    ctx.violation({**case_x, "exc": keyx, "a": ["dict", [[["str", k], self.specs[i]] for k, i in kx.items()]]},
                                  f"compute_cache_key raised {keyx}", impl=keyx)
                    continue
                if keyx is None:
                    ctx.count("calls:pipekey:none")
                    if all(r in kx for r in rx):
                        ctx.violation(case_x, "compute_cache_key returned None although every root argument was supplied")
                    continue
                if not all(r in kx for r in rx):
                    ctx.violation(case_x, "compute_cache_key returned a key although a root argument is missing")
                    continue
                try:
                    hash(keyx)
                except Exception as e:  # noqa: BLE001
                    ctx.violation({**case_x, "kind": "unhashable-key", "a": ["list", [self.specs[kx[r]] for r in rx]]},
                                  f"compute_cache_key returned an unhashable key ({type(e).__name__})", impl=repr(keyx)[:300])
                    continue
                for y in range(x + 1, len(calls)):
                    oy, ry, ky = calls[y]
                    sty, keyy = real[y]
                    if sty != "ok" or keyy is None or not all(r in ky for r in ry):
                        continue
                    ctx.record({"kind": "pipe-key-pair", "a": case_x, "b": [oy, ry, {k: self.specs[i] for k, i in ky.items()}]}, nontrivial=True)
                    same = ox == oy and rx == ry and all(self.same(kx[r], ky[r]) for r in rx)
                    refl = all(self.same(kx[r], kx[r]) and self.same(ky[r], ky[r]) for r in rx if r in ky)
                    eqk = V.keq(keyx, keyy)
                    if eqk:
                        ctx.count("calls:pipekey:equal-keys")
                    same_exp = same and all(self.same_key_expected(kx[r], ky[r]) for r in rx)     # (pickle digests: see same_key_expected)
                    if ((eqk and not same) or (not eqk and same_exp)) and refl:
                        ctx.violation({**case_x, "other": {"out": oy, "roots": ry, "kwargs": {k: self.specs[i] for k, i in ky.items()}},
                                       **({"a": ["list", [self.specs[kx[r]] for r in rx]], "b": ["list", [self.specs[ky[r]] for r in ry]]}
                                          if eqk and ox == oy and rx == ry else {})},
                                      "compute_cache_key: " + ("equal keys for calls that differ in output name, root arguments or a root value"
                                                               if eqk else "different keys for the same output and the same root values"),
                                      impl=[repr(keyx)[:200], repr(keyy)[:200]])
            # the model
            mod = [x for x in range(len(calls)) if all(self.pvs[i] is not None for i in calls[x][2].values())]
            if mod:
                req = [{"out": self.enc_out(calls[x][0]), "roots": [cp(r) for r in calls[x][1]],
                        "kwargs": [[cp(k), self.pvs[i]] for k, i in calls[x][2].items()]} for x in mod]

                def cb(resp, mod=mod, calls=calls, real=real):
                    for x, r in zip(mod, resp):
                        st, key = real[x]
                        if "unspec" in r:
                            continue
                        ok = (("err" in r and st == "exc") or ("nokey" in r and st == "ok" and key is None)
                              or ("key" in r and st == "ok" and key is not None and same_key_json(self.enc, key, r)))
                        if not ok:
                            ctx.violation({"kind": "pipe-key-model", "out": calls[x][0], "roots": calls[x][1],
                                           "kwargs": {k: self.specs[i] for k, i in calls[x][2].items()}},
                                          "compute_cache_key differs from the model's pipeKey", found_input=False,
                                          item="correspondence:pipe-key", impl=repr(key)[:300], model=r)
                    ctx.count("calls:pipekey:compared-with-model", len(mod))
                self.reqs.append(({"m": "pipekeys", "a": {"calls": req}}, cb))
        return self

    @staticmethod
    def enc_out(out):
        if isinstance(out, tuple):
            return {"k": "tuple", "x": [{"s": cp(o)} for o in out]}
        return {"s": cp(out)}

    # ------------------------------------------------------------------------------------------ Pipeline.__call__
    def pipeline_stream(self, n_pipes, n_calls):  # noqa: C901, PLR0912
        ctx, rng = self.ctx, self.rng
        for pi in range(n_pipes):
            self.new_sub()
            ctype = ["simple", "lru", "hybrid", "disk"][pi % 4]
            two = rng.random() < 0.5
            # `_func_defaults` asserts `default == pipeline_default`: a default whose `==` is not a bool (ndarray, Series) makes every
            # cached call raise ValueError — a defect outside C15 (nothing to do with keys); such defaults are not generated
            plain = [i for i in self.idx if plain_eq(self.vals[i])]
            if not plain:
                continue
            d_i = rng.choice(plain)
            log1, log2 = [], []
            f1 = make_func(["a", "b"], {"b": self.vals[d_i]}, log1)
            funcs = [PipeFunc(f1, "y", cache=True)]
            if two:
                g = make_func(["y", "c"], {}, log2)
                funcs.append(PipeFunc(g, "z", cache=True))
            ckw = {"cache_dir": tempfile.mkdtemp(prefix="pdisk-", dir=self.tmp), "with_lru_cache": False} if ctype == "disk" else (
                {"max_size": 10_000} if ctype in ("lru", "hybrid") else None)
            try:
                p = Pipeline(funcs, cache_type=ctype, cache_kwargs=ckw)
            except Exception as e:  # noqa: BLE001
                ctx.skip(f"pipeline-construction:{type(e).__name__}")
                continue
            out = "z" if two else "y"
            log = log2 if two else log1
            try:
                roots = list(p.root_args(out))
            except Exception as e:  # noqa: BLE001
                ctx.skip(f"pipeline-root-args:{type(e).__name__}")
                continue
            sub = self.sub
            stored, hits, model_calls = [], [], []
            for _c in range(n_calls):
                kw_i = {"a": rng.choice(sub if rng.random() < 0.8 else self.idx)}
                r = rng.random()
                if r < 0.3:
                    kw_i["b"] = d_i                               # the default, given explicitly
                elif r < 0.45:
                    kw_i["b"] = rng.choice(sub)
                if two:
                    kw_i["c"] = rng.choice(sub[:2])
                names = list(kw_i)
                rng.shuffle(names)
                kw_i = {k: kw_i[k] for k in names}
                eff = {"a": kw_i["a"], "b": kw_i.get("b", d_i), **({"c": kw_i["c"]} if two else {})}
                # what `_run` passes to compute_cache_key: the defaults of the *cached function* | the supplied arguments.  For `z` the
                # default of `b` belongs to the upstream function: a call that relies on it has no key and is never cached (a missed
                # hit, not a wrong result: outside the property)
                seen = dict(kw_i) if two else {"b": d_i, **kw_i}
                keyed = all(r in seen for r in roots)
                case = {"kind": "pipeline-call", "cache": ctype, "two": two, "out": out, "default_b": self.specs[d_i],
                        "kwargs": {k: self.specs[i] for k, i in kw_i.items()}}
                before = len(log)
                try:
                    res = p(out, **{k: self.vals[i] for k, i in kw_i.items()})
                except Exception as e:  # noqa: BLE001
                    ctx.violation(case, f"cached pipeline call raised {pfimport.exc_enum(e)}")
                    hits.append(None)
                    model_calls.append(None)
                    continue
                ctx.record(case, nontrivial=True)
                model_calls.append(seen)
                if not keyed:
                    ctx.count("calls:pipeline:no-key-upstream-default")
                if len(log) > before:
                    for _n, e0 in stored:
                        if keyed and ctype != "disk" and all(self.same_key_expected(e0[k], eff[k]) for k in eff):
                            ctx.violation({**case, "earlier": {k: self.specs[i] for k, i in e0.items()}},
                                          f"pipeline cache ({ctype}) recomputed a call with the same root values as a stored call")
                            break
                    if keyed:
                        stored.append((len(log) - 1, eff))
                    hits.append(False)
                    continue
                hits.append(True)
                ctx.count(f"calls:pipeline:{ctype}:hit")
                src = next((e0 for n, e0 in stored if isinstance(res, Res) and n == res.n), None)
                if src is None or not all(self.same(src[k], eff[k]) for k in eff):
                    ctx.violation({**case, "stored_for": {k: self.specs[i] for k, i in src.items()} if src else None,
                                   "a": ["dict", [[["str", k], self.specs[i]] for k, i in sorted(eff.items())]],
                                   "b": ["dict", [[["str", k], self.specs[i]] for k, i in sorted(src.items())]] if src else None},
                                  f"pipeline cache ({ctype}) returned the result stored for different root values")
            ctx.count(f"calls:pipeline:{ctype}:calls", n_calls)
            if ctype != "disk" and all(e is not None and all(self.pvs[i] is not None for i in e.values()) for e in model_calls) and model_calls:
                req = [{"out": {"s": cp(out)}, "roots": [cp(r) for r in roots], "kwargs": [[cp(k), self.pvs[i]] for k, i in e.items()]}
                       for e in model_calls]

                def cb(resp, hits=hits, model_calls=model_calls, ctype=ctype, out=out):
                    if any(not isinstance(r, list) for r in resp):
                        ctx.skip("pipeline-sequence-with-unspecified-key")
                        return
                    if [r[1] for r in resp] != hits:
                        ctx.violation({"kind": "pipeline-model", "cache": ctype, "out": out,
                                       "calls": [{k: self.specs[i] for k, i in e.items()} for e in model_calls]},
                                      "pipeline cache hit pattern differs from the model's PCache", found_input=False,
                                      item="correspondence:pipeline-cache", impl=hits, model=[r[1] for r in resp])
                    ctx.count("calls:pipeline:sequences-compared-with-model")
                self.reqs.append(({"m": "pcache", "a": {"calls": req}}, cb))
        return self

    # ------------------------------------------------------------------------------------------ Pipeline.map
    def map_stream(self, n_maps, n_elems):
        import numpy as np
        ctx, rng = self.ctx, self.rng
        for mi in range(n_maps):
            ctype = ["simple", "lru", "hybrid"][mi % 3]
            log = []
            f = make_func(["a", "b"], {}, log)
            log_w = []
            f_w = make_func(["a", "b"], {}, log_w)             # a second cached function of the SAME arguments: the key must tell them apart
            try:
                p = Pipeline([PipeFunc(f, "y", mapspec="a[i] -> y[i]", cache=True), PipeFunc(f_w, "w", mapspec="a[i] -> w[i]", cache=True)],
                             cache_type=ctype, cache_kwargs={"max_size": 10_000} if ctype != "simple" else None)
            except Exception as e:  # noqa: BLE001
                ctx.skip(f"map-pipeline-construction:{type(e).__name__}")
                continue
            sub = rng.sample(self.idx, min(len(self.idx), max(3, n_elems // 3)))
            el = [rng.choice(sub) for _ in range(n_elems)]
            if mi % 3 == 0:
                el = el[:-3] + self.big
            b_i = rng.choice(self.idx)
            arr = np.empty(len(el), dtype=object)
            for k, i in enumerate(el):
                arr[k] = self.vals[i]
            case = {"kind": "map-cache", "cache": ctype, "a": [self.specs[i] for i in el], "b": self.specs[b_i]}
            try:
                r = p.map({"a": arr, "b": self.vals[b_i]}, parallel=False, storage="dict", show_progress=False)
                ns = [x.n for x in r["y"].output]
            except Exception as e:  # noqa: BLE001
                ctx.violation(case, f"map with a cache raised {pfimport.exc_enum(e)}")
                continue
            ctx.record(case, nontrivial=True)
            try:
                ys, ws = list(r["y"].output), list(r["w"].output)
                if any(w is y for w in ws for y in ys):
                    ctx.violation({**case, "outputs": ["y", "w"]}, f"map cache ({ctype}) returned for one function the result stored for another "
                                  "function called with the same arguments")
                elif len(log_w) == 0 and ws:
                    ctx.violation({**case, "outputs": ["y", "w"]}, f"map cache ({ctype}): the second function was never computed")
            except Exception as e:  # noqa: BLE001
                ctx.violation(case, f"map with a cache: reading the outputs raised {pfimport.exc_enum(e)}")
                continue
            first = {}
            for k, n in enumerate(ns):
                if n not in first:
                    first[n] = k
                    for n0, k0 in first.items():
                        if n0 != n and self.same_key_expected(el[k0], el[k]):
                            ctx.violation({**case, "i": k0, "j": k}, f"map cache ({ctype}) recomputed an element equal to an earlier one")
                    continue
                ctx.count(f"calls:map:{ctype}:hit")
                if not self.same(el[first[n]], el[k]):
                    ctx.violation({**case, "i": first[n], "j": k}, f"map cache ({ctype}) returned the result stored for a different element value")
            if all(self.pvs[i] is not None for i in el + [b_i]):
                req = [{"out": {"s": cp("y")}, "kwargs": [[cp("a"), self.pvs[i]], [cp("b"), self.pvs[b_i]]]} for i in el]

                def cb(resp, ns=ns, case=case):
                    if any("key" not in r for r in resp):
                        return
                    ks = [V.dumps(V.norm_fresh(r["key"])) for r in resp]
                    for x in range(len(ks)):
                        for y in range(x + 1, len(ks)):
                            if (ks[x] == ks[y]) != (ns[x] == ns[y]):
                                ctx.violation({**case, "i": x, "j": y}, "map cache hit pattern differs from the model's mapKey equalities",
                                              found_input=False, item="correspondence:map-cache", impl=ns)
                                return
                    ctx.count("calls:map:compared-with-model")
                self.reqs.append(({"m": "mapkeys", "a": {"calls": req}}, cb))
        return self
