"""C09: argument values with REPRESENTATION FREEDOM ("equal arguments" that are not the same object / not built the same way).

The property's second clause speaks of "a repeated call with equal arguments".  Python values that are equal (`==`) can be
built in ways the cache key computation could tell apart: a dict / defaultdict / Counter with another key insertion order,
a set filled in another order (iteration order differs when elements collide), containers nesting those, and separately
built equal lists / tuples / arrays.  The key (`to_hashable`) must not depend on any of that, or a resident entry is missed.

A *rich value* is a JSON description of HOW a value is built:
    {"dict": [[k, v], ...]}      a dict, keys inserted in the order written (keys: all str or all int)
    {"ddict": [[k, v], ...]}     a collections.defaultdict(list) filled in that order
    {"counter": [[k, n], ...]}   a collections.Counter filled in that order
    {"set": [i, ...]}            a set of ints, added in that order
    {"list": [v, ...]} / {"tuple": [v, ...]} / {"nd": [v, ...]}   a list / tuple / 1-D object ndarray
    {"nd2": [[v, v], [v, v]], "order": "C" | "F"}   a 2-D object ndarray in C or Fortran memory layout
    anything else                a plain value of harness/terms.py (`terms.dec`)
`dec` builds the object, `abstract` gives the `PF.Val` JSON the Lean model gets for it (the abstract VALUE: two rich values
have the same abstraction iff the Python objects are equal and of the same type, for everything `wrap` generates), `canon`
normalises a value coming back from the model to what `terms.enc` yields on the implementation side.
The generated user functions see the objects through `terms.freeze` (a dict becomes the term `$dict` of its sorted items),
so equal arguments give equal results whatever their representation.
"""
from __future__ import annotations

import collections
import copy

import numpy as np

import terms

RICH_KEYS = ("dict", "ddict", "counter", "set", "list", "tuple", "nd", "nd2")


def is_rich(j):
    return isinstance(j, dict) and any(k in j for k in RICH_KEYS)


def dec(j):
    """rich JSON → the Python object, built exactly as described"""
    if isinstance(j, dict):
        if "dict" in j:
            d = {}
            for k, v in j["dict"]:
                d[k] = dec(v)
            return d
        if "ddict" in j:
            d = collections.defaultdict(list)
            for k, v in j["ddict"]:
                d[k] = dec(v)
            return d
        if "counter" in j:
            c = collections.Counter()
            for k, n in j["counter"]:
                c[k] = n
            return c
        if "set" in j:
            s = set()
            for x in j["set"]:
                s.add(x)
            return s
        if "list" in j:
            return [dec(x) for x in j["list"]]
        if "tuple" in j:
            return tuple(dec(x) for x in j["tuple"])
        if "nd" in j:
            a = np.empty(len(j["nd"]), dtype=object)
            for i, x in enumerate(j["nd"]):
                a[i] = dec(x)
            return a
        if "nd2" in j:
            # a 2-D object ndarray given by its rows, in C or Fortran memory layout (the VALUE is the same in both layouts)
            rows = j["nd2"]
            a = np.empty((len(rows), len(rows[0])), dtype=object)
            for r, row in enumerate(rows):
                for c, x in enumerate(row):
                    a[r, c] = dec(x)
            return np.asfortranarray(a) if j.get("order") == "F" else a
        if "arr" in j:
            shape, elems = j["arr"]
            a = np.empty(len(elems), dtype=object)
            for i, e in enumerate(elems):
                a[i] = dec(e)
            return a.reshape(shape)
    return terms.dec(j)


def enc(v):
    """`terms.enc` of what a generated function sees of the value (a raw dict is encoded like the `$dict` term inside results)"""
    return terms.enc(terms.freeze(v))


def _key_to_str(k):
    return ("i:" + str(k)) if isinstance(k, int) and not isinstance(k, bool) else ("s:" + str(k))


def _key_from_str(s):
    return int(s[2:]) if s.startswith("i:") else s[2:]


def to_val(e):
    """`terms.enc` form → JSON of `PF.Val` (the Lean codec knows no dict: a dict is the call `$dict(k=v, …)`)"""
    if isinstance(e, dict):
        if "dict" in e:
            return {"f": "$dict", "k": [[_key_to_str(k), to_val(v)] for k, v in e["dict"]]}
        if "opaque" in e:
            return {"s": "$opaque:" + e["opaque"]}
        if "f" in e:
            return {"f": e["f"], "k": [[k, to_val(v)] for k, v in e["k"]]}
        if "arr" in e:
            return {"arr": [e["arr"][0], [to_val(x) for x in e["arr"][1]]]}
        if "pick" in e:
            return {"pick": [to_val(e["pick"][0]), e["pick"][1]]}
        if "proj" in e:
            return {"proj": [to_val(e["proj"][0]), e["proj"][1]]}
    return e


def from_val(j):
    """inverse of `to_val` on canonicalised model values"""
    if isinstance(j, dict):
        if j.get("f") == "$dict" and "k" in j:
            items = [[_key_from_str(k), from_val(v)] for k, v in j["k"]]
            return {"dict": sorted(items, key=lambda kv: kv[0])}
        if "s" in j and isinstance(j["s"], str) and j["s"].startswith("$opaque:"):
            return {"opaque": j["s"][len("$opaque:"):]}
        if "f" in j:
            return {"f": j["f"], "k": [[k, from_val(v)] for k, v in j["k"]]}
        if "arr" in j:
            return {"arr": [j["arr"][0], [from_val(x) for x in j["arr"][1]]]}
        if "pick" in j:
            return {"pick": [from_val(j["pick"][0]), j["pick"][1]]}
        if "proj" in j:
            return {"proj": [from_val(j["proj"][0]), j["proj"][1]]}
    return j


def abstract(j):
    """The abstract value of a (rich or plain) value JSON, as `PF.Val` JSON: what a generated function sees of it."""
    if not _has_rich(j):
        return j
    return to_val(terms.enc(terms.freeze(dec(j))))


def _has_rich(j):
    if isinstance(j, dict):
        if is_rich(j):
            return True
        return any(_has_rich(v) for v in j.values())
    if isinstance(j, list):
        return any(_has_rich(v) for v in j)
    return False


def abstract_deep(j):
    """Replace every rich value inside a JSON structure (a case, a request) by its abstraction."""
    if isinstance(j, dict):
        if is_rich(j):
            return abstract(j)
        return {k: abstract_deep(v) for k, v in j.items()}
    if isinstance(j, list):
        return [abstract_deep(v) for v in j]
    return j


def canon(j):
    """model value JSON → the canonical form `terms.enc` produces on the implementation side"""
    return from_val(terms.canon(j))


def abstract_kw(kw):
    return [[k, abstract(v)] for k, v in kw]


def abstract_call(call):
    return dict(call, kw=abstract_kw(call["kw"]))


def abstract_history(history):
    return [({"call": abstract_call(s["call"])} if "call" in s else s) for s in history]


def call_key(call):
    """equality of calls up to the order of the keywords and the representation of the values"""
    out = call["out"]
    return repr((out if isinstance(out, str) else list(out), sorted((k, repr(abstract(v))) for k, v in call["kw"]), bool(call["full"])))


# ---------------------------------------------------------------------------------------------- generation
#  kind → number of representation variants.  `wrap(kind, tag, variant)` are equal Python objects for every variant.
KINDS = {"dict2": 2, "dict3": 6, "dictint": 2, "nested": 4, "listdict": 2, "tupledict": 2, "ddict": 2, "counter": 2, "setdict": 2,
         "list": 1, "nd": 1, "nd2": 4}
# `nd2` is the one kind whose variants come in TWO values: variants 0 and 2 are the same 2 x 2 array in C and in Fortran layout (equal
# arguments: the resident entry must be used), variants 1 and 3 are its transposed CONTENT in Fortran and C layout - variant 1 has the same
# memory image, shape and dtype as variant 0 but is another value (a key read off the memory image instead of the logical order confuses the
# two: seeded change C09-s4-A, `ravel(order="K")`).  `abstract` gives each its own value, so the model and `call_key` keep them apart.


def _perm(items, variant):
    import itertools
    ps = list(itertools.permutations(items))
    return [list(x) if isinstance(x, (list, tuple)) else x for x in ps[variant % len(ps)]]


def wrap(kind, tag, variant):
    """A rich value carrying the plain value `tag` (so that two different tags never give equal objects)."""
    tag = copy.deepcopy(tag)
    if kind == "dict2":
        return {"dict": _perm([["lo", tag], ["hi", 7]], variant)}
    if kind == "dict3":
        return {"dict": _perm([["a", tag], ["b", 1], ["c", {"s": "z"}]], variant)}
    if kind == "dictint":
        return {"dict": _perm([[1, tag], [9, 0]], variant)}
    if kind == "nested":
        inner = {"dict": _perm([["x", 1], ["y", tag]], variant // 2)}
        return {"dict": _perm([["cfg", inner], ["n", 3]], variant)}
    if kind == "listdict":
        return {"list": [tag, {"dict": _perm([["p", 1], ["q", 2]], variant)}]}
    if kind == "tupledict":
        return {"tuple": [{"dict": _perm([["p", tag], ["q", 2]], variant)}, 5]}
    if kind == "ddict":
        return {"ddict": _perm([["lo", tag], ["hi", 7]], variant)}
    if kind == "counter":
        # the tag is a string (hashable): it is a KEY of the counter
        key = tag["s"] if isinstance(tag, dict) and "s" in tag else "k"
        return {"counter": _perm([[key, 2], ["zz", 1]], variant)}
    if kind == "setdict":
        # 1 and 9 collide in a set's table of 8 slots: the iteration order of {1, 9} is the insertion order
        return {"dict": [["tag", tag], ["members", {"set": _perm([1, 9], variant)}]]}
    if kind == "list":
        return {"list": [tag, 1]}
    if kind == "nd":
        return {"nd": [tag, 1]}
    if kind == "nd2":
        rows = [[tag, 1], [2, 3]] if variant % 2 == 0 else [[tag, 2], [1, 3]]
        return {"nd2": rows, "order": "F" if variant in (1, 2) else "C"}
    raise ValueError(kind)


def pick_styles(rng, names, p_rich=0.6, kinds=None):
    """parameter name → kind (absent = plain) for one case"""
    kinds = list(kinds or KINDS)
    return {n: rng.choice(kinds) for n in sorted(names) if rng.random() < p_rich}


def richify_calls(rng, history, styles=None, p_rich=0.6, kinds=None, shuffle_kw=True):
    """Replace the plain values of the calls of a history by rich values of a per-parameter kind, every occurrence in a
    representation of its own, and put the keywords of a call in a random order.  Returns (history, styles)."""
    names = {k for s in history if "call" in s for k, _ in s["call"]["kw"]}
    styles = pick_styles(rng, names, p_rich, kinds) if styles is None else styles
    out = []
    for s in history:
        if "call" not in s:
            out.append(s)
            continue
        c = copy.deepcopy(s["call"])
        c["kw"] = [[k, wrap(styles[k], v, rng.randrange(KINDS[styles[k]])) if k in styles and not _has_rich(v) else v] for k, v in c["kw"]]
        if shuffle_kw:
            rng.shuffle(c["kw"])
        out.append({"call": c})
    return out, styles


def wrap_array(kind, arr_json, variants):
    """Wrap every element of an `{"arr": [shape, elems]}` JSON; element i gets representation `variants[i % len(variants)]`."""
    shape, elems = arr_json["arr"]
    return {"arr": [shape, [wrap(kind, e, variants[i % len(variants)]) for i, e in enumerate(elems)]]}
