import PfModel.Lemmas.Hashable
/-!
Whole-run facts about the memo table of `Model/Hashable.lean` (`Memo.run` from a table satisfying `Memo.Inv`): the
invariant is established by the empty table and kept by every call, a hit is traced back to the earlier MISS that
computed the result, results of real calls are fresh, and a later call with the same value hits.  Core Lean only.
-/
namespace PF.Hashable

theorem Memo.inv_empty : Memo.Inv {} := by
  intro e he; cases he

/-- the two ways a call can succeed -/
theorem Memo.call_cases {m m' : Memo} {a : PV} {r : Nat} {hit : Bool} (h : m.call a = .ok (r, hit, m')) :
    (hit = true ∧ m' = m ∧ ∃ k a0, key true a = .ok k ∧ Memo.lookup k m.entries = some (a0, r)) ∨
    (hit = false ∧ r = m.calls ∧ ∃ k, key true a = .ok k ∧ Memo.lookup k m.entries = none ∧
      m' = { entries := (k, a, m.calls) :: m.entries, calls := m.calls + 1 }) := by
  unfold Memo.call at h
  cases hk : key true a with
  | error e => rw [hk] at h; cases h
  | ok k =>
    rw [hk] at h
    simp only at h
    cases hl : Memo.lookup k m.entries with
    | some p =>
      obtain ⟨a0, r0⟩ := p
      rw [hl] at h; cases h; exact .inl ⟨rfl, rfl, k, a0, rfl, hl⟩
    | none =>
      rw [hl] at h; cases h
      exact .inr ⟨rfl, rfl, k, rfl, hl, rfl⟩

theorem Memo.call_error {m : Memo} {a : PV} {e : Err} (h : m.call a = .error e) : key true a = .error e := by
  unfold Memo.call at h
  cases hk : key true a with
  | error e' => rw [hk] at h; cases h; rfl
  | ok k =>
    rw [hk] at h
    simp only at h
    cases hl : Memo.lookup k m.entries with
    | some p => obtain ⟨a0, r0⟩ := p; rw [hl] at h; cases h
    | none => rw [hl] at h; cases h

theorem Memo.call_inv {m m' : Memo} {a : PV} {r : Nat} {hit : Bool} (hi : m.Inv) (h : m.call a = .ok (r, hit, m')) :
    m'.Inv := by
  rcases Memo.call_cases h with ⟨_, e, _⟩ | ⟨_, _, k, hk, _, e⟩
  · rw [e]; exact hi
  · rw [e]
    intro x hx
    cases hx with
    | head => exact hk
    | tail _ hx => exact hi x hx

theorem Memo.run_cons_ok {m m' : Memo} {a : PV} {as : List PV} {r : Nat} {hit : Bool} (h : m.call a = .ok (r, hit, m')) :
    Memo.run m (a :: as) = some (r, hit) :: Memo.run m' as := by
  simp only [Memo.run, h]

theorem Memo.run_cons_error {m : Memo} {a : PV} {as : List PV} {e : Err} (h : m.call a = .error e) :
    Memo.run m (a :: as) = none :: Memo.run m as := by
  simp only [Memo.run, h]

theorem Memo.run_length : ∀ (as : List PV) (m : Memo), (Memo.run m as).length = as.length
  | [], m => by simp [Memo.run]
  | a :: as, m => by
    cases hc : m.call a with
    | error e => rw [Memo.run_cons_error hc]; simp [Memo.run_length as m]
    | ok p => obtain ⟨r, hit, m'⟩ := p; rw [Memo.run_cons_ok hc]; simp [Memo.run_length as m']

/-- A hit in a run started from a table satisfying the invariant returns the result of an entry that was in the table at the
    start, or the result computed by an earlier call of the run (a miss) whose argument is the same value. -/
theorem Memo.run_sound : ∀ (as : List PV) (m : Memo), m.Inv → ∀ (j r : Nat),
    (Memo.run m as)[j]? = some (some (r, true)) →
    ∃ b, as[j]? = some b ∧ ((∃ k a, (k, a, r) ∈ m.entries ∧ Equiv b a) ∨
      (∃ i a, i < j ∧ as[i]? = some a ∧ (Memo.run m as)[i]? = some (some (r, false)) ∧ Equiv b a))
  | [], m, _, j, r, h => by simp [Memo.run] at h
  | a :: as, m, hi, j, r, h => by
    cases hc : m.call a with
    | error e =>
      rw [Memo.run_cons_error hc] at h ⊢
      cases j with
      | zero => simp at h
      | succ j =>
        simp only [List.getElem?_cons_succ] at h ⊢
        obtain ⟨b, hb, hh⟩ := Memo.run_sound as m hi j r h
        refine ⟨b, hb, ?_⟩
        rcases hh with hh | ⟨i, a', hij, hai, hri, he⟩
        · exact .inl hh
        · exact .inr ⟨i + 1, a', by omega, by simpa using hai, by simpa using hri, he⟩
    | ok p =>
      obtain ⟨r0, hit, m'⟩ := p
      have hi' := Memo.call_inv hi hc
      rw [Memo.run_cons_ok hc] at h ⊢
      rcases Memo.call_cases hc with ⟨e1, e2, k, a0, hk, hl⟩ | ⟨e1, e2, k, hk, hl, e3⟩
      · subst e1; subst e2
        cases j with
        | zero =>
          simp only [List.getElem?_cons_zero, Option.some.injEq, Prod.mk.injEq, and_true] at h
          subst h
          have hm := Memo.lookup_some hl
          exact ⟨a, by simp, .inl ⟨k, a0, hm, key_injective a a0 k hk (hi _ hm)⟩⟩
        | succ j =>
          simp only [List.getElem?_cons_succ] at h ⊢
          obtain ⟨b, hb, hh⟩ := Memo.run_sound as m' hi j r h
          refine ⟨b, hb, ?_⟩
          rcases hh with hh | ⟨i, a', hij, hai, hri, he⟩
          · exact .inl hh
          · exact .inr ⟨i + 1, a', by omega, by simpa using hai, by simpa using hri, he⟩
      · subst e1
        cases j with
        | zero => simp at h
        | succ j =>
          simp only [List.getElem?_cons_succ] at h ⊢
          obtain ⟨b, hb, hh⟩ := Memo.run_sound as m' hi' j r h
          refine ⟨b, hb, ?_⟩
          rcases hh with ⟨k', a', hm, he⟩ | ⟨i, a', hij, hai, hri, he⟩
          · rw [e3] at hm
            cases hm with
            | head => exact .inr ⟨0, a, by omega, by simp, by simp [e2], he⟩
            | tail _ hm => exact .inl ⟨k', a', hm, he⟩
          · exact .inr ⟨i + 1, a', by omega, by simpa using hai, by simpa using hri, he⟩

theorem Memo.call_calls_le {m m' : Memo} {a : PV} {r : Nat} {hit : Bool} (h : m.call a = .ok (r, hit, m')) :
    m.calls ≤ m'.calls := by
  rcases Memo.call_cases h with ⟨_, e, _⟩ | ⟨_, _, k, _, _, e⟩ <;> rw [e] <;> simp

/-- the result of a real call made during a run is not smaller than the number of real calls made before the run -/
theorem Memo.run_miss_ge : ∀ (as : List PV) (m : Memo) (i r : Nat),
    (Memo.run m as)[i]? = some (some (r, false)) → m.calls ≤ r
  | [], m, i, r, h => by simp [Memo.run] at h
  | a :: as, m, i, r, h => by
    cases hc : m.call a with
    | error e =>
      rw [Memo.run_cons_error hc] at h
      cases i with
      | zero => simp at h
      | succ i => exact Memo.run_miss_ge as m i r (by simpa using h)
    | ok p =>
      obtain ⟨r0, hit, m'⟩ := p
      rw [Memo.run_cons_ok hc] at h
      cases i with
      | zero =>
        simp only [List.getElem?_cons_zero, Option.some.injEq, Prod.mk.injEq] at h
        obtain ⟨e1, e2⟩ := h
        subst e1; subst e2
        rcases Memo.call_cases hc with ⟨e1, _⟩ | ⟨_, e2, _⟩
        · cases e1
        · omega
      | succ i =>
        have := Memo.run_miss_ge as m' i r (by simpa using h)
        have := Memo.call_calls_le hc
        omega

/-- the results of the real calls of a run increase strictly: every real call returns a fresh result -/
theorem Memo.run_miss_lt : ∀ (as : List PV) (m : Memo) (i i' r r' : Nat), i < i' →
    (Memo.run m as)[i]? = some (some (r, false)) → (Memo.run m as)[i']? = some (some (r', false)) → r < r'
  | [], m, i, i', r, r', _, h, _ => by simp [Memo.run] at h
  | a :: as, m, i, i', r, r', hlt, h, h' => by
    cases i' with
    | zero => omega
    | succ i' =>
    cases hc : m.call a with
    | error e =>
      rw [Memo.run_cons_error hc] at h h'
      cases i with
      | zero => simp at h
      | succ i => exact Memo.run_miss_lt as m i i' r r' (by omega) (by simpa using h) (by simpa using h')
    | ok p =>
      obtain ⟨r0, hit, m'⟩ := p
      rw [Memo.run_cons_ok hc] at h h'
      cases i with
      | zero =>
        simp only [List.getElem?_cons_zero, Option.some.injEq, Prod.mk.injEq] at h
        obtain ⟨e1, e2⟩ := h
        subst e1; subst e2
        have hge := Memo.run_miss_ge as m' i' r' (by simpa using h')
        rcases Memo.call_cases hc with ⟨e1, _⟩ | ⟨_, e2, k, _, _, e3⟩
        · cases e1
        · rw [e3] at hge; simp at hge; omega
      | succ i => exact Memo.run_miss_lt as m' i i' r r' (by omega) (by simpa using h) (by simpa using h')

/-! ### completeness: a later call with the same value is served from the table -/

theorem Memo.lookup_cons_ne {k k' : PV} {a : PV} {r : Nat} {es : List (PV × PV × Nat)} (h : k' ≠ k) :
    Memo.lookup k ((k', a, r) :: es) = Memo.lookup k es := by
  simp only [Memo.lookup, if_neg h]

/-- once a key is in the table, every later call of the run with that key returns its result -/
theorem Memo.run_stored : ∀ (as : List PV) (m : Memo) (k a0 : PV) (r : Nat), Memo.lookup k m.entries = some (a0, r) →
    ∀ (j : Nat) (b : PV), as[j]? = some b → key true b = .ok k → (Memo.run m as)[j]? = some (some (r, true))
  | [], m, k, a0, r, _, j, b, hb, _ => by simp at hb
  | a :: as, m, k, a0, r, hl, j, b, hb, hk => by
    cases hc : m.call a with
    | error e =>
      rw [Memo.run_cons_error hc]
      cases j with
      | zero =>
        simp only [List.getElem?_cons_zero, Option.some.injEq] at hb
        subst hb
        rw [Memo.call_error hc] at hk; cases hk
      | succ j =>
        simp only [List.getElem?_cons_succ] at hb ⊢
        exact Memo.run_stored as m k a0 r hl j b hb hk
    | ok p =>
      obtain ⟨r0, hit, m'⟩ := p
      rw [Memo.run_cons_ok hc]
      rcases Memo.call_cases hc with ⟨e1, e2, k1, a1, hk1, hl1⟩ | ⟨e1, e2, k1, hk1, hl1, e3⟩
      · subst e1; subst e2
        cases j with
        | zero =>
          simp only [List.getElem?_cons_zero, Option.some.injEq] at hb
          subst hb
          rw [hk1] at hk; cases hk
          rw [hl1] at hl; cases hl
          simp
        | succ j =>
          simp only [List.getElem?_cons_succ] at hb ⊢
          exact Memo.run_stored as m' k a0 r hl j b hb hk
      · subst e1
        cases j with
        | zero =>
          simp only [List.getElem?_cons_zero, Option.some.injEq] at hb
          subst hb
          rw [hk1] at hk; cases hk
          rw [hl1] at hl; cases hl
        | succ j =>
          simp only [List.getElem?_cons_succ] at hb ⊢
          have hne : k1 ≠ k := by
            intro e; rw [e] at hl1; rw [hl1] at hl; cases hl
          refine Memo.run_stored as m' k a0 r ?_ j b hb hk
          rw [e3]
          simp only
          rw [Memo.lookup_cons_ne hne]; exact hl

/-- a call that succeeds at position `i` of a run leaves its key in the table with the result it returned: every later
    call with that key hits and returns the same result -/
theorem Memo.run_complete : ∀ (as : List PV) (m : Memo) (i j r : Nat) (hit : Bool) (a b k : PV), i < j →
    as[i]? = some a → as[j]? = some b → key true a = .ok k → key true b = .ok k →
    (Memo.run m as)[i]? = some (some (r, hit)) → (Memo.run m as)[j]? = some (some (r, true))
  | [], m, i, j, r, hit, a, b, k, _, ha, _, _, _, _ => by simp at ha
  | x :: as, m, i, j, r, hit, a, b, k, hlt, ha, hb, hka, hkb, hr => by
    cases j with
    | zero => omega
    | succ j =>
    simp only [List.getElem?_cons_succ] at hb
    cases hc : m.call x with
    | error e =>
      rw [Memo.run_cons_error hc] at hr ⊢
      cases i with
      | zero => simp at hr
      | succ i =>
        simp only [List.getElem?_cons_succ] at ha hr ⊢
        exact Memo.run_complete as m i j r hit a b k (by omega) ha hb hka hkb hr
    | ok p =>
      obtain ⟨r0, hit0, m'⟩ := p
      rw [Memo.run_cons_ok hc] at hr ⊢
      cases i with
      | succ i =>
        simp only [List.getElem?_cons_succ] at ha hr ⊢
        exact Memo.run_complete as m' i j r hit a b k (by omega) ha hb hka hkb hr
      | zero =>
        simp only [List.getElem?_cons_zero, Option.some.injEq, Prod.mk.injEq] at ha hr
        subst ha
        obtain ⟨e1, e2⟩ := hr
        subst e1; subst e2
        simp only [List.getElem?_cons_succ]
        rcases Memo.call_cases hc with ⟨e1, e2, k1, a1, hk1, hl1⟩ | ⟨e1, e2, k1, hk1, hl1, e3⟩
        · subst e2
          rw [hk1] at hka; cases hka
          exact Memo.run_stored as m' k a1 r0 hl1 j b hb hkb
        · rw [hk1] at hka; cases hka
          refine Memo.run_stored as m' k x r0 ?_ j b hb hkb
          rw [e3, e2]
          simp [Memo.lookup]

/-- position by position: the run answers `none` exactly where `to_hashable` raises, and a result where it returns a key -/
theorem Memo.run_key : ∀ (as : List PV) (m : Memo) (i : Nat) (a : PV), as[i]? = some a →
    (∃ e, key true a = .error e ∧ (Memo.run m as)[i]? = some none) ∨
    (∃ k r hit, key true a = .ok k ∧ (Memo.run m as)[i]? = some (some (r, hit)))
  | [], m, i, a, ha => by simp at ha
  | x :: as, m, i, a, ha => by
    cases hc : m.call x with
    | error e =>
      rw [Memo.run_cons_error hc]
      cases i with
      | zero =>
        simp only [List.getElem?_cons_zero, Option.some.injEq] at ha
        subst ha
        exact .inl ⟨e, Memo.call_error hc, by simp⟩
      | succ i =>
        simp only [List.getElem?_cons_succ] at ha ⊢
        exact Memo.run_key as m i a ha
    | ok p =>
      obtain ⟨r0, hit0, m'⟩ := p
      rw [Memo.run_cons_ok hc]
      cases i with
      | zero =>
        simp only [List.getElem?_cons_zero, Option.some.injEq] at ha
        subst ha
        rcases Memo.call_cases hc with ⟨_, _, k, _, hk, _⟩ | ⟨_, _, k, hk, _, _⟩
        · exact .inr ⟨k, r0, hit0, hk, by simp⟩
        · exact .inr ⟨k, r0, hit0, hk, by simp⟩
      | succ i =>
        simp only [List.getElem?_cons_succ] at ha ⊢
        exact Memo.run_key as m' i a ha

end PF.Hashable
