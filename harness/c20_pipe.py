"""C20, resources of pipeline functions: `NestedPipeFunc(...).resources` (maximum of the children) and `Pipeline(default_resources=...)`
(defaults never override what a function set), with `resources=` given as an instance, a dict or a callable — the real pipefunc against
`PF.ResPipe` (lean/PfModel/Model/ResourcesPipe.lean, driver entries `nested` and `pipeline_add`).

A resources spec is  None | {"inst": fields} | {"dict": fields} | {"callable": fields, "as": "inst"|"dict"}.
"""
from __future__ import annotations

import pfimport  # noqa: F401
from pfimport import exc_enum
from pipefunc import NestedPipeFunc, PipeFunc, Pipeline
from pipefunc.resources import Resources


def mk_arg(spec, from_json):
    if spec is None:
        return None
    if "inst" in spec:
        return Resources(**from_json(spec["inst"]))
    if "dict" in spec:
        return from_json(spec["dict"])
    kw = from_json(spec["callable"])
    if spec.get("as") == "dict":
        return lambda kwargs: dict(kw)          # noqa: ARG005
    return lambda kwargs: Resources(**kw)       # noqa: ARG005


def mk_fn(i, chain):
    ns = {}
    arg = (f"o{i - 1}" if i > 0 else "a") if chain else f"x{i}"
    exec(f"def f{i}({arg}):\n    return {arg}\n", ns)  # noqa: S102
    return ns[f"f{i}"]


def gen_spec(rng, gen_valid, to_json, p_none=0.25, p_callable=0.15):
    r = rng.random()
    if r < p_none:
        return None
    kw = gen_valid(rng)
    if r < p_none + p_callable:
        return {"callable": to_json(kw), "as": rng.choice(["inst", "dict"])}
    return {rng.choice(["inst", "dict"]): to_json(kw)}


def gen_nested_case(rng, gen_valid, to_json, gen_kwargs):
    n = rng.choice([2, 2, 3, 3, 4])
    children = [gen_spec(rng, gen_valid, to_json, p_callable=0.06) for _ in range(n)]
    r = rng.random()
    if r < 0.7:
        given = None
    elif r < 0.8:
        given = {"callable": to_json(gen_valid(rng)), "as": "inst"}
    elif r < 0.9:
        given = {"inst": to_json(gen_valid(rng))}
    else:
        given = {"dict": to_json(gen_kwargs(rng, 0.8))}        # possibly invalid: rejected by from_dict
    return {"m": "nested", "a": {"given": given, "children": children}}


def gen_pipeline_case(rng, gen_valid, to_json):
    d = rng.random()
    default = None if d < 0.15 else {rng.choice(["inst", "dict"]): to_json(gen_valid(rng))}
    funcs = []
    for _ in range(rng.randint(1, 3)):
        plain = rng.random() < 0.15
        funcs.append({"plain": plain, "res": None if plain else gen_spec(rng, gen_valid, to_json, p_none=0.2, p_callable=0.25)})
    return {"m": "pipeline_add", "a": {"default": default, "funcs": funcs}}


def spec_fields(spec):
    if spec is None:
        return None
    for k in ("inst", "dict", "callable"):
        if k in spec:
            return spec[k]
    return None


def operands_of(case):
    a = case["a"]
    if case["m"] == "nested":
        return [spec_fields(s) for s in a["children"] if s is not None]
    return []


def run_nested(a, from_json, obs, combine_clauses):
    bad = []
    pfs = [PipeFunc(mk_fn(i, True), output_name=f"o{i}", resources=mk_arg(s, from_json)) for i, s in enumerate(a["children"])]
    try:
        nested = NestedPipeFunc(pfs, resources=mk_arg(a.get("given"), from_json))
    except Exception as e:  # noqa: BLE001
        return {"err": exc_enum(e)}, bad
    r = nested.resources
    if r is None:
        return {"ok": None}, bad
    if not isinstance(r, Resources):
        return {"ok": f"not-a-Resources:{type(r).__name__}"}, bad
    o = obs(r)
    if a.get("given") is None:
        kids = [obs(p.resources) for p in pfs if isinstance(p.resources, Resources)]
        bad += [c.replace("combine_max", "NestedPipeFunc.resources") for c in combine_clauses(kids, o)]
    return {"ok": o}, bad


def run_pipeline(a, from_json, obs, defaults_clauses):
    bad = []
    default = mk_arg(a.get("default"), from_json)
    items = []
    for i, f in enumerate(a["funcs"]):
        fn = mk_fn(i, False)
        items.append(fn if f["plain"] else PipeFunc(fn, output_name=f"o{i}", resources=mk_arg(f["res"], from_json)))
    try:
        p = Pipeline(items, default_resources=default)
    except Exception as e:  # noqa: BLE001
        return {"err": exc_enum(e)}, bad
    dv = obs(Resources.maybe_from_dict(default)) if default is not None else None
    out = []
    for f, pf in zip(a["funcs"], p.functions):
        r = pf.resources
        if r is None:
            out.append(None)
        elif isinstance(r, Resources):
            out.append({"inst": obs(r)})
            sv = spec_fields(f["res"]) if not f["plain"] else None
            if sv is not None and dv is not None:
                bad += [c.replace("with_defaults", "Pipeline(default_resources)") for c in defaults_clauses(obs(Resources(**from_json(sv))), dv, obs(r))]
        elif callable(r):
            try:
                w = r({})
                out.append({"call": {"ok": obs(w)}})
                sv = spec_fields(f["res"])
                if dv is not None:
                    bad += [c.replace("with_defaults", "Pipeline(default_resources) on a callable") for c in defaults_clauses(obs(Resources(**from_json(sv))), dv, obs(w))]
            except Exception as e:  # noqa: BLE001
                out.append({"call": {"err": exc_enum(e)}})
        else:
            out.append(f"unexpected:{type(r).__name__}")
    return {"ok": out}, bad


def counters(ctx, case, impl):
    a = case["a"]
    if case["m"] == "nested":
        kinds = ["none" if s is None else next(iter(s)) for s in a["children"]]
        ctx.count(f"nested:children:{len(kinds)}")
        ctx.count(f"nested:setting-children:{sum(k in ('inst', 'dict') for k in kinds)}")
        ctx.count("nested:given:" + ("none" if a.get("given") is None else next(iter(a["given"]))))
        if "callable" in kinds:
            ctx.count("nested:callable-child")
    else:
        ctx.count("pipeline:default:" + ("none" if a.get("default") is None else next(iter(a["default"]))))
        for f in a["funcs"]:
            ctx.count("pipeline:func:" + ("plain" if f["plain"] else "none" if f["res"] is None else next(iter(f["res"]))))
    if isinstance(impl, dict) and "err" in impl:
        ctx.count(f"{case['m']}:raised:{impl['err']}")
