import PfModel.Lemmas.MapPiecesFlowDerive
import PfModel.Props.C06Flow
import PfModel.Props.C06Sub
/-!
C06, round 3 (item 2) — `flowWF` is DERIVED, not only evaluated.  The pipeline-level data-flow theorems (`C06_pieces_flow`,
`_seq`, `_parallel`) assume the static well-formedness `flowWF` of the request on the shapes and masks `map_shapes` computed.
Here it follows from what pipefunc checks before a partial run starts: the request is a valid map request in the sense of C01
(`PF.C01.Conforms`, `Lemmas/MapTotal.lean`: acyclic, `constructible` — distinct output names, `validate_consistent_axes`, MapSpec
outputs = the function's outputs with every axis named —, `map_shapes` succeeds, every function is typed against the declared
shape table) and `_validate_fixed_indices` accepts the dictionary (only its reduced-axes clause is used).  No restriction to
pipelines without reductions: `:`-slices, whole-array consumers, internal axes, generators and tuple outputs are covered.
-/
namespace PF.C06
open PF PF.Map PF.Pieces PF.C01

/-- **`flowWF` from the validity of the pipeline and `_validate_fixed_indices`.**  `Γ = declTbl fs inputs ui` is C01's declared
    shape table.  If the pipeline is acyclic and constructible, every function is typed against `Γ`, and the validation accepts
    `fx`, then `fx` is well-formed for the data-flow theorem on the shapes and masks of `Γ`. -/
theorem C06_flowWF_derived (fs : List MFunc) (inputs : List (String × Val)) (ui : List (String × List Nat)) (fx : List (String × Sel))
    (hac : acyclic fs = true) (hcon : constructible (declTbl fs inputs ui) fs = true)
    (hty : fs.all (funcTyped (declTbl fs inputs ui)) = true) (hv : validateFixed fs inputs (some fx) = .ok ()) :
    flowWF fs (shapesOf (declTbl fs inputs ui)) (masksOf (declTbl fs inputs ui)) inputs fx = true :=
  flowWF_of_valid fs inputs ui fx hac hcon ((C06_reject fs inputs fx).mp hv).2.2.1 hty

/-- **… for every valid map request** (C01's `Conforms`): `map_shapes` succeeds, and every `fixed_indices` dictionary the
    validation accepts is well-formed on the shapes and masks it returns. -/
theorem C06_flowWF_of_conforms (fs : List MFunc) (inputs : List (String × Val)) (ui : List (String × List Nat)) (fx : List (String × Sel))
    (hC : Conforms fs inputs ui = true) (hv : validateFixed fs inputs (some fx) = .ok ()) :
    ∃ shapes masks, mapShapes fs inputs (constructInternal fs ui) = .ok (shapes, masks) ∧ flowWF fs shapes masks inputs fx = true := by
  obtain ⟨hac, hcon, hty, hms⟩ := conforms_parts fs inputs ui hC
  exact ⟨_, _, hms, C06_flowWF_derived fs inputs ui fx hac hcon hty hv⟩

/-- **Pipeline level, one part, without the `flowWF` hypothesis.**  For a valid map request (`Conforms`): the full run `rF`
    and a part `rP` with `fixed_indices = fx` on a folder that holds only elements of the full run — every call of the part is a
    call of the full run (same function, same arguments), the folder afterwards again holds only elements of the full run, and
    the stores are related position by position.  (`C06_pieces_flow` with its static hypothesis discharged; that the part's
    validation accepted `fx` follows from the part having run, `C06_run_validated`.) -/
theorem C06_pieces_flow_valid (fs : List MFunc) (inputs : List (String × Val)) (ui : List (String × List Nat)) (fx : List (String × Sel))
    (old : List (String × Slot)) (rF rP : PartResult) (hC : Conforms fs inputs ui = true)
    (hF : runPart fs inputs ui none [] = .ok rF) (hP : runPart fs inputs ui (some fx) old = .ok rP)
    (hnd : (akeys rF.store).Nodup) (hold : OldLe old rF.store) :
    (∀ c ∈ rP.res.calls, c ∈ rF.res.calls) ∧ OldLe rP.store rF.store ∧
    StoreRel fs rF.res.shapes rF.res.masks fx rP.store rF.store := by
  obtain ⟨hac, hcon, hty, hms⟩ := conforms_parts fs inputs ui hC
  have hv := C06_run_validated fs inputs ui (some fx) old rP hP
  have hsh := runPart_shapes fs inputs ui none [] rF hF
  rw [hms] at hsh
  simp only [Except.ok.injEq, Prod.mk.injEq] at hsh
  have hwf := C06_flowWF_derived fs inputs ui fx hac hcon hty hv
  rw [hsh.1, hsh.2] at hwf
  exact C06_pieces_flow fs inputs ui fx old rF rP hF hP hwf hnd hold

/-- **… and any sequence of parts** (`C06_pieces_flow_seq` without the `flowWF` hypotheses): for a valid map request, whatever
    dictionaries the parts fix, in any order, overlapping or not — if the sequence runs, every call of every part is a call of
    the full run and the folder never holds anything the full run does not store. -/
theorem C06_pieces_flow_seq_valid (fs : List MFunc) (inputs : List (String × Val)) (ui : List (String × List Nat)) (rF : PartResult)
    (hC : Conforms fs inputs ui = true) (hF : runPart fs inputs ui none [] = .ok rF) (hnd : (akeys rF.store).Nodup) :
    ∀ (parts : List (List (String × Sel))) (old : List (String × Slot)) (rs : List PartResult),
      OldLe old rF.store → runPieces fs inputs ui (parts.map some) old = .ok rs →
      (∀ r ∈ rs, ∀ c ∈ r.res.calls, c ∈ rF.res.calls) ∧ (∀ r ∈ rs, OldLe r.store rF.store) := by
  intro parts
  induction parts with
  | nil =>
    intro old rs _ h
    simp only [List.map_nil, runPieces, pure, Except.pure, Except.ok.injEq] at h
    subst h
    simp
  | cons fx rest ih =>
    intro old rs hold h
    simp only [List.map_cons, runPieces, bind, Except.bind] at h
    cases h1 : runPart fs inputs ui (some fx) old with
    | error e => rw [h1] at h; cases h
    | ok r =>
      rw [h1] at h
      simp only [] at h
      cases h2 : runPieces fs inputs ui (rest.map some) r.store with
      | error e => rw [h2] at h; cases h
      | ok rs' =>
        rw [h2] at h
        simp only [pure, Except.pure, Except.ok.injEq] at h
        subst h
        obtain ⟨a1, a2, _⟩ := C06_pieces_flow_valid fs inputs ui fx old rF r hC hF h1 hnd hold
        obtain ⟨b1, b2⟩ := ih r.store rs' a2 h2
        constructor
        · intro r' hr'
          rcases List.mem_cons.mp hr' with e | e
          · subst e; exact a1
          · exact b1 r' e
        · intro r' hr'
          rcases List.mem_cons.mp hr' with e | e
          · subst e; exact a2
          · exact b2 r' e

/-! ### non-vacuity -/

private def ints (n : Nat) : List Val := (List.range n).map fun i => .int (Int.ofNat i)
private def mf (name : String) (params outputs : List String) (ms : Option MSpec) (ret internal : Option (List Nat) := none) : MFunc :=
  { name := name, params := params.map fun p => (p, p), outputs := outputs, mapspec := ms, ret := ret, internal := internal,
    defaults := [], bound := [] }
/-- `x[i], u[i], w[j] -> y[j, k, i]` (zip over `i`, outer product with `j`, internal axis `k`), `y[j, :, :] -> z[j]` (a `:`
    reduction), `z -> s` (a full reduction): C01's first conforming example -/
private def p1 : List MFunc :=
  [mf "h" ["z"] ["s"] none,
   mf "f" ["x", "u", "w"] ["y"]
     (some ⟨[⟨"x", [some "i"]⟩, ⟨"u", [some "i"]⟩, ⟨"w", [some "j"]⟩], [⟨"y", [some "j", some "k", some "i"]⟩]⟩) (some [2]) (some [2]),
   mf "g" ["y"] ["z"] (some ⟨[⟨"y", [some "j", none, none]⟩], [⟨"z", [some "j"]⟩]⟩)]
private def in1 : List (String × Val) := [("x", .arr [3] (ints 3)), ("u", .arr [3] (ints 3)), ("w", .arr [2] (ints 2))]

private instance {ε α : Type} [DecidableEq ε] [DecidableEq α] : DecidableEq (Except ε α)
  | .ok a, .ok b => if h : a = b then isTrue (by rw [h]) else isFalse (by intro e; cases e; exact h rfl)
  | .error a, .error b => if h : a = b then isTrue (by rw [h]) else isFalse (by intro e; cases e; exact h rfl)
  | .ok _, .error _ => isFalse (by intro e; cases e)
  | .error _, .ok _ => isFalse (by intro e; cases e)

/-- on C01's conforming example every axis is reduced somewhere (`i`, `k` by the `:`-slices of `g`, `j` by `h` taking `z`
    whole), so only the empty dictionary is accepted — the theorem applies to it; `{"i": 0}` is refused -/
example : Conforms p1 in1 [] = true ∧ validateFixed p1 in1 (some []) = .ok () ∧
    validateFixed p1 in1 (some [("i", .idx 0)]) = .error (.value "axis is reduced and cannot be in fixed_indices") := by decide

/-- `x[i] -> y[i, k]` (internal `k`), `y[i, :], w[j] -> z[i, j]` (`k` sliced with `:`), three and two elements -/
private def p3 : List MFunc :=
  [mf "f" ["x"] ["y"] (some ⟨[⟨"x", [some "i"]⟩], [⟨"y", [some "i", some "k"]⟩]⟩) (some [2]) (some [2]),
   mf "g" ["y", "w"] ["z"] (some ⟨[⟨"y", [some "i", none]⟩, ⟨"w", [some "j"]⟩], [⟨"z", [some "i", some "j"]⟩]⟩)]
private def in3 : List (String × Val) := [("x", .arr [3] (ints 3)), ("w", .arr [2] (ints 2))]

/-- the hypotheses of `C06_flowWF_derived` / `C06_flowWF_of_conforms` hold together, on a pipeline with an internal axis and a
    `:`-reduction: the request conforms and `{"i": slice(1, None), "j": 0}` is accepted; the conclusion gives `flowWF` -/
example : Conforms p3 in3 [] = true ∧ validateFixed p3 in3 (some [("i", .slice (some 1) none none), ("j", .idx 0)]) = .ok () := by decide

example : ∃ shapes masks, mapShapes p3 in3 (constructInternal p3 []) = .ok (shapes, masks) ∧
    flowWF p3 shapes masks in3 [("i", .slice (some 1) none none), ("j", .idx 0)] = true :=
  C06_flowWF_of_conforms p3 in3 [] _ (by decide) (by decide)

/-- the hypotheses of `C06_pieces_flow_valid` hold on that pipeline: both runs succeed, output names of the store are unique,
    and the part makes 2 + 2 of the full run's 3 + 6 calls -/
private def validDemo : Bool :=
  match runPart p3 in3 [] none [], runPart p3 in3 [] (some [("i", .slice (some 1) none none), ("j", .idx 0)]) [] with
  | .ok rF, .ok rP => decide ((akeys rF.store).Nodup) && (rP.res.calls.length == 4) && (rF.res.calls.length == 9)
  | _, _ => false

example : validDemo = true := by decide

example : ∃ rF rP, runPart p3 in3 [] none [] = .ok rF ∧
    runPart p3 in3 [] (some [("i", .slice (some 1) none none), ("j", .idx 0)]) [] = .ok rP ∧ (akeys rF.store).Nodup ∧ OldLe [] rF.store := by
  have h : validDemo = true := by decide
  unfold validDemo at h
  split at h
  · next rF rP hF hP =>
    simp only [Bool.and_eq_true, decide_eq_true_eq] at h
    exact ⟨rF, rP, hF, hP, h.1.1, by constructor <;> simp [oldCells, alookup, cellLookup]⟩
  · cases h

end PF.C06
