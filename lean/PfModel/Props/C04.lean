import PfModel.Lemmas.RunInfoCodec
import PfModel.Lemmas.RunInfoAgree
import PfModel.Props.C01
/-!
C04 — Results stored in a run folder reload exactly, from any process.

`PF.RIC` (Model/RunInfoCodec.lean) models what a run writes (`RunInfo.__post_init__`/`dump`, one file per element of a
`FileArray`, `DictArray.persist` at the end of the run, one file per un-mapped output) and what the loaders read
(`RunInfo.load`, `init_store`, `DictArray.load` / `FileArray` look-ups, `to_array`).  The theorems say that reading gives
back what was written.  "A fresh process" has no counterpart in the model: nothing in `loadOutput`/`decode` depends on
anything but the folder — that this is true of the code is what the child-interpreter runs of the harness exercise.
-/
namespace PF.C04
open PF PF.Map PF.RIC

/-! ### keys: tuples joined with `,` -/

/-- **Keys round-trip.** A name without a comma, and a non-empty tuple of non-empty names without commas (in particular a
    1-tuple), is read back from its JSON key unchanged. -/
theorem C04_key_roundtrip (k : Key) (h : KeyOK k) : strKey (keyStr k) = k := strKey_keyStr k h

/-- **No two admissible keys collide** in the JSON object. -/
theorem C04_key_injective (k1 k2 : Key) (h1 : KeyOK k1) (h2 : KeyOK k2) (h : keyStr k1 = keyStr k2) : k1 = k2 :=
  keyStr_injective k1 k2 h1 h2 h

/-- **Identifiers are admissible**: a name, or a non-empty tuple of names, made of identifiers (letters, digits, `_`, and `.`
    for scopes) satisfies `KeyOK`. -/
theorem C04_keyOK_of_ident (k : Key) (h : ∀ s ∈ k.names, Ident s) (hne : k.names ≠ []) : KeyOK k := keyOK_of_ident k h hne

/-- the pinned code (plain join / split): a 1-tuple key comes back as a bare name -/
theorem C04_legacy_one_tuple_witness : charsKeyLegacy (keyCharsLegacy (.many ["y"])) = .one "y" := by decide

/-- without the admissibility hypothesis the round trip fails: a name with a comma comes back as a tuple -/
theorem C04_comma_witness : strKey (keyStr (.one "a,b")) = .many ["a", "b"] := by decide

/-! ### the record -/

/-- **RunInfo round-trips** through `run_info.json`, `inputs/*.cloudpickle` and `defaults/defaults.cloudpickle`: shapes,
    masks, storage choices (uniform or per output, tuple keys included), internal shapes (`int` stays `int`, tuple stays
    tuple), MapSpec strings, version, inputs and defaults come back unchanged; `all_output_names` comes back as the same
    set (sorted). -/
theorem C04_runinfo_roundtrip (fo : Folder) (r : RunInfo) (h : NamesOK r) :
    decode (dumpAll fo r) = some { r with allOutputNames := sortNames r.allOutputNames } ∧
    (sortNames r.allOutputNames).Perm r.allOutputNames :=
  ⟨decode_of_reads _ r h (dumpAll_runInfo fo r) (fun kv hkv => dumpAll_input fo r h.inputs kv hkv) (dumpAll_defaults fo r),
   sortNames_perm _⟩

/-- **The record a run creates is admissible** when the pipeline's names are identifiers, the inputs form a dictionary and
    the keys of a per-output storage dictionary are admissible (`""`, an output name, or a tuple of output names). -/
theorem C04_names_ok_of_identifiers (fs : List MFunc) (tupled intForm : List String) (inputs : List (String × Val))
    (user : List (String × IShape)) (storage : Storage) (version : String) (shapes : List (String × List Nat))
    (masks : List (String × List Bool)) (h : IdentsOK fs) (hin : (akeys inputs).Nodup)
    (hst : ∀ m, storage = .per m → ∀ kv ∈ m, KeyOK kv.1) :
    NamesOK (createRunInfo fs tupled intForm inputs user storage version shapes masks) :=
  { shapes := keyed_ok fs tupled shapes h, masks := keyed_ok fs tupled masks h, storage := hst, inputs := hin }

/-! ### storage arrays -/

/-- **Stores round-trip**, for every backend, geometry and content: an array whose elements were dumped during the run and
    which was persisted at its end (`FileArray`: one file per element, nothing to persist; `DictArray` /
    `SharedMemoryDictArray`: the mapping dumped as a plain dict) reads back, through a new storage object constructed on
    the folder, as the same masked n-d array. -/
theorem C04_store_roundtrip (b : Backend) (fo : Folder) (name : String) (sh : List Nat) (mk : List Bool) (cells : List (Nat × Val)) :
    arrVal (reopen b (persist b (dumpCells b fo name cells) name cells) name) sh mk = (Slot.array sh mk cells).toVal := by
  rw [reopen_persist]; rfl

/-- writing one output leaves every other output's files alone -/
theorem C04_store_independent (pm : Bool) (b : Option Backend) (fo : Folder) (o : String) (s : Slot) (q : Path)
    (h : pathOf o q = false) : writeSlot pm b fo o s q = fo q := writeSlot_other pm b fo o s q h

/-- `persist_memory=False` is outside the property: a dict-backed array then reads back fully masked -/
theorem C04_no_persist_witness :
    (match arrVal (reopen .dict (writeSlot false (some .dict) Folder.empty "y" (.array [2] [true] [(0, .int 1), (1, .int 2)])) "y") [2] [true] with
     | .arr [2] [.masked, .masked] => true
     | _ => false) = true := by decide

/-! ### reloading a run -/

/-- **Reload (partial).** Let `store` be the store of a finished run (distinct output names), `r` its admissible `RunInfo`
    and `backend o` the storage class used for `o`.  If `init_store` derives from the recorded `r` the geometry and backend
    the run used for each slot (`agreeSlot`), then `load_outputs(o)` on the folder the run leaves behind
    (`persist_memory=True`) returns, for every output, exactly what the store held — for storage arrays
    `Slot.toVal`, i.e. `to_array()` of the run's own array.

    Missing for the unconditional statement: a proof that `agreeSlot` holds for the store `runMap` builds from every
    well-formed pipeline (that `init_store` on `createRunInfo …` finds for each function the shape, mask and storage class
    under the keys `map_shapes` recorded).  The driver evaluates `agreeSlot` on every generated case.
    (Round 2: that proof is `C04_agree`; `C04_reload` is this theorem without the hypothesis.  The name is kept.) -/
theorem C04_reload_partial (parse : String → Option MSpec) (r : RunInfo) (backend : String → Option Backend)
    (store : List (String × Slot)) (hok : NamesOK r) (hn : (akeys store).Nodup)
    (hagree : ∀ os ∈ store, agreeSlot parse r backend os.1 os.2 = true) :
    ∀ os ∈ store, loadOutput parse (folderOf true r backend store) os.1 = some os.2.toVal := by
  intro os hos
  obtain ⟨o, s⟩ := os
  have hdec : decode (folderOf true r backend store) = some { r with allOutputNames := sortNames r.allOutputNames } := by
    apply decode_of_reads _ r hok
    · rw [folderOf_meta _ _ _ _ _ (by intro o; rfl)]; exact dumpAll_runInfo _ r
    · intro kv hkv
      rw [folderOf_meta _ _ _ _ _ (by intro o; rfl)]; exact dumpAll_input _ r hok.inputs kv hkv
    · rw [folderOf_meta _ _ _ _ _ (by intro o; rfl)]; exact dumpAll_defaults _ r
  have hread := foldl_writeSlot_read backend store (dumpAll Folder.empty r) hn o s hos
  have hag := hagree (o, s) hos
  simp only [loadOutput, hdec, bind, Option.bind]
  rw [initEntry_names parse r _ (mem_sortNames r.allOutputNames) o]
  cases s with
  | single v =>
    simp only [agreeSlot, beq_iff_eq] at hag
    simp only [SlotRead] at hread
    simp only [folderOf, hag, hread, Slot.toVal]
  | array sh mk cells =>
    simp only [agreeSlot] at hag
    cases hb : backend o with
    | none => simp [hb] at hag
    | some b =>
      simp only [hb, beq_iff_eq] at hag
      simp only [SlotRead] at hread
      have := hread b hb
      simp only [folderOf, hag, this]
      rfl

/-- **Inputs and defaults reload.** `RunInfo.load` on the folder of a finished run gives back the record the run created —
    in particular the inputs it was given and the defaults of the pipeline. -/
theorem C04_reload_runinfo (r : RunInfo) (backend : String → Option Backend) (store : List (String × Slot)) (pm : Bool)
    (hok : NamesOK r) :
    decode (folderOf pm r backend store) = some { r with allOutputNames := sortNames r.allOutputNames } := by
  apply decode_of_reads _ r hok
  · rw [folderOf_meta _ _ _ _ _ (by intro o; rfl)]; exact dumpAll_runInfo _ r
  · intro kv hkv
    rw [folderOf_meta _ _ _ _ _ (by intro o; rfl)]; exact dumpAll_input _ r hok.inputs kv hkv
  · rw [folderOf_meta _ _ _ _ _ (by intro o; rfl)]; exact dumpAll_defaults _ r

/-- **Reload of a run (partial, with C01).** For a run of `runMap` — the model of `Pipeline.map` proved equal to the
    MapSpec denotation in `C01_map_eq_denotation` — with the `RunInfo` that `RunInfo.create` records and the backends
    `init_store` chooses: every value `load_outputs` returns from the folder is the value the run stored
    (`MapResult.stored`).  Same missing part as `C04_reload_partial` (round 2: discharged in `C04_reload_run`). -/
theorem C04_reload_run_partial (fs : List MFunc) (tupled intForm : List String) (inputs : List (String × Val))
    (user : List (String × IShape)) (storage : Storage) (version : String) (res : MapResult) (store : List (String × Slot))
    (hrun : runMapStore fs inputs (user.map fun kv => (kv.1, kv.2.dims)) = .ok (res, store))
    (hid : IdentsOK fs) (hin : (akeys inputs).Nodup) (hst : ∀ m, storage = .per m → ∀ kv ∈ m, KeyOK kv.1)
    (hn : (akeys store).Nodup)
    (hagree : ∀ os ∈ store, agreeSlot (tableParse fs) (createRunInfo fs tupled intForm inputs user storage version res.shapes res.masks)
        (backendFor fs storage) os.1 os.2 = true) :
    runMap fs inputs (user.map fun kv => (kv.1, kv.2.dims)) = .ok res ∧
    specMap fs inputs (user.map fun kv => (kv.1, kv.2.dims)) = .ok res ∧
    ∀ ov ∈ res.stored, loadOutput (tableParse fs)
      (folderOf true (createRunInfo fs tupled intForm inputs user storage version res.shapes res.masks) (backendFor fs storage) store) ov.1
      = some ov.2 := by
  obtain ⟨h1, h2⟩ := runMapStore_spec fs inputs _ res store hrun
  refine ⟨h1, by rw [← PF.C01.C01_map_eq_denotation]; exact h1, ?_⟩
  intro ov hov
  rw [h2] at hov
  obtain ⟨os, hos, e⟩ := List.mem_map.mp hov
  subst e
  exact C04_reload_partial (tableParse fs) _ (backendFor fs storage) store
    (C04_names_ok_of_identifiers fs tupled intForm inputs user storage version res.shapes res.masks hid hin hst) hn hagree os hos

/-- **What is reloaded is the denotation** (with `C01_stored`): a mapped output whose slot holds the elements the run
    computed reads back as the array the MapSpec denotes. -/
theorem C04_reload_denotation (b : Backend) (fo : Folder) (f : MFunc) (shape : List Nat) (mask : List Bool)
    (args : Nat → List (String × Val)) (o : String) (h : shape.length = mask.length) :
    let cells := cellsOf f (prod (extOf mask shape)) args o
    arrVal (reopen b (persist b (dumpCells b fo o cells) o cells) o) shape mask = denoteArray f shape mask args o := by
  intro cells
  rw [C04_store_roundtrip]
  exact PF.C01.C01_stored f shape mask args o h

/-! ### round 2: `agreeSlot` discharged -/

/-- **`init_store` finds what the run used.** For every pipeline and every request on which the run (`runMapStore`, i.e.
    `runMap` with its store) succeeds: on the record `RunInfo.create` writes (`createRunInfo`: `map_shapes` keyed by
    `output_name` — tuples, 1-tuples and every single name —, `_construct_internal_shapes`, the MapSpec strings), `init_store`
    (`initEntry`: `MapSpec.from_string`, `name_mapping[mapspec.output_names]`, `shapes`/`shape_masks`/`storage_class`
    under that key) finds for every slot of the run's store a file path if the function was called once, and otherwise a
    storage array of the class the run used with exactly the shape and mask the run built its array with.
    `Recorded` lists what is used beyond the run's success: `from_string ∘ str = id` on the pipeline's MapSpecs
    (`C08_roundtrip`), MapSpec outputs = function outputs, unique output names (constructor checks), and a storage class
    for every mapped function (else the run's own `init_store` raises).  That `map_shapes` records a shape for every function
    with a MapSpec is proved from the success of `mapShapes` (`mapShapes_records`). -/
theorem C04_agree (parse : String → Option MSpec) (fs : List MFunc) (tupled intForm : List String)
    (inputs : List (String × Val)) (user : List (String × IShape)) (storage : Storage) (version : String) (res : MapResult)
    (store : List (String × Slot)) (hrun : runMapStore fs inputs (user.map fun kv => (kv.1, kv.2.dims)) = .ok (res, store))
    (H : Recorded parse fs storage) :
    ∀ os ∈ store, agreeSlot parse (createRunInfo fs tupled intForm inputs user storage version res.shapes res.masks)
      (backendFor fs storage) os.1 os.2 = true :=
  agreeSlot_of_run parse fs tupled intForm inputs user storage version res store hrun H

/-- the table that stands in for `MapSpec.from_string` inverts `str` as soon as no two MapSpecs of the pipeline print alike -/
theorem C04_tableParse_print (fs : List MFunc)
    (hinj : ∀ a ∈ fs.filterMap (·.mapspec), ∀ b ∈ fs.filterMap (·.mapspec), printSpec a = printSpec b → a = b) :
    ∀ f ∈ fs, ∀ ms, f.mapspec = some ms → tableParse fs (printSpec ms) = some ms := by
  intro f hf ms hms
  have hmem : ms ∈ fs.filterMap (·.mapspec) := List.mem_filterMap.mpr ⟨f, hf, hms⟩
  unfold tableParse
  cases hfind : (fs.filterMap (·.mapspec)).find? (fun ms' => decide (printSpec ms' = printSpec ms)) with
  | none =>
    have := List.find?_eq_none.mp hfind ms hmem
    simp at this
  | some ms' =>
    have h1 := List.mem_of_find?_eq_some hfind
    have h2 := List.find?_some hfind
    simp only [decide_eq_true_eq] at h2
    rw [hinj ms' h1 ms hmem h2]

/-- **Reload.** `C04_reload_partial` with its `agreeSlot` hypothesis proved: for a run of any pipeline (`Recorded`: see
    `C04_agree`) under any storage configuration, `load_outputs(o)` on the folder the run leaves behind
    (`persist_memory=True`) returns for every output exactly what the run's store held — `to_array()` of the run's own
    storage array for a mapped output, the dumped value otherwise.  `parse` is `MapSpec.from_string`. -/
theorem C04_reload (parse : String → Option MSpec) (fs : List MFunc) (tupled intForm : List String)
    (inputs : List (String × Val)) (user : List (String × IShape)) (storage : Storage) (version : String) (res : MapResult)
    (store : List (String × Slot)) (hrun : runMapStore fs inputs (user.map fun kv => (kv.1, kv.2.dims)) = .ok (res, store))
    (hid : IdentsOK fs) (hin : (akeys inputs).Nodup) (hst : ∀ m, storage = .per m → ∀ kv ∈ m, KeyOK kv.1)
    (hn : (akeys store).Nodup) (H : Recorded parse fs storage) :
    ∀ os ∈ store, loadOutput parse
      (folderOf true (createRunInfo fs tupled intForm inputs user storage version res.shapes res.masks) (backendFor fs storage) store) os.1
      = some os.2.toVal :=
  C04_reload_partial parse _ (backendFor fs storage) store
    (C04_names_ok_of_identifiers fs tupled intForm inputs user storage version res.shapes res.masks hid hin hst) hn
    (C04_agree parse fs tupled intForm inputs user storage version res store hrun H)

/-- **Reload of a run (with C01).** `C04_reload_run_partial` without the `agreeSlot` hypothesis: the run is `runMap`, equal to
    the MapSpec denotation `specMap` (C01), and every value `load_outputs` returns from its folder is the value the run
    stored (`MapResult.stored`). -/
theorem C04_reload_run (fs : List MFunc) (tupled intForm : List String) (inputs : List (String × Val))
    (user : List (String × IShape)) (storage : Storage) (version : String) (res : MapResult) (store : List (String × Slot))
    (hrun : runMapStore fs inputs (user.map fun kv => (kv.1, kv.2.dims)) = .ok (res, store))
    (hid : IdentsOK fs) (hin : (akeys inputs).Nodup) (hst : ∀ m, storage = .per m → ∀ kv ∈ m, KeyOK kv.1)
    (hn : (akeys store).Nodup) (H : Recorded (tableParse fs) fs storage) :
    runMap fs inputs (user.map fun kv => (kv.1, kv.2.dims)) = .ok res ∧
    specMap fs inputs (user.map fun kv => (kv.1, kv.2.dims)) = .ok res ∧
    ∀ ov ∈ res.stored, loadOutput (tableParse fs)
      (folderOf true (createRunInfo fs tupled intForm inputs user storage version res.shapes res.masks) (backendFor fs storage) store) ov.1
      = some ov.2 :=
  C04_reload_run_partial fs tupled intForm inputs user storage version res store hrun hid hin hst hn
    (C04_agree (tableParse fs) fs tupled intForm inputs user storage version res store hrun H)

/-! ### non-vacuity -/

def fsEx : List MFunc := [
  { name := "f", params := [("x", "x")], outputs := ["y", "z"],
    mapspec := some { inputs := [⟨"x", [some "i"]⟩], outputs := [⟨"y", [some "i"]⟩, ⟨"z", [some "i"]⟩] },
    ret := none, internal := none, defaults := [], bound := [] },
  { name := "g", params := [("y", "y"), ("c", "c")], outputs := ["w"], mapspec := none, ret := none, internal := none,
    defaults := [("c", .str "d")], bound := [] }]
def inEx : List (String × Val) := [("x", .arr [2] [.int 1, .int 2])]
def stEx : Storage := .per [(.many ["y", "z"], "dict"), (.one "", "file_array")]

/-- the hypotheses of `C04_reload_run_partial` hold for a concrete two-function pipeline with a tuple output and a
    per-output storage dictionary, and the conclusion is not trivial: three outputs are reloaded -/
example : (match runMapStore fsEx inEx [] with
  | .ok (res, store) =>
    let r := createRunInfo fsEx [] [] inEx [] stEx "v" res.shapes res.masks
    (store.all fun (o, s) => agreeSlot (tableParse fsEx) r (backendFor fsEx stEx) o s) && store.length == 3 &&
    (store.all fun (o, _) => (loadOutput (tableParse fsEx) (folderOf true r (backendFor fsEx stEx) store) o).isSome) &&
    (akeys store).length == (akeys store).eraseDups.length
  | _ => false) = true := by decide

/-- `Recorded` holds for the concrete pipeline above (tuple output, per-output storage dictionary with a `""` default), so
    `C04_agree`, `C04_reload` and `C04_reload_run` apply to it; its run succeeds and fills three slots (previous example) -/
example : Recorded (tableParse fsEx) fsEx stEx := by
  refine ⟨?_, ?_, by decide, ?_⟩
  · apply C04_tableParse_print
    decide
  · intro f hf ms hms
    simp only [fsEx, List.mem_cons, List.not_mem_nil, or_false] at hf
    rcases hf with e | e <;> subst e <;> simp at hms <;> subst hms <;> rfl
  · intro f hf ms hms _
    simp only [fsEx, List.mem_cons, List.not_mem_nil, or_false] at hf
    rcases hf with e | e <;> subst e <;> simp at hms
    decide

example : KeyOK (.many ["y"]) ∧ KeyOK (.many ["y", "z"]) ∧ KeyOK (.one "") ∧ ¬ KeyOK (.one "a,b") := by
  refine ⟨⟨by decide, ?_⟩, ⟨by decide, ?_⟩, ?_, ?_⟩
  · intro s hs; simp only [List.mem_singleton] at hs; subst hs; decide
  · intro s hs; simp only [List.mem_cons, List.mem_singleton, List.not_mem_nil, or_false] at hs; rcases hs with e | e <;> subst e <;> decide
  · simp only [KeyOK]; decide
  · simp only [KeyOK]; decide

example : Ident "y0a" ∧ Ident "scope.x_1" := by
  constructor <;> refine ⟨by decide, ?_⟩ <;> decide

end PF.C04
