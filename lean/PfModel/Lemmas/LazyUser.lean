import PfModel.Props.C18Calls
import PfModel.Props.C02
/-! Definitions for `Props/C18User.lean`: the state of a new session, and the demo sessions of its non-vacuity examples
(over the diamond `fA, fB, fD` and the empty session `s0` of `Props/C18.lean`). -/
namespace PF.C18
open PF PF.Pipe PF.Lazy

/-- a new session on a pipeline (`own`: it has a cache of its own, still empty; `cfn`: the functions with `cache=True`), inside
    (`dag`) or outside `construct_dag()` -/
def newSession (own : Bool) (cfn : List (List String)) (dag : Bool) : LSt :=
  let s : LSt := { memo := [], used := [], usedNone := false, nodes := [], tg := none, ev := ⟨[], []⟩,
                   own := if own then some [] else none, cfn := cfn }
  if dag then enterDag s else s


/-- where the hypothesis FAILS (witnesses): after a request inside a block; after a request on a pipeline with an own cache whose
    functions have `cache=True`; it holds again after the block is left (no own cache), and stays true outside blocks without own cache -/
def demoEntries (own dag : Bool) : Option (Nat × Nat × Nat) :=
  let s : LSt := { s0 with own := if own then some [] else none, cfn := [["a"], ["b", "c"], ["d"]] }
  let s1 := if dag then enterDag s else s
  match lrunTop [fD, fB, fA] [("x", .int 1)] (.name "d") s1 with
  | .error _ => none
  | .ok (_, s2) => some ((entries s1).length, (entries s2).length, (entries (exitDag s2)).length)


/-- `C18_value_eq_eager_any` on a request that is NOT fresh: request `d` in a block, then request `b` in the same block (served from
    the block's cache), `evaluate()` of the second object: lazy value = eager value, and the cache was not empty at the request -/
def demoServed : Option (Bool × Nat × Bool) :=
  match lrunTop [fD, fB, fA] [("x", .int 1)] (.name "d") (enterDag s0) with
  | .error _ => none
  | .ok (_, s1) => match lrunTop [fD, fB, fA] [("x", .int 1)] (.name "b") s1, runTop [fD, fB, fA] [("x", .int 1)] (.name "b") with
    | .ok (a2, s2), .ok out => match evaluate a2 s2 with
      | .ok (v, _) => some (s2.usedNone, (entries s1).length, vbeq v out.value)
      | .error _ => none
    | _, _ => none

/-- `C18_user_fresh` / `C18_user_new`: accepted on both sides, nothing invoked by the call, the eager names after one / two `evaluate()`s -/
def demoUser (own dag : Bool) : Option (List Nat × List String × List String × List String) :=
  match lrunTop [fD, fB, fA] [("x", .int 1)] (.name "d") (newSession own [["a"], ["b", "c"], ["d"]] dag),
        runTop [fD, fB, fA] [("x", .int 1)] (.name "d") with
  | .ok (a, s1), .ok out => match evaluate a s1 with
    | .ok (_, s2) => match evaluate a s2 with
      | .ok (_, s3) => some (s1.ev.log, callNames s2.nodes s2.ev.log, callNames s3.nodes s3.ev.log, out.calls)
      | .error _ => none
    | .error _ => none
  | _, _ => none

end PF.C18
