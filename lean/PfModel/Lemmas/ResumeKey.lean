import PfModel.Model.ResumeKey
/-! Helper lemmas for `Props/C05Key.lean`: the tuple-keyed dict (`kLookup/kDump/kStore`) against the linear-index cells. -/
namespace PF.ResumeKey
open PF PF.Map

theorem kLookup_kDump (d : KDict) (k k' : List Nat) (v : Val) :
    kLookup (kDump d k v) k' = if k = k' then some v else kLookup d k' := by
  induction d with
  | nil => simp [kDump, kLookup]
  | cons p r ih =>
    obtain ⟨a, w⟩ := p
    simp only [kDump]
    by_cases h : a = k
    · subst h
      simp only [if_true, kLookup]
      by_cases h2 : a = k' <;> simp [h2]
    · simp only [h, if_false, kLookup, ih]
      by_cases h2 : a = k'
      · subst h2; simp [Ne.symm h]
      · simp [h2]

theorem mem_kDump (d : KDict) (k : List Nat) (v : Val) (p : List Nat × Val) (h : p ∈ kDump d k v) :
    p.1 = k ∨ p ∈ d := by
  induction d with
  | nil => simp [kDump] at h; left; rw [h]
  | cons q r ih =>
    obtain ⟨a, w⟩ := q
    simp only [kDump] at h
    by_cases e : a = k
    · simp only [e, if_true, List.mem_cons] at h
      rcases h with h | h
      · left; rw [h]
      · right; exact List.mem_cons_of_mem _ h
    · simp only [e, if_false, List.mem_cons] at h
      rcases h with h | h
      · right; rw [h]; exact List.mem_cons_self
      · rcases ih h with h | h
        · left; exact h
        · right; exact List.mem_cons_of_mem _ h

/-- distinct in-range linear indices have distinct keys -/
theorem shapeToKey_inj (shape : List Nat) (i j : Nat) (hi : i < prod shape) (hj : j < prod shape)
    (e : shapeToKey shape i = shapeToKey shape j) : i = j := by
  have a := (ravel_key shape i hi).1
  have b := (ravel_key shape j hj).1
  rw [e] at a; omega

theorem cellLookup_none_of_not_mem (cells : List (Nat × Val)) (i : Nat) (h : i ∉ cells.map Prod.fst) :
    cellLookup cells i = none := by
  induction cells with
  | nil => rfl
  | cons c r ih =>
    obtain ⟨k, v⟩ := c
    simp only [List.map_cons, List.mem_cons, not_or] at h
    simp only [cellLookup]
    rw [if_neg (fun e => h.1 e.symm)]
    exact ih h.2

theorem cellLookup_isSome_mem (cells : List (Nat × Val)) (i : Nat) (h : (cellLookup cells i).isSome) :
    i ∈ cells.map Prod.fst := by
  induction cells with
  | nil => simp [cellLookup] at h
  | cons c r ih =>
    obtain ⟨k, v⟩ := c
    simp only [cellLookup] at h
    by_cases e : k = i
    · simp [e]
    · rw [if_neg e] at h; simp only [List.map_cons, List.mem_cons]; right; exact ih h

/-- the fold of dumps, from any starting dict -/
theorem kLookup_foldl (shape : List Nat) (cells : List (Nat × Val)) (d : KDict) (li : Nat)
    (hd : (cells.map Prod.fst).Nodup) (hb : ∀ c ∈ cells, c.1 < prod shape) (hli : li < prod shape) :
    kLookup (cells.foldl (fun d c => kDump d (shapeToKey shape c.1) c.2) d) (shapeToKey shape li)
      = match cellLookup cells li with
        | some v => some v
        | none => kLookup d (shapeToKey shape li) := by
  induction cells generalizing d with
  | nil => simp [cellLookup]
  | cons c r ih =>
    obtain ⟨i, v⟩ := c
    simp only [List.map_cons, List.nodup_cons] at hd
    have hi : i < prod shape := hb (i, v) List.mem_cons_self
    simp only [List.foldl_cons]
    rw [ih _ hd.2 (fun c hc => hb c (List.mem_cons_of_mem _ hc))]
    simp only [cellLookup]
    by_cases e : i = li
    · subst e
      rw [cellLookup_none_of_not_mem r i hd.1]
      simp [kLookup_kDump]
    · rw [if_neg e, kLookup_kDump]
      have : shapeToKey shape i ≠ shapeToKey shape li := fun h => e (shapeToKey_inj shape i li hi hli h)
      rw [if_neg this]

theorem kGet_kStore (shape : List Nat) (cells : List (Nat × Val)) (li : Nat)
    (hd : (cells.map Prod.fst).Nodup) (hb : ∀ c ∈ cells, c.1 < prod shape) (hli : li < prod shape) :
    kGetFromIndex shape (kStore shape cells) li = cellLookup cells li := by
  unfold kGetFromIndex kStore
  rw [kLookup_foldl shape cells [] li hd hb hli]
  cases cellLookup cells li <;> simp [kLookup]

/-- every key of a stored dict is the key of an in-range linear index -/
theorem keys_foldl (shape : List Nat) (cells : List (Nat × Val)) (d : KDict)
    (hb : ∀ c ∈ cells, c.1 < prod shape) (hdk : ∀ p ∈ d, InRange shape p.1) :
    ∀ p ∈ cells.foldl (fun d c => kDump d (shapeToKey shape c.1) c.2) d, InRange shape p.1 := by
  induction cells generalizing d with
  | nil => simpa using hdk
  | cons c r ih =>
    simp only [List.foldl_cons]
    apply ih _ (fun c hc => hb c (List.mem_cons_of_mem _ hc))
    intro p hp
    rcases mem_kDump d _ _ p hp with h | h
    · rw [h]; exact (ravel_key shape c.1 (hb c List.mem_cons_self)).2
    · exact hdk p h

theorem keys_kStore (shape : List Nat) (cells : List (Nat × Val)) (hb : ∀ c ∈ cells, c.1 < prod shape) :
    ∀ p ∈ kStore shape cells, InRange shape p.1 :=
  keys_foldl shape cells [] hb (by simp)

theorem kLookup_isSome_iff (d : KDict) (k : List Nat) : (kLookup d k).isSome = d.any (fun p => p.1 == k) := by
  induction d with
  | nil => rfl
  | cons p r ih =>
    obtain ⟨a, w⟩ := p
    simp only [kLookup, List.any_cons]
    by_cases e : a = k
    · simp [e]
    · simp [e, ih]

/-- on a dict with in-range keys, "some key ravels to `li`" is "the key of `li` is in the dict" -/
theorem any_ravel_eq (shape : List Nat) (d : KDict) (li : Nat) (hli : li < prod shape)
    (hdk : ∀ p ∈ d, InRange shape p.1) :
    d.any (fun p => ravel shape p.1 == li) = kHasIndex shape d li := by
  unfold kHasIndex
  rw [kLookup_isSome_iff]
  induction d with
  | nil => rfl
  | cons p r ih =>
    simp only [List.any_cons]
    rw [ih (fun q hq => hdk q (List.mem_cons_of_mem _ hq))]
    congr 1
    have hp := hdk p List.mem_cons_self
    apply Bool.eq_iff_iff.mpr
    simp only [beq_iff_eq]
    constructor
    · intro e; rw [← e]; exact (key_ravel shape p.1 hp).symm
    · intro h; rw [h]; exact (ravel_key shape li hli).1

theorem map_range_congr {α} (n : Nat) (f g : Nat → α) (h : ∀ i, i < n → f i = g i) :
    (List.range n).map f = (List.range n).map g :=
  List.map_congr_left (fun i hi => h i (List.mem_range.mp hi))

theorem filterMap_range_congr {α} (n : Nat) (f g : Nat → Option α) (h : ∀ i, i < n → f i = g i) :
    (List.range n).filterMap f = (List.range n).filterMap g := by
  induction n with
  | zero => rfl
  | succ n ih =>
    rw [List.range_succ, List.filterMap_append, List.filterMap_append, ih (fun i hi => h i (by omega))]
    simp only [List.filterMap_cons, List.filterMap_nil, h n (Nat.lt_succ_self n)]

/-- lookup in the list of present elements of a table `f` over `range n` -/
theorem cellLookup_filterMap_range (n : Nat) (f : Nat → Option Val) (i : Nat) :
    cellLookup ((List.range n).filterMap fun li => (f li).map fun v => (li, v)) i = if i < n then f i else none := by
  induction n with
  | zero => simp [cellLookup]
  | succ n ih =>
    rw [List.range_succ, List.filterMap_append]
    have app : ∀ (a b : List (Nat × Val)), cellLookup (a ++ b) i
        = match cellLookup a i with | some v => some v | none => cellLookup b i := by
      intro a b
      induction a with
      | nil => simp [cellLookup]
      | cons c r ih2 =>
        obtain ⟨k, v⟩ := c
        simp only [List.cons_append, cellLookup]
        by_cases e : k = i
        · simp [e]
        · simp [e, ih2]
    have one : cellLookup (List.filterMap (fun li => (f li).map fun v => (li, v)) [n]) i
        = if n = i then f n else none := by
      cases h : f n <;> simp [List.filterMap_cons, h, cellLookup]
    rw [app, ih, one]
    by_cases h1 : i < n
    · have h3 : i < n + 1 := by omega
      have h2 : ¬ n = i := by omega
      rw [if_pos h1, if_pos h3, if_neg h2]; cases f i <;> rfl
    · rw [if_neg h1]
      by_cases h2 : n = i
      · subst h2; simp
      · have h3 : ¬ i < n + 1 := by omega
        rw [if_neg h3, if_neg h2]

theorem fst_filterMap_range (n : Nat) (f : Nat → Option Val) :
    (((List.range n).filterMap fun li => (f li).map fun v => (li, v)).map Prod.fst).Pairwise (· < ·) := by
  induction n with
  | zero => simp
  | succ n ih =>
    rw [List.range_succ, List.filterMap_append, List.map_append, List.pairwise_append]
    refine ⟨ih, ?_, ?_⟩
    · cases hn : f n <;> simp [List.filterMap_cons, hn]
    · intro a ha b hb
      simp only [List.mem_map, List.mem_filterMap, List.mem_range] at ha
      obtain ⟨p, ⟨li, hli, hp⟩, rfl⟩ := ha
      cases hf : f li with
      | none => simp [hf] at hp
      | some v =>
        simp [hf] at hp; subst hp
        cases hn : f n with
        | none => simp [hn] at hb
        | some w => simp [hn] at hb; omega

end PF.ResumeKey
