import PfModel.Model.TypingX
/-!
Lemmas for the extended annotation language (`Model/TypingX.lean`): the facts of `Lemmas/Typing.lean` re-proved for `compatX`
(two more cases everywhere: `lit`, `vtuple`).
-/
namespace PF.Typing

def XTy.isTV : XTy → Bool
  | .tvFree => true
  | .tvBound _ => true
  | .tvConstr _ => true
  | _ => false

macro "unfgx" : tactic => `(tactic| (rw [compatX] <;> try first | assumption | (intros; contradiction)))

/-! ### structural induction on `XTy` (a nested inductive: the `induction` tactic does not apply) -/
section Ind
set_option linter.unusedSectionVars false
variable {P : XTy → Prop}
  (hbase : ∀ x, P (.base x)) (hlit : ∀ vs, P (.lit vs)) (hany : P .any) (hnoann : P .noann) (hndarr : P .ndarr)
  (hgen : ∀ g ts, (∀ t ∈ ts, P t) → P (.gen g ts)) (hvt : ∀ t, P t → P (.vtuple t)) (hunion : ∀ ts, (∀ t ∈ ts, P t) → P (.union ts))
  (hannot : ∀ t, P t → P (.annot t)) (harray : ∀ t, P t → P (.array t))
  (htvFree : P .tvFree) (htvBound : ∀ t, P t → P (.tvBound t)) (htvConstr : ∀ ts, (∀ t ∈ ts, P t) → P (.tvConstr ts))
include hbase hlit hany hnoann hndarr hgen hvt hunion hannot harray htvFree htvBound htvConstr

mutual
theorem XTy.ind' : (t : XTy) → P t
  | .base x => hbase x
  | .lit vs => hlit vs
  | .any => hany
  | .noann => hnoann
  | .ndarr => hndarr
  | .gen g ts => hgen g ts (XTy.indL' ts)
  | .vtuple t => hvt t (XTy.ind' t)
  | .union ts => hunion ts (XTy.indL' ts)
  | .annot t => hannot t (XTy.ind' t)
  | .array t => harray t (XTy.ind' t)
  | .tvFree => htvFree
  | .tvBound t => htvBound t (XTy.ind' t)
  | .tvConstr ts => htvConstr ts (XTy.indL' ts)
theorem XTy.indL' : (ts : List XTy) → ∀ t ∈ ts, P t
  | [] => fun _ h => absurd h (List.not_mem_nil)
  | t :: ts => fun x hx =>
      (List.mem_cons.mp hx).elim (fun h => h ▸ XTy.ind' t) (fun h => XTy.indL' ts x h)
end
end Ind

theorem litSub_iff {vs ws : List LitV} : litSub vs ws = true ↔ ∀ v ∈ vs, v ∈ ws := by
  simp [litSub, List.all_eq_true]

theorem litSub_refl (vs : List LitV) : litSub vs vs = true := litSub_iff.mpr (fun _ h => h)

/-! ### list helpers -/
theorem compatAllX_iff {as : List XTy} {b : XTy} : compatAllX as b = true ↔ ∀ a ∈ as, compatX a b = true := by
  induction as with
  | nil => simp [compatAllX]
  | cons a as ih => rw [compatAllX]; simp [Bool.and_eq_true, ih]

theorem compatAnyX_iff {a : XTy} {bs : List XTy} : compatAnyX a bs = true ↔ ∃ b ∈ bs, compatX a b = true := by
  induction bs with
  | nil => simp [compatAnyX]
  | cons b bs ih => rw [compatAnyX]; simp [Bool.or_eq_true, ih]

theorem compatZipX_of {as bs : List XTy} (h : ∀ p ∈ as.zip bs, compatX p.1 p.2 = true) : compatZipX as bs = true := by
  induction as generalizing bs with
  | nil => rw [compatZipX]; intro a as b bs h; cases h
  | cons a as ih =>
    cases bs with
    | nil => rw [compatZipX]; intro a as b bs _ h; cases h
    | cons b bs =>
      rw [compatZipX, Bool.and_eq_true]
      exact ⟨h (a, b) (by simp), ih (fun p hp => h p (by simp [hp]))⟩

/-! ### `Any`, missing, TypeVars -/
theorem compatX_any_r (a : XTy) : compatX a .any = true := by
  refine XTy.ind' (P := fun a => compatX a .any = true) ?_ ?_ ?_ ?_ ?_ ?_ ?_ ?_ ?_ ?_ ?_ ?_ ?_ a <;> intros <;> simp_all [compatX]

theorem compatX_noann_r (a : XTy) : compatX a .noann = true := by
  refine XTy.ind' (P := fun a => compatX a .noann = true) ?_ ?_ ?_ ?_ ?_ ?_ ?_ ?_ ?_ ?_ ?_ ?_ ?_ a <;> intros <;> simp_all [compatX]

theorem compatX_tvFree_r (a : XTy) : compatX a .tvFree = true := by
  refine XTy.ind' (P := fun a => compatX a .tvFree = true) ?_ ?_ ?_ ?_ ?_ ?_ ?_ ?_ ?_ ?_ ?_ ?_ ?_ a <;> intros <;> simp_all [compatX]

theorem compatX_noann_l (b : XTy) : compatX .noann b = true := by
  cases b <;> simp [compatX]

theorem compatX_tv_l {a : XTy} (b : XTy) (h : a.isTV = true) : compatX a b = true := by
  cases a <;> simp_all [compatX, XTy.isTV]

/-- a bounded TypeVar target is its bound -/
theorem compatX_tvBound (a t : XTy) : compatX a (.tvBound t) = compatX a t := by
  refine XTy.ind' (P := fun a => compatX a (.tvBound t) = compatX a t) ?_ ?_ ?_ ?_ ?_ ?_ ?_ ?_ ?_ ?_ ?_ ?_ ?_ a
  · intro x; unfgx
  · intro vs; unfgx
  · unfgx
  · rw [compatX_noann_l, compatX_noann_l]
  · unfgx
  · intro g ts _; unfgx
  · intro t _; unfgx
  · intro ts _; unfgx
  · intro p ih; rw [compatX, ih]; exact (by rw [compatX] : compatX p t = compatX (.annot p) t)
  · intro e _; unfgx
  · rw [compatX_tv_l _ rfl, compatX_tv_l _ rfl]
  · intro u _; rw [compatX_tv_l _ rfl, compatX_tv_l _ rfl]
  · intro cs _; rw [compatX_tv_l _ rfl, compatX_tv_l _ rfl]

/-- a constrained TypeVar target accepts what one of its constraints accepts -/
theorem compatX_tvConstr_intro {a c : XTy} {cs : List XTy} (hc : c ∈ cs) : compatX a c = true → compatX a (.tvConstr cs) = true := by
  refine XTy.ind' (P := fun a => compatX a c = true → compatX a (.tvConstr cs) = true) ?_ ?_ ?_ ?_ ?_ ?_ ?_ ?_ ?_ ?_ ?_ ?_ ?_ a
  · intro x h; unfgx; exact compatAnyX_iff.mpr ⟨c, hc, h⟩
  · intro vs h; unfgx; exact compatAnyX_iff.mpr ⟨c, hc, h⟩
  · intro h; unfgx; exact compatAnyX_iff.mpr ⟨c, hc, h⟩
  · intro _; exact compatX_noann_l _
  · intro h; unfgx; exact compatAnyX_iff.mpr ⟨c, hc, h⟩
  · intro g ts _ h; unfgx; exact compatAnyX_iff.mpr ⟨c, hc, h⟩
  · intro t _ h; unfgx; exact compatAnyX_iff.mpr ⟨c, hc, h⟩
  · intro ts _ h; rw [compatX, Bool.or_eq_true]; exact Or.inl (compatAnyX_iff.mpr ⟨c, hc, h⟩)
  · intro p ih h; rw [compatX] at h ⊢; exact ih h
  · intro e _ h; unfgx; exact compatAnyX_iff.mpr ⟨c, hc, h⟩
  · intro _; exact compatX_tv_l _ rfl
  · intro u _ _; exact compatX_tv_l _ rfl
  · intro cs' _ _; exact compatX_tv_l _ rfl

/-- a union source is accepted exactly when every member is -/
theorem compatX_union_l (as : List XTy) (b : XTy) : compatX (.union as) b = true ↔ ∀ a ∈ as, compatX a b = true := by
  refine XTy.ind' (P := fun b => compatX (.union as) b = true ↔ ∀ a ∈ as, compatX a b = true) ?_ ?_ ?_ ?_ ?_ ?_ ?_ ?_ ?_ ?_ ?_ ?_ ?_ b
  · intro x; unfgx; exact compatAllX_iff
  · intro vs; unfgx; exact compatAllX_iff
  · simp [compatX_any_r]
  · simp [compatX_noann_r]
  · unfgx; exact compatAllX_iff
  · intro g ts _; unfgx; exact compatAllX_iff
  · intro t _; unfgx; exact compatAllX_iff
  · intro ts _; unfgx; exact compatAllX_iff
  · intro q _; unfgx; exact compatAllX_iff
  · intro f _; unfgx; exact compatAllX_iff
  · simp [compatX_tvFree_r]
  · intro t ih; simp only [compatX_tvBound]; exact ih
  · intro cs ih
    rw [compatX, Bool.or_eq_true]
    constructor
    · rintro (h | h)
      · obtain ⟨c, hc, hcu⟩ := compatAnyX_iff.mp h
        intro a ha
        exact compatX_tvConstr_intro hc ((ih c hc).mp hcu a ha)
      · exact compatAllX_iff.mp h
    · intro h; exact Or.inr (compatAllX_iff.mpr h)

/-- a union target accepts what one of its members accepts -/
theorem compatX_union_r {a b : XTy} {bs : List XTy} (hb : b ∈ bs) : compatX a b = true → compatX a (.union bs) = true := by
  refine XTy.ind' (P := fun a => compatX a b = true → compatX a (.union bs) = true) ?_ ?_ ?_ ?_ ?_ ?_ ?_ ?_ ?_ ?_ ?_ ?_ ?_ a
  · intro x h; unfgx; exact compatAnyX_iff.mpr ⟨b, hb, h⟩
  · intro vs h; unfgx; exact compatAnyX_iff.mpr ⟨b, hb, h⟩
  · intro h; unfgx; exact compatAnyX_iff.mpr ⟨b, hb, h⟩
  · intro _; exact compatX_noann_l _
  · intro h; unfgx; exact compatAnyX_iff.mpr ⟨b, hb, h⟩
  · intro g ts _ h; unfgx; exact compatAnyX_iff.mpr ⟨b, hb, h⟩
  · intro t _ h; unfgx; exact compatAnyX_iff.mpr ⟨b, hb, h⟩
  · intro ts ih h
    exact (compatX_union_l ts _).mpr (fun t ht => ih t ht ((compatX_union_l ts b).mp h t ht))
  · intro p ih h; rw [compatX] at h ⊢; exact ih h
  · intro e _ h; unfgx; exact compatAnyX_iff.mpr ⟨b, hb, h⟩
  · intro _; exact compatX_tv_l _ rfl
  · intro u _ _; exact compatX_tv_l _ rfl
  · intro cs' _ _; exact compatX_tv_l _ rfl

/-- a required plain `Annotated` is transparent -/
theorem compatX_annot_r {a q : XTy} : compatX a q = true → compatX a (.annot q) = true := by
  refine XTy.ind' (P := fun a => compatX a q = true → compatX a (.annot q) = true) ?_ ?_ ?_ ?_ ?_ ?_ ?_ ?_ ?_ ?_ ?_ ?_ ?_ a
  · intro x h; unfgx
  · intro vs h; unfgx
  · intro h; unfgx
  · intro _; exact compatX_noann_l _
  · intro h; unfgx
  · intro g ts _ h; unfgx
  · intro t _ h; unfgx
  · intro ts ih h
    exact (compatX_union_l ts _).mpr (fun t ht => ih t ht ((compatX_union_l ts q).mp h t ht))
  · intro p ih h; rw [compatX] at h ⊢; exact ih h
  · intro e _ h; unfgx
  · intro _; exact compatX_tv_l _ rfl
  · intro u _ _; exact compatX_tv_l _ rfl
  · intro cs' _ _; exact compatX_tv_l _ rfl

theorem compatZipX_self {ts : List XTy} (h : ∀ t ∈ ts, compatX t t = true) : compatZipX ts ts = true := by
  induction ts with
  | nil => rw [compatZipX]; intro a as b bs h; cases h
  | cons t ts ih =>
    rw [compatZipX, Bool.and_eq_true]
    exact ⟨h t (by simp), ih (fun x hx => h x (by simp [hx]))⟩

/-- the dispatch accepts every identical pair (so the shortcut `incoming_type == required_type` never changes an answer) -/
theorem compatX_refl (a : XTy) : compatX a a = true := by
  refine XTy.ind' (P := fun a => compatX a a = true) ?_ ?_ ?_ ?_ ?_ ?_ ?_ ?_ ?_ ?_ ?_ ?_ ?_ a
  · intro x; unfgx; cases x <;> rfl
  · intro vs; unfgx; exact litSub_refl vs
  · exact compatX_any_r _
  · exact compatX_noann_l _
  · unfgx
  · intro g ts ih
    unfgx
    simp [compatZipX_self ih]
  · intro t ih; unfgx
  · intro ts ih
    exact (compatX_union_l ts _).mpr (fun t ht => compatX_union_r ht (ih t ht))
  · intro p ih; rw [compatX]; exact compatX_annot_r ih
  · intro e ih; unfgx
  · exact compatX_tv_l _ rfl
  · intro u _; exact compatX_tv_l _ rfl
  · intro cs _; exact compatX_tv_l _ rfl


end PF.Typing
