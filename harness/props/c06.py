"""C06 — Running a map in pieces (fixed_indices, learners) equals running it whole.

Correspondence: real `Pipeline.map(fixed_indices=…, cleanup=False, parallel=False)` sequences on one run folder, and the real
`pipefunc.map.adaptive.create_learners` learners driven through `learner.function((k, x))`, on generated map pipelines
(`harness/mapgen.py`), against `PF.Pieces.runPart/runPieces/createLearners/execSteps` (lean/PfModel/Model/MapPieces.lean).
Clauses of the statement that can be evaluated on the implementation alone (parts add up to the full run, nothing computed
twice, the final full run computes nothing, the folder reloads to the full run's data) are evaluated on it directly.
"""
from __future__ import annotations

import contextlib
import copy
import itertools
import os
import random
import re
import shutil
import tempfile
from concurrent.futures import ThreadPoolExecutor

import numpy as np

import pfimport  # noqa: F401
from pfimport import exc_enum

import c06_flow
import mapgen
import terms

PID = "C06"
PROPS = ["PfModel.Props.C06", "PfModel.Props.C06Sub", "PfModel.Props.C06Flow", "PfModel.Props.C06Par", "PfModel.Props.C06Internal", "PfModel.Props.C06FlowWF"]
DRIVER = "C06"
RULE = ("mapgen pipelines (1-4 functions; zip, outer product, ':' reductions, internal axes, generators, tuple outputs; axis sizes 1-3, "
        "sometimes 4); for every axis name of the pipeline: every set partition of range(size) into arithmetic progressions (all of them "
        "for size <= 3, random ones for size 4), each block written as a random int / negative int / slice / negative-step slice with the "
        "same index set, sometimes an extra empty slice; every order of the parts when <= 4 parts (thorough; quick samples 4-part orders); "
        "one map(fixed_indices=part, cleanup=False) per part on one folder, then a full run; axes the validation refuses (reduced) and "
        "malformed requests (unknown axis, out-of-range integer, zero step, late out-of-range on an intermediate-only axis) form the reject "
        "stream; round 3: for every axis that no MapSpec maps over (internal only: `x[i] -> y[i, k]` with nothing mapping over k, unconsumed "
        "generators) an in-range integer, an out-of-range integer, a slice, and one of them next to a valid entry for a mapped axis "
        "(internal-axis stream: all must be refused with ValueError before anything runs; DF-C06-internal-axis), while axes internal in "
        "one output and mapped over by another function keep their partitions; learners with and without split_independent_axes and with fixed_indices, executed in a random generation-respecting "
        "interleaving and through simple_run; non-trivial = >= 2 non-empty parts (or >= 2 learner steps) over a function mapped over >= 2 "
        "elements; distinct by (pipeline, inputs, storage, request sequence). Round 2: the same with output_names= (names that drop part of "
        "the pipeline, exactly the narrowed pipeline's root inputs) and/or auto_subpipeline=True, for every axis NAME of the whole pipeline "
        "(sub-pieces / sub-malformed; the model validates against the narrowed pipeline); a sample of the sequences re-run with "
        "parallel=True + ThreadPoolExecutor (bare / dict / per output), storage dicts mixing file_array and dict, persist_memory=False; "
        "Result.output of every part checked as a clause; learners with return_output=True, repeated points, adaptive.runner.simple per "
        "learner, LearnersDict.flatten; flowWF (the static hypotheses of C06_pieces_flow) and C01's Conforms (under which flowWF is a "
        "theorem) evaluated by the driver for every fixed_indices dictionary of every sequence")
ASSUMPTIONS = ["NumPy basic indexing (`zeros(shape)[key] = True`, `array[key]`) and Python `slice.indices` are specified by `selIndices` "
               "(compared with Python's own `range(n)[sel]` for every selector the generator can draw)",
               "storage arrays are modelled as partial maps from the external linear index (C07 is the property about the backends)",
               "the run folder's `run_info.json` comparison of `cleanup=False` is not modelled: the parts use the same pipeline and inputs",
               "adaptive's SequenceLearner is driven through `learner.function((k, x))` and `simple_run`; its runner is not modelled",
               "pipeline-level: every call of a part is a call of the full run and the folder holds only elements of the full run "
               "(C06_pieces_flow, _seq, _parallel) under the decidable well-formedness flowWF; round 3: flowWF is DERIVED "
               "(C06_flowWF_of_conforms, C06_pieces_flow_valid, _seq_valid) for every request _validate_fixed_indices accepts on a pipeline "
               "satisfying C01's Conforms (acyclic, distinct output names, validate_consistent_axes as C01's consistentAxes, map_shapes "
               "succeeds, functions typed against the declared shape table); the driver still evaluates flowWF and Conforms on every "
               "generated request and the harness counts derived vs merely evaluated cases (all derived so far)",
               "the inputs of a sub-map run (output_names=) are chosen with a Python reference of the needed functions; autogenerated "
               "MapSpecs are regenerated for the narrowed pipeline on the Python side (regenerate_autogen)"]

STORAGES = ["file_array", "file_array", "dict"]


def mkbase():
    """the run's temp dir; on tmpfs when there is one (the run folders are tiny and short-lived: rename/unlink/rmdir on a disk
    shared with other jobs dominate the wall time otherwise)"""
    root = None
    try:
        if not os.environ.get("VERIF_C06_TMP_ON_DISK") and os.path.isdir("/dev/shm") and os.access("/dev/shm", os.W_OK | os.X_OK) \
                and shutil.disk_usage("/dev/shm").free > (256 << 20):
            root = "/dev/shm"
    except OSError:
        root = None
    return tempfile.mkdtemp(prefix="verif-c06-", dir=root)


# ------------------------------------------------------------------------------------------------ run modes
def storage_py(st):
    """a mode's storage: a string, or [[key, storage id]] with key "" (default) | output name | [output names] -> `storage=` dict"""
    if isinstance(st, str):
        return st
    return {(tuple(k) if isinstance(k, list) else k): v for k, v in st}


def gen_mode(rng, desc):
    """How a part sequence is run instead of `parallel=False, storage=<one string>`: with `parallel=True` and a thread pool passed as
    `executor=` (bare, as `{"": ex}`, or per output name), with `storage` a dictionary mixing "file_array" and "dict" per output name
    (usually with the "" default; sometimes every function listed and no default), with `persist_memory=False` (documented to have
    no effect for file based storage: only drawn when every storage is "file_array" — memory based storage that is not persisted does
    not survive the map call, which is the documented meaning of the flag and outside the statement)."""
    mode = {"executor": rng.choice(["one", "one", "dict-default", "per-output", None]), "storage": rng.choice(STORAGES)}
    if rng.random() < 0.6 or mode["executor"] is None:
        names = [f["outputs"][0] if len(f["outputs"]) == 1 else list(f["outputs"]) for f in desc["funcs"]]
        if rng.random() < 0.25:
            st = [[n, rng.choice(["file_array", "dict"])] for n in names]
        else:
            st = [["", rng.choice(["file_array", "dict"])]] + [[n, rng.choice(["file_array", "dict"])] for n in names if rng.random() < 0.6]
        mode["storage"] = st
    kinds = {mode["storage"]} if isinstance(mode["storage"], str) else {v for _, v in mode["storage"]}
    if kinds == {"file_array"} and rng.random() < 0.5:
        mode["persist_memory"] = False
    return mode


def mode_counts(ctx, mode):
    ctx.count(f"mode:executor={mode['executor']}")
    st = mode["storage"]
    kinds = {st} if isinstance(st, str) else {v for _, v in st}
    ctx.count("mode:storage=" + ("string " + st if isinstance(st, str) else
                                 ("dict, " + ("mixed" if len(kinds) > 1 else "all " + next(iter(kinds))) + (", no default" if all(k != "" for k, _ in st) else ""))))
    if mode.get("persist_memory") is False:
        ctx.count("mode:persist_memory=False")


# ------------------------------------------------------------------------------------------------ Result.output of a part
def out_axes_of(desc, name):
    """(axes, external?) of output `name` of a function mapped over inputs (an output axis that no input of the function carries is an
    internal one: filled by one call), else None"""
    for f in desc["funcs"]:
        ms = f["mapspec"]
        if name in f["outputs"] and ms and ms["inputs"]:
            carried = {x for a in ms["inputs"] for x in a[1] if x is not None}
            axes = next((a[1] for a in ms["outputs"] if a[0] == name), None)
            if axes is None:
                return None
            return axes, [a in carried for a in axes]
    return None


def selected_flat(axes, ext, shape, fixed):
    """which elements (flat, C order over the full shape) a part with `fixed` selects — by NumPy's / Python's own indexing; an
    internal axis is never restricted (all of it belongs to the element)"""
    fx = {a: s for a, s in (fixed or [])}
    sel = np.zeros(shape, dtype=bool)
    sel[tuple(sel_py(fx[a]) if (e and a in fx) else slice(None) for a, e in zip(axes, ext))] = True
    return [bool(b) for b in sel.ravel()]


def part_output_fault(desc, fixed, io):
    """The clause "each partial run computes precisely the selected elements and leaves all others missing" on `Result.output` of
    one part, on the implementation's own answers: a selected element is the stored element, every other element is None.
    Returns a description of the first fault or None."""
    for name, pres in io["present"].items():
        if pres is None:
            continue
        am = out_axes_of(desc, name)
        out, sto = io["outputs"].get(name), io["stored"].get(name)
        if am is None or not (isinstance(out, dict) and "arr" in out and isinstance(sto, dict) and "arr" in sto):
            continue
        axes, ext = am
        shape = out["arr"][0]
        if shape != sto["arr"][0]:
            return f"Result.output of `{name}` has shape {shape}, its storage {sto['arr'][0]}"
        if len(shape) != len(axes):
            continue
        try:
            sel = selected_flat(axes, ext, shape, fixed)
        except (IndexError, ValueError):
            continue
        for p, (o, s, isin) in enumerate(zip(out["arr"][1], sto["arr"][1], sel)):
            if isin and o != s:
                return f"Result.output of `{name}` at flat position {p} (selected) is {str(o)[:60]}, the stored element is {str(s)[:60]}"
            if not isin and o is not None:
                return f"Result.output of `{name}` at flat position {p} (NOT selected) is {str(o)[:60]} instead of missing (None)"
    return None


# ------------------------------------------------------------------------------------------------ selectors
def sel_py(j):
    return j if isinstance(j, int) else slice(*j["sl"])


def sel_json(s):
    return s if isinstance(s, int) else {"sl": [s.start, s.stop, s.step]}


def fixed_py(fx):
    return None if fx is None else {a: sel_py(s) for a, s in fx}


_TABLE: dict = {}


def sel_table(n):
    """frozenset of positions -> selectors (JSON) with exactly that index set on an axis of size n (oracle: Python itself)."""
    if n in _TABLE:
        return _TABLE[n]
    tab: dict = {}
    for k in range(-n, n):
        tab.setdefault(frozenset([range(n)[k]]), []).append(k)
    bounds = [None, *range(-n - 2, n + 3)]
    for a in bounds:
        for b in bounds:
            for st in (None, 1, 2, 3, -1, -2, -3):
                tab.setdefault(frozenset(range(n)[slice(a, b, st)]), []).append({"sl": [a, b, st]})
    _TABLE[n] = tab
    return tab


def set_partitions(items):
    if not items:
        yield []
        return
    first, rest = items[0], items[1:]
    for part in set_partitions(rest):
        yield [[first], *part]
        for i in range(len(part)):
            yield [*part[:i], [first, *part[i]], *part[i + 1:]]


def pick_rep(rng, n, block):
    reps = sel_table(n).get(frozenset(block))
    if not reps:
        return None
    r = rng.random()
    ints = [x for x in reps if isinstance(x, int)]
    negstep = [x for x in reps if not isinstance(x, int) and (x["sl"][2] or 1) < 0]
    posstep = [x for x in reps if not isinstance(x, int) and (x["sl"][2] or 1) > 0]
    if ints and r < 0.35:
        return rng.choice(ints)
    if negstep and r < 0.65:
        return rng.choice(negstep)
    return rng.choice(posstep or reps)


def partitions_for(rng, n, tier):
    """list of partitions; a partition is a list of selectors (JSON)"""
    out = []
    if n <= 3:
        plist = list(set_partitions(list(range(n))))
    else:
        plist = [p for p in set_partitions(list(range(n))) if all(frozenset(b) in sel_table(n) for b in p)]
        plist = rng.sample(plist, min(len(plist), 3 if tier == "quick" else 6))
    for p in plist:
        sels = [pick_rep(rng, n, b) for b in p]
        if any(s is None for s in sels):
            continue
        if rng.random() < 0.15:
            sels.append(rng.choice(sel_table(n)[frozenset()]))     # a part that selects nothing
        out.append(sels)
    return out


def orders_for(rng, k, tier):
    perms = list(itertools.permutations(range(k)))
    if k <= 3 or (k == 4 and tier == "thorough"):
        return perms
    return rng.sample(perms, min(len(perms), 5))


# ------------------------------------------------------------------------------------------------ the implementation
def axes_of(desc):
    names = []
    for f in desc["funcs"]:
        if f["mapspec"]:
            for a in f["mapspec"]["inputs"] + f["mapspec"]["outputs"]:
                for x in a[1]:
                    if x is not None and x not in names:
                        names.append(x)
    return names


def canon_calls(calls):
    return sorted(([c[0], c[1]] for c in calls if c[2] == "call"), key=repr)


def model_calls(calls):
    return sorted(([n, [[k, terms.canon(v)] for k, v in sorted(kw, key=lambda kv: kv[0])]] for n, kw in calls), key=repr)


def observe_store(res, folder):
    from pipefunc.map import load_outputs
    present, stored = {}, {}
    for name, r in res.items():
        st = r.store
        if hasattr(st, "mask_linear"):
            present[name] = [i for i, m in enumerate(st.mask_linear()) if not m]
            stored[name] = terms.enc(st.to_array())
        elif hasattr(st, "value"):
            present[name] = None
            stored[name] = terms.enc(st.value)
        else:
            present[name] = None
            stored[name] = terms.enc(load_outputs(name, run_folder=folder))
    return present, stored


class Impl:
    """One built pipeline with its call log; folders below `base`."""

    def __init__(self, desc, storage, base):
        self.desc, self.storage, self.base = desc, storage, base
        self.p, self.log = mapgen.build(desc)
        self.inputs = mapgen.py_inputs(desc)

    def map(self, folder, fixed, sub=None, mode=None, executor=None):
        """`sub` = {"S": output names | None, "auto": bool, "inputs": names of the supplied inputs} for a run of a sub-map;
        `mode` (see `gen_mode`) = how the part is run: executor (then `parallel=True`), storage per output, persist_memory"""
        kw, inputs = {}, dict(self.inputs)
        if sub is not None:
            inputs = {k: v for k, v in inputs.items() if k in sub["inputs"]}
            if sub["S"] is not None:
                kw["output_names"] = set(sub["S"])
            if sub["auto"]:
                kw["auto_subpipeline"] = True
        storage, par = self.storage, {"parallel": False}
        if mode is not None:
            storage = storage_py(mode["storage"])
            if executor is not None:
                par = {"parallel": True, "executor": executor}
            if mode.get("persist_memory") is False:
                par["persist_memory"] = False
        return mapgen.quiet(self.p.map, inputs, run_folder=folder, internal_shapes=mapgen.internal_shapes_arg(self.desc),
                            storage=storage, cleanup=False, fixed_indices=fixed_py(fixed), **par, **kw)

    @contextlib.contextmanager
    def executors(self, mode):
        """the `executor=` argument of a mode: one ThreadPoolExecutor, `{"": ex}`, or one entry per function's output name over two
        pools (the first function falls to the `""` default); shut down (waiting for stragglers) when the sequence is over"""
        kind = (mode or {}).get("executor")
        if not kind:
            yield None
            return
        with ThreadPoolExecutor(max_workers=3) as ex1:
            if kind == "one":
                yield ex1
            elif kind == "dict-default":
                yield {"": ex1}
            else:
                with ThreadPoolExecutor(max_workers=2) as ex2:
                    names = [f.output_name for f in self.p.functions]
                    dct = {n: (ex2 if q % 2 else ex1) for q, n in enumerate(names)}
                    if len(dct) > 1:
                        del dct[names[0]]
                        dct[""] = ex2
                    yield dct

    def gappy(self):
        """DF-29 (b) (C19): on a tree without that repair `mapspec_axes` raises for an array whose leading axis is only ever ':'."""
        try:
            self.p.mapspec_axes
        except KeyError:
            return True
        return False

    def sequence(self, parts, sub=None, mode=None):
        """Run the parts in order on a fresh folder; one observation per part, stopping at the first refusal."""
        folder = tempfile.mkdtemp(dir=self.base)
        obs = []
        try:
            with self.executors(mode) as ex:
                for fx in parts:
                    self.log.clear()
                    try:
                        res = self.map(folder, fx, sub, mode, ex)
                        present, stored = observe_store(res, folder)
                        obs.append({"calls": canon_calls(self.log.read()), "present": present, "stored": stored,
                                    "outputs": {k: terms.enc(r.output) for k, r in res.items()}})
                    except Exception as e:  # noqa: BLE001
                        obs.append({"err": exc_enum(e), "msg": f"{type(e).__name__}: {e}"[:200], "ran": len(canon_calls(self.log.read()))})
                        break
            loaded = None
            if obs and "err" not in obs[-1]:
                try:
                    from pipefunc.map import load_outputs
                    names = list(obs[-1]["stored"])
                    vals = mapgen.quiet(load_outputs, *names, run_folder=folder)
                    vals = [vals] if len(names) == 1 else list(vals)
                    loaded = {n: terms.enc(v) for n, v in zip(names, vals)}
                except Exception as e:  # noqa: BLE001
                    loaded = {"err": exc_enum(e), "msg": str(e)[:200]}
            return obs, loaded
        finally:
            shutil.rmtree(folder, ignore_errors=True)


def model_part(r):
    if "err" in r:
        return {"err": r["err"], "msg": r.get("why")}
    return {"calls": model_calls(r["calls"]), "present": dict(r["present"]), "stored": {k: terms.canon(v) for k, v in r["stored"]},
            "outputs": {k: terms.canon(v) for k, v in r["outputs"]}}


def mapped_big(desc, full):
    """some function is mapped over >= 2 elements"""
    return any(v is not None and len(v) >= 2 for v in full["present"].values())


# ------------------------------------------------------------------------------------------------ pieces
def judge_sequence(ctx, case, impl_obs, loaded, model_obs_, full, nparts):
    """`impl_obs`/`model_obs_`: one entry per request of case['parts'] (the last one is the final full run)."""
    subinfo = ""
    if case.get("sub"):
        subinfo = f"; output_names={case['sub']['S']}, auto_subpipeline={case['sub']['auto']}, inputs {case['sub']['inputs']}"
    if case.get("mode"):
        subinfo += f"; run mode {case['mode']}"
    info = f" [axis {case.get('axis')}, parts {case['parts'][:-1]}{subinfo}]"

    def V(case, what, **kw):
        ctx.violation(case, what + info, key=re.sub(r"[0-9]+", "#", what)[:70], **kw)

    # the model's verdict on the sequence
    merr = next((k for k, o in enumerate(model_obs_) if "err" in o), None)
    ierr = next((k for k, o in enumerate(impl_obs) if "err" in o), None)
    if case.get("kind") == "internal-axis":
        # the operator's own premise, decided by the model: a request naming an axis no MapSpec maps over is refused by the validation
        # (ValueError, first part); and the refusal happens before any function runs
        k, fx = case["axis"], case["parts"][0]
        ent = next(s for a, s in fx if a == k)
        n = case["desc"]["sizes"][k]
        ctx.count("internal-axis:" + ("slice" if not isinstance(ent, int) else "in-range integer" if -n <= ent < n else "out-of-range integer")
                  + (" + an entry for a mapped axis" if len(fx) > 1 else ""))
        if merr != 0 or model_obs_[0]["err"] not in ("ValueError", "IndexError"):
            V(case, f"the model does not refuse an index on the internal-only axis `{k}` (harness and model disagree on which axes are "
                    f"mapped over)", found_input=False, item="correspondence:internal-axis-model", impl=impl_obs[0], model=model_obs_[0])
            return False
        if ierr == 0 and impl_obs[0].get("ran", 0) > 0:
            V(case, f"an index on the internal-only axis `{k}` was refused only after {impl_obs[0]['ran']} call(s) had run",
              found_input=False, item="correspondence:refusal-time", impl=impl_obs[0], model=model_obs_[0])
            return False
    if merr is not None:
        late = ierr is not None and impl_obs[ierr].get("ran", 0) > 0
        ctx.count(f"reject:{model_obs_[merr]['err']}{':late (after earlier generations ran)' if late else ''}")
        if ierr is None:
            V(case, f"request that must be rejected ({model_obs_[merr]['err']}) was accepted",
                          impl=impl_obs[merr] if merr < len(impl_obs) else None, model=model_obs_[merr])
        elif ierr > merr:       # the implementation went on past the request the model refuses (and stumbled later)
            V(case, f"request that must be rejected ({model_obs_[merr]['err']}) was accepted (part #{merr}; a later part was refused)",
                          impl=impl_obs[merr], model=model_obs_[merr])
        elif ierr != merr:
            V(case, f"part #{ierr} refused with {impl_obs[ierr]['err']} although valid: {impl_obs[ierr]['msg'][:100]}",
                          impl=impl_obs[ierr], model=model_obs_[ierr])
        elif impl_obs[ierr]["err"] != model_obs_[merr]["err"]:
            V(case, f"rejected with {impl_obs[ierr]['err']} instead of {model_obs_[merr]['err']}", found_input=False,
                          item="correspondence:error-class", impl=impl_obs[ierr], model=model_obs_[merr])
        return False
    if ierr is not None:
        ctx.count(f"impl-refuses:{impl_obs[ierr]['err']}")
        V(case, f"valid part #{ierr} refused with {impl_obs[ierr]['err']}: {impl_obs[ierr]['msg'][:120]}",
                      impl=impl_obs[ierr], model=model_obs_[ierr])
        return False
    # each part computes precisely the selected, still missing elements and leaves all others missing
    for k, (io, mo) in enumerate(zip(impl_obs, model_obs_)):
        tag = "the final full run" if k == nparts else "a part"
        info = f" [{'final run' if k == nparts else f'part #{k} = ' + str(case['parts'][k])}; axis {case.get('axis')}, parts {case['parts'][:-1]}{subinfo}]"
        if io["present"] != mo["present"]:
            V(case, f"after {tag} the stored elements are not the previously stored plus the selected ones",
                          impl={"present": io["present"]}, model={"present": mo["present"]})
            return False
        if io["calls"] != mo["calls"]:
            V(case, f"{tag} did not compute precisely the selected missing elements",
                          impl={"calls": io["calls"]}, model={"calls": mo["calls"]})
            return False
        if io["stored"] != mo["stored"]:
            V(case, f"after {tag} the stored data differ from the elements computed so far",
                          impl={"stored": io["stored"]}, model={"stored": mo["stored"]})
            return False
        fault = part_output_fault(case["desc"], case["parts"][k], io)
        if fault:
            V(case, f"{tag} does not return precisely the selected elements: {fault}", impl={"outputs": io["outputs"], "stored": io["stored"]},
              model={"outputs": mo["outputs"]})
            return False
        ctx.count("part-output:selected = stored, others missing")
        if io["outputs"] != mo["outputs"]:
            V(case, f"Result.output of {tag} differs from the model", found_input=False, item="correspondence:part-output",
                          impl={"outputs": io["outputs"]}, model={"outputs": mo["outputs"]})
            return False
    info = f" [axis {case.get('axis')}, parts {case['parts'][:-1]}{subinfo}]"
    # the clauses of the statement, on the implementation's own answers
    final = impl_obs[-1]
    if final["calls"]:
        V(case, f"the final full run recomputed {len(final['calls'])} element(s)", impl={"calls": final["calls"]}, model=None)
        return False
    allcalls = sorted((c for o in impl_obs for c in o["calls"]), key=repr)
    if allcalls != full["calls"]:
        V(case, "the calls of the parts do not add up to the calls of one full run (an element computed twice, "
                      "never, or with other arguments)", impl={"calls": allcalls}, model={"calls": full["calls"]})
        return False
    if final["stored"] != full["stored"] or final["outputs"] != full["outputs"]:
        V(case, "the folder after all parts does not hold what one full run stores",
                      impl={"stored": final["stored"]}, model={"stored": full["stored"]})
        return False
    if loaded != full["stored"]:
        V(case, "load_outputs after all parts differs from the data of one full run", impl={"loaded": loaded},
                      model={"stored": full["stored"]})
        return False
    return True


def malformed_requests(rng, desc, axes):
    """requests the validation must refuse; each is a single fault"""
    out = []
    sizes = desc["sizes"]
    out.append([["zz", 0]])
    if axes:
        a = rng.choice(axes)
        n = sizes[a]
        out.append([[a, rng.choice([n, n + 1, -n - 1])]])
        out.append([[a, {"sl": [None, None, 0]}]])
        out.append([[a, rng.choice([0, -1])], ["zz", {"sl": [None, None, None]}]])
    return out


def mapped_axes(desc):
    """the axes some function maps over (the input indices of all MapSpecs)"""
    return {x for f in desc["funcs"] if f["mapspec"] for a in f["mapspec"]["inputs"] for x in a[1] if x is not None}


def internal_only_axes(desc):
    """axes that no MapSpec has among its input indices: they exist only as internal axes of outputs (generated inside a function,
    `internal_shape`); `fixed_indices` on them must be refused (DF-C06-internal-axis: they were silently ignored)"""
    mapped = mapped_axes(desc)
    return [a for a in axes_of(desc) if a not in mapped]


def internal_somewhere_axes(desc):
    """axes that are internal in the output of one function and mapped over by another one: requests on them stay valid (the producer
    ignores the entry and computes everything, the consumer selects)"""
    mapped = mapped_axes(desc)
    out = []
    for f in desc["funcs"]:
        ms = f["mapspec"]
        if ms:
            carried = {x for a in ms["inputs"] for x in a[1] if x is not None}
            for a in ms["outputs"][:1]:
                out += [x for x in a[1] if x not in carried and x in mapped and x not in out]
    return out


def internal_axis_requests(rng, desc):
    """the operator 'a fixed index on an internal-only axis': for every such axis an in-range integer, an out-of-range integer and an
    in-range slice, alone and together with a valid entry for an axis that is mapped over; every one must be refused (ValueError)
    before anything runs.  [(axis, fixed)]"""
    out = []
    others = [a for a in axes_of(desc) if a in mapped_axes(desc)]
    for k in internal_only_axes(desc):
        n = desc["sizes"][k]
        valid_int = rng.choice([rng.randrange(n), -rng.randint(1, n)])
        oor = rng.choice([n, n + rng.randint(1, 97), -n - 1])
        valid_slice = rng.choice([x for b in sel_table(n).items() if b[0] for x in b[1] if not isinstance(x, int)])
        reqs = [[[k, valid_int]], [[k, oor]], [[k, valid_slice]]]
        if others:
            a = rng.choice(others)
            m = desc["sizes"][a]
            entry = [a, pick_rep(rng, m, [rng.randrange(m)])]
            pair = [entry, [k, rng.choice([valid_int, oor])]]
            rng.shuffle(pair)
            reqs.append(pair)
        out += [(k, fx) for fx in reqs]
    return out


def plan_case(ctx, rng, desc, storage):
    """The request sequences for one pipeline: [(kind, axis, parts-with-final-None)]"""
    plans = []
    axes = axes_of(desc)
    internal_only = internal_only_axes(desc)
    for k, fx in internal_axis_requests(rng, desc):
        plans.append(("internal-axis", k, [fx, None]))
    for a in internal_somewhere_axes(desc):
        ctx.count("axis:internal in one output, mapped over by another function (requests stay valid)")
    for a in axes:
        if a in internal_only:
            ctx.count("axis:internal only (every request refused)")
            if rng.random() < 0.7:
                continue          # one in three still gets the partitions: every part must be refused
        n = desc["sizes"][a]
        for sels in partitions_for(rng, n, ctx.tier):
            for order in orders_for(rng, len(sels), ctx.tier):
                parts = [[[a, sels[q]]] for q in order]
                plans.append(("pieces", a, parts + [None]))
    # two axes at once: a part fixes one index on each of two axes (product selection); covering needs all combinations
    if len(axes) >= 2 and rng.random() < 0.5:
        a, b = rng.sample(axes, 2)
        pa, pb = rng.choice(partitions_for(rng, desc["sizes"][a], "quick")), rng.choice(partitions_for(rng, desc["sizes"][b], "quick"))
        combos = [[[a, x], [b, y]] for x in pa for y in pb]
        if len(combos) <= 6:
            rng.shuffle(combos)
            plans.append(("pieces2", f"{a}*{b}", combos + [None]))
    for fx in malformed_requests(rng, desc, axes):
        plans.append(("malformed", None, [fx, None]))
    return plans


# ------------------------------------------------------------------------------------------------ sub-maps (output_names / auto_subpipeline)
def needed_funcs(desc, S):
    """the functions `subpipeline(set(inputs), S)` keeps when the inputs are root arguments: producers of S and their ancestors
    through parameters that are not bound (reference for choosing the inputs; the verdicts come from the model)"""
    prod = {o: f for f in desc["funcs"] for o in f["outputs"]}
    need, stack = set(), [prod[o]["name"] for o in S]
    byname = {f["name"]: f for f in desc["funcs"]}
    while stack:
        n = stack.pop()
        if n in need:
            continue
        need.add(n)
        f = byname[n]
        bound = {b[0] for b in f["bound"]}
        stack += [prod[q]["name"] for q, _ in f["params"] if q in prod and q not in bound]
    return [f for f in desc["funcs"] if f["name"] in need]


def root_inputs(desc, funcs):
    prod = {o for f in desc["funcs"] for o in f["outputs"]}
    roots = {q for f in funcs for q, _ in f["params"] if q not in prod and q not in {b[0] for b in f["bound"]}}
    return [n for n, _ in desc["inputs"] if n in roots]


def sub_choices(ctx, rng, desc):
    """[{"S", "auto", "inputs"}]: output names that (preferably) drop a part of the pipeline, with exactly the inputs the narrowed
    pipeline takes; sometimes `auto_subpipeline=True` on top, sometimes `auto_subpipeline=True` alone with all inputs"""
    cands = []
    for f in desc["funcs"]:
        for S in ([f["outputs"][0]], list(f["outputs"])) if len(f["outputs"]) > 1 else ([f["outputs"][0]],):
            kept = needed_funcs(desc, S)
            cands.append((len(kept) < len(desc["funcs"]), S, kept))
    narrowing = [c for c in cands if c[0]]
    pool = narrowing or cands
    rng.shuffle(pool)
    out = []
    for _, S, kept in pool[:ctx.n(1, 2)]:
        out.append({"S": S, "auto": rng.random() < 0.25, "inputs": root_inputs(desc, kept)})
    if rng.random() < 0.25 and not any(f["autogen"] for f in desc["funcs"]):
        out.append({"S": None, "auto": True, "inputs": [n for n, _ in desc["inputs"]]})
    return out


def regenerate_autogen(desc, funcs_req, S):
    """`Pipeline._validate_mapspec` drops an autogenerated MapSpec and regenerates it from the consumers that are still in the
    pipeline: in the narrowed pipeline a producer keeps it only if a KEPT function names one of its outputs in a MapSpec."""
    if S is None or not any(f["autogen"] for f in desc["funcs"]):
        return funcs_req
    kept = needed_funcs(desc, S)
    named = {a[0] for g in kept if g["mapspec"] and g["mapspec_str"] for a in g["mapspec"]["inputs"]}
    out = []
    for f, fr in zip(desc["funcs"], funcs_req):
        if f["autogen"] and not any(o in named for o in f["outputs"]):
            fr = {**fr, "mapspec": None}
        out.append(fr)
    return out


def plan_sub(ctx, rng, desc, sub):
    """request sequences for a sub-map: every axis NAME of the whole pipeline (the model decides whether the narrowed map knows
    it / reduces it), few partitions and orders each, one out-of-range request"""
    plans = []
    for a in axes_of(desc):
        n = desc["sizes"][a]
        ps = partitions_for(rng, n, "quick")
        for sels in rng.sample(ps, min(len(ps), ctx.n(2, 4))):
            orders = orders_for(rng, len(sels), "quick")
            for order in rng.sample(orders, min(len(orders), 2)):
                plans.append(("sub-pieces", a, [[[a, sels[q]]] for q in order] + [None]))
        if rng.random() < 0.5:
            plans.append(("sub-malformed", a, [[[a, rng.choice([n, -n - 1])]], None]))
    return plans


def sub_jobs(ctx, rng, impl, desc, storage, jobs, fixed_plans=None):
    """`fixed_plans` (corpus): [(sub, [(kind, axis, parts)])] instead of generated choices"""
    req = mapgen.model_request(desc)
    for sub, plans in (fixed_plans if fixed_plans is not None else [(sb, None) for sb in sub_choices(ctx, rng, desc)]):
        full_obs, _ = impl.sequence([None], sub)
        ins = [kv for kv in desc["inputs"] if kv[0] in sub["inputs"]]
        sreq = {**req, "funcs": regenerate_autogen(desc, req["funcs"], sub["S"]), "inputs": ins, "output_names": sub["S"], "auto": sub["auto"]}
        jobs.append({"kind": "sub-full", "desc": desc, "storage": storage, "sub": sub, "impl": full_obs,
                     "reqs": [{"m": "pieces.run", "a": {**sreq, "parts": [None]}}]})
        if "err" in full_obs[0]:
            continue
        for kind, axis, parts in (plans if plans is not None else plan_sub(ctx, rng, desc, sub)):
            obs, loaded = impl.sequence(parts, sub)
            jobs.append({"kind": kind, "desc": desc, "storage": storage, "axis": axis, "parts": parts, "sub": sub, "impl": obs, "loaded": loaded,
                         "full": full_obs[0],
                         "reqs": [{"m": "pieces.run", "a": {**sreq, "parts": parts}},
                                  # what the pipeline as passed in (not narrowed) says to the first request: counts how often the order
                                  # of narrowing and validation is observable
                                  {"m": "pieces.run", "a": {**req, "parts": parts[:1]}}]})


def check_pipeline(ctx, rng, desc, storage, base, jobs, extra_plans=()):
    """Run the implementation on every planned sequence; queue the model requests."""
    try:
        impl = Impl(desc, storage, base)
    except Exception as e:  # noqa: BLE001
        ctx.violation({"desc": desc, "kind": "construct"}, f"valid pipeline refused at construction: {type(e).__name__}: {str(e)[:100]}")
        return
    if impl.gappy():
        ctx.skip("DF-29b: mapspec_axes raises for an array whose leading axis is only ever ':' (C19's repair not in this tree)")
        return
    full_obs, full_loaded = impl.sequence([None])
    req = mapgen.model_request(desc)
    jobs.append({"kind": "full", "desc": desc, "storage": storage, "impl": full_obs, "loaded": full_loaded,
                 "reqs": [{"m": "map.run", "a": req, "driver": "C01"}, {"m": "pieces.run", "a": {**req, "parts": [None]}}]})
    if "err" in full_obs[0]:
        return
    planned = []
    for kind, axis, parts in list(extra_plans) + plan_case(ctx, rng, desc, storage):
        obs, loaded = impl.sequence(parts)
        planned.append(len(jobs))
        jobs.append({"kind": kind, "desc": desc, "storage": storage, "axis": axis, "parts": parts, "impl": obs, "loaded": loaded,
                     "full": full_obs[0], "reqs": [{"m": "pieces.run", "a": {**req, "parts": parts}}]})
    # the same part sequences under other run modes (a sample): the model's answer is the sequential one
    pieces = [j for j in planned if jobs[j]["kind"].startswith("pieces")]
    other = [j for j in planned if not jobs[j]["kind"].startswith("pieces")]
    picked = rng.sample(pieces, min(len(pieces), ctx.n(2, 6))) + (rng.sample(other, 1) if other and rng.random() < 0.3 else [])
    if not pieces and rng.random() < 0.5:
        picked.append(None)              # a pipeline without axes: the full run alone, under a mode
    for j in picked:
        mode = gen_mode(rng, desc)
        src = jobs[j] if j is not None else {"kind": "pieces", "axis": None, "parts": [None, None]}
        obs, loaded = impl.sequence(src["parts"], mode=mode)
        jobs.append({"kind": src["kind"], "desc": desc, "storage": storage, "axis": src["axis"], "parts": src["parts"], "mode": mode,
                     "impl": obs, "loaded": loaded, "full": full_obs[0], "resp_from": j,
                     "reqs": [] if j is not None else [{"m": "pieces.run", "a": {**req, "parts": src["parts"]}}]})
    learner_jobs(ctx, rng, impl, desc, storage, jobs, full_obs[0])
    if len(desc["funcs"]) >= 2 or rng.random() < 0.3:
        sub_jobs(ctx, rng, impl, desc, storage, jobs)


# ------------------------------------------------------------------------------------------------ learners
def key_json(key):
    if key is None:
        return None
    return [[k.axis, sel_json(k.idx) if isinstance(k.idx, slice) else int(k.idx)] for k in key]


def seq_json(seq):
    seq = list(seq)
    return None if seq == [None] else [int(x) for x in seq]


def learners_impl(impl, folder, fixed, split, ret=False):
    from pipefunc.map.adaptive import create_learners
    kw = {"return_output": True} if ret else {}
    ld = mapgen.quiet(create_learners, impl.p, dict(impl.inputs), folder, mapgen.internal_shapes_arg(impl.desc), storage="file_array",
                      fixed_indices=fixed_py(fixed), split_independent_axes=split, **kw)
    struct = []
    for key, gens in ld.items():
        struct.append([key_json(key), [sorted([[lp.pipefunc.__name__, seq_json(lp.learner.sequence)] for lp in gen], key=repr) for gen in gens]])
    return ld, struct


def flatten_obs(ld):
    """`LearnersDict.flatten()`: [[output names of the function, [sequence of every learner in the list]]] in the dictionary's order,
    and whether the lists hold exactly the learner objects of all keys and generations, in order"""
    flat = ld.flatten()
    want: dict = {}
    for gens in ld.values():
        for gen in gens:
            for lp in gen:
                want.setdefault(lp.pipefunc.output_name, []).append(lp.learner)
    same = list(flat) == list(want) and all(len(flat[k]) == len(want[k]) and all(a is b for a, b in zip(flat[k], want[k])) for k in want)
    return {"same_objects": bool(same),
            "lists": [[[k] if isinstance(k, str) else list(k), [seq_json(l.sequence) for l in v]] for k, v in flat.items()]}


def learner_steps(order_rng, ld):
    """A random interleaving of all `learner.function(x)` calls that respects the generations inside every key."""
    state = []
    for key, gens in ld.items():
        state.append([[[(lp, k, x) for lp in gen for k, x in enumerate(lp.learner.sequence)] for gen in gens], 0])
    for st in state:
        for items in st[0]:
            order_rng.shuffle(items)
    steps = []
    while True:
        live = [st for st in state if st[1] < len(st[0])]
        if not live:
            return steps
        st = order_rng.choice(live)
        items = st[0][st[1]]
        if items:
            steps.append(items.pop())
        if not items:
            st[1] += 1


def learner_order(order_rng, ld):
    """A random order of whole learners that respects the generations inside every key."""
    state = [[[list(gen) for gen in gens], 0] for gens in ld.values()]
    for st in state:
        for items in st[0]:
            order_rng.shuffle(items)
    order = []
    while True:
        live = [st for st in state if st[1] < len(st[0])]
        if not live:
            return order
        st = order_rng.choice(live)
        items = st[0][st[1]]
        if items:
            order.append(items.pop())
        if not items:
            st[1] += 1


def with_repeats(order_rng, steps):
    """the same steps with about a third of them asked again at a random later position (the element exists by then)"""
    out = list(steps)
    for st in steps:
        if order_rng.random() < 0.35:
            first = next(q for q, t in enumerate(out) if t is st)
            out.insert(order_rng.randint(first + 1, len(out)), st)
    return out


def run_learners(impl, fixed, split, mode, order_seed, ret=False):
    """mode: "steps" (`learner.function((k, x))` in a random generation-respecting interleaving), "repeat" (the same with points asked
    twice), "runner" (`adaptive.runner.simple(learner)` learner by learner in a random generation-respecting order), "simple_run"
    (`LearnersDict.simple_run()`); `ret`: `create_learners(..., return_output=True)`"""
    folder = tempfile.mkdtemp(dir=impl.base)
    try:
        impl.log.clear()
        try:
            ld, struct = learners_impl(impl, folder, fixed, split, ret)
        except Exception as e:  # noqa: BLE001
            return {"err": exc_enum(e), "msg": f"{type(e).__name__}: {e}"[:200]}
        try:
            flat = flatten_obs(ld)
        except Exception as e:  # noqa: BLE001
            flat = {"err": exc_enum(e), "msg": f"{type(e).__name__}: {e}"[:200]}
        steps_json, per_step, groups, rets = [], [], None, []
        rng_ = random.Random(order_seed)
        try:
            if mode == "simple_run":
                mapgen.quiet(ld.simple_run)
                steps_json = None
                if ret:
                    for gens in ld.values():
                        for gen in gens:
                            for lp in gen:
                                for k, x in enumerate(lp.learner.sequence):
                                    rets.append([lp.pipefunc.__name__, None if x is None else int(x), terms.enc(lp.learner.data.get(k, "<no data>")), None])
            elif mode == "runner":
                from adaptive import runner
                groups = []
                for lp in learner_order(rng_, ld):
                    before = len(impl.log.read())
                    mapgen.quiet(runner.simple, lp.learner)
                    seq = list(lp.learner.sequence)
                    for k, x in enumerate(seq):
                        steps_json.append([lp.pipefunc.__name__, None if x is None else int(x)])
                        if ret:
                            rets.append([lp.pipefunc.__name__, None if x is None else int(x), terms.enc(lp.learner.data.get(k, "<no data>")), None])
                    groups.append(len(seq))
                    per_step.append(canon_calls(impl.log.read()[before:]))
            else:
                steps = learner_steps(rng_, ld)
                if mode == "repeat":
                    steps = with_repeats(rng_, steps)
                for lp, k, x in steps:
                    before = len(impl.log.read())
                    v = lp.learner.function((k, x))
                    steps_json.append([lp.pipefunc.__name__, None if x is None else int(x)])
                    per_step.append(canon_calls(impl.log.read()[before:]))
                    rets.append([lp.pipefunc.__name__, None if x is None else int(x), terms.enc(v), len(per_step[-1])])
        except Exception as e:  # noqa: BLE001
            return {"struct": struct, "flatten": flat, "err": exc_enum(e), "msg": f"{type(e).__name__}: {e}"[:200], "at": "exec"}
        calls = canon_calls(impl.log.read())
        from pipefunc.map import load_outputs
        names = [o for f in impl.desc["funcs"] for o in f["outputs"]]
        try:
            vals = mapgen.quiet(load_outputs, *names, run_folder=folder)
            vals = [vals] if len(names) == 1 else list(vals)
            loaded = {n: terms.enc(v) for n, v in zip(names, vals)}
        except Exception as e:  # noqa: BLE001
            loaded = {"err": exc_enum(e), "msg": str(e)[:200]}
        # a final full run on the folder the learners filled
        impl.log.clear()
        try:
            res = mapgen.quiet(impl.p.map, dict(impl.inputs), run_folder=folder, internal_shapes=mapgen.internal_shapes_arg(impl.desc),
                               parallel=False, storage="file_array", cleanup=False)
            final = {"calls": canon_calls(impl.log.read()), "outputs": {k: terms.enc(r.output) for k, r in res.items()}}
        except Exception as e:  # noqa: BLE001
            final = {"err": exc_enum(e), "msg": f"{type(e).__name__}: {e}"[:200]}
        return {"struct": struct, "flatten": flat, "steps": steps_json, "per_step": per_step, "groups": groups, "rets": rets, "calls": calls,
                "loaded": loaded, "final": final}
    finally:
        shutil.rmtree(folder, ignore_errors=True)


def learner_jobs(ctx, rng, impl, desc, storage, jobs, full):
    req = mapgen.model_request(desc)
    axes = axes_of(desc)
    # (fixed, split, mode, return_output)
    variants = [(None, False, rng.choice(["steps", "repeat"]), rng.random() < 0.4),
                (None, True, rng.choice(["steps", "steps", "runner", "repeat"]), rng.random() < 0.3)]
    if rng.random() < 0.3:
        variants.append((None, rng.random() < 0.7, "simple_run", rng.random() < 0.3))
    if rng.random() < 0.3:
        variants.append((None, rng.random() < 0.5, "runner", rng.random() < 0.5))
    if axes:
        a = rng.choice(axes)
        variants.append(([[a, pick_rep(rng, desc["sizes"][a], [rng.randrange(desc["sizes"][a])])]], False,
                         rng.choice(["steps", "steps", "repeat", "runner"]), rng.random() < 0.3))
    for fixed, split, mode, ret in variants:
        seed = rng.randrange(1 << 30)
        obs = run_learners(impl, fixed, split, mode, seed, ret)
        reqs = [{"m": "learners.make", "a": {**req, "fixed": fixed, "split": split}}]
        if obs.get("steps") is not None:
            reqs.append({"m": "learners.exec", "a": {**req, "steps": obs["steps"]}})
        jobs.append({"kind": "learners", "desc": desc, "storage": "file_array", "fixed": fixed, "split": split, "mode": mode, "order_seed": seed,
                     "ret": ret, "impl": obs, "full": full, "reqs": reqs})


def elem_of(stored, ext, x):
    """element `x` (external linear index) of a stored array (JSON): the value, or the sub-array over the internal axes"""
    shape, flat = stored["arr"]
    idx = np.arange(len(flat)).reshape(shape)
    ext_ax, int_ax = [q for q, e in enumerate(ext) if e], [q for q, e in enumerate(ext) if not e]
    ishape = [shape[q] for q in int_ax]
    rows = idx.transpose(ext_ax + int_ax).reshape(-1, *ishape)
    if not int_ax:
        return flat[int(rows[x])]
    return {"arr": [ishape, [flat[int(q)] for q in rows[x].ravel()]]}


def expected_return(desc, full, fname, x):
    """what `learner.function` of a learner made with `return_output=True` hands back for point `x` of function `fname`, from the full
    run's stored data: [acceptable values], the first being the documented one"""
    f = next(g for g in desc["funcs"] if g["name"] == fname)
    if x is None:
        vals = [full["stored"][o] for o in f["outputs"]]
    else:
        vals = []
        for o in f["outputs"]:
            am = out_axes_of(desc, o)
            if am is None or not isinstance(full["stored"].get(o), dict) or "arr" not in full["stored"][o] or len(am[1]) != len(full["stored"][o]["arr"][0]):
                return None
            vals.append(elem_of(full["stored"][o], am[1], x))
    tup = {"arr": [[len(vals)], vals]}
    return [vals[0], tup] if len(vals) == 1 else [tup]


def judge_learners(ctx, job, resps):
    case = {k: job[k] for k in ("desc", "kind", "fixed", "split", "mode", "order_seed", "ret")}
    obs, full = job["impl"], job["full"]
    made = resps[0]["r"]
    info = (f" [create_learners(fixed_indices={job['fixed']}, split_independent_axes={job['split']}"
            f"{', return_output=True' if job['ret'] else ''}), {job['mode']}, order seed {job['order_seed']}]")

    def V(case, what, **kw):
        ctx.violation(case, "learners: " + what + info, key="learners: " + re.sub(r"[0-9]+", "#", what)[:60], **kw)

    ctx.count(f"learners:{'fixed' if job['fixed'] else 'split' if job['split'] else 'plain'}:{job['mode']}")
    if job["ret"]:
        ctx.count(f"learners:return_output=True:{job['mode']}")
    if "err" in made:
        ctx.count(f"learners-refused:{made['err']}")
        ctx.record(case, False)
        if "struct" in obs or "err" not in obs:
            V(case, f"request that must be rejected ({made['err']}) returned learners", impl=obs.get("struct"), model=made)
        elif obs["err"] != made["err"]:
            V(case, f"rejected with {obs['err']} instead of {made['err']}", found_input=False, item="correspondence:error-class",
                          impl=obs, model=made)
        return
    if "struct" not in obs:
        ctx.record(case, False)
        V(case, f"valid request refused with {obs['err']}: {obs['msg'][:120]}", impl=obs, model=made)
        return
    mstruct = [[k and sorted(k, key=lambda kv: kv[0]), [sorted([[f, s] for f, s in gen], key=repr) for gen in gens]] for k, gens in made["learners"]]
    nsteps = sum(len(s or [0]) for _, gens in mstruct for gen in gens for _, s in gen)
    ctx.record(case, nsteps >= 2 and mapped_big(job["desc"], full))
    ctx.count(f"learner-keys:{min(len(mstruct), 4)}{'+' if len(mstruct) > 4 else ''}")
    if "err" in obs:
        V(case, f"executing a learner raised {obs['err']}: {obs['msg'][:120]}", impl=obs, model=None)
        return
    if not job["fixed"]:
        # learners without fixed indices cover the whole index space: the statement's clauses on the implementation itself
        if obs["calls"] != full["calls"]:
            V(case, "the calls made through the learners are not the calls of one full run (an element computed twice, "
                          "never, or with other arguments)", impl={"calls": obs["calls"]}, model={"calls": full["calls"]})
            return
        if obs["loaded"] != full["stored"]:
            V(case, "the folder filled through the learners does not hold what one full run stores",
                          impl={"loaded": obs["loaded"]}, model={"stored": full["stored"]})
            return
        if "err" in obs["final"]:
            V(case, f"a full run on the folder filled through the learners is refused ({obs['final']['err']}): "
                          f"{obs['final']['msg'][:100]}", impl=obs["final"], model=None)
            return
        if obs["final"]["calls"] or obs["final"]["outputs"] != full["outputs"]:
            V(case, f"a full run after the learners recomputed {len(obs['final']['calls'])} element(s) or returned other data",
                          impl=obs["final"], model={"outputs": full["outputs"]})
            return
    if obs["struct"] != mstruct:
        V(case, "keys / generations / sequences of the learners differ from the selections they stand for",
                      impl={"learners": obs["struct"]}, model={"learners": mstruct})
        return
    # `LearnersDict.flatten()`: per output name the learners of all keys and generations, in order (the model: one learner per key)
    fl = obs.get("flatten") or {}
    prod = {f["name"]: f["outputs"] for f in job["desc"]["funcs"]}
    mflat: dict = {}
    for _, gens in made["learners"]:
        for gen in gens:
            for fname, sq in gen:
                mflat.setdefault(repr(prod[fname]), []).append(sq)
    ctx.count(f"flatten:{min(len(mstruct), 4)}{'+' if len(mstruct) > 4 else ''} key(s)")
    if "err" in fl or not fl.get("same_objects") or {repr(k): v for k, v in fl["lists"]} != mflat or len(fl["lists"]) != len(mflat):
        V(case, "LearnersDict.flatten() does not list, per output name, exactly the learners of all keys and generations in order",
          found_input=False, item="correspondence:flatten", impl=fl, model=mflat)
        return
    if len(resps) > 1:
        ex = resps[1]["r"]
        if "err" in ex:
            V(case, f"the model refuses the executed steps ({ex['err']})", found_input=False, item="correspondence:learner-exec",
                          impl=obs["steps"], model=ex)
            return
        if obs.get("groups") is not None:        # `runner.simple(learner)`: the calls are observed per learner
            per_step, at, labels = [], 0, []
            for n in obs["groups"]:
                per_step.append(model_calls([c for cs in ex["calls"][at:at + n] for c in cs]))
                labels.append(f"learner of `{obs['steps'][at][0]}` over {[st[1] for st in obs['steps'][at:at + n]]}" if n else "empty learner")
                at += n
        else:
            per_step = [model_calls(c) for c in ex["calls"]]
            labels = [f"step #{k} {st}" for k, st in enumerate(obs["steps"])]
        ctx.count(f"learner-steps computing nothing (element exists):{'some' if any(not c for c in per_step) else 'none'}")
        if per_step != obs["per_step"]:
            k = next(i for i, (a, b) in enumerate(zip(per_step, obs["per_step"])) if a != b)
            V(case, f"{labels[k]} did not compute precisely its own element(s) when missing",
                          impl={"calls": obs["per_step"][k]}, model={"calls": per_step[k]})
            return
        mstored = {k: terms.canon(v) for k, v in ex["stored"]}
        iload = {k: v for k, v in obs["loaded"].items() if k in mstored} if "err" not in obs["loaded"] else obs["loaded"]
        # outputs of functions that never ran have no file: load_outputs raises; only compare when everything exists
        if set(mstored) == set(iload) and iload != mstored:
            V(case, "the data stored after executing the steps differ from the elements computed so far",
                          impl={"loaded": iload}, model={"stored": mstored})
            return
    # `return_output`: without it a learner's function returns None; with it the element (of the full run) it computed or found
    for fname, x, v, ncalls in obs.get("rets") or []:
        if not job["ret"]:
            if v is not None:
                V(case, f"learner.function of `{fname}` at {x} returned {str(v)[:60]} although return_output=False", found_input=False,
                  item="correspondence:return_output", impl=v, model=None)
                return
            continue
        want = expected_return(job["desc"], full, fname, x)
        if want is None:
            ctx.count("return_output:not compared (no stored reference)")
            continue
        if v == want[0]:
            ctx.count("return_output:value = the full run's element")
        elif v in want[1:] and ncalls in (0, None):
            # observed on the unchanged tree: `_execute_iteration_in_map_spec` hands an EXISTING element back as a tuple over the
            # output names even for a single output name (the computed one comes back bare); not something the statement talks about
            ctx.count("return_output:existing element of a single-output function came back as a 1-tuple")
        else:
            V(case, f"learner.function of `{fname}` at {x} (return_output=True) returned {str(v)[:80]}, the full run's element is "
                    f"{str(want[0])[:80]}", found_input=False, item="correspondence:return_output", impl=v, model=want[0])
            return


# ------------------------------------------------------------------------------------------------ the checks
def judge_full(ctx, job, resps):
    case = {"desc": job["desc"], "storage": job["storage"], "kind": "full"}
    c01, mine = resps[0]["r"], resps[1]["r"]
    if "err" in c01:
        raise AssertionError(f"model refuses a generated case: {c01} {job['desc']}")
    m = model_part(mine[0])
    ref = {"calls": model_calls(c01["calls"]), "stored": {k: terms.canon(v) for k, v in c01["stored"]},
           "outputs": {k: terms.canon(v) for k, v in c01["outputs"]}}
    if any(m[k] != ref[k] for k in ref):
        raise AssertionError(f"PF.Pieces.runPart with no fixed indices on an empty store differs from PF.Map.runMap: {job['desc']}")
    io = job["impl"][0]
    if "err" in io:
        ctx.count(f"full-run-refused:{io['err']}")
        ctx.skip("full run refused by the implementation (C01's business)")
        return
    if any(io[k] != ref[k] for k in ref):
        ctx.skip("full run differs from the model (C01's business)")
        job["impl"][0]["bad"] = True


def judge_sub_full(ctx, job, resps, bad_sub):
    """the run of the whole sub-map (no fixed indices): C11's ground; only used as the reference of the pieces"""
    m = model_part(resps[0]["r"][0])
    io = job["impl"][0]
    ctx.count(f"sub-map:{'auto+' if job['sub']['auto'] else ''}{'output_names' if job['sub']['S'] is not None else 'all downstream'}")
    key = (id(job["desc"]), repr(job["sub"]))
    if "err" in io or "err" in m:
        ctx.count(f"sub-map-refused:impl={io.get('err')},model={m.get('err')}")
        if ("err" in io) != ("err" in m):
            ctx.skip("the whole sub-map is refused by one side only (C11's business)")
        bad_sub.add(key)
        return
    if any(io[k] != m[k] for k in ("calls", "stored", "outputs")):
        ctx.skip("the whole sub-map differs from the model (C11's business)")
        bad_sub.add(key)


def count_sub(ctx, job, resps):
    """how the narrowed pipeline and the pipeline as passed in judge the first request of a sub-map sequence"""
    narrowed = "err" in resps[0]["r"][0]
    whole = "err" in resps[1]["r"][0]
    ctx.count({(False, False): "sub-order:legal for both pipelines", (True, True): "sub-order:refused by both pipelines",
               (False, True): "sub-order:LEGAL in the sub-map, refused by the pipeline as passed in",
               (True, False): "sub-order:REFUSED in the sub-map, accepted by the pipeline as passed in"}[(narrowed, whole)])


def selector_oracle(ctx):
    """`selIndices` against Python's own `range(n)[sel]`, for every selector the generator can draw (and out-of-range ints)."""
    reqs, want = [], []
    for n in range(0, 6):
        seen = set()
        for reps in sel_table(n).values():
            for s in reps:
                key = repr(s)
                if key in seen:
                    continue
                seen.add(key)
                reqs.append({"m": "sel.indices", "a": {"d": n, "sel": s}})
                want.append([range(n)[s]] if isinstance(s, int) else list(range(n)[sel_py(s)]))
        for k in (n, n + 3, -n - 1):
            reqs.append({"m": "sel.indices", "a": {"d": n, "sel": k}})
            want.append({"err": "IndexError"})
        reqs.append({"m": "sel.indices", "a": {"d": n, "sel": {"sl": [None, 2, 0]}}})
        want.append({"err": "ValueError"})
    outs = ctx.lean(reqs)
    for rq, w, o in zip(reqs, want, outs):
        got = o["r"] if isinstance(o["r"], list) else {"err": o["r"]["err"]}
        ctx.count("selector-oracle")
        if got != w:
            ctx.violation({"kind": "selector", **rq["a"]}, f"selIndices({rq['a']}) = {got}, Python selects {w}", found_input=False,
                          item="correspondence:selIndices", impl=w, model=got)


def d(funcs, inputs, sizes, internal=None, kinds=None):
    return {"funcs": funcs, "inputs": inputs, "input_kinds": kinds or {}, "internal": internal or [], "sizes": sizes}


def _f(name, params, outputs, ms=None, ret=None, internal=None):
    return {"name": name, "params": [[p, p] for p in params], "outputs": outputs, "mapspec": ms, "mapspec_str": mapgen.spec_str(ms) if ms else None,
            "autogen": False, "ret": ret, "internal": internal, "defaults": [], "bound": []}


def _arr2(name, n, m):
    elems = [{"f": "in", "k": [["n", {"s": name}], ["at", {"arr": [[2], [a, b]]}]]} for a in range(n) for b in range(m)]
    return [name, {"arr": [[n, m], elems]}]


def _arr(name, n):
    return [name, {"arr": [[n], [{"f": "in", "k": [["n", {"s": name}], ["at", {"arr": [[1], [q]]}]]} for q in range(n)]]}]


CORPUS = [
    # DF-30: internal_shape on the PipeFunc; every second map(cleanup=False) was refused
    (d([_f("f0", ["x0"], ["y0"], {"inputs": [["x0", ["i"]]], "outputs": [["y0", ["i", "j"]]]}, ret=[2], internal=[2])], [_arr("x0", 3)],
       {"i": 3, "j": 2, "k": 1}), "file_array"),
    # DF-31: an array indexed only by ':' next to a mapped one
    (d([_f("f0", ["x0", "x1"], ["y0"], {"inputs": [["x0", [None]], ["x1", ["i"]]], "outputs": [["y0", ["i"]]]})], [_arr("x0", 2), _arr("x1", 3)],
       {"i": 3, "j": 2, "k": 1}), "file_array"),
    # DF-15: the same pipeline as DF-30 through create_learners
    (d([_f("f0", ["x0"], ["y0a", "y0b"], {"inputs": [["x0", ["i"]]], "outputs": [["y0a", ["j", "i"]], ["y0b", ["j", "i"]]]}, ret=[2], internal=[2]),
        _f("f1", ["y0a", "x1"], ["y1"], {"inputs": [["y0a", ["j", "i"]], ["x1", ["k"]]], "outputs": [["y1", ["k", "j", "i"]]]})],
       [_arr("x0", 3), _arr("x1", 2)], {"i": 3, "j": 2, "k": 2}), "dict"),
    # DF-29 (b) (C19): leading axis only ever ':'; skipped (counted) on a tree without that repair
    (d([_f("f0", ["x0"], ["y0"], {"inputs": [["x0", [None, "i"]]], "outputs": [["y0", ["i"]]]})], [_arr2("x0", 2, 3)], {"i": 3, "j": 2, "k": 1},
       kinds={"x0": "array"}), "file_array"),
    # an intermediate-only axis: out-of-range integers are refused late, by NumPy
    (d([_f("f0", ["c0"], ["y0"], {"inputs": [], "outputs": [["y0", ["j"]]]}, ret=[2], internal=[2]),
        _f("f1", ["y0", "x1"], ["y1"], {"inputs": [["y0", ["j"]], ["x1", ["i"]]], "outputs": [["y1", ["i", "j"]]]})],
       [["c0", {"s": "in:c0"}], _arr("x1", 2)], {"i": 2, "j": 2, "k": 1}), "file_array"),
    # a partially reduced axis whose name re-enters the output through another input: `x[i], w[j] -> y[i, j]`, then
    # `y[i, :], w[j] -> z[i, j]`; fixing j must be rejected (y's j axis is reduced), fixing i is fine
    (d([_f("f0", ["x0", "x1"], ["y0"], {"inputs": [["x0", ["i"]], ["x1", ["j"]]], "outputs": [["y0", ["i", "j"]]]}),
        _f("f1", ["y0", "x1"], ["y1"], {"inputs": [["y0", ["i", None]], ["x1", ["j"]]], "outputs": [["y1", ["i", "j"]]]})],
       [_arr("x0", 2), _arr("x1", 3)], {"i": 2, "j": 3, "k": 1}), "file_array"),
    (d([_f("f0", ["x0", "x1"], ["y0"], {"inputs": [["x0", ["i"]], ["x1", ["j"]]], "outputs": [["y0", ["j", "i"]]]}),
        _f("f1", ["y0", "x0"], ["y1"], {"inputs": [["y0", ["j", None]], ["x0", ["i"]]], "outputs": [["y1", ["i", "j"]]]})],
       [_arr("x0", 2), _arr("x1", 2)], {"i": 2, "j": 2, "k": 1}), "dict"),
    # DF-C06-internal-axis: `x0[i] -> y0[i, k]`, internal_shape=(2,), nothing downstream: an index on `k` (in range or not) was accepted
    # and ignored; it must be refused.  (CORPUS_PLANS adds the exact requests of the report.)
    (d([_f("f0", ["x0"], ["y0"], {"inputs": [["x0", ["i"]]], "outputs": [["y0", ["i", "k"]]]}, ret=[2], internal=[2])], [_arr("x0", 3)],
       {"i": 3, "j": 1, "k": 2}), "dict"),
    # ... and the request that stays valid: `k` is internal in y0 and mapped over by f1 (`y0[i, k] -> y1[i, k]`): the parts on `k`
    # compute all of y0 first and then y1[:, part]; `{"k": 99}` is refused late (IndexError of NumPy in f1's mask)
    (d([_f("f0", ["x0"], ["y0"], {"inputs": [["x0", ["i"]]], "outputs": [["y0", ["i", "k"]]]}, ret=[2], internal=[2]),
        _f("f1", ["y0"], ["y1"], {"inputs": [["y0", ["i", "k"]]], "outputs": [["y1", ["i", "k"]]]})],
       [_arr("x0", 3)], {"i": 3, "j": 1, "k": 2}), "file_array"),
    # an internal-only axis from a generator (`... -> y0[j]`, taken element-wise by nobody) next to a mapped function
    (d([_f("f0", ["c0"], ["y0"], {"inputs": [], "outputs": [["y0", ["j"]]]}, ret=[2], internal=[2]),
        _f("f1", ["x1"], ["y1"], {"inputs": [["x1", ["i"]]], "outputs": [["y1", ["i"]]]})],
       [["c0", {"s": "in:c0"}], _arr("x1", 2)], {"i": 2, "j": 2, "k": 1}), "file_array"),
    # --- split_independent_axes edge cases (every corpus pipeline gets learners with and without the split) ---
    # all axes independent: the outer product of two inputs, the leaf carries both (one key per (i, j))
    (d([_f("f0", ["x0", "x1"], ["y0"], {"inputs": [["x0", ["i"]], ["x1", ["j"]]], "outputs": [["y0", ["i", "j"]]]}),
        _f("f1", ["y0"], ["y1"], {"inputs": [["y0", ["i", "j"]]], "outputs": [["y1", ["j", "i"]]]})],
       [_arr("x0", 2), _arr("x1", 3)], {"i": 2, "j": 3, "k": 1}), "file_array"),
    # none independent: a zip whose result is taken whole by the leaf (the only key is None)
    (d([_f("f0", ["x0", "x1"], ["y0"], {"inputs": [["x0", ["i"]], ["x1", ["i"]]], "outputs": [["y0", ["i"]]]}), _f("f1", ["y0"], ["y1"])],
       [_arr("x0", 3), _arr("x1", 3)], {"i": 3, "j": 1, "k": 1}), "dict"),
    # an internal axis below a split axis: `x[i] -> y[i, j]` (j filled by one call), consumed element-wise
    (d([_f("f0", ["x0"], ["y0"], {"inputs": [["x0", ["i"]]], "outputs": [["y0", ["i", "j"]]]}, ret=[2], internal=[2]),
        _f("f1", ["y0"], ["y1"], {"inputs": [["y0", ["i", "j"]]], "outputs": [["y1", ["i", "j"]]]})],
       [_arr("x0", 3)], {"i": 3, "j": 2, "k": 1}), "file_array"),
    # a scalar (non-mapped) leaf next to a mapped one: every key carries a learner of the scalar function; only the first one computes
    (d([_f("f0", ["c0"], ["y0"]), _f("f1", ["x1"], ["y1"], {"inputs": [["x1", ["i"]]], "outputs": [["y1", ["i"]]]})],
       [["c0", {"s": "in:c0"}], _arr("x1", 3)], {"i": 3, "j": 1, "k": 1}), "file_array"),
    # the only function has no MapSpec
    (d([_f("f0", ["c0"], ["y0a", "y0b"])], [["c0", {"s": "in:c0"}]], {"i": 1, "j": 1, "k": 1}), "file_array"),
]


# requests added to the generated plans of a corpus pipeline (the inputs of the defect reports, verbatim)
_K = next(q for q, (dd, _) in enumerate(CORPUS) if dd["funcs"][0]["mapspec"] and dd["funcs"][0]["mapspec"]["outputs"][0][1] == ["i", "k"]
          and len(dd["funcs"]) == 1)
CORPUS_PLANS = {
    _K: [("internal-axis", "k", [[["k", 99]], None]), ("internal-axis", "k", [[["k", 0]], None]),
         ("internal-axis", "k", [[["i", 0], ["k", 99]], None]), ("internal-axis", "k", [[["k", {"sl": [None, None, None]}]], None])],
    _K + 1: [("pieces", "k", [[["k", 0]], [["k", 1]], None]), ("malformed", None, [[["k", 99]], None])],
}


# `fixed_indices` with `output_names`: the request is validated against the narrowed pipeline (seeded change C06-s2-B validated it
# against the pipeline as passed in)
_DEMO1 = d([_f("f0", ["x0"], ["y0"], {"inputs": [["x0", ["i"]]], "outputs": [["y0", ["i"]]]}),
            _f("f1", ["x1"], ["y1"], {"inputs": [["x1", ["j"]]], "outputs": [["y1", ["j"]]]}),
            _f("f2", ["y0", "y1"], ["y2"], {"inputs": [["y0", ["i"]], ["y1", ["j"]]], "outputs": [["y2", ["i", "j"]]]})],
           [_arr("x0", 4), _arr("x1", 2)], {"i": 4, "j": 2, "k": 1})
_DEMO2 = d([_f("f0", ["x0"], ["y0"], {"inputs": [["x0", ["i"]]], "outputs": [["y0", ["i"]]]}), _f("f1", ["y0"], ["y1"])],
           [_arr("x0", 4)], {"i": 4, "j": 1, "k": 1})
SUB_CORPUS = [
    # an axis (and an out-of-range index) that only the dropped branch knows: must be refused
    (_DEMO1, "file_array", [({"S": ["y0"], "auto": False, "inputs": ["x0"]},
                             [("sub-pieces", "j", [[["j", 0]], None]), ("sub-malformed", "j", [[["j", 99]], None]),
                              ("sub-pieces", "i", [[["i", {"sl": [2, None, None]}]], [["i", {"sl": [0, 2, None]}]], None])]),
                            ({"S": ["y1"], "auto": True, "inputs": ["x1"]},
                             [("sub-pieces", "i", [[["i", 0]], None]), ("sub-pieces", "j", [[["j", -1]], [["j", 0]], None])])]),
    # an axis that only a dropped function reduces: the sub-map can be run in pieces
    (_DEMO2, "dict", [({"S": ["y0"], "auto": False, "inputs": ["x0"]},
                       [("sub-pieces", "i", [[["i", {"sl": [2, None, None]}]], [["i", {"sl": [0, 2, None]}]], None]),
                        ("sub-pieces", "i", [[["i", {"sl": [None, None, -2]}]], [["i", {"sl": [0, None, 2]}]], None])])]),
]


def run(ctx):
    rng = ctx.rng
    base = mkbase()
    try:
        selector_oracle(ctx)
        cases = [(copy.deepcopy(dd), s) for dd, s in CORPUS]
        for k in range(ctx.n(11, 450)):
            # every fourth pipeline is drawn with more internal axes and generators (round 3: axes nobody maps over, and axes that are
            # internal in one output and mapped over downstream)
            kinds = ["internal", "internal", "gen", "elem", "outer", "partial"] if k % 4 == 3 else None
            desc = mapgen.gen_case(rng, max_size=4 if k % 5 == 4 else 3, max_funcs=rng.choice([1, 2, 3, 3, 4]), kinds=kinds)
            cases.append((desc, STORAGES[k % len(STORAGES)]))
        jobs: list = []
        for dd, storage, fixed_plans in SUB_CORPUS:
            desc = copy.deepcopy(dd)
            sub_jobs(ctx, rng, Impl(desc, storage, base), desc, storage, jobs, fixed_plans=fixed_plans)
        ctx.notes.append(f"t(selector oracle + sub corpus)={ctx.elapsed():.1f}s")
        for q, (desc, storage) in enumerate(cases):
            check_pipeline(ctx, rng, desc, storage, base, jobs, extra_plans=CORPUS_PLANS.get(q, ()))
        ctx.notes.append(f"t(+real runs of {len(cases)} pipelines, {len(jobs)} jobs)={ctx.elapsed():.1f}s")
        by_driver = {"C06": [], "C01": []}
        c06_flow.add_reqs(jobs)
        for j, job in enumerate(jobs):
            for q, r in enumerate(job["reqs"]):
                drv = r.pop("driver", "C06")
                by_driver[drv].append((j, q, r))
        resp = {}
        for drv, items in by_driver.items():
            outs = ctx.lean([r for _, _, r in items], driver=drv)
            for (j, q, _), o in zip(items, outs):
                resp[(j, q)] = o
        ctx.notes.append(f"t(+model)={ctx.elapsed():.1f}s")
        bad_full, bad_sub = set(), set()
        for j, job in enumerate(jobs):
            jj = job["resp_from"] if job.get("resp_from") is not None else j       # a run under a mode shares the sequential run's answer
            resps = [resp[(jj, q)] for q in range(len(jobs[jj]["reqs"]))]
            key = id(job["desc"])
            if job["kind"] == "full":
                judge_full(ctx, job, resps)
                if "err" in job["impl"][0] or job["impl"][0].get("bad"):
                    bad_full.add(key)
                continue
            if key in bad_full:
                continue
            if job["kind"] == "learners":
                judge_learners(ctx, job, resps)
                continue
            if job["kind"] == "sub-full":
                judge_sub_full(ctx, job, resps, bad_sub)
                continue
            case = {"desc": job["desc"], "storage": job["storage"], "kind": job["kind"], "axis": job["axis"], "parts": job["parts"]}
            if job.get("mode"):
                case["mode"] = job["mode"]
                mode_counts(ctx, job["mode"])
            if job.get("sub"):
                case["sub"] = job["sub"]
                if (key, repr(job["sub"])) in bad_sub:
                    continue
                count_sub(ctx, job, resps)
            if job.get("flow"):
                c06_flow.judge(ctx, job, case, resps[-1])
            mobs = [model_part(r) for r in resps[0]["r"]]
            nparts = len(job["parts"]) - 1
            nonempty = sum(1 for o in mobs[:nparts] if "err" not in o and o["calls"])
            ctx.count(f"stream:{job['kind']}" + (" under a run mode" if job.get("mode") else ""))
            if job["kind"].startswith("pieces") and not job.get("mode"):
                ctx.count(f"parts:{nparts}")
                for fx in job["parts"][:nparts]:
                    for _, s in fx:
                        ctx.count("sel:int" if isinstance(s, int) and s >= 0 else "sel:negative-int" if isinstance(s, int) else
                                  "sel:negative-step" if (s["sl"][2] or 1) < 0 else "sel:slice")
            ok = judge_sequence(ctx, case, job["impl"], job["loaded"], mobs, job["full"], nparts)
            ctx.record(case, bool(ok) and nonempty >= 2 and mapped_big(job["desc"], job["full"]))
            if ok:
                ctx.count("pieces-equal-whole" + (" under a run mode" if job.get("mode") else ""))
    finally:
        shutil.rmtree(base, ignore_errors=True)


def replay(ctx, case):
    base = mkbase()
    try:
        if case.get("kind") == "selector":
            print("python:", case, "model:", ctx.lean([{"m": "sel.indices", "a": {"d": case["d"], "sel": case["sel"]}}])[0]["r"])
            return
        impl = Impl(case["desc"], case.get("storage", "file_array"), base)
        req = mapgen.model_request(case["desc"])
        if case.get("kind") == "learners":
            full, _ = impl.sequence([None])
            print("implementation:", run_learners(impl, case["fixed"], case["split"], case["mode"], case["order_seed"], case.get("ret", False)))
            print("model:", ctx.lean([{"m": "learners.make", "a": {**req, "fixed": case["fixed"], "split": case["split"]}}])[0]["r"])
            print("full run:", full[0].get("calls"))
            return
        parts = case.get("parts", [None])
        sub = case.get("sub")
        if sub:
            req = {**req, "funcs": regenerate_autogen(case["desc"], req["funcs"], sub["S"]),
                   "inputs": [kv for kv in case["desc"]["inputs"] if kv[0] in sub["inputs"]], "output_names": sub["S"], "auto": sub["auto"]}
            print("sub-map:", sub)
        if case.get("mode"):
            print("run mode:", case["mode"])
        obs, loaded = impl.sequence(parts, sub, mode=case.get("mode"))
        print("implementation:")
        for fx, o in zip(parts, obs):
            print("  ", fx, "->", {k: o[k] for k in ("err", "msg", "present", "calls", "outputs") if k in o})
            if "err" not in o:
                print("      Result.output clause:", part_output_fault(case["desc"], fx, o) or "holds")
        print("   load_outputs:", loaded)
        print("model:")
        for fx, o in zip(parts, ctx.lean([{"m": "pieces.run", "a": {**req, "parts": parts}}])[0]["r"]):
            print("  ", fx, "->", {k: o[k] for k in ("err", "why", "present", "calls", "outputs") if k in o})
    finally:
        shutil.rmtree(base, ignore_errors=True)
