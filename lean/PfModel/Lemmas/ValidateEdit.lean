import PfModel.Lemmas.Validate
import PfModel.Model.ValidateEdit
/-! Helper lemmas for the round-3 part of C12: lazily re-validated properties, the executor dictionary, in-place edits. -/
namespace PF.Validate
open PF PF.Map

theorem boolRes_refused (ok : Bool) (exc : Exc) (name : String) :
    Refused (if ok then (.ok () : V Unit) else .error ⟨exc, name⟩) ↔ ok = false := by
  cases ok <;> simp [Refused]

theorem refused_exec_append (A B : List Step) :
    Refused (exec (A ++ B)).2 ↔ (∃ n res, Step.check n res ∈ A ∧ Refused res) ∨ (∃ n res, Step.check n res ∈ B ∧ Refused res) := by
  rw [refused_exec_iff]
  constructor
  · rintro ⟨n, res, hm, hr⟩
    rcases List.mem_append.mp hm with h | h
    · exact Or.inl ⟨n, res, h, hr⟩
    · exact Or.inr ⟨n, res, h, hr⟩
  · rintro (⟨n, res, hm, hr⟩ | ⟨n, res, hm, hr⟩)
    · exact ⟨n, res, List.mem_append.mpr (Or.inl hm), hr⟩
    · exact ⟨n, res, List.mem_append.mpr (Or.inr hm), hr⟩

/-- what the recomputed cached properties refuse -/
def LazyFault (gs : List MFunc) : Prop := uniqueOutputs gs = false ∨ defaultsConsistent gs = false ∨ acyclic gs = false

theorem refused_lazy_iff (gs : List MFunc) : (∃ n res, Step.check n res ∈ lazySteps gs ∧ Refused res) ↔ LazyFault gs := by
  unfold lazySteps boolStep LazyFault
  constructor
  · rintro ⟨n, res, hm, hr⟩
    simp only [List.mem_cons, Step.check.injEq, List.not_mem_nil, or_false] at hm
    rcases hm with ⟨_, rfl⟩ | ⟨_, rfl⟩ | ⟨_, rfl⟩
    · exact Or.inl ((boolRes_refused _ _ _).mp hr)
    · exact Or.inr (Or.inl ((boolRes_refused _ _ _).mp hr))
    · exact Or.inr (Or.inr ((boolRes_refused _ _ _).mp hr))
  · rintro (h | h | h)
    · exact ⟨_, _, List.mem_cons_self, (boolRes_refused _ _ _).mpr h⟩
    · exact ⟨_, _, List.mem_cons_of_mem _ List.mem_cons_self, (boolRes_refused _ _ _).mpr h⟩
    · exact ⟨_, _, List.mem_cons_of_mem _ (List.mem_cons_of_mem _ List.mem_cons_self), (boolRes_refused _ _ _).mpr h⟩

theorem lazySteps_isCheck (gs : List MFunc) : ∀ s ∈ lazySteps gs, isCheck s = true := by
  intro s hs
  simp only [lazySteps, boolStep, List.mem_cons, List.not_mem_nil, or_false] at hs
  rcases hs with rfl | rfl | rfl <;> rfl

theorem gateSteps_isCheck (fs : List MFunc) (r : Req) (ex : ExecArg) : ∀ s ∈ gateSteps fs r ex, isCheck s = true := by
  intro s hs
  unfold gateSteps at hs
  simp only [List.mem_append, List.mem_cons, List.not_mem_nil, or_false] at hs
  rcases hs with ((rfl | hs) | rfl) | hs
  · rfl
  · split at hs
    · rcases List.mem_append.mp hs with h | h
      · exact lazySteps_isCheck fs s h
      · simp only [List.mem_cons, List.not_mem_nil, or_false] at h; subst h; rfl
    · cases hs
  · rfl
  · exact lazySteps_isCheck fs s hs

/-- an executor dictionary that `_validate_executor_names` refuses -/
def ExecDictFault (fs : List MFunc) (ex : ExecArg) : Prop :=
  ∃ keys, ex = .dict keys ∧ ((∃ k ∈ keys, k ≠ "" ∧ k ∉ execKeyNames fs) ∨ ("" ∉ keys ∧ ∃ f ∈ fs, outputKey f ∉ keys))

theorem checkExecutorDict_refused (fs : List MFunc) (ex : ExecArg) : Refused (checkExecutorDict fs ex) ↔ ExecDictFault fs ex := by
  unfold ExecDictFault
  cases ex with
  | absent => simp [checkExecutorDict, Refused]
  | bare => simp [checkExecutorDict, Refused]
  | dict keys =>
    simp only [checkExecutorDict, ExecArg.dict.injEq, exists_eq_left']
    cases h1 : keys.any (fun k => k != "" && !(execKeyNames fs).contains k) with
    | true =>
      simp only [↓reduceIte, Refused, Except.error.injEq, exists_eq', true_iff]
      obtain ⟨k, hk, hc⟩ := List.any_eq_true.mp h1
      simp only [Bool.and_eq_true, bne_iff_ne, ne_eq, Bool.not_eq_eq_eq_not, Bool.not_true] at hc
      exact Or.inl ⟨k, hk, hc.1, by simpa [List.contains_iff_mem] using hc.2⟩
    | false =>
      have hno : ¬ ∃ k ∈ keys, k ≠ "" ∧ k ∉ execKeyNames fs := by
        rintro ⟨k, hk, hne, hn⟩
        have := List.any_eq_false.mp h1 k hk
        simp [hne, List.contains_iff_mem, hn] at this
      simp only [Bool.false_eq_true, ↓reduceIte]
      cases h2 : keys.contains "" with
      | true =>
        simp only [↓reduceIte, Refused, reduceCtorEq, exists_false, false_iff]
        rintro (h | ⟨h, _⟩)
        · exact hno h
        · exact h (by simpa [List.contains_iff_mem] using h2)
      | false =>
        have hd : "" ∉ keys := by
          intro hm
          have : keys.contains "" = true := by simpa [List.contains_iff_mem] using hm
          rw [h2] at this; cases this
        simp only [Bool.false_eq_true, ↓reduceIte]
        cases h3 : fs.all (fun f => keys.contains (outputKey f)) with
        | true =>
          simp only [↓reduceIte, Refused, reduceCtorEq, exists_false, false_iff]
          rintro (h | ⟨_, f, hf, hn⟩)
          · exact hno h
          · have := List.all_eq_true.mp h3 f hf
            exact hn (by simpa [List.contains_iff_mem] using this)
        | false =>
          simp only [Bool.false_eq_true, ↓reduceIte, Refused, Except.error.injEq, exists_eq', true_iff]
          obtain ⟨f, hf, hc⟩ := List.all_eq_false.mp h3
          exact Or.inr ⟨hd, f, hf, by simpa [List.contains_iff_mem] using hc⟩

/-! ### unique output names -/

theorem allOutputs_cons (f : MFunc) (rest : List MFunc) : allOutputs (f :: rest) = f.outputs ++ allOutputs rest := by
  simp [allOutputs]

theorem allOutputs_append (a b : List MFunc) : allOutputs (a ++ b) = allOutputs a ++ allOutputs b := by
  simp [allOutputs]

/-- an output name produced twice: `validate_unique_output_names_of` refuses -/
theorem uniqueOutputs_false_of_dup (pre post : List MFunc) (f : MFunc) (o : String) (ho : o ∈ f.outputs)
    (hdup : o ∈ allOutputs post) : uniqueOutputs (pre ++ f :: post) = false := by
  induction pre with
  | nil =>
    simp only [List.nil_append, uniqueOutputs, Bool.and_eq_false_iff, Bool.not_eq_eq_eq_not, Bool.not_false, List.any_eq_true]
    exact Or.inl ⟨o, ho, by simpa [List.contains_iff_mem] using hdup⟩
  | cons g pre ih =>
    simp only [List.cons_append, uniqueOutputs, ih, Bool.and_false]

/-- a pipeline built by `Pipeline.add` (no clash with the functions added before) has unique output names -/
theorem uniqueOutputs_of_no_clash (fs : List MFunc)
    (h : ∀ pre f post, fs = pre ++ f :: post → clashes f pre = false) : uniqueOutputs fs = true := by
  induction fs with
  | nil => rfl
  | cons g rest ih =>
    simp only [uniqueOutputs, Bool.and_eq_true, Bool.not_eq_eq_eq_not, Bool.not_true]
    constructor
    · apply Bool.eq_false_iff.mpr
      intro hany
      obtain ⟨o, ho, hc⟩ := List.any_eq_true.mp hany
      have hmem : o ∈ allOutputs rest := by simpa [List.contains_iff_mem] using hc
      simp only [allOutputs, List.mem_flatMap] at hmem
      obtain ⟨k, hk, hok⟩ := hmem
      obtain ⟨pre', post', hsplit⟩ := List.append_of_mem hk
      have := h (g :: pre') k post' (by simp [hsplit])
      simp only [clashes, List.any_eq_false] at this
      have hno := this o hok
      apply hno
      simp only [List.contains_iff_mem, allOutputs_cons, List.mem_append]
      exact Or.inl ho
    · apply ih
      intro pre f post hsplit
      have := h (g :: pre) f post (by simp [hsplit])
      simp only [clashes, List.any_eq_false] at this ⊢
      intro o ho hc
      apply this o ho
      simp only [List.contains_iff_mem, allOutputs_cons, List.mem_append] at hc ⊢
      exact Or.inr hc

/-! ### the member validation -/

theorem memberSteps_isCheck (e : EFunc) : ∀ s ∈ memberSteps e, isCheck s = true := by
  intro s hs
  simp only [memberSteps, boolStep, List.mem_cons, List.not_mem_nil, or_false] at hs
  rcases hs with rfl | rfl | rfl | rfl | rfl | rfl <;> rfl

/-- what `PipeFunc._validate` refuses after an update -/
def MemberFault (e : EFunc) : Prop :=
  (∃ p ∈ e.explicit, (alookup e.f.bound p).isSome = true) ∨ selfNamed e.f = true ∨ renamesClash e.renames = true ∨
  mapspecInputNotParam e.f = true ∨ mapspecInputBound e.f = true ∨ mapspecOutputSetDiffers e.f = true

theorem memberValidate_refused (e : EFunc) : Refused (memberValidate e) ↔ MemberFault e := by
  unfold memberValidate MemberFault
  rw [refused_exec_iff]
  unfold memberSteps boolStep
  constructor
  · rintro ⟨n, res, hm, hr⟩
    simp only [List.mem_cons, Step.check.injEq, List.not_mem_nil, or_false] at hm
    rcases hm with ⟨_, rfl⟩ | ⟨_, rfl⟩ | ⟨_, rfl⟩ | ⟨_, rfl⟩ | ⟨_, rfl⟩ | ⟨_, rfl⟩
    · have := (boolRes_refused _ _ _).mp hr
      simp only [Bool.not_eq_eq_eq_not, Bool.not_false, List.any_eq_true] at this
      exact Or.inl this
    · have := (boolRes_refused _ _ _).mp hr
      exact Or.inr (Or.inl (by simpa using this))
    · have := (boolRes_refused _ _ _).mp hr
      exact Or.inr (Or.inr (Or.inl (by simpa using this)))
    · have := (boolRes_refused _ _ _).mp hr
      exact Or.inr (Or.inr (Or.inr (Or.inl (by simpa using this))))
    · have := (boolRes_refused _ _ _).mp hr
      exact Or.inr (Or.inr (Or.inr (Or.inr (Or.inl (by simpa using this)))))
    · have := (boolRes_refused _ _ _).mp hr
      exact Or.inr (Or.inr (Or.inr (Or.inr (Or.inr (by simpa using this)))))
  · rintro (h | h | h | h | h | h)
    · refine ⟨_, _, List.mem_cons_self, (boolRes_refused _ _ _).mpr ?_⟩
      simp only [Bool.not_eq_eq_eq_not, Bool.not_false, List.any_eq_true]
      exact h
    · exact ⟨_, _, List.mem_cons_of_mem _ List.mem_cons_self, (boolRes_refused _ _ _).mpr (by simp [h])⟩
    · exact ⟨_, _, List.mem_cons_of_mem _ (List.mem_cons_of_mem _ List.mem_cons_self), (boolRes_refused _ _ _).mpr (by simp [h])⟩
    · exact ⟨_, _, List.mem_cons_of_mem _ (List.mem_cons_of_mem _ (List.mem_cons_of_mem _ List.mem_cons_self)),
        (boolRes_refused _ _ _).mpr (by simp [h])⟩
    · exact ⟨_, _, List.mem_cons_of_mem _ (List.mem_cons_of_mem _ (List.mem_cons_of_mem _ (List.mem_cons_of_mem _ List.mem_cons_self))),
        (boolRes_refused _ _ _).mpr (by simp [h])⟩
    · exact ⟨_, _, List.mem_cons_of_mem _ (List.mem_cons_of_mem _ (List.mem_cons_of_mem _ (List.mem_cons_of_mem _
        (List.mem_cons_of_mem _ List.mem_cons_self)))), (boolRes_refused _ _ _).mpr (by simp [h])⟩

theorem memberValidate_cases (e : EFunc) : memberValidate e = .ok () ∨ ∃ x, memberValidate e = .error x :=
  exec_result_cases (memberSteps e)

/-- `applyEdits` stops at the first refused edit -/
theorem applyEdits_append (es : List EFunc) (a b : List Edit) :
    applyEdits es (a ++ b) = match applyEdits es a with | .error x => .error x | .ok es' => applyEdits es' b := by
  induction a generalizing es with
  | nil => rfl
  | cons ed a ih =>
    simp only [List.cons_append, applyEdits]
    cases applyEdit es ed with
    | error x => rfl
    | ok es' => exact ih es'

/-- an edit of one member touches no other member: the length of the pipeline is unchanged -/
theorem onMember_length (es : List EFunc) (fn : String) (g : EFunc → V EFunc) (es' : List EFunc)
    (h : onMember es fn g = .ok es') : es'.length = es.length := by
  induction es generalizing es' with
  | nil => simp [onMember] at h
  | cons e rest ih =>
    simp only [onMember] at h
    split at h
    · split at h
      · cases h
      · cases h; simp
    · split at h
      · cases h
      · next rest' hr => cases h; simp [ih rest' hr]

end PF.Validate
