/-
Lemmas for `Model/ErrorsProto.lean`: every piece of the failure models commutes with renaming the exception.
-/
import PfModel.Model.ErrorsProto
namespace PF.Errors
open PF PF.Map

theorem failOf_map (h : Exn → Exn) (fails : Oracle) (t : Task) :
    failOf (mapOracle h fails) t = (failOf fails t).map h := rfl

theorem raisedOf_map (h : Exn → Exn) (t : Task) (x : Exn) : raisedOf t (h x) = (raisedOf t x).mapExn h := rfl

theorem firstFail_map (h : Exn → Exn) (fails : Oracle) :
    ∀ ts, firstFail (mapOracle h fails) ts = (firstFail fails ts).map (fun p => (p.1, h p.2))
  | [] => rfl
  | t :: ts => by
    simp only [firstFail, failOf_map]
    cases hf : failOf fails t with
    | none => simpa using firstFail_map h fails ts
    | some x => simp

theorem upToFail_map (h : Exn → Exn) (fails : Oracle) :
    ∀ ts, upToFail (mapOracle h fails) ts = upToFail fails ts
  | [] => rfl
  | t :: ts => by
    simp only [upToFail, failOf_map]
    cases hf : failOf fails t with
    | none => simpa using upToFail_map h fails ts
    | some x => simp

theorem setFut_map (h : Exn → Exn) (a : Futs) (i : Nat) (v : Option Exn) :
    setFut (mapFuts h a) i (v.map h) = mapFuts h (setFut a i v) := by
  funext j
  simp only [setFut, mapFuts]
  split <;> simp

theorem execAll_map (h : Exn → Exn) (fails : Oracle) (tasks : List Task) :
    ∀ (σ : List Nat) (a : Futs), execAll (mapOracle h fails) tasks σ (mapFuts h a) = mapFuts h (execAll fails tasks σ a)
  | [], _ => rfl
  | i :: σ, a => by
    simp only [execAll]
    cases tasks[i]? with
    | none => exact execAll_map h fails tasks σ a
    | some t =>
      simp only [failOf_map, setFut_map]
      exact execAll_map h fails tasks σ _

theorem mapFuts_empty (h : Exn → Exn) : mapFuts h (fun _ => none) = fun _ => none := rfl

theorem awaitAll_map (h : Exn → Exn) (futs : Futs) :
    ∀ (ts : List Task) (i : Nat), awaitAll (mapFuts h futs) ts i = (awaitAll futs ts i).mapExn h
  | [], _ => rfl
  | t :: ts, i => by
    simp only [awaitAll, mapFuts]
    cases hf : futs i with
    | none => rfl
    | some o =>
      cases o with
      | none => simpa [mapFuts] using awaitAll_map h futs ts (i + 1)
      | some x => rfl

theorem workerSlots_map (h : Exn → Exn) (futs : Futs) (off : Nat) (r : FuncResult) :
    workerSlots (mapFuts h futs) off r = workerSlots futs off r := by
  unfold workerSlots
  congr 1
  funext li
  simp only [mapFuts]
  cases futs (off + li) with
  | none => rfl
  | some o => cases o <;> rfl

theorem restSlots_map (h : Exn → Exn) (futs : Futs) :
    ∀ (rest : List (MFunc × FuncResult)) (off : Nat),
      procGen.restSlots (mapFuts h futs) rest off = procGen.restSlots futs rest off
  | [], _ => rfl
  | (_, r) :: rest, off => by
    simp only [procGen.restSlots, workerSlots_map, restSlots_map h futs rest]

theorem procGen_map (h : Exn → Exn) (futs : Futs) :
    ∀ (frs : List (MFunc × FuncResult)) (off : Nat), procGen (mapFuts h futs) frs off = (procGen futs frs off).mapExn h
  | [], _ => rfl
  | (f, r) :: rest, off => by
    simp only [procGen, awaitAll_map]
    cases awaitAll futs (tasksOf f r) off with
    | hang => rfl
    | raised t x => simp only [Await.mapExn, Proc.mapExn, workerSlots_map, restSlots_map, raisedOf_map]
    | allDone =>
      simp only [Await.mapExn, procGen_map h futs rest]
      cases procGen futs rest (off + r.calls.length) <;> rfl

theorem seqGen_map (h : Exn → Exn) (fails : Oracle) (R : Env → MFunc → M FuncResult) (env : Env) :
    ∀ gen, seqGen (mapOracle h fails) R env gen = (seqGen fails R env gen).mapExn h
  | [] => rfl
  | f :: rest => by
    simp only [seqGen]
    cases R env f with
    | error e => rfl
    | ok r =>
      simp only [firstFail_map, upToFail_map]
      cases firstFail fails (tasksOf f r) with
      | some p => rfl
      | none =>
        simp only [Option.map_none, seqGen_map h fails R env rest]
        cases seqGen fails R env rest <;> rfl

theorem poolGen_map (h : Exn → Exn) (fails : Oracle) (σ : List Nat) (R : Env → MFunc → M FuncResult) (env : Env) (gen : List MFunc) :
    poolGen (mapOracle h fails) σ R env gen = (poolGen fails σ R env gen).mapExn h := by
  simp only [poolGen]
  cases runGenWith R env gen with
  | error e => rfl
  | ok rs =>
    have hx := execAll_map h fails (genTasks (gen.zip rs)) σ (fun _ => none)
    rw [mapFuts_empty] at hx
    simp only [hx, procGen_map]
    cases procGen (execAll fails (genTasks (gen.zip rs)) σ fun _ => none) (gen.zip rs) 0 <;> rfl

theorem genE_map (h : Exn → Exn) (mode : Mode) (fails : Oracle) (σ : List Nat) (R : Env → MFunc → M FuncResult) (env : Env)
    (gen : List MFunc) : genE mode (mapOracle h fails) σ R env gen = (genE mode fails σ R env gen).mapExn h := by
  cases mode
  · exact seqGen_map h fails R env gen
  · exact poolGen_map h fails σ R env gen

/-- the generic generation loop: a generation runner that commutes with the renaming gives a loop that does -/
theorem runGensG_map (h : Exn → Exn) (G G' : Nat → Env → List MFunc → GenOut)
    (hG : ∀ g env gen, G' g env gen = (G g env gen).mapExn h) :
    ∀ (gens : List (List MFunc)) (env : Env) (g : Nat), runGensG G' gens env g = (runGensG G gens env g).mapExn h
  | [], _, _ => rfl
  | gen :: rest, env, g => by
    simp only [runGensG, hG]
    cases G g env gen with
    | refused e => rfl
    | hang log => rfl
    | raised r log sl => rfl
    | ok rs log =>
      simp only [GenOut.mapExn, runGensG_map h G G' hG rest]
      cases runGensG G rest { env with store := env.store ++ rs.flatMap (·.slots) } (g + 1) <;> rfl

theorem runGensE_eq_G (mode : Mode) (fails : Oracle) (sched : Nat → List Nat) (R : Env → MFunc → M FuncResult) :
    ∀ (gens : List (List MFunc)) (env : Env) (g : Nat),
      runGensE mode fails sched R gens env g = runGensG (fun g env gen => genE mode fails (sched g) R env gen) gens env g
  | [], _, _ => rfl
  | gen :: rest, env, g => by
    simp only [runGensE, runGensG]
    cases genE mode fails (sched g) R env gen with
    | refused e => rfl
    | hang log => rfl
    | raised r log sl => rfl
    | ok rs log => simp only [runGensE_eq_G mode fails sched R rest] <;> rfl

theorem gatherFail_map (h : Exn → Exn) (futs : Futs) (ts : List Task) (off : Nat) :
    ∀ ρ, gatherFail (mapFuts h futs) ts off ρ = (gatherFail futs ts off ρ).map (fun p => (p.1, h p.2))
  | [] => rfl
  | i :: ρ => by
    simp only [gatherFail]
    split
    · simp only [mapFuts]
      cases ts[i - off]? with
      | none => simpa using gatherFail_map h futs ts off ρ
      | some t =>
        cases futs i with
        | none => simpa using gatherFail_map h futs ts off ρ
        | some o =>
          cases o with
          | none => simpa using gatherFail_map h futs ts off ρ
          | some x => simp
    · exact gatherFail_map h futs ts off ρ

theorem allSucceeded_map (h : Exn → Exn) (futs : Futs) :
    ∀ (ts : List Task) (i : Nat), allSucceeded (mapFuts h futs) ts i = allSucceeded futs ts i
  | [], _ => rfl
  | _ :: ts, i => by
    simp only [allSucceeded, allSucceeded_map h futs ts, mapFuts]
    cases futs i with
    | none => rfl
    | some o => cases o <;> rfl

theorem awaitGather_map (h : Exn → Exn) (futs : Futs) (ρ : List Nat) (ts : List Task) (off : Nat) :
    awaitGather (mapFuts h futs) ρ ts off = (awaitGather futs ρ ts off).mapExn h := by
  simp only [awaitGather, gatherFail_map, allSucceeded_map]
  cases gatherFail futs ts off ρ with
  | some p => rfl
  | none =>
    simp only [Option.map_none]
    split <;> rfl

theorem procGenA_map (h : Exn → Exn) (futs : Futs) (ρ : List Nat) :
    ∀ (frs : List (MFunc × FuncResult)) (off : Nat), procGenA (mapFuts h futs) ρ frs off = (procGenA futs ρ frs off).mapExn h
  | [], _ => rfl
  | (f, r) :: rest, off => by
    simp only [procGenA, awaitGather_map]
    cases awaitGather futs ρ (tasksOf f r) off with
    | hang => rfl
    | raised t x => simp only [Await.mapExn, Proc.mapExn, workerSlots_map, restSlots_map, raisedOf_map]
    | allDone =>
      simp only [Await.mapExn, procGenA_map h futs ρ rest]
      cases procGenA futs ρ rest (off + r.calls.length) <;> rfl

theorem poolGenA_map (h : Exn → Exn) (fails : Oracle) (σ ρ : List Nat) (R : Env → MFunc → M FuncResult) (env : Env) (gen : List MFunc) :
    poolGenA (mapOracle h fails) σ ρ R env gen = (poolGenA fails σ ρ R env gen).mapExn h := by
  simp only [poolGenA]
  cases runGenWith R env gen with
  | error e => rfl
  | ok rs =>
    have hx := execAll_map h fails (genTasks (gen.zip rs)) σ (fun _ => none)
    rw [mapFuts_empty] at hx
    simp only [hx, procGenA_map]
    cases procGenA (execAll fails (genTasks (gen.zip rs)) σ fun _ => none) ρ (gen.zip rs) 0 <;> rfl

theorem Outcome.mapExn_mapExn (h k : Exn → Exn) (o : Outcome) : (o.mapExn h).mapExn k = o.mapExn (k ∘ h) := by
  cases o <;> rfl

/-! ## calling a pipeline -/
namespace Call
open PF.Pipe

theorem argsE_map (h : Exn → Exn) (rec rec' : String → St → Out Val) (hrec : ∀ p s, rec' p s = (rec p s).mapExn h)
    (fs : List Func) (kw : List (String × Val)) (f : Func) :
    ∀ (ps : List (String × String)) (s : St), argsE rec' fs kw f ps s = (argsE rec fs kw f ps s).mapExn h
  | [], _ => rfl
  | (p, orig) :: ps, s => by
    simp only [argsE]
    cases resolve fs kw f p with
    | missing => rfl
    | val v =>
      simp only [argsE_map h rec rec' hrec fs kw f ps]
      cases argsE rec fs kw f ps { s with used := s.used ++ [p] } <;> rfl
    | upstream =>
      simp only [hrec]
      cases rec p s with
      | stop e s1 => rfl
      | ok v s1 =>
        simp only [Out.mapExn, argsE_map h rec rec' hrec fs kw f ps]
        cases argsE rec fs kw f ps { s1 with used := s1.used ++ [p] } <;> rfl

theorem execE_map (h : Exn → Exn) (fails : Oracle) (f : Func) (args : List (String × Val)) (s : St) :
    execE (mapOracle h fails) f args s = (execE fails f args s).mapExn h := by
  simp only [execE, mapOracle]
  cases fails f.name args <;> rfl

theorem runE_map (h : Exn → Exn) (fails : Oracle) (fs : List Func) (kw : List (String × Val)) :
    ∀ (n : Nat) (o : String) (s : St), runE (mapOracle h fails) fs kw n o s = (runE fails fs kw n o s).mapExn h
  | 0, _, _ => rfl
  | n + 1, o, s => by
    simp only [runE]
    cases alookup s.memo o with
    | some v => rfl
    | none =>
      cases producer fs o with
      | none => rfl
      | some f =>
        simp only [argsE_map h (runE fails fs kw n) (runE (mapOracle h fails) fs kw n) (runE_map h fails fs kw n)]
        cases argsE (runE fails fs kw n) fs kw f f.params s with
        | stop e s' => rfl
        | ok args s' =>
          simp only [Out.mapExn, execE_map]
          cases execE fails f args s' with
          | stop e s1 => rfl
          | ok u s1 =>
            simp only [Out.mapExn]
            cases alookup (outVals f args) o <;> rfl

theorem runTopE_map (h : Exn → Exn) (fails : Oracle) (fs : List Func) (kw : List (String × Val)) (req : Req) :
    runTopE (mapOracle h fails) fs kw req = (runTopE fails fs kw req).mapExn h := by
  cases req with
  | name o =>
    simp only [runTopE]
    split
    · rfl
    · simp only [runE_map]
      cases runE fails fs kw (fuelFor fs) o { memo := kw, calls := [], used := [] } with
      | stop e s => cases e <;> rfl
      | ok v s => simp only [Out.mapExn]; split <;> rfl
  | whole os =>
    simp only [runTopE]
    cases fs.find? (fun f => f.outputs = os) with
    | none => rfl
    | some f =>
      simp only [argsE_map h (runE fails fs kw (fuelFor fs)) (runE (mapOracle h fails) fs kw (fuelFor fs)) (runE_map h fails fs kw (fuelFor fs))]
      cases argsE (runE fails fs kw (fuelFor fs)) fs kw f f.params { memo := kw, calls := [], used := [] } with
      | stop e s => cases e <;> rfl
      | ok args s =>
        simp only [Out.mapExn, execE_map]
        cases execE fails f args s with
        | stop e s1 => cases e <;> rfl
        | ok u s1 => simp only [Out.mapExn]; split <;> rfl

end Call

end PF.Errors
