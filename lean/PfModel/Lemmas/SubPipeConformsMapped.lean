import PfModel.Lemmas.SubPipeTblCore
import PfModel.Lemmas.SubPipeTblEmbed
import PfModel.Lemmas.MapDescRet
/-!
C11, proof round 6 — **`Conforms` passes from a pipeline to any sub-list of it** (MapSpecs included), given that the partial
request is complete and not over-provided and that the values it resolves for the root arguments of the sub-list that a MapSpec
of the sub-list names are arrays of the shape the FULL pipeline's declared table records (`conforms_sublist`).
-/
namespace PF.C01
open PF PF.Map

/-! ### the clauses of `Conforms`, and of `constructible`, one by one -/

theorem conforms_clauses (fs : List MFunc) (inputs : List (String × Val)) (ui : List (String × List Nat))
    (h : Conforms fs inputs ui = true) :
    inputsComplete fs inputs = true ∧ noSurplus fs inputs = true ∧ acyclic fs = true ∧ nodupB (fs.map (·.name)) = true ∧
    rootArrays fs inputs = true ∧ shapesOK (constructInternal fs ui) (generations fs).flatten (rootTbl fs inputs) = true ∧
    valuesTyped (declTbl fs inputs ui) inputs = true ∧ valuesTyped (declTbl fs inputs ui) (pdefaults fs) = true ∧
    fs.all (funcTyped (declTbl fs inputs ui)) = true ∧ constructible (declTbl fs inputs ui) fs = true := by
  unfold Conforms at h
  simp only [Bool.and_eq_true] at h
  obtain ⟨⟨⟨⟨⟨⟨⟨⟨⟨c1, c2⟩, c3⟩, c4⟩, c5⟩, c6⟩, c7⟩, c8⟩, c9⟩, c10⟩ := h
  exact ⟨c1, c2, c3, c4, c5, c6, c7, c8, c9, c10⟩

/-- the per-function clause of `constructible` -/
def fnConstructible (Γ : Tbl) (f : MFunc) : Bool :=
  !f.outputs.isEmpty &&
    match f.mapspec with
    | none => true
    | some ms =>
      ms.outputs.map (·.name) == f.outputs
      && ms.outputs.all (fun o => o.axes.all Option.isSome && o.axes == (ms.outputs.headD default).axes)
      && ms.inputs.all (fun a => f.params.any (·.1 = a.name))
      && (ms.inputs.isEmpty ||
          match f.outputs.head?.bind (alookup Γ) with
          | some e => e.2.all id || decide (f.ret = some (intOf e.2 e.1))
          | none => true)

theorem constructible_eq (Γ : Tbl) (fs : List MFunc) :
    constructible Γ fs = (nodupB (allOutputs fs) && consistentAxes fs && fs.all (fnConstructible Γ)) := rfl

theorem fnConstructible_congr (Γ1 Γ2 : Tbl) (f : MFunc) (h : ∀ o ∈ f.outputs, alookup Γ1 o = alookup Γ2 o) :
    fnConstructible Γ1 f = fnConstructible Γ2 f := by
  unfold fnConstructible
  have : f.outputs.head?.bind (alookup Γ1) = f.outputs.head?.bind (alookup Γ2) := by
    cases ho : f.outputs with
    | nil => rfl
    | cons o r =>
      simp only [List.head?_cons, Option.bind_some]
      exact h o (by rw [ho]; exact List.mem_cons_self ..)
  rw [this]

theorem fnConstructible_spec (Γ : Tbl) (f : MFunc) (h : fnConstructible Γ f = true) (ms : MSpec) (hm : f.mapspec = some ms) :
    ms.outputs.map (·.name) = f.outputs ∧ ∀ a ∈ ms.inputs, ∃ pq ∈ f.params, pq.1 = a.name := by
  unfold fnConstructible at h
  rw [hm] at h
  simp only [Bool.and_eq_true, beq_iff_eq, List.all_eq_true, List.any_eq_true, decide_eq_true_eq] at h
  exact ⟨h.2.1.1.1, fun a ha => h.2.1.2 a ha⟩

theorem allSpecs_subset {sub fs : List MFunc} (hs : sub.Sublist fs) : ∀ a ∈ allSpecs sub, a ∈ allSpecs fs := by
  intro a ha
  unfold allSpecs at ha ⊢
  obtain ⟨f, hf, hfa⟩ := List.mem_flatMap.mp ha
  exact List.mem_flatMap.mpr ⟨f, hs.subset hf, hfa⟩

theorem consistentAxes_sublist {sub fs : List MFunc} (hs : sub.Sublist fs) (h : consistentAxes fs = true) :
    consistentAxes sub = true := by
  unfold consistentAxes at h ⊢
  rw [List.all_eq_true] at h ⊢
  intro a ha
  have := h a (allSpecs_subset hs a ha)
  rw [List.all_eq_true] at this ⊢
  exact fun b hb => this b (allSpecs_subset hs b hb)

/-! ### `funcTyped` only reads the entries of the outputs and the shapes of the MapSpec inputs -/

theorem runsMapped_some (f : MFunc) (ms : MSpec) (h : runsMapped f = some ms) : f.mapspec = some ms ∧ ms.inputs ≠ [] := by
  unfold runsMapped at h
  split at h
  · next ms' hm =>
    split at h
    · cases h
    · next hne => cases h; exact ⟨hm, fun e => hne (by rw [e]; rfl)⟩
  · cases h

theorem funcTyped_congr (Γ1 Γ2 : Tbl) (f : MFunc) (ho : ∀ o ∈ f.outputs, alookup Γ1 o = alookup Γ2 o)
    (hi : ∀ ms, f.mapspec = some ms → ∀ a ∈ ms.inputs, (alookup Γ1 a.name).map (·.1) = (alookup Γ2 a.name).map (·.1)) :
    funcTyped Γ1 f = funcTyped Γ2 f := by
  unfold funcTyped
  cases hr : runsMapped f with
  | none =>
    simp only [singleTyped]
    apply all_congr_mem
    intro o ho'
    rw [ho o ho']
  | some ms =>
    obtain ⟨hm, _⟩ := runsMapped_some f ms hr
    simp only [mappedTyped]
    cases hh : f.outputs.head? with
    | none => rfl
    | some o =>
      have hoo : o ∈ f.outputs := List.mem_of_mem_head? (by rw [hh]; rfl)
      simp only []
      rw [ho o hoo]
      cases he : alookup Γ2 o with
      | none => rfl
      | some e =>
        simp only []
        congr 1
        · congr 1
          apply all_congr_mem
          intro a ha
          have := hi ms hm a ha
          cases h1 : alookup Γ1 a.name <;> cases h2 : alookup Γ2 a.name <;> rw [h1, h2] at this <;>
            simp only [Option.map_some, Option.map_none, Option.some.injEq, reduceCtorEq] at this
          simp only [this]
        · apply all_congr_mem
          intro o' ho'
          rw [ho o' ho']

/-! ### root arguments and outputs -/

theorem rootTbl_output_none (fs : List MFunc) (inputs : List (String × Val)) (g : MFunc) (hg : g ∈ fs) (o : String)
    (ho : o ∈ g.outputs) : alookup (rootTbl fs inputs) o = none := by
  unfold rootTbl
  apply Pieces.foldl_rootStep_none
  · rfl
  · intro hr
    obtain ⟨h, hh⟩ := Pieces.flow_producer_isSome fs g hg o ho
    rw [Pieces.flow_rootArgs_producer fs o hr] at hh
    cases hh

theorem rootArgs_not_output (fs : List MFunc) (k : String) (hk : k ∈ rootArgs fs) : k ∉ allOutputs fs := by
  intro h
  unfold allOutputs at h
  obtain ⟨g, hg, hko⟩ := List.mem_flatMap.mp h
  obtain ⟨h', hh⟩ := Pieces.flow_producer_isSome fs g hg k hko
  rw [Pieces.flow_rootArgs_producer fs k hk] at hh
  cases hh

theorem gens_mem (fs : List MFunc) (f : MFunc) (hf : f ∈ (generations fs).flatten) : f ∈ fs := by
  obtain ⟨g, hg, hfg⟩ := List.mem_flatten.mp hf
  exact Sub.layers_mem fs _ _ _ g hg f hfg

theorem gens_pairwise (fs : List MFunc) (ho : nodupB (allOutputs fs) = true) : (generations fs).flatten.Pairwise Pieces.Disj :=
  Pieces.flow_layers_pairwise fs Pieces.Disj (fun _ _ h => h.symm) _ _ _
    (Pieces.pairwise_disj_of_nodup fs (Pieces.nodupB_nodup _ ho))

theorem mem_mapspecNames (fs : List MFunc) (f : MFunc) (hf : f ∈ fs) (ms : MSpec) (hm : f.mapspec = some ms) (a : ASpec)
    (ha : a ∈ ms.inputs) : a.name ∈ mapspecNames fs := by
  unfold mapspecNames
  refine List.mem_flatMap.mpr ⟨f, hf, ?_⟩
  rw [hm]
  exact List.mem_append_left _ (List.mem_map_of_mem ha)

/-- a MapSpec input of a mapped, typed function is not bound -/
theorem mapped_input_not_bound (Γ : Tbl) (f : MFunc) (h : funcTyped Γ f = true) (ms : MSpec) (hm : f.mapspec = some ms)
    (a : ASpec) (ha : a ∈ ms.inputs) : alookup f.bound a.name = none := by
  have hr : runsMapped f = some ms := by
    unfold runsMapped
    rw [hm]
    cases hi : ms.inputs with
    | nil => rw [hi] at ha; cases ha
    | cons _ _ => simp [hi]
  unfold funcTyped at h
  rw [hr] at h
  simp only [mappedTyped] at h
  split at h
  · cases h
  · split at h
    · cases h
    · simp only [Bool.and_eq_true, List.all_eq_true] at h
      have := (h.1.2 a ha).1
      simpa using this

/-! ### the theorem -/

/-- "provided intermediates (and roots) of the right shape": what the partial request resolves (provided value, else default) for a
    root argument of `sub` named in a MapSpec of `sub` is an array of the shape the full pipeline's declared table records -/
def RightShapes (fs sub : List MFunc) (inputsFull inputs : List (String × Val)) (ui : List (String × List Nat)) : Prop :=
  ∀ p ∈ rootArgs sub, p ∈ mapspecNames sub → ∃ sh, (alookup (inputs ++ pdefaults sub) p).bind shapeOf = some sh ∧
    alookup (shapesOf (declTbl fs inputsFull ui)) p = some sh

/-- **`Conforms` passes to sub-lists.**  `fs` with `inputsFull` is a valid map request; `sub` is any sub-list of `fs` (functions
    dropped, order kept); the partial request `inputs` is complete and not over-provided for `sub`; for every root argument of
    `sub` that a MapSpec of `sub` names, the value the partial request resolves is an array whose shape is the one the FULL
    pipeline's declared table records for that name (`HS` — for a root argument of `fs` this is the shape of the full request's
    array, for a provided intermediate the declared shape of that intermediate); the provided values (and the defaults of `sub`)
    are well-formed arrays of the shapes the FULL table records (`HV`).  Then the partial request is a valid map request. -/
theorem conforms_sublist (fs sub : List MFunc) (inputsFull inputs : List (String × Val)) (ui : List (String × List Nat))
    (hconf : Conforms fs inputsFull ui = true) (hsl : sub.Sublist fs)
    (h1 : inputsComplete sub inputs = true) (h2 : noSurplus sub inputs = true)
    (HS : ∀ p ∈ rootArgs sub, p ∈ mapspecNames sub → ∃ sh, (alookup (inputs ++ pdefaults sub) p).bind shapeOf = some sh ∧
      alookup (shapesOf (declTbl fs inputsFull ui)) p = some sh)
    (HV : valuesTyped (declTbl fs inputsFull ui) inputs = true)
    (HD : valuesTyped (declTbl fs inputsFull ui) (pdefaults sub) = true) :
    Conforms sub inputs ui = true := by
  obtain ⟨_, _, c3, c4, _, c6, _, _, c8, c9⟩ := conforms_clauses fs inputsFull ui hconf
  rw [constructible_eq] at c9
  simp only [Bool.and_eq_true] at c9
  obtain ⟨⟨ho, hca⟩, hfc⟩ := c9
  rw [List.all_eq_true] at hfc c8
  have hoS : nodupB (allOutputs sub) = true := nodupB_sublist (allOutputs_sublist hsl) ho
  have hnS : nodupB (sub.map (·.name)) = true := nodupB_sublist (hsl.map _) c4
  have hacS : acyclic sub = true := acyclic_sublist fs sub hsl c4 ho c3
  -- the table lemma
  have core := tbl_core (constructInternal sub ui) (constructInternal fs ui) (generations fs).flatten (rootTbl fs inputsFull)
    (gens_pairwise fs ho) (fun g hg o hgo => rootTbl_output_none fs inputsFull g (gens_mem fs g hg) o hgo) c6
    (generations sub).flatten (rootTbl sub inputs) (gens_pairwise sub hoS)
    (fun f hf => PF.Validate.mem_flatten_of_acyclic fs c3 f (hsl.subset (gens_mem sub f hf)))
    (fun f hf o hfo => rootTbl_output_none sub inputs f (gens_mem sub f hf) o hfo)
    (fun f hf ms hm => ishOf_sublist fs sub ui hsl ho f (gens_mem sub f hf) ms
      (fnConstructible_spec _ f (hfc f (hsl.subset (gens_mem sub f hf))) ms hm).1)
    (by
      intro pre f post hsplit ms hm a ha
      have hf : f ∈ sub := gens_mem sub f (by rw [hsplit]; simp)
      have hfF : f ∈ fs := hsl.subset hf
      obtain ⟨pq, hpq, hpn⟩ := (fnConstructible_spec _ f (hfc f hfF) ms hm).2 a ha
      have hnb := mapped_input_not_bound _ f (c8 f hfF) ms hm a ha
      cases hp : producer sub a.name with
      | some g =>
        left
        obtain ⟨hg, hag⟩ := producer_some sub a.name g hp
        have hup : g.name ∈ upstream sub f :=
          (mem_upstream sub f g.name).mpr ⟨pq.1, pq.2, hpq, by rw [hpn, hnb]; rfl, g, by rw [hpn]; exact hp, rfl⟩
        obtain ⟨g', hg', hn⟩ := order_split sub pre post f hsplit g.name hup
        have hg'S : g' ∈ sub := gens_mem sub g' (by rw [hsplit]; exact List.mem_append_left _ hg')
        have : g' = g := name_unique sub (nodupB_nodup _ hnS) g' g hg'S hg hn
        exact ⟨g', hg', by rw [this]; exact hag⟩
      | none =>
        right
        have hr : a.name ∈ rootArgs sub := mem_rootArgs sub f hf a.name pq.2 (by rw [← hpn]; exact hpq) hnb hp
        have hmn := mem_mapspecNames sub f hf ms hm a ha
        obtain ⟨sh, hv, hF⟩ := HS a.name hr hmn
        rw [alookup_shapesOf, PF.Validate.rootTbl_lookup sub inputs a.name sh hr (by simpa using hmn) hv]
        exact hF.symm)
  obtain ⟨hok, hTA⟩ := core
  have hTA' : ∀ f ∈ sub, ∀ o ∈ f.outputs, alookup (declTbl sub inputs ui) o = alookup (declTbl fs inputsFull ui) o :=
    fun f hf => hTA f (PF.Validate.mem_flatten_of_acyclic sub hacS f hf)
  -- the entry of a root argument of `sub` named in a MapSpec of `sub`
  have hroot : ∀ p ∈ rootArgs sub, p ∈ mapspecNames sub → ∀ sh, (alookup (inputs ++ pdefaults sub) p).bind shapeOf = some sh →
      alookup (declTbl sub inputs ui) p = some (sh, sh.map fun _ => true) := by
    intro p hp hm sh hv
    unfold declTbl
    exact PF.Validate.tblFrom_preserved _ _ _ _ _ (PF.Validate.rootTbl_lookup sub inputs p sh hp (by simpa using hm) hv)
  -- shapes of MapSpec inputs agree
  have hTI : ∀ f ∈ sub, ∀ ms, f.mapspec = some ms → ∀ a ∈ ms.inputs,
      (alookup (declTbl sub inputs ui) a.name).map (·.1) = (alookup (declTbl fs inputsFull ui) a.name).map (·.1) := by
    intro f hf ms hm a ha
    have hfF : f ∈ fs := hsl.subset hf
    obtain ⟨pq, hpq, hpn⟩ := (fnConstructible_spec _ f (hfc f hfF) ms hm).2 a ha
    have hnb := mapped_input_not_bound _ f (c8 f hfF) ms hm a ha
    cases hp : producer sub a.name with
    | some g =>
      obtain ⟨hg, hag⟩ := producer_some sub a.name g hp
      rw [hTA' g hg a.name hag]
    | none =>
      have hr : a.name ∈ rootArgs sub := mem_rootArgs sub f hf a.name pq.2 (by rw [← hpn]; exact hpq) hnb hp
      have hmn := mem_mapspecNames sub f hf ms hm a ha
      obtain ⟨sh, hv, hF⟩ := HS a.name hr hmn
      rw [hroot a.name hr hmn sh hv, ← alookup_shapesOf, hF]
      rfl
  -- values
  have hvals : ∀ kvs : List (String × Val), (∀ kv ∈ kvs, kv.1 ∈ rootArgs sub) →
      valuesTyped (declTbl fs inputsFull ui) kvs = true → valuesTyped (declTbl sub inputs ui) kvs = true := by
    intro kvs hk hv
    unfold valuesTyped at hv ⊢
    rw [List.all_eq_true] at hv ⊢
    intro kv hkv
    cases he : alookup (declTbl sub inputs ui) kv.1 with
    | none => rfl
    | some e =>
      simp only []
      obtain ⟨hr, hm, hsh⟩ := declTbl_nonoutput sub inputs ui kv.1 (rootArgs_not_output sub kv.1 (hk kv hkv)) e he
      obtain ⟨sh, hv', hF⟩ := HS kv.1 hr hm
      rw [hsh] at hv'
      cases hv'
      rw [alookup_shapesOf] at hF
      have := hv kv hkv
      cases hF' : alookup (declTbl fs inputsFull ui) kv.1 with
      | none => rw [hF'] at hF; cases hF
      | some e' =>
        rw [hF'] at hF this
        simp only [Option.map_some, Option.some.injEq] at hF
        simp only [] at this
        rw [← hF]; exact this
  have hkeys : ∀ k ∈ akeys inputs ++ akeys (pdefaults sub), k ∈ rootArgs sub := by
    intro k hk
    unfold noSurplus at h2
    rw [List.all_eq_true] at h2
    simpa using h2 k hk
  -- assemble
  have k5 : rootArrays sub inputs = true := by
    unfold rootArrays
    rw [List.all_eq_true]
    intro p hp
    cases hc : (mapspecNames sub).contains p with
    | false => rfl
    | true =>
      obtain ⟨sh, hv, _⟩ := HS p hp (by simpa using hc)
      simp [hv]
  have k7 : valuesTyped (declTbl sub inputs ui) inputs = true :=
    hvals inputs (fun kv hkv => hkeys kv.1 (List.mem_append_left _ (List.mem_map_of_mem hkv))) HV
  have k7' : valuesTyped (declTbl sub inputs ui) (pdefaults sub) = true :=
    hvals (pdefaults sub) (fun kv hkv => hkeys kv.1 (List.mem_append_right _ (List.mem_map_of_mem hkv))) HD
  have k8 : sub.all (funcTyped (declTbl sub inputs ui)) = true := by
    rw [List.all_eq_true]
    intro f hf
    rw [funcTyped_congr _ (declTbl fs inputsFull ui) f (hTA' f hf) (hTI f hf)]
    exact c8 f (hsl.subset hf)
  have k9 : constructible (declTbl sub inputs ui) sub = true := by
    rw [constructible_eq, hoS, consistentAxes_sublist hsl hca]
    simp only [Bool.true_and, List.all_eq_true]
    intro f hf
    rw [fnConstructible_congr _ (declTbl fs inputsFull ui) f (hTA' f hf)]
    exact hfc f (hsl.subset hf)
  unfold Conforms
  simp only [h1, h2, hacS, hnS, k5, hok, k7, k7', k8, k9, Bool.and_self]

end PF.C01
