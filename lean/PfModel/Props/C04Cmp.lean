import PfModel.Lemmas.RunInfoCompare3
import PfModel.Props.C04Resume
/-!
C04, the resume check as it is — THREE-valued.  `equal_dicts` answers `False`, `None` ("could not compare": some `_is_equal` call
raised and no pair compared not-equal) or `True`; `_compare_to_previous_run_info` accepts the run on `None` for the inputs WITHOUT
comparing the defaults, and on `None` for the defaults (Model/RunInfoCompare3.lean: `eqDict3`, `compareToPrevious3`, `createOn3`,
`runOn3`, `history3`; the comparator `cmp k v w : Option Bool` is the outcome of `_is_equal(d1[k], d2[k])`, `none` = it raised).

What the property statement says about the folder does not depend on the check's verdicts: for EVERY comparator — could-not-compare
included — after an accepted run `RunInfo.load` is the record of THIS run and `load_outputs` yields THIS run's store
(`C04_cmp3_records`, `C04_cmp3_reload`, `C04_cmp3_history_last`).  What the check lets through is characterised exactly
(`C04_cmp3_eqDict_spec`, `C04_cmp3_accept_iff`); with a comparator that never raises it is the two-valued model
(`C04_cmp3_conservative`).
-/
namespace PF.C04
open PF PF.Map PF.RIC

/-- **`equal_dicts`, for all inputs, independent of the iteration order** (`pairCmp3 cmp b kv` is the verdict on one item `kv` of
    `a`: `some false` when `b` lacks the key, else `cmp` of the two values).  `False` iff the lengths differ or SOME item is
    not-equal (missing key included); `None` iff the lengths agree, NO item is not-equal and SOME comparison raised; `True` iff the
    lengths agree and EVERY item compares equal.  In particular one not-equal item beats any number of raised comparisons,
    wherever it stands. -/
theorem C04_cmp3_eqDict_spec (cmp : String → Val → Val → Option Bool) (a b : List (String × Val)) :
    (eqDict3 cmp a b = some false ↔ a.length ≠ b.length ∨ ∃ kv ∈ a, pairCmp3 cmp b kv = some false) ∧
    (eqDict3 cmp a b = none ↔
      a.length = b.length ∧ (∀ kv ∈ a, pairCmp3 cmp b kv ≠ some false) ∧ ∃ kv ∈ a, pairCmp3 cmp b kv = none) ∧
    (eqDict3 cmp a b = some true ↔ a.length = b.length ∧ ∀ kv ∈ a, pairCmp3 cmp b kv = some true) := by
  rw [eqDict3_loop]
  by_cases hl : a.length = b.length
  · simp only [hl, ne_eq, not_true_eq_false, if_false, false_or, true_and]
    refine ⟨eqLoop3_false cmp b a false, ?_, ?_⟩
    · rw [eqLoop3_none]; simp
    · rw [eqLoop3_true]; simp
  · simp [hl]

/-- the answer of `equal_dicts` does not depend on the order of the first dictionary's items -/
theorem C04_cmp3_eqDict_perm (cmp : String → Val → Val → Option Bool) (a a' b : List (String × Val)) (hp : a.Perm a') :
    eqDict3 cmp a b = eqDict3 cmp a' b := by
  obtain ⟨f1, n1, t1⟩ := C04_cmp3_eqDict_spec cmp a b
  obtain ⟨f2, n2, t2⟩ := C04_cmp3_eqDict_spec cmp a' b
  have hm : ∀ kv, kv ∈ a ↔ kv ∈ a' := fun kv => hp.mem_iff
  have hlen : a.length = a'.length := hp.length_eq
  cases h : eqDict3 cmp a b with
  | none =>
    symm; rw [n2]; obtain ⟨h1, h2, kv, hkv, h3⟩ := n1.mp h
    exact ⟨hlen ▸ h1, fun kv hkv => h2 kv ((hm kv).mpr hkv), kv, (hm kv).mp hkv, h3⟩
  | some r =>
    cases r with
    | false =>
      symm; rw [f2]
      rcases f1.mp h with h1 | ⟨kv, hkv, h3⟩
      · exact .inl (hlen ▸ h1)
      · exact .inr ⟨kv, (hm kv).mp hkv, h3⟩
    | true =>
      symm; rw [t2]; obtain ⟨h1, h2⟩ := t1.mp h
      exact ⟨hlen ▸ h1, fun kv hkv => h2 kv ((hm kv).mpr hkv)⟩

/-- **The nested-dictionary quirk** (`pairOutcome`): a comparison that RETURNED `None` (two nested dictionaries that could not be
    compared) is read by `if not equal:` as not-equal, so the outer `equal_dicts` answers `False`, not `None` — whatever else
    raised. -/
theorem C04_cmp3_nested_none_is_false (out : String → Val → Val → Except Unit (Option Bool)) (a b : List (String × Val))
    (kv : String × Val) (w : Val) (hkv : kv ∈ a) (hw : alookup b kv.1 = some w) (hnone : out kv.1 kv.2 w = .ok none) :
    eqDict3 (fun k x y => pairOutcome (out k x y)) a b = some false := by
  rw [(C04_cmp3_eqDict_spec _ a b).1]
  exact .inr ⟨kv, hkv, by simp [pairCmp3, hw, hnone, pairOutcome]⟩

/-- **`_is_equal` of two sequences: the first pair that does not compare equal decides.**  If the pairs before position `n`
    all compare equal, `all(_is_equal(x, y) for ...)` is decided by the pair at `n`: not-equal → `False` whatever raises AFTER it,
    raised → the call raises whatever is not-equal after it (so a list input `[changed, uncomparable]` is refused and
    `[uncomparable, changed]` "could not be compared"). -/
theorem C04_cmp3_seq_first_decides (el : Nat → Val → Val → Option Bool) (px py : List Val) (x y : Val) (rx ry : List Val) (i : Nat)
    (hl : px.length = py.length) (hpre : allEq3 el i px py = some true) :
    allEq3 el i (px ++ x :: rx) (py ++ y :: ry) = match el (i + px.length) x y with
      | none => none
      | some false => some false
      | some true => allEq3 el (i + px.length + 1) rx ry :=
  allEq3_first el x y rx ry px py i hl hpre

/-- ... and two sequences of one length compare equal iff every pair does -/
theorem C04_cmp3_seq_true (el : Nat → Val → Val → Option Bool) (sh : List Nat) (xs ys : List Val) :
    seqEq3 el sh xs sh ys = some true ↔
      xs.length = ys.length ∧ ∀ j (h : j < xs.length) (h' : j < ys.length), el j xs[j] ys[j] = some true := by
  unfold seqEq3
  by_cases hl : xs.length = ys.length
  · have := allEq3_true el xs ys 0 hl
    simp only [Nat.zero_add] at this
    simp [hl, this]
  · simp [hl]

/-- **Conservative.** With an `_is_equal` that never raises, the three-valued check IS the two-valued model of
    Model/RunInfoResume.lean with `eqv a b = (eqv3 a b == some true)`, for every folder and record. -/
theorem C04_cmp3_conservative (eqv3 : Val → Val → Option Bool) (h : ∀ x y, eqv3 x y ≠ none) (fo : Folder) (new : RunInfo) :
    compareToPrevious3 (keyless eqv3) fo new = compareToPrevious (fun x y => eqv3 x y == some true) fo new := by
  unfold compareToPrevious3 compareToPrevious
  simp only [eqDict3_total eqv3 h]
  cases fo .runInfo with
  | none => rfl
  | some _ =>
    cases decode fo with
    | none => rfl
    | some old =>
      simp only
      split; · rfl
      split; · rfl
      split; · rfl
      cases eqDict (fun x y => eqv3 x y == some true) new.inputs old.inputs with
      | false => rfl
      | true => cases eqDict (fun x y => eqv3 x y == some true) new.defaults old.defaults <;> rfl

/-- **What the check lets through, exactly.**  The run is accepted iff the folder holds no `run_info.json`, or the previous record
    loads, internal shapes, MapSpecs and shapes agree, and EITHER the inputs could not be compared (then the defaults are not
    looked at) OR the inputs compare equal and the defaults do not compare not-equal. -/
theorem C04_cmp3_accept_iff (cmp : String → Val → Val → Option Bool) (fo : Folder) (new : RunInfo) :
    compareToPrevious3 cmp fo new = .ok () ↔
      fo .runInfo = none ∨
      ∃ old, decode fo = some old ∧ new.internalShapes = old.internalShapes ∧ new.mapspecs = old.mapspecs ∧
        sameKeyed new.shapes old.shapes = true ∧
        (eqDict3 cmp new.inputs old.inputs = none ∨
         (eqDict3 cmp new.inputs old.inputs = some true ∧ eqDict3 cmp new.defaults old.defaults ≠ some false)) := by
  unfold compareToPrevious3
  cases hr : fo .runInfo with
  | none => simp
  | some j =>
    cases hd : decode fo with
    | none => simp
    | some old =>
      simp only [Option.some.injEq, exists_eq_left', reduceCtorEq, false_or]
      by_cases h1 : new.internalShapes = old.internalShapes
      · by_cases h2 : new.mapspecs = old.mapspecs
        · cases h3 : sameKeyed new.shapes old.shapes
          · simp [h1, h2]
          · simp only [h1, h2, ne_eq, not_true_eq_false, if_false, Bool.not_true, Bool.false_eq_true, true_and]
            cases hi : eqDict3 cmp new.inputs old.inputs with
            | none => simp
            | some r =>
              cases r with
              | false => simp
              | true =>
                cases hdf : eqDict3 cmp new.defaults old.defaults with
                | none => simp
                | some r2 => cases r2 <;> simp
        · simp [h1, h2]
      · simp [h1]

/-- **The folder records the run that was made last — also when the check could not compare.**  For every comparator `cmp`
    (any mixture of equal / not-equal / raised), every previous content of the folder: once `RunInfo.create` has accepted the run
    and the run has written its results, `RunInfo.load(F)` is the record of THIS run: its inputs and its DEFAULTS in particular,
    which an inputs-could-not-be-compared acceptance never looked at. -/
theorem C04_cmp3_records (cmp : String → Val → Val → Option Bool) (pm : Bool) (fo fo' : Folder) (x : Run) (hok : NamesOK x.info)
    (h : runOn3 cmp pm fo x = .ok fo') :
    decode fo' = some { x.info with allOutputNames := sortNames x.info.allOutputNames } := by
  obtain ⟨base, hb⟩ := runOn3_ok cmp pm fo fo' x h
  rw [hb]
  exact decode_writeStore_dumpAll pm x.backend x.store base x.info hok

/-- **Reload after a resume under the three-valued check**: `load_outputs(o)` after an accepted run with `persist_memory=True`
    returns, for every output, what the run's store holds at its end — for every comparator and every previous content. -/
theorem C04_cmp3_reload (parse : String → Option MSpec) (cmp : String → Val → Val → Option Bool) (fo fo' : Folder) (x : Run)
    (hok : NamesOK x.info) (hn : (akeys x.store).Nodup)
    (hagree : ∀ os ∈ x.store, agreeSlot parse x.info x.backend os.1 os.2 = true)
    (h : runOn3 cmp true fo x = .ok fo') :
    ∀ os ∈ x.store, loadOutput parse fo' os.1 = some os.2.toVal := by
  intro os hos
  obtain ⟨o, s⟩ := os
  obtain ⟨base, hb⟩ := runOn3_ok cmp true fo fo' x h
  have hdec := C04_cmp3_records cmp true fo fo' x hok h
  have hread := foldl_writeSlot_read x.backend x.store (dumpAll base x.info) hn o s hos
  have hag := hagree (o, s) hos
  simp only [loadOutput, hdec, bind, Option.bind]
  rw [initEntry_names parse x.info _ (mem_sortNames x.info.allOutputNames) o]
  subst hb
  cases s with
  | single v =>
    simp only [agreeSlot, beq_iff_eq] at hag
    simp only [SlotRead] at hread
    simp only [writeStore, hag, hread, Slot.toVal]
  | array sh mk cells =>
    simp only [agreeSlot] at hag
    cases hbk : x.backend o with
    | none => simp [hbk] at hag
    | some b =>
      simp only [hbk, beq_iff_eq] at hag
      simp only [SlotRead] at hread
      have := hread b hbk
      simp only [writeStore, hag, this]
      rfl

/-- **Histories under the three-valued check.** After any accepted sequence of runs into one folder the folder records the LAST
    run and `load_outputs` yields the LAST run's values. -/
theorem C04_cmp3_history_last (parse : String → Option MSpec) (cmp : String → Val → Val → Option Bool) (fo fo' : Folder)
    (xs : List Run) (x : Run) (hok : NamesOK x.info) (hn : (akeys x.store).Nodup)
    (hagree : ∀ os ∈ x.store, agreeSlot parse x.info x.backend os.1 os.2 = true)
    (h : history3 cmp true fo (xs ++ [x]) = .ok fo') :
    decode fo' = some { x.info with allOutputNames := sortNames x.info.allOutputNames } ∧
    ∀ os ∈ x.store, loadOutput parse fo' os.1 = some os.2.toVal := by
  rw [history3_append] at h
  cases h1 : history3 cmp true fo xs with
  | error e => simp [h1] at h
  | ok f1 =>
    simp only [h1] at h
    exact ⟨C04_cmp3_records cmp true f1 fo' x hok h, C04_cmp3_reload parse cmp f1 fo' x hok hn hagree h⟩

/-! ### witnesses and non-vacuity -/

/-- integers compare by value, anything else is not-equal (a `_is_equal` that never raises) -/
def cmpInt : String → Val → Val → Option Bool
  | _, .int m, .int n => some (m == n)
  | _, _, _ => some false
/-- the same, but comparing the input `a` raises -/
def cmpRaiseA : String → Val → Val → Option Bool := fun k x y => if k = "a" then none else cmpInt k x y

def rOld : RunInfo := { rFile with defaults := [("d", .int 1)] }
def rNewDefaults : RunInfo := { rFile with defaults := [("d", .int 2)] }

/-- **Unchecked defaults.**  The previous run had `d = 1`; the new run has the same input `a` and `d = 2`.  When `a` compares equal
    the resume is refused ("Defaults ... do not match previous run"); when comparing `a` RAISES the resume is accepted — the
    defaults are never compared — and the folder afterwards holds the NEW default `d = 2` (it records the run that was made, as
    `C04_cmp3_records` says). -/
theorem C04_cmp3_unchecked_defaults_witness :
    (match compareToPrevious3 cmpInt (dumpAll Folder.empty rOld) rNewDefaults with | .error .defaults => true | _ => false) = true ∧
    (match compareToPrevious3 cmpRaiseA (dumpAll Folder.empty rOld) rNewDefaults with | .ok () => true | _ => false) = true ∧
    (match createOn3 cmpRaiseA false (dumpAll Folder.empty rOld) rNewDefaults with
     | .ok fo => (match (decode fo).map (·.defaults) with | some [("d", Val.int 2)] => true | _ => false)
     | .error _ => false) = true := by decide

/-- `eqDict3`: all three answers occur; one not-equal item beats a raised comparison on either side of it -/
example : (eqDict3 cmpRaiseA [("a", .int 1), ("d", .int 1)] [("d", .int 1), ("a", .int 1)] == none &&
           eqDict3 cmpRaiseA [("a", .int 1), ("d", .int 1)] [("d", .int 2), ("a", .int 1)] == some false &&
           eqDict3 cmpRaiseA [("d", .int 1), ("a", .int 1)] [("d", .int 2), ("a", .int 1)] == some false &&
           eqDict3 cmpRaiseA [("d", .int 1)] [("d", .int 1)] == some true &&
           eqDict3 cmpRaiseA [("a", .int 1)] [("b", .int 1)] == some false &&
           eqDict3 cmpRaiseA [("a", .int 1)] [] == some false) = true := by decide

/-- the hypotheses of `C04_cmp3_seq_first_decides` (an equal prefix of length 1), and both orders of a changed and an uncomparable element -/
example : (let el : Nat → Val → Val → Option Bool := fun i x y => if i = 1 then none else cmpInt "" x y
    allEq3 el 0 [.int 0] [.int 0] == some true &&
    allEq3 el 0 [.int 0, .int 1, .int 2] [.int 0, .int 1, .int 3] == none &&            -- [same, uncomparable, changed]
    allEq3 el 0 [.int 0, .int 1, .int 2] [.int 5, .int 1, .int 2] == some false &&      -- [changed, uncomparable, same]
    seqEq3 el [3] [.int 0, .int 1, .int 2] [3] [.int 0, .int 1, .int 2] == none &&
    seqEq3 (fun _ => cmpInt "") [2] [.int 0, .int 1] [2] [.int 0, .int 1] == some true &&
    seqEq3 el [1] [.int 0] [2] [.int 0, .int 1] == some false) = true := by decide

/-- the hypothesis of `C04_cmp3_eqDict_perm` -/
example : [("a", Val.int 1), ("d", Val.int 1)].Perm [("d", Val.int 1), ("a", Val.int 1)] := List.Perm.swap _ _ _

/-- the hypotheses of `C04_cmp3_nested_none_is_false`: an item whose comparison returned `None`, next to one that raised -/
example : ∃ (out : String → Val → Val → Except Unit (Option Bool)) (a b : List (String × Val)) (kv : String × Val) (w : Val),
    kv ∈ a ∧ alookup b kv.1 = some w ∧ out kv.1 kv.2 w = .ok none ∧ out "a" (.int 1) (.int 1) = .error () :=
  ⟨fun k _ _ => if k = "a" then .error () else .ok none, [("a", .int 1), ("n", .int 1)], [("a", .int 1), ("n", .int 1)],
   ("n", .int 1), .int 1, by simp, by simp [alookup], by simp, by simp⟩

/-- the hypothesis of `C04_cmp3_conservative` holds for `cmpInt "x"`, and fails for a comparator that raises -/
example : ∀ x y, cmpInt "x" x y ≠ none := by
  intro x y; cases x <;> cases y <;> simp [cmpInt]

/-- both sides of `C04_cmp3_accept_iff` are inhabited and refutable: accepted on the empty folder and with a raised comparison,
    refused with differing defaults -/
example : (match compareToPrevious3 cmpInt Folder.empty rNewDefaults with | .ok () => true | _ => false) = true := by decide

def thirdRun : Run := { secondRun with info := { rDict with inputs := [("a", .int 1)], defaults := [("d", .int 2)] } }
def firstRunD : Run := { firstRun with info := rOld }

/-- the hypotheses of `C04_cmp3_records`, `C04_cmp3_reload`, `C04_cmp3_history_last` hold for a two-run history whose second run
    could not compare its input `a` and changes the default `d` (and the storage): accepted, the folder records `d = 2` and `dict`,
    the reloaded array is the second run's -/
example : (match history3 cmpRaiseA true Folder.empty ([firstRunD] ++ [thirdRun]) with
  | .ok fo =>
    (decode fo).map (·.storage) == some (Storage.uniform "dict") &&
    (match (decode fo).map (·.defaults) with | some [("d", Val.int 2)] => true | _ => false) &&
    (match loadOutput parseEx fo "y" with | some (.arr [2] [.int 10, .int 20]) => true | _ => false) &&
    thirdRun.store.all (fun os => agreeSlot parseEx thirdRun.info thirdRun.backend os.1 os.2) &&
    (akeys thirdRun.store == ["y"])
  | .error _ => false) = true := by decide

/-- with a comparator that does not raise the same history is refused on the defaults: `history3` is not always `.ok` -/
example : (match history3 cmpInt true Folder.empty [firstRunD, thirdRun] with
  | .error .defaults => true
  | _ => false) = true := by decide

example : NamesOK thirdRun.info :=
  { shapes := by intro kv h; simp only [thirdRun, secondRun, rDict, rFile, List.mem_singleton] at h; subst h; simp only [KeyOK]; decide,
    masks := by intro kv h; simp only [thirdRun, secondRun, rDict, rFile, List.mem_singleton] at h; subst h; simp only [KeyOK]; decide,
    storage := by intro m h; simp [thirdRun, secondRun, rDict] at h,
    inputs := by decide }

end PF.C04
