import PfModel.Model.ErrorsFile
/-! Helper lemmas for `Props/C13File.lean`: the loader inverts the dumper, `asdict` and its fixed points, `unbox`. -/
namespace PF.Errors.File
open PF PF.Errors

/-- the loader run over the dump of a value pushes that value — whatever follows in the file, whatever is on the stack -/
theorem run_dump (v : PV) : ∀ (rest : List Tok) (st : List PV), run (dump v ++ rest) st = run rest (v :: st) := by
  refine PV.rec (motive_1 := fun v => ∀ rest st, run (dump v ++ rest) st = run rest (v :: st))
    (motive_2 := fun xs => ∀ rest st, run (dumpL xs ++ rest) st = run rest (xs.reverse ++ st)) ?_ ?_ ?_ ?_ v
  · intro v rest st; simp [dump, run, step]
  · intro k xs ih rest st
    simp only [dump, List.append_assoc]
    rw [ih]
    have hle : xs.length ≤ (xs.reverse ++ st).length := by simp
    have h1 : (xs.reverse ++ st).take xs.length = xs.reverse := List.take_left' (by simp)
    have h2 : (xs.reverse ++ st).drop xs.length = st := List.drop_left' (by simp)
    simp only [List.singleton_append, run, step, hle, ↓reduceIte, h1, h2, List.reverse_reverse]
  · intro rest st; simp [dumpL]
  · intro x xs ihx ihxs rest st
    simp only [dumpL, List.append_assoc]
    rw [ihx, ihxs]
    simp

theorem run_dumpL : ∀ (xs : List PV) (rest : List Tok) (st : List PV), run (dumpL xs ++ rest) st = run rest (xs.reverse ++ st)
  | [], rest, st => by simp [dumpL]
  | x :: xs, rest, st => by
    simp only [dumpL, List.append_assoc]
    rw [run_dump, run_dumpL xs]
    simp

theorem loads_dump (v : PV) : loads (dump v) = some v := by
  have := run_dump v [] []
  simp only [List.append_nil] at this
  simp [loads, this, run]

theorem unatoms_map : ∀ l : List Val, unatoms (l.map PV.atom) = some l
  | [] => rfl
  | v :: r => by simp [unatoms, unatoms_map r]

theorem zip_fst_snd {α β} : ∀ l : List (α × β), (l.map (·.1)).zip (l.map (·.2)) = l
  | [] => rfl
  | p :: r => by simp [zip_fst_snd r]

theorem ofPV_toPV (s : SnapFile) : SnapFile.ofPV s.toPV = some s := by
  simp [SnapFile.toPV, SnapFile.ofPV, unatoms_map, zip_fst_snd]

theorem loadFile_saveFile (s : SnapFile) : loadFile (saveFile s) = some s := by
  simp [loadFile, saveFile, loads_dump, ofPV_toPV]

/-! ### `asdict` -/

theorem plain_eq_iff (k : Kind) : k.plain = k ↔ k.isInst = false := by
  cases k <;> simp [Kind.plain, Kind.isInst]

theorem asdict_eq_iff (v : PV) : asdict v = v ↔ hasInst v = false := by
  refine PV.rec (motive_1 := fun v => asdict v = v ↔ hasInst v = false)
    (motive_2 := fun xs => asdictL xs = xs ↔ hasInstL xs = false) ?_ ?_ ?_ ?_ v
  · intro v; simp [asdict, hasInst]
  · intro k xs ih
    simp only [asdict, hasInst, PV.node.injEq, Bool.or_eq_false_iff, plain_eq_iff, ih]
  · simp [asdictL, hasInstL]
  · intro x xs ihx ihxs
    simp only [asdictL, hasInstL, List.cons.injEq, Bool.or_eq_false_iff, ihx, ihxs]

theorem asdictL_eq_iff : ∀ xs : List PV, asdictL xs = xs ↔ hasInstL xs = false
  | [] => by simp [asdictL, hasInstL]
  | x :: xs => by simp only [asdictL, hasInstL, List.cons.injEq, Bool.or_eq_false_iff, asdict_eq_iff, asdictL_eq_iff xs]

theorem asdictL_eq_map : ∀ xs : List PV, asdictL xs = xs.map asdict
  | [] => rfl
  | x :: xs => by simp [asdictL, asdictL_eq_map xs]

/-- after `asdict` no dataclass instance is left -/
theorem hasInst_asdict (v : PV) : hasInst (asdict v) = false := by
  refine PV.rec (motive_1 := fun v => hasInst (asdict v) = false)
    (motive_2 := fun xs => hasInstL (asdictL xs) = false) ?_ ?_ ?_ ?_ v
  · intro v; simp [asdict, hasInst]
  · intro k xs ih
    simp only [asdict, hasInst, ih, Bool.or_false]
    cases k <;> simp [Kind.plain, Kind.isInst]
  · simp [asdictL, hasInstL]
  · intro x xs ihx ihxs
    simp [asdictL, hasInstL, ihx, ihxs]

/-! ### transformed values -/

theorem map_eq_self_iff {α} (f : α → α) : ∀ l : List α, l.map f = l ↔ ∀ a ∈ l, f a = a
  | [] => by simp
  | a :: r => by simp [map_eq_self_iff f r]

theorem mapVals_eq_iff (T : PV → PV) (s : SnapFile) :
    s.mapVals T = s ↔ (∀ v ∈ s.args, T v = v) ∧ (∀ kv ∈ s.kwargs, T kv.2 = kv.2) := by
  obtain ⟨fname, exn, args, kwargs, info⟩ := s
  simp only [SnapFile.mapVals, SnapFile.mk.injEq, true_and, and_true]
  rw [map_eq_self_iff, map_eq_self_iff]
  constructor
  · rintro ⟨h1, h2⟩
    refine ⟨h1, fun kv hkv => ?_⟩
    have := h2 kv hkv
    exact (Prod.mk.injEq .. ▸ this : kv.1 = kv.1 ∧ T kv.2 = kv.2).2
  · rintro ⟨h1, h2⟩
    refine ⟨h1, fun kv hkv => ?_⟩
    rw [h2 kv hkv]

theorem hasInstL_false_iff : ∀ xs : List PV, hasInstL xs = false ↔ ∀ v ∈ xs, hasInst v = false
  | [] => by simp [hasInstL]
  | x :: xs => by simp [hasInstL, hasInstL_false_iff xs]

/-! ### `unbox` -/

theorem unbox_atom (v : Val) : unbox (.atom v) = v := by simp [unbox]
theorem unbox_dbox (v : Val) : unbox (dbox v) = v := by simp [dbox, unbox, unboxL]

theorem unbox_boxNamed (boxed : List String) (k : String) (v : Val) : unbox (boxNamed boxed k v) = v := by
  simp only [boxNamed]; split <;> simp [unbox_atom, unbox_dbox]

theorem toSnapshot_ofSnapshot (box : String → Val → PV) (hbox : ∀ k v, unbox (box k v) = v) (m : Meta) (s : Snapshot) :
    (ofSnapshot box m s).toSnapshot = s := by
  obtain ⟨fname, exn, kwargs⟩ := s
  simp only [ofSnapshot, SnapFile.toSnapshot, posArgs, List.nil_append, List.map_map, Snapshot.mk.injEq, true_and]
  induction kwargs with
  | nil => rfl
  | cons kv r ih => simp [hbox, ih]

end PF.Errors.File
