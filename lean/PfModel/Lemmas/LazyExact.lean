import PfModel.Lemmas.LazyEval
/-! Helper lemmas for `Props/C18.lean`, part 6: `evaluate()` invokes EXACTLY the nodes the object depends on that were not
evaluated before (`Needs`), given that an evaluated node's arguments are evaluated (`DoneClosed`) and that the log and the
`_evaluated` flags agree (`LogInv`, `DoneLogged`). -/
namespace PF.Lazy
open PF PF.Pipe

/-- node `i` is one the object `a` depends on: `a` itself, or a `_LazyFunction` among the arguments of such a node -/
inductive Needs (nodes : List Lazy.Node) (a : LArg) : Nat → Prop
  | self {i : Nat} : a = .ref i → Needs nodes a i
  | arg {i j : Nat} {nd : Lazy.Node} : Needs nodes a i → nodes[i]? = some nd → j ∈ nd.refs → Needs nodes a j

theorem needs_trans {nodes : List Lazy.Node} {a : LArg} {i j : Nat} (h1 : Needs nodes a i) (h2 : Needs nodes (.ref i) j) :
    Needs nodes a j := by
  induction h2 with
  | self e => injection e with e; subst e; exact h1
  | arg _ hn hj ih => exact .arg ih hn hj

theorem needs_head {nodes : List Lazy.Node} {id i : Nat} (h : Needs nodes (.ref id) i) :
    i = id ∨ ∃ nd j, nodes[id]? = some nd ∧ j ∈ nd.refs ∧ Needs nodes (.ref j) i := by
  induction h with
  | self e => injection e with e; left; exact e.symm
  | arg _ hn hj ih =>
    rcases ih with rfl | ⟨nd0, j0, h0, hj0, hne⟩
    · right; exact ⟨_, _, hn, hj, .self rfl⟩
    · right; exact ⟨nd0, j0, h0, hj0, .arg hne hn hj⟩

theorem needs_val {nodes : List Lazy.Node} {w : Val} {i : Nat} (h : Needs nodes (.val w) i) : False := by
  induction h with
  | self e => cases e
  | arg _ _ _ ih => exact ih

/-- the arguments of an evaluated node are evaluated -/
def DoneClosed (nodes : List Lazy.Node) (s : ESt) : Prop :=
  ∀ i nd, (dlookup s.done i).isSome → nodes[i]? = some nd → ∀ j ∈ nd.refs, (dlookup s.done j).isSome

/-- every node whose `_evaluated` flag is set is in the log of invocations -/
def DoneLogged (s : ESt) : Prop := ∀ i, (dlookup s.done i).isSome → i ∈ s.log

structure XInv (nodes : List Lazy.Node) (s : ESt) : Prop where
  log : LogInv s
  closed : DoneClosed nodes s
  logged : DoneLogged s

theorem needs_done {nodes : List Lazy.Node} {s : ESt} (hc : DoneClosed nodes s) {id x : Nat} (hd : (dlookup s.done id).isSome)
    (h : Needs nodes (.ref id) x) : (dlookup s.done x).isSome := by
  induction h with
  | self e => injection e with e; subst e; exact hd
  | arg _ hn hj ih => exact hc _ _ ih hn _ hj

/-- what evaluating the objects `roots` does: they are evaluated afterwards, nothing is forgotten, and the log gains exactly
    the nodes they depend on that were not evaluated before -/
def XPost (nodes : List Lazy.Node) (roots : List Nat) (s s' : ESt) : Prop :=
  XInv nodes s' ∧ (∀ i, (dlookup s.done i).isSome → (dlookup s'.done i).isSome) ∧ (∀ j ∈ roots, (dlookup s'.done j).isSome) ∧
  (∀ i, i ∈ s'.log ↔ i ∈ s.log ∨ ((∃ j ∈ roots, Needs nodes (.ref j) i) ∧ dlookup s.done i = none))

def EExact (nodes : List Lazy.Node) (r : Nat → ESt → Except EErr (Val × ESt)) : Prop :=
  ∀ id s v s', XInv nodes s → r id s = .ok (v, s') → XPost nodes [id] s s'

theorem xpost_nil {nodes : List Lazy.Node} {s : ESt} (hx : XInv nodes s) : XPost nodes [] s s := by
  refine ⟨hx, fun _ h => h, fun j hj => (by cases hj), fun i => ⟨Or.inl, ?_⟩⟩
  rintro (h | ⟨⟨j, hj, _⟩, _⟩)
  · exact h
  · cases hj

theorem isSome_of_not_none {α} {o : Option α} (h : ¬ o = none) : o.isSome := by
  cases o with
  | none => exact absurd rfl h
  | some _ => rfl

/-- evaluating `i`, then the objects `rest` -/
theorem xpost_cons {nodes : List Lazy.Node} {i : Nat} {rest : List Nat} {s s1 s2 : ESt}
    (h1 : XPost nodes [i] s s1) (h2 : XPost nodes rest s1 s2) : XPost nodes (i :: rest) s s2 := by
  obtain ⟨hx1, hm1, hr1, hl1⟩ := h1
  obtain ⟨hx2, hm2, hr2, hl2⟩ := h2
  refine ⟨hx2, fun x h => hm2 x (hm1 x h), ?_, ?_⟩
  · intro j hj
    rcases List.mem_cons.mp hj with rfl | hj
    · exact hm2 _ (hr1 _ List.mem_cons_self)
    · exact hr2 j hj
  · intro x
    constructor
    · intro hx
      rcases (hl2 x).mp hx with h | ⟨⟨j, hj, hn⟩, hnone⟩
      · rcases (hl1 x).mp h with h | ⟨⟨j, hj, hn⟩, hnone⟩
        · exact Or.inl h
        · simp only [List.mem_singleton] at hj; subst hj
          exact Or.inr ⟨⟨j, List.mem_cons_self, hn⟩, hnone⟩
      · refine Or.inr ⟨⟨j, List.mem_cons_of_mem _ hj, hn⟩, ?_⟩
        cases hd : dlookup s.done x with
        | none => rfl
        | some w => have := hm1 x (by simp [hd]); rw [hnone] at this; cases this
    · rintro (h | ⟨⟨j, hj, hn⟩, hnone⟩)
      · exact (hl2 x).mpr (Or.inl ((hl1 x).mpr (Or.inl h)))
      · rcases List.mem_cons.mp hj with rfl | hj
        · exact (hl2 x).mpr (Or.inl ((hl1 x).mpr (Or.inr ⟨⟨j, List.mem_singleton.mpr rfl, hn⟩, hnone⟩)))
        · by_cases hd : dlookup s1.done x = none
          · exact (hl2 x).mpr (Or.inr ⟨⟨j, hj, hn⟩, hd⟩)
          · exact (hl2 x).mpr (Or.inl (hx1.logged x (isSome_of_not_none hd)))

theorem evalArgs_exact {nodes : List Lazy.Node} {r} (hr : EExact nodes r) : ∀ (args : List (String × LArg)) (s : ESt) vals s',
    XInv nodes s → evalArgs r args s = .ok (vals, s') → XPost nodes (argRefs args) s s' := by
  intro args
  induction args with
  | nil => intro s vals s' hx h; simp [evalArgs] at h; obtain ⟨_, rfl⟩ := h; exact xpost_nil hx
  | cons e rest ih =>
    obtain ⟨k, a⟩ := e
    intro s vals s' hx h
    simp only [evalArgs] at h
    split at h
    · simp at h
    · next v s1 h1 =>
      split at h
      · simp at h
      · next vs s2 h2 =>
        simp at h; obtain ⟨_, rfl⟩ := h
        cases a with
        | val w =>
          simp [evalArg] at h1; obtain ⟨_, rfl⟩ := h1
          exact ih s vs s2 hx h2
        | ref i =>
          have p1 := hr i s v s1 hx h1
          exact xpost_cons p1 (ih s1 vs s2 p1.1 h2)

theorem dlookup_cons_isSome {d : List (Nat × Val)} {id j : Nat} {r : Val} (h : (dlookup d j).isSome) :
    (dlookup ((id, r) :: d) j).isSome := by
  simp only [dlookup]; split
  · rfl
  · exact h

/-- the node `id` (not evaluated so far) is invoked after its arguments have been evaluated -/
theorem xpost_push {nodes : List Lazy.Node} {id : Nat} {nd : Lazy.Node} {s s1 : ESt} {r : Val} (hnd : nodes[id]? = some nd)
    (hnone : dlookup s.done id = none) (p : XPost nodes nd.refs s s1)
    (hlog : LogInv { done := (id, r) :: s1.done, log := s1.log ++ [id] }) :
    XPost nodes [id] s { done := (id, r) :: s1.done, log := s1.log ++ [id] } := by
  obtain ⟨hx1, hm1, hr1, hl1⟩ := p
  refine ⟨⟨hlog, ?_, ?_⟩, fun x h => dlookup_cons_isSome (hm1 x h), ?_, ?_⟩
  · intro i nd' hi hn j hj
    by_cases e : id = i
    · subst e; rw [hnd] at hn; injection hn with hn; subst hn
      exact dlookup_cons_isSome (hr1 j hj)
    · have : (dlookup s1.done i).isSome := by simpa [dlookup, e] using hi
      exact dlookup_cons_isSome (hx1.closed i nd' this hn j hj)
  · intro i hi
    by_cases e : id = i
    · subst e; simp
    · have : (dlookup s1.done i).isSome := by simpa [dlookup, e] using hi
      exact List.mem_append_left _ (hx1.logged i this)
  · intro j hj; simp only [List.mem_singleton] at hj; subst hj; simp [dlookup]
  · intro x
    simp only [List.mem_append, List.mem_singleton]
    constructor
    · rintro (hx | rfl)
      · rcases (hl1 x).mp hx with h | ⟨⟨j, hj, hn⟩, hnone'⟩
        · exact Or.inl h
        · exact Or.inr ⟨⟨id, rfl, needs_trans (.arg (.self rfl) hnd hj) hn⟩, hnone'⟩
      · exact Or.inr ⟨⟨x, rfl, .self rfl⟩, hnone⟩
    · rintro (h | ⟨⟨j, hj, hn⟩, hnone'⟩)
      · exact Or.inl ((hl1 x).mpr (Or.inl h))
      · subst hj
        rcases needs_head hn with rfl | ⟨nd', j', hn', hj', hne⟩
        · exact Or.inr rfl
        · rw [hnd] at hn'; injection hn' with hn'; subst hn'
          exact Or.inl ((hl1 x).mpr (Or.inr ⟨⟨j', hj', hne⟩, hnone'⟩))

theorem eval_exact {nodes : List Lazy.Node} (hc : Closed nodes) : ∀ n, EExact nodes (eval nodes n) := by
  intro n
  induction n with
  | zero => intro id s v s' _ h; simp [eval] at h
  | succ n ih =>
    intro id s v s' hx h
    have hlog' : LogInv s' := (eval_once hc (n+1) id s v s' hx.log h).1.1
    rw [eval_succ] at h
    split at h
    · next w hw =>
      simp at h; obtain ⟨_, rfl⟩ := h
      refine ⟨hx, fun _ h => h, ?_, fun i => ⟨Or.inl, ?_⟩⟩
      · intro j hj; simp only [List.mem_singleton] at hj; subst hj; simp [hw]
      · rintro (h | ⟨⟨j, hj, hn⟩, hnone⟩)
        · exact h
        · simp only [List.mem_singleton] at hj; subst hj
          have := needs_done hx.closed (by simp [hw]) hn
          rw [hnone] at this; cases this
    · next hnone =>
      split at h
      · simp at h
      · next f args hnd =>
        split at h
        · simp at h
        · next vals s1 hargs =>
          simp at h; obtain ⟨_, rfl⟩ := h
          exact xpost_push hnd hnone (evalArgs_exact ih args s vals s1 hx hargs) hlog'
      · next f src name hnd =>
        split at h
        · simp at h
        · next v0 s1 harg =>
          split at h
          · simp at h
          · next r hr =>
            simp at h; obtain ⟨_, rfl⟩ := h
            refine xpost_push hnd hnone ?_ hlog'
            cases src with
            | val w => simp [evalArg] at harg; obtain ⟨_, rfl⟩ := harg; exact xpost_nil hx
            | ref i => exact ih i s v0 s1 hx harg

end PF.Lazy
