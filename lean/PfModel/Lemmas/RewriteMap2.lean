import PfModel.Lemmas.RewriteMap
/-! Renaming under `Pipeline.map`, part 2: `commonDim`, `MapSpec.shape`, `map_shapes` with the shape tables re-keyed. -/
namespace PF.Rw
open PF PF.Map

theorem Sim.ite {α β : Type} {R : α → β → Prop} (c : Prop) [Decidable c] {a a2 : M α} {b b2 : M β}
    (h1 : Sim R a b) (h2 : Sim R a2 b2) : Sim R (if c then a else a2) (if c then b else b2) := by
  by_cases h : c <;> simp only [h, ↓reduceIte] <;> assumption

/-- the shape/mask tables of the renamed run are the original ones re-keyed (and all keys lie in `N`) -/
def ShRel (ρ : String → String) (N : String → Prop)
    (x y : List (String × List Nat) × List (String × List Bool)) : Prop :=
  y = (x.1.map (rkv ρ), x.2.map (rkv ρ)) ∧ (∀ kv ∈ x.1, N kv.1) ∧ ∀ kv ∈ x.2, N kv.1

section
variable (ρ : String → String) (N : String → Prop) (hinj : ∀ a b, N a → N b → ρ a = ρ b → a = b)
include hinj

theorem decide_rename_eq (a b : String) (ha : N a) (hb : N b) : decide (ρ a = ρ b) = decide (a = b) := by
  by_cases h : a = b
  · simp [h]
  · have : ¬ ρ a = ρ b := fun e => h (hinj a b ha hb e)
    simp [h, this]

omit hinj in
theorem outputIndices_renameSpec (ms : MSpec) : (renameSpec ρ ms).outputIndices = ms.outputIndices := by
  unfold MSpec.outputIndices renameSpec
  cases ms.outputs <;> rfl

theorem commonDim_rename (ms : MSpec) (index : String) (shapes : List (String × List Nat))
    (hms : ∀ a ∈ ms.inputs, N a.name) (hsh : ∀ kv ∈ shapes, N kv.1) :
    Sim Eq (commonDim ms index shapes) (commonDim (renameSpec ρ ms) index (shapes.map (rkv ρ))) := by
  unfold commonDim
  apply Sim.bind (R := Eq)
  · apply filterMapM_Sim (renameA ρ) _ _ ms.inputs _ rfl
    intro a ha
    simp only [renameA]
    cases idxOf a.axes index with
    | none => exact Sim.pure rfl
    | some ax =>
      simp only []
      rw [alookup_rename ρ N hinj shapes a.name hsh (hms a ha)]
      cases alookup shapes a.name with
      | none => exact Sim.throw _ _
      | some sh => exact Sim.pure rfl
  · intro x y hxy
    subst hxy
    cases x with
    | nil => exact Sim.pure rfl
    | cons d rest => exact Sim.ite _ (Sim.pure rfl) (Sim.throw _ _)

theorem go_rename (ms : MSpec) (shapes internal : List (String × List Nat)) (out : ASpec)
    (hms : ∀ a ∈ ms.inputs, N a.name) (hsh : ∀ kv ∈ shapes, N kv.1) (hint : ∀ kv ∈ internal, N kv.1) (hout : N out.name) :
    ∀ (axes : List String) (k : Nat),
      Sim Eq (mspecShape.go ms shapes internal out axes k)
        (mspecShape.go (renameSpec ρ ms) (shapes.map (rkv ρ)) (internal.map (rkv ρ)) (renameA ρ out) axes k) := by
  intro axes
  induction axes with
  | nil => intro k; exact Sim.pure rfl
  | cons ix rest ih =>
    intro k
    rw [mspecShape.go, mspecShape.go]
    apply Sim.bind (commonDim_rename ρ N hinj ms ix shapes hms hsh)
    intro x y hxy
    subst hxy
    cases x with
    | some d =>
      apply Sim.bind (ih k)
      intro x y hxy
      subst hxy
      exact Sim.pure rfl
    | none =>
      simp only [renameA]
      rw [alookup_rename ρ N hinj internal out.name hint hout]
      cases alookup internal out.name with
      | none => exact Sim.throw _ _
      | some ish =>
        simp only []
        cases ish[k]? with
        | none => exact Sim.throw _ _
        | some d =>
          apply Sim.bind (ih (k + 1))
          intro x y hxy
          subst hxy
          exact Sim.pure rfl

theorem mspecShape_rename (ms : MSpec) (shapes internal : List (String × List Nat))
    (hms : ∀ a ∈ ms.inputs, N a.name) (hmo : ∀ a ∈ ms.outputs, N a.name)
    (hsh : ∀ kv ∈ shapes, N kv.1) (hint : ∀ kv ∈ internal, N kv.1) :
    Sim Eq (mspecShape ms shapes internal) (mspecShape (renameSpec ρ ms) (shapes.map (rkv ρ)) (internal.map (rkv ρ))) := by
  unfold mspecShape
  apply Sim.bind (R := fun _ _ => True)
  · apply forIn_Sim (fun _ _ => True) (renameA ρ) ms.inputs _ rfl
    · intro a ha c c' _
      simp only [renameA]
      rw [alookup_rename ρ N hinj shapes a.name hsh (hms a ha)]
      cases alookup shapes a.name with
      | none => exact trivial
      | some sh => exact Sim.ite _ trivial (Sim.pure trivial)
    · trivial
  · intro _ _ _
    simp only []
    rw [outputIndices_renameSpec]
    have ho : (renameSpec ρ ms).outputs = ms.outputs.map (renameA ρ) := rfl
    rw [ho]
    cases hmo' : ms.outputs with
    | nil =>
      have : ms.outputIndices = [] := by simp [MSpec.outputIndices, hmo']
      rw [this]
      exact Sim.pure rfl
    | cons o os =>
      simp only [List.map_cons, List.headD_cons]
      exact go_rename ρ N hinj ms shapes internal o hms hsh hint (hmo o (by simp [hmo'])) _ 0

theorem alookup_rkvL (lam : String → String) (l : List (String × Val)) (p : String) (hl : ∀ kv ∈ l, N kv.1) (hp : N p) :
    alookup (l.map (rkvL ρ lam)) (ρ p) = (alookup l p).map (relabel lam) := by
  induction l with
  | nil => rfl
  | cons e es ih =>
    obtain ⟨k, v⟩ := e
    have hk : N k := hl (k, v) (by simp)
    have ih' := ih (fun kv h => hl kv (List.mem_cons_of_mem _ h))
    simp only [List.map_cons, rkvL, alookup]
    by_cases h : k = p
    · simp [h]
    · have : ¬ ρ k = ρ p := fun e => h (hinj k p hk hp e)
      simp only [h, this, ↓reduceIte]; exact ih'

omit hinj in
theorem map_rkv_fixed (lam : String → String) (l : List (String × Val)) (h : ∀ kv ∈ l, relabel lam kv.2 = kv.2) :
    l.map (rkv ρ) = l.map (rkvL ρ lam) := by
  apply List.map_congr_left
  intro kv hkv
  simp only [rkv, rkvL, h kv hkv]

omit hinj in
theorem shapeOf_relabel (lam : String → String) (v : Val) : shapeOf (relabel lam v) = shapeOf v := by
  cases v <;> simp [relabel, shapeOf]

theorem mapShapes_rename (lam : String → String) (fs : List MFunc) (inputs inputs' : List (String × Val)) (internal : List (String × List Nat))
    (hfs : ∀ f ∈ fs, MNamesIn N f) (hfx : ∀ f ∈ fs, ValsFixed lam f) (hin : ∀ kv ∈ inputs, N kv.1) (hint : ∀ kv ∈ internal, N kv.1)
    (hin' : inputs' = inputs.map (rkvL ρ lam)) :
    Sim (ShRel ρ N) (mapShapes fs inputs internal) (mapShapes (fs.map (renameM ρ)) inputs' (internal.map (rkv ρ))) := by
  unfold mapShapes
  simp only []
  apply Sim.bind (R := ShRel ρ N)
  · rw [rootArgs_rename ρ N hinj fs hfs]
    apply forIn_Sim (ShRel ρ N) ρ (Map.rootArgs fs) _ rfl
    · intro p hp c c' hc
      obtain ⟨rfl, hcN, hcM⟩ := hc
      have hpN : N p := rootArgs_names N fs hfs p hp
      simp only []
      rw [mapspecNames_rename, contains_map_rename ρ N hinj _ p (mapspecNames_names N fs hfs) hpN]
      apply Sim.ite
      · rw [hin', mpdefaults_rename ρ N hinj fs hfs, map_rkv_fixed ρ lam _ (mpdefaults_fixed lam fs hfx), ← List.map_append,
          alookup_rkvL ρ N hinj lam _ p _ hpN]
        · cases alookup (inputs ++ pdefaults fs) p with
          | none => exact trivial
          | some v =>
            simp only [Option.map_some, shapeOf_relabel]
            cases shapeOf v with
            | none => exact trivial
            | some sh =>
              apply Sim.pure
              refine ⟨by simp [rkv], ?_, ?_⟩ <;>
              · intro kv hkv
                rcases List.mem_append.mp hkv with h | h
                · first | exact hcN kv h | exact hcM kv h
                · simp only [List.mem_singleton] at h; subst h; exact hpN
        · intro kv hkv
          rcases List.mem_append.mp hkv with h | h
          · exact hin kv h
          · exact mpdefaults_keys N fs hfs kv h
      · exact Sim.pure ⟨rfl, hcN, hcM⟩
    · exact ⟨rfl, by simp, by simp⟩
  · intro x y hxy
    apply Sim.bind (R := ShRel ρ N)
    · rw [generations_rename ρ N hinj fs hfs, ← List.map_flatten]
      apply forIn_Sim (ShRel ρ N) (renameM ρ) (generations fs).flatten _ rfl
      · intro f hf c c' hc
        obtain ⟨rfl, hcN, hcM⟩ := hc
        have hfN : MNamesIn N f := by
          obtain ⟨g, hg, hfg⟩ := List.mem_flatten.mp hf
          exact hfs f (generations_mem fs _ _ _ g hg f hfg)
        simp only []
        have hm : (renameM ρ f).mapspec = f.mapspec.map (renameSpec ρ) := rfl
        rw [hm]
        cases hms : f.mapspec with
        | none => exact Sim.pure ⟨rfl, hcN, hcM⟩
        | some ms =>
          simp only [Option.map_some]
          have hI := hfN.specIn ms hms
          have hO := hfN.specOut ms hms
          have e1 : (renameSpec ρ ms).inputs.filterMap (fun a => (alookup (c.1.map (rkv ρ)) a.name).map fun sh => (a.name, sh)) =
              (ms.inputs.filterMap fun a => (alookup c.1 a.name).map fun sh => (a.name, sh)).map (rkv ρ) := by
            have : (renameSpec ρ ms).inputs = ms.inputs.map (renameA ρ) := rfl
            rw [this, List.filterMap_map, List.map_filterMap]
            apply filterMap_congr'
            intro a ha
            simp only [Function.comp, renameA, alookup_rename ρ N hinj c.1 a.name hcN (hI a ha)]
            cases alookup c.1 a.name <;> rfl
          have e2 : (internal.map (rkv ρ)).filter (fun kv => (renameSpec ρ ms).outputs.any fun x => decide (x.name = kv.1)) =
              (internal.filter fun kv => ms.outputs.any fun x => decide (x.name = kv.1)).map (rkv ρ) := by
            rw [List.filter_map]; congr 1; apply List.filter_congr
            intro kv hkv
            have : (renameSpec ρ ms).outputs = ms.outputs.map (renameA ρ) := rfl
            simp only [Function.comp_apply, this, List.any_map, rkv]
            rw [Bool.eq_iff_iff]
            simp only [List.any_eq_true, Function.comp_apply, renameA, decide_eq_true_eq]
            constructor
            · rintro ⟨x, hx, e⟩; exact ⟨x, hx, hinj _ _ (hO x hx) (hint kv hkv) (of_decide_eq_true e)⟩
            · rintro ⟨x, hx, e⟩; exact ⟨x, hx, decide_eq_true (congrArg ρ e)⟩
          rw [e1, e2]
          apply Sim.bind (mspecShape_rename ρ N hinj ms _ _ hI hO ?_ ?_)
          · intro x y hxy
            subst hxy
            apply Sim.bind (R := ShRel ρ N)
            · have ho : (renameM ρ f).outputs = f.outputs.map ρ := rfl
              rw [ho]
              apply forIn_Sim (ShRel ρ N) ρ f.outputs _ rfl
              · intro o ho t t' ht
                obtain ⟨rfl, htN, htM⟩ := ht
                apply Sim.pure
                refine ⟨by simp [rkv], ?_, ?_⟩ <;>
                · intro kv hkv
                  rcases List.mem_append.mp hkv with h | h
                  · first | exact htN kv h | exact htM kv h
                  · simp only [List.mem_singleton] at h; subst h; exact hfN.outputs o ho
              · exact ⟨rfl, hcN, hcM⟩
            · intro x y hxy
              exact Sim.pure hxy
          · intro kv hkv
            obtain ⟨a, ha, h⟩ := List.mem_filterMap.mp hkv
            cases hl : alookup c.1 a.name with
            | none => simp [hl] at h
            | some sh => simp only [hl, Option.map_some, Option.some.injEq] at h; subst h; exact hI a ha
          · intro kv hkv
            exact hint kv (List.mem_filter.mp hkv).1
      · exact hxy
    · intro x y hxy
      exact Sim.pure hxy
end
end PF.Rw
