import PfModel.Lemmas.CachePolicyDisk
/-! C14, DiskCache: the creation stamps of the files are pairwise distinct, so "the oldest file" is unique. -/
namespace PF.Cache

/-- no two files carry the same creation stamp -/
def DistinctStamps (f : Files) : Prop := (f.map (·.2.2)).Nodup

theorem erase_sublist {β : Type} (d : List (Key × β)) (k : Key) : List.Sublist (erase d k) d := by
  induction d with
  | nil => exact List.Sublist.slnil
  | cons e es ih =>
    obtain ⟨a, b⟩ := e
    simp only [erase]
    split
    · exact List.Sublist.cons _ ih
    · exact List.Sublist.cons₂ _ ih

theorem distinct_erase (f : Files) (k : Key) (h : DistinctStamps f) : DistinctStamps (erase f k) :=
  List.Sublist.nodup (List.Sublist.map _ (erase_sublist f k)) h

theorem distinct_evictN (n : Nat) : ∀ f : Files, DistinctStamps f → DistinctStamps (evictN n f) := by
  induction n with
  | zero => intro f h; exact h
  | succ n ih =>
    intro f h
    simp only [evictN]
    split
    · exact h
    · exact ih _ (distinct_erase f _ h)

theorem mem_set_or {β : Type} (d : List (Key × β)) (k : Key) (v : β) (p : Key × β) (h : p ∈ PF.Cache.set d k v) :
    p = (k, v) ∨ p ∈ d := by
  induction d with
  | nil => simp only [PF.Cache.set, List.mem_singleton] at h; exact .inl h
  | cons e es ih =>
    obtain ⟨a, b⟩ := e
    simp only [PF.Cache.set] at h
    split at h
    · simp only [List.mem_cons] at h
      rcases h with h | h
      · exact .inl h
      · exact .inr (List.mem_cons_of_mem _ h)
    · simp only [List.mem_cons] at h
      rcases h with h | h
      · exact .inr (by simp [h])
      · rcases ih h with h | h
        · exact .inl h
        · exact .inr (List.mem_cons_of_mem _ h)

/-- writing a file whose stamp is later than every stamp in the directory keeps the stamps distinct -/
theorem distinct_set (f : Files) (k : Key) (v c : Nat) (h : DistinctStamps f) (hc : ∀ p ∈ f, p.2.2 < c) :
    DistinctStamps (PF.Cache.set f k (v, c)) := by
  induction f with
  | nil => simp [DistinctStamps, PF.Cache.set]
  | cons e es ih =>
    obtain ⟨a, b⟩ := e
    simp only [DistinctStamps, List.map_cons, List.nodup_cons] at h
    obtain ⟨hnot, hnd⟩ := h
    simp only [PF.Cache.set]
    split
    · simp only [DistinctStamps, List.map_cons, List.nodup_cons]
      refine ⟨?_, hnd⟩
      intro hm
      obtain ⟨q, hq, he⟩ := List.mem_map.mp hm
      have := hc q (List.mem_cons_of_mem _ hq)
      omega
    · simp only [DistinctStamps, List.map_cons, List.nodup_cons]
      refine ⟨?_, ih hnd (fun p hp => hc p (List.mem_cons_of_mem _ hp))⟩
      intro hm
      obtain ⟨q, hq, he⟩ := List.mem_map.mp hm
      rcases mem_set_or _ _ _ _ hq with rfl | hq
      · have := hc (a, b) (by simp)
        simp only at he this
        omega
      · exact hnot (List.mem_map.mpr ⟨q, hq, he⟩)

theorem nodup_map_inj {α β : Type} (g : α → β) (l : List α) (h : (l.map g).Nodup) (p q : α) (hp : p ∈ l) (hq : q ∈ l)
    (e : g p = g q) : p = q := by
  induction l with
  | nil => cases hp
  | cons a as ih =>
    simp only [List.map_cons, List.nodup_cons] at h
    obtain ⟨hnot, hnd⟩ := h
    simp only [List.mem_cons] at hp hq
    rcases hp with rfl | hp <;> rcases hq with rfl | hq
    · rfl
    · exact absurd (List.mem_map.mpr ⟨q, hq, e.symm⟩) hnot
    · exact absurd (List.mem_map.mpr ⟨p, hp, e⟩) hnot
    · exact ih hnd hp hq

/-- with distinct stamps the minimum is strict: every other file is strictly younger than the one `min` picks -/
theorem argmin_stamps_strict (f : Files) (hd : DistinctStamps f) (e t : Nat) (h : argmin (stamps f) = some (e, t)) :
    ∀ p ∈ f, p.1 ≠ e → t < p.2.2 := by
  intro p hp hne
  obtain ⟨_, hle⟩ := argmin_stamps_oldest f e t h
  obtain ⟨q, hq, hqe, hqt⟩ := mem_stamps f e t (argmin_mem _ _ _ h)
  have h1 := hle p hp
  by_cases heq : p.2.2 = t
  · have := nodup_map_inj (fun x : Key × (Val × Nat) => x.2.2) f hd p q hp hq (by simp only [heq, hqt])
    rw [this] at hne
    exact absurd hqe hne
  · omega

theorem distinct_writeFile (s : Disk) (k : Key) (v : Val) (hi : s.Inv) (hd : DistinctStamps s.files) :
    DistinctStamps (s.writeFile k v).files := by
  simp only [Disk.writeFile]
  exact distinct_evictN _ _ (distinct_set s.files k v s.clock hd hi.fresh)

theorem distinct_step (s s' : Disk) (op : Op) (o : Obs) (hi : s.Inv) (hd : DistinctStamps s.files)
    (h : s.step op = .ok (s', o)) : DistinctStamps s'.files := by
  cases op with
  | put k v d =>
    simp only [Disk.step] at h
    cases hp : s.put k v with
    | error e => simp [hp] at h
    | ok s1 =>
      simp only [hp, Except.ok.injEq, Prod.mk.injEq] at h
      obtain ⟨rfl, _⟩ := h
      have hw := distinct_writeFile s k v hi hd
      unfold Disk.put at hp
      split at hp
      · simp only [Except.ok.injEq] at hp; subst hp; exact hw
      · split at hp
        · simp at hp
        · simp only [Except.ok.injEq] at hp; subst hp; exact hw
  | get k =>
    simp only [Disk.step] at h
    obtain ⟨s2, hg, _, _, hf, _⟩ := Disk.get_spec s k hi
    simp only [hg, Except.ok.injEq, Prod.mk.injEq] at h
    obtain ⟨rfl, _⟩ := h
    rw [hf]; exact hd
  | has k => simp only [Disk.step, Except.ok.injEq, Prod.mk.injEq] at h; obtain ⟨rfl, _⟩ := h; exact hd
  | len => simp only [Disk.step, Except.ok.injEq, Prod.mk.injEq] at h; obtain ⟨rfl, _⟩ := h; exact hd
  | clear =>
    simp only [Disk.step, Except.ok.injEq, Prod.mk.injEq] at h
    obtain ⟨rfl, _⟩ := h
    simp [Disk.clear, DistinctStamps]
  | reopen m l =>
    simp only [Disk.step, Except.ok.injEq, Prod.mk.injEq] at h
    obtain ⟨rfl, _⟩ := h
    exact hd

theorem distinct_run (h : List Op) : ∀ (s s' : Disk) os, s.Inv → DistinctStamps s.files → (∀ op ∈ h, op.WF) →
    diskSem.run s h = .ok (s', os) → s'.Inv ∧ DistinctStamps s'.files := by
  induction h with
  | nil =>
    intro s s' os hi hd _ hr
    simp only [Sem.run, Except.ok.injEq, Prod.mk.injEq] at hr
    obtain ⟨rfl, _⟩ := hr
    exact ⟨hi, hd⟩
  | cons op h ih =>
    intro s s' os hi hd hwf hr
    obtain ⟨s1, o, hs, hi1⟩ := disk_lawful.total s op hi (hwf op (by simp))
    simp only [Sem.run, hs] at hr
    cases hr2 : diskSem.run s1 h with
    | error e => simp [hr2] at hr
    | ok r2 =>
      obtain ⟨s2, os2⟩ := r2
      simp only [hr2, Except.ok.injEq, Prod.mk.injEq] at hr
      obtain ⟨rfl, _⟩ := hr
      exact ih s1 s2 os2 hi1 (distinct_step s s1 op o hi hd hs) (fun op' hm => hwf op' (List.mem_cons_of_mem _ hm)) hr2

end PF.Cache
