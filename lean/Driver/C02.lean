import PfModel.DriverVal
import PfModel.Model.PipelineEntries
import PfModel.Model.PipelineSession
import PfModel.Model.PipelineView
/-! Driver for C02: `run`, `argcombos`, and the other entry points `func`, `callroot`, `callleaf`, `getitem`, `pfcall`; `session` (calls
    interleaved with in-place edits on one object, `PF.Pipe.cachedRun`); `pfpos` (`PipeFunc.__call__` with positional arguments). -/
open Lean PF PF.Drv PF.Pipe

/-- `{"name": "f", "params": [["p", "orig"], …], "outputs": ["a", "b"], "defaults": [["p", v]], "bound": [["p", v]]}` -/
def getFunc (j : Json) : R Func := do
  return { name := ← strF j "name", params := ← listF (asPair asStr asStr) j "params", outputs := ← listF asStr j "outputs",
           defaults := (← optF getKw j "defaults").getD [], bound := (← optF getKw j "bound").getD [] }

def putErr : Err → Json
  | .fuel => jObj [("err", jStr "RecursionError")]
  | .missing _ => jObj [("err", jStr "ValueError")]
  | .noFunc _ => jObj [("err", jStr "KeyError")]
  | .unused ps => jObj [("err", jStr "UnusedParametersError"), ("unused", jList jStr ps)]
  | .outputInKwargs => jObj [("err", jStr "ValueError")]
  | .mapspec => jObj [("err", jStr "RuntimeError")]

def getReq (j : Json) : R Req := do
  match j with
  | .str s => return .name s
  | _ => return .whole (← asList asStr j)

def putEErr : EErr → Json
  | .pipe e => putErr e
  | .tooMany => jObj [("err", jStr "TypeError"), ("why", jStr "too many positional arguments")]
  | .multiple p => jObj [("err", jStr "TypeError"), ("why", jStr s!"multiple values for argument {p}")]
  | .unexpected p => jObj [("err", jStr "TypeError"), ("why", jStr s!"unexpected keyword argument {p}")]
  | .missingRoot p => jObj [("err", jStr "TypeError"), ("why", jStr s!"missing a required argument {p}")]
  | .leaves n => jObj [("err", jStr "ValueError"), ("why", jStr s!"{n} leaf nodes")]
  | .extraKw p => jObj [("err", jStr "ValueError"), ("why", jStr s!"unexpected keyword argument {p}")]

def putOutcome (fs : List Func) (kw : List (String × Val)) (req : Req) (o : Outcome) : Json :=
  -- the specification, evaluated alongside (the refinement theorem says they agree)
  let spec : Json := match req with
    | .name n => match compose fs kw (fuelFor fs) n with | .ok v => putVal v | .error _ => Json.null
    | .whole _ => Json.null
  jObj [("value", putVal o.value), ("full", putKw o.full), ("calls", jList jStr o.calls), ("spec", spec),
        ("fullview", putKw (fullView req o false)), ("fullview_cf", putKw (fullView req o true))]


/-! ### sessions -/

def getEdit (j : Json) : R Edit := do
  match ← strF j "k" with
  | "member-defaults" => return .memberDefaults (← strF j "fn") (← strF j "p") (← getVal (← fld j "v"))
  | "member-bound" => return .memberBound (← strF j "fn") (← strF j "p") (← getVal (← fld j "v"))
  | "member-rename" => return .memberRename (← strF j "fn") (← strF j "old") (← strF j "new")
  | "pipe-defaults" => return .pipeDefaults (← strF j "p") (← getVal (← fld j "v"))
  | "pipe-rename" => return .pipeRename (← strF j "old") (← strF j "new")
  | k => .error s!"unknown edit {k}"

def getQuery (m : String) (a : Json) : R Query := do
  match m with
  | "run" => return .run (← getKw (← fld a "kw")) (← getReq (← fld a "out"))
  | "func" => return .func (← getKw (← fld a "kw")) (← getReq (← fld a "out"))
  | "callroot" => return .callRoot (← getReq (← fld a "out")) (← listF getVal a "pos") (← getKw (← fld a "kw"))
  | "callleaf" => return .callLeaf (← getKw (← fld a "kw"))
  | "pfcall" => return .pfCall (← getReq (← fld a "out")) (← getKw (← fld a "kw"))
  | "argcombos" => return .argCombos (← strF a "out")
  | "defaults" => return .defaults
  | m => .error s!"unknown session query {m}"

def getStep (j : Json) : R Step := do
  match ← strF j "k" with
  | "edit" => return .edit (← getEdit (← fld j "e"))
  | "q" => return .query ((← optF asBool j "fill").getD true) (← getQuery (← strF j "m") (← fld j "a"))
  | k => .error s!"unknown step {k}"

def putEditErr : EditErr → Json
  | .unknownKey => jObj [("err", jStr "ValueError"), ("why", jStr "unknownKey")]
  | .noMember => jObj [("err", jStr "KeyError"), ("why", jStr "noMember")]
  | .outside => jObj [("outside", jBool true)]

/-- the request a query is about, on the functions it is asked of (for the dictionary view of `full_output`) -/
def queryReq (fs : List Func) : Query → Option Req
  | .run _ r => some r
  | .func _ r => some r
  | .callRoot r _ _ => some r
  | .callLeaf _ => match leafFuncs fs with | [f] => some (reqOf f) | _ => none
  | _ => none

def putAnswer (fs : List Func) (q : Option Query) : Answer → Json
  | .outcome (.error e) => putEErr e
  | .outcome (.ok o) =>
    let req := (q.bind (queryReq fs)).getD (.name "")
    jObj [("value", putVal o.value), ("calls", jList jStr o.calls),
          ("full", putKw (fullView req o false)), ("full_cf", putKw (fullView req o true))]
  | .value none => jObj [("err", jStr "KeyError")]
  | .value (some (.error e)) => putEErr e
  | .value (some (.ok v)) => jObj [("value", putVal v)]
  | .combos c r => jObj [("combos", jOpt (jList (jList jStr)) c), ("root_args", jOpt (jList jStr) r)]
  | .table d => jObj [("table", putKw (adedup d.reverse))]
  | .edited none => jObj [("edit", jStr "ok")]
  | .edited (some e) => putEditErr e

/-- runs `cachedRun` step by step (the same recursion, keeping the functions each answer was given on, for the views) -/
def sessionJson (s : PState) : List Step → List Json
  | [] => []
  | st :: rest =>
    let (a, s') := cachedStep s st
    let q := match st with | .query _ q => some q | .edit _ => none
    let j := putAnswer s.fs q a
    let j := match st with
      | .edit _ => j.mergeObj (jObj [("names_ok", jBool (namesOk s'.fs))])
      | _ => j
    j :: sessionJson s' rest

def handle (m : String) (a : Json) : R Json := do
  let fs ← listF getFunc a "funcs"
  match m with
  | "session" =>
    let steps ← listF getStep a "steps"
    return jObj [("answers", jArr (sessionJson (PState.init fs) steps))]
  | "pfpos" =>
    -- `pipeline[out](*pos, **kw)`: the producing PipeFunc called directly with positional arguments
    let kw ← getKw (← fld a "kw")
    let pos ← listF getVal a "pos"
    let req ← getReq (← fld a "out")
    match getItem fs req with
    | none => return jObj [("err", jStr "KeyError")]
    | some f =>
      match pfCallPos f pos kw with
      | .error e => return putEErr e
      | .ok v => return jObj [("value", putVal v), ("name", jStr f.name)]
  | "func" =>
    let kw ← getKw (← fld a "kw")
    let req ← getReq (← fld a "out")
    match funcCall fs kw req with
    | .error e => return putErr e
    | .ok o => return putOutcome fs kw req o
  | "callroot" =>
    let kw ← getKw (← fld a "kw")
    let pos ← listF getVal a "pos"
    let req ← getReq (← fld a "out")
    match callRoot fs req pos kw with
    | .error e => return putEErr e
    | .ok o =>
      return jObj [("value", putVal o.value), ("full", putKw o.full), ("calls", jList jStr o.calls),
                   ("root_args", jOpt (jList jStr) (reqRootArgs fs req))]
  | "callleaf" =>
    let kw ← getKw (← fld a "kw")
    match callLeaf fs kw with
    | .error e => return putEErr e
    | .ok o =>
      return jObj [("value", putVal o.value), ("full", putKw o.full), ("calls", jList jStr o.calls),
                   ("leaf", jList (fun f => jList jStr f.outputs) (leafFuncs fs))]
  | "getitem" =>
    let req ← getReq (← fld a "out")
    match getItem fs req with
    | none => return jObj [("err", jStr "KeyError")]
    | some f => return jObj [("name", jStr f.name), ("outputs", jList jStr f.outputs)]
  | "pfcall" =>
    -- `pipeline[out](**kw)`: the producing PipeFunc called directly with keyword arguments
    let kw ← getKw (← fld a "kw")
    let req ← getReq (← fld a "out")
    match getItem fs req with
    | none => return jObj [("err", jStr "KeyError")]
    | some f =>
      match pfCall f kw with
      | .error e => return putEErr e
      | .ok v => return jObj [("value", putVal v), ("name", jStr f.name)]
  | "run" =>
    let kw ← getKw (← fld a "kw")
    let req ← getReq (← fld a "out")
    match runTop fs kw req with
    | .error e => return putErr e
    | .ok o =>
      -- the specification, evaluated alongside (the refinement theorem says they agree)
      let spec : Json := match req with
        | .name n => match compose fs kw (fuelFor fs) n with | .ok v => putVal v | .error _ => Json.null
        | .whole _ => Json.null
      return jObj [("value", putVal o.value), ("full", putKw o.full), ("calls", jList jStr o.calls), ("spec", spec),
                   ("fullview", putKw (fullView req o false)), ("fullview_cf", putKw (fullView req o true))]
  | "argcombos" =>
    let o ← strF a "out"
    return jObj [("combos", jOpt (jList (jList jStr)) (argCombinations fs o)), ("root_args", jOpt (jList jStr) (rootArgs fs o)),
                 ("deps", match producerIdx fs o with
                          | some i => jList (fun j => jList jStr (funcAt fs j).outputs) (funcDeps fs (fs.length * fs.length + 2) [i] [])
                          | none => Json.null)]
  | _ => .error s!"unknown entry {m}"

def main : IO Unit := loop handle
