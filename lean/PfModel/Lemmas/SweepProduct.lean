import PfModel.Lemmas.Sweep
/-! Lemmas for the product clause of C17: finishing a merged combination with the merged constants / derivers / exclude
equals merging the separately finished combinations, when every function only reads its own operand's names. -/

namespace PF.Sweep

section Lookup
variable {α : Type}

theorem lookup_insert (d : Dict α) (k k' : Key) (v : α) :
    lookup (insert d k v) k' = if k = k' then some v else lookup d k' := by
  induction d with
  | nil => simp [insert, lookup]
  | cons p r ih =>
    obtain ⟨k0, v0⟩ := p
    simp only [insert]
    by_cases h0 : k0 = k
    · subst h0
      simp only [if_true, lookup]
      by_cases h1 : k0 = k' <;> simp [h1]
    · simp only [h0, if_false, lookup, ih]
      by_cases h1 : k0 = k'
      · subst h1; simp [show ¬ k = k0 from fun e => h0 e.symm]
      · simp [h1]

theorem lookup_append (a b : Dict α) (k : Key) :
    lookup (a ++ b) k = match lookup a k with | some v => some v | none => lookup b k := by
  induction a with
  | nil => simp [lookup]
  | cons p r ih =>
    obtain ⟨k0, v0⟩ := p
    simp only [List.cons_append, lookup]
    by_cases h : k0 = k <;> simp [h, ih]

theorem lookup_setdefault (d : Dict α) (k k' : Key) (v : α) :
    lookup (setdefault d k v) k' =
      match lookup d k' with | some x => some x | none => if k = k' then some v else none := by
  unfold setdefault
  cases h : lookup d k with
  | some x =>
    simp only
    cases h' : lookup d k' with
    | some y => rfl
    | none =>
      by_cases e : k = k'
      · subst e; rw [h] at h'; cases h'
      · simp [e]
  | none =>
    simp only [lookup_append]
    cases h' : lookup d k' <;> simp [lookup]

end Lookup

section Fin
variable {V : Type}

/-- constants as a list: `setdefault` each -/
def addCL (cs : Dict V) (c : Dict V) : Dict V := cs.foldl (fun acc kv => setdefault acc kv.1 kv.2) c
/-- derivers as a list: assign each in order -/
def applyDL (ds : Dict (Dict V → V)) (c : Dict V) : Dict V := ds.foldl (fun acc kf => insert acc kf.1 (kf.2 acc)) c

theorem addConstants_eq (cs : Option (Dict V)) (c : Dict V) : addConstants cs c = addCL (cs.getD []) c := by
  cases cs <;> simp [addConstants, addCL]

theorem applyDerivers_eq (ds : Option (Dict (Dict V → V))) (c : Dict V) : applyDerivers ds c = applyDL (ds.getD []) c := by
  cases ds <;> simp [applyDerivers, applyDL]

theorem lookup_addCL (cs c : Dict V) (k : Key) :
    lookup (addCL cs c) k = match lookup c k with | some x => some x | none => lookup cs k := by
  induction cs generalizing c with
  | nil => cases h : lookup c k <;> simp [addCL, lookup, h]
  | cons p r ih =>
    obtain ⟨k0, v0⟩ := p
    have : addCL ((k0, v0) :: r) c = addCL r (setdefault c k0 v0) := rfl
    rw [this, ih, lookup_setdefault]
    cases h : lookup c k with
    | some x => rfl
    | none =>
      simp only [lookup]
      by_cases e : k0 = k <;> simp [e]

/-- two dictionaries agree on the names `K` -/
def AgreeOn (K : List Key) (c c' : Dict V) : Prop := ∀ k ∈ K, lookup c k = lookup c' k

/-- `f` reads only the entries named in `K` -/
def LocalTo {β : Type} (K : List Key) (f : Dict V → β) : Prop := ∀ c c', AgreeOn K c c' → f c = f c'

theorem LocalTo.mono {β : Type} {K K' : List Key} {f : Dict V → β} (h : LocalTo K f) (hs : ∀ k ∈ K, k ∈ K') :
    LocalTo K' f := fun c c' ha => h c c' (fun k hk => ha k (hs k hk))

theorem applyDL_frame (ds : Dict (Dict V → V)) (c : Dict V) (k : Key) (h : k ∉ keys ds) :
    lookup (applyDL ds c) k = lookup c k := by
  induction ds generalizing c with
  | nil => rfl
  | cons p r ih =>
    obtain ⟨k0, f⟩ := p
    simp only [keys, List.map_cons, List.mem_cons, not_or] at h
    have : applyDL ((k0, f) :: r) c = applyDL r (insert c k0 (f c)) := rfl
    rw [this, ih _ h.2, lookup_insert, if_neg (fun e => h.1 e.symm)]

theorem applyDL_local (K : List Key) (ds : Dict (Dict V → V)) (hl : ∀ kf ∈ ds, LocalTo K kf.2) (c c' : Dict V)
    (ha : AgreeOn K c c') : AgreeOn K (applyDL ds c) (applyDL ds c') := by
  induction ds generalizing c c' with
  | nil => exact ha
  | cons p r ih =>
    obtain ⟨k0, f⟩ := p
    have e1 : applyDL ((k0, f) :: r) c = applyDL r (insert c k0 (f c)) := rfl
    have e2 : applyDL ((k0, f) :: r) c' = applyDL r (insert c' k0 (f c')) := rfl
    rw [e1, e2]
    apply ih (fun kf hkf => hl kf (by simp [hkf]))
    intro k hk
    have hf : f c = f c' := hl (k0, f) (by simp) c c' ha
    rw [lookup_insert, lookup_insert, hf, ha k hk]

theorem applyDL_append (ds ds' : Dict (Dict V → V)) (c : Dict V) : applyDL (ds ++ ds') c = applyDL ds' (applyDL ds c) := by
  simp [applyDL, List.foldl_append]

/-- the constants, derivers and exclude predicate of a sweep -/
structure Fin (V : Type) where
  cs : Dict V
  ds : Dict (Dict V → V)
  ex : Dict V → Bool

def Fin.apply (F : Fin V) (c : Dict V) : Dict V := applyDL F.ds (addCL F.cs c)
def Fin.run (F : Fin V) (c : Dict V) : Option (Dict V) := if F.ex (F.apply c) then none else some (F.apply c)
def Fin.comb (F G : Fin V) : Fin V := ⟨F.cs ++ G.cs, F.ds ++ G.ds, fun c => F.ex c || G.ex c⟩
def Fin.unit : Fin V := ⟨[], [], fun _ => false⟩

/-- everything `F` adds is named in `K` and everything it evaluates reads only `K` -/
structure Fin.Local (K : List Key) (F : Fin V) : Prop where
  cs : ∀ k ∈ keys F.cs, k ∈ K
  ds : ∀ k ∈ keys F.ds, k ∈ K
  fn : ∀ kf ∈ F.ds, LocalTo K kf.2
  ex : LocalTo K F.ex

theorem Fin.Local.mono {K K' : List Key} {F : Fin V} (h : F.Local K) (hs : ∀ k ∈ K, k ∈ K') : F.Local K' :=
  ⟨fun k hk => hs k (h.cs k hk), fun k hk => hs k (h.ds k hk), fun kf hkf => (h.fn kf hkf).mono hs, h.ex.mono hs⟩

theorem Fin.Local.comb {K1 K2 : List Key} {F G : Fin V} (hF : F.Local K1) (hG : G.Local K2) :
    (F.comb G).Local (K1 ++ K2) := by
  have s1 : ∀ k ∈ K1, k ∈ K1 ++ K2 := fun k hk => by simp [hk]
  have s2 : ∀ k ∈ K2, k ∈ K1 ++ K2 := fun k hk => by simp [hk]
  refine ⟨?_, ?_, ?_, ?_⟩
  · intro k hk
    simp only [Fin.comb, keys_append, List.mem_append] at hk
    rcases hk with hk | hk
    · exact s1 k (hF.cs k hk)
    · exact s2 k (hG.cs k hk)
  · intro k hk
    simp only [Fin.comb, keys_append, List.mem_append] at hk
    rcases hk with hk | hk
    · exact s1 k (hF.ds k hk)
    · exact s2 k (hG.ds k hk)
  · intro kf hkf
    simp only [Fin.comb, List.mem_append] at hkf
    rcases hkf with hkf | hkf
    · exact (hF.fn kf hkf).mono s1
    · exact (hG.fn kf hkf).mono s2
  · intro c c' ha
    simp only [Fin.comb]
    rw [hF.ex.mono s1 c c' ha, hG.ex.mono s2 c c' ha]

theorem Fin.apply_outside {K : List Key} {F : Fin V} (hF : F.Local K) (c : Dict V) (hc : ∀ k ∈ keys c, k ∈ K) (k : Key)
    (hk : k ∉ K) : lookup (F.apply c) k = none := by
  unfold Fin.apply
  rw [applyDL_frame _ _ _ (fun h => hk (hF.ds k h)), lookup_addCL,
    lookup_eq_none_of_not_mem (fun h => hk (hc k h)), lookup_eq_none_of_not_mem (fun h => hk (hF.cs k h))]

/-- **The heart of the product clause.**  On a merged combination the merged constants / derivers compute, name by name,
    what each operand's own constants / derivers compute on its own part. -/
theorem Fin.comb_apply {K1 K2 : List Key} (hdisj : ∀ k ∈ K1, k ∉ K2) {F G : Fin V} (hF : F.Local K1) (hG : G.Local K2)
    (c1 c2 : Dict V) (h1 : ∀ k ∈ keys c1, k ∈ K1) (h2 : ∀ k ∈ keys c2, k ∈ K2) :
    AgreeOn K1 ((F.comb G).apply (c1 ++ c2)) (F.apply c1) ∧ AgreeOn K2 ((F.comb G).apply (c1 ++ c2)) (G.apply c2) ∧
    ∀ k, lookup ((F.comb G).apply (c1 ++ c2)) k = lookup (F.apply c1 ++ G.apply c2) k := by
  have hdisj' : ∀ k ∈ K2, k ∉ K1 := fun k hk hk1 => hdisj k hk1 hk
  -- after the constants
  have A1 : AgreeOn K1 (addCL (F.cs ++ G.cs) (c1 ++ c2)) (addCL F.cs c1) := by
    intro k hk
    rw [lookup_addCL, lookup_addCL, lookup_append, lookup_append,
      lookup_eq_none_of_not_mem (d := c2) (fun h => hdisj k hk (h2 k h)),
      lookup_eq_none_of_not_mem (d := G.cs) (fun h => hdisj k hk (hG.cs k h))]
    cases lookup c1 k <;> cases lookup F.cs k <;> rfl
  have A2 : AgreeOn K2 (addCL (F.cs ++ G.cs) (c1 ++ c2)) (addCL G.cs c2) := by
    intro k hk
    rw [lookup_addCL, lookup_addCL, lookup_append, lookup_append,
      lookup_eq_none_of_not_mem (d := c1) (fun h => hdisj' k hk (h1 k h)),
      lookup_eq_none_of_not_mem (d := F.cs) (fun h => hdisj' k hk (hF.cs k h))]
  have B1 : AgreeOn K1 ((F.comb G).apply (c1 ++ c2)) (F.apply c1) := by
    intro k hk
    simp only [Fin.apply, Fin.comb, applyDL_append]
    rw [applyDL_frame _ _ _ (fun h => hdisj k hk (hG.ds k h))]
    exact applyDL_local K1 F.ds hF.fn _ _ A1 k hk
  have B2 : AgreeOn K2 ((F.comb G).apply (c1 ++ c2)) (G.apply c2) := by
    simp only [Fin.apply, Fin.comb, applyDL_append]
    apply applyDL_local K2 G.ds hG.fn
    intro k hk
    rw [applyDL_frame _ _ _ (fun h => hdisj' k hk (hF.ds k h))]
    exact A2 k hk
  refine ⟨B1, B2, ?_⟩
  intro k
  rw [lookup_append]
  by_cases hk1 : k ∈ K1
  · rw [B1 k hk1]
    rw [Fin.apply_outside hG c2 h2 k (hdisj k hk1)]
    cases lookup (F.apply c1) k <;> rfl
  · rw [Fin.apply_outside hF c1 h1 k hk1]
    by_cases hk2 : k ∈ K2
    · exact B2 k hk2
    · have hcomb := Fin.apply_outside (Fin.Local.comb hF hG) (c1 ++ c2)
        (fun k' hk' => by
          simp only [keys_append, List.mem_append] at hk' ⊢
          rcases hk' with h | h
          · exact Or.inl (h1 k' h)
          · exact Or.inr (h2 k' h)) k (by simp [hk1, hk2])
      rw [hcomb, Fin.apply_outside hG c2 h2 k hk2]

end Fin
section Lists
variable {V : Type}

/-- all merges `a ++ b`, `a` slowest -/
def mergeProd (A B : List (Dict V)) : List (Dict V) := A.flatMap (fun a => B.map (fun b => a ++ b))

/-- the Cartesian product of lists of combinations, each tuple merged into one dictionary -/
def prodAll (Ls : List (List (Dict V))) : List (Dict V) := (cart Ls).map List.flatten

theorem prodAll_nil : prodAll ([] : List (List (Dict V))) = [[]] := rfl

theorem prodAll_cons (L : List (Dict V)) (Ls : List (List (Dict V))) : prodAll (L :: Ls) = mergeProd L (prodAll Ls) := by
  simp only [prodAll, cart, mergeProd, List.map_flatMap, List.map_map]
  congr 1

theorem mem_mergeProd {A B : List (Dict V)} {c : Dict V} : c ∈ mergeProd A B ↔ ∃ a ∈ A, ∃ b ∈ B, c = a ++ b := by
  simp only [mergeProd, List.mem_flatMap, List.mem_map]
  constructor
  · rintro ⟨a, ha, b, hb, rfl⟩; exact ⟨a, ha, b, hb, rfl⟩
  · rintro ⟨a, ha, b, hb, rfl⟩; exact ⟨a, ha, b, hb, rfl⟩

theorem map_lookup_append (x : Dict V) (L : List (Dict V)) :
    (L.map (fun y => x ++ y)).map lookup =
      (L.map lookup).map (fun g k => match lookup x k with | some v => some v | none => g k) := by
  simp only [List.map_map]
  apply List.map_congr_left
  intro y _
  funext k
  simp [lookup_append]

theorem Fin.run_comb {K1 K2 : List Key} (hdisj : ∀ k ∈ K1, k ∉ K2) {F G : Fin V} (hF : F.Local K1) (hG : G.Local K2)
    (c1 c2 : Dict V) (h1 : ∀ k ∈ keys c1, k ∈ K1) (h2 : ∀ k ∈ keys c2, k ∈ K2) :
    ((F.comb G).run (c1 ++ c2)).map lookup =
      (match F.run c1, G.run c2 with | some a, some b => some (a ++ b) | _, _ => none).map lookup := by
  obtain ⟨B1, B2, B3⟩ := Fin.comb_apply hdisj hF hG c1 c2 h1 h2
  have e1 : F.ex ((F.comb G).apply (c1 ++ c2)) = F.ex (F.apply c1) := hF.ex _ _ B1
  have e2 : G.ex ((F.comb G).apply (c1 ++ c2)) = G.ex (G.apply c2) := hG.ex _ _ B2
  have e3 : lookup ((F.comb G).apply (c1 ++ c2)) = lookup (F.apply c1 ++ G.apply c2) := funext B3
  have ex : (F.comb G).ex ((F.comb G).apply (c1 ++ c2)) = (F.ex (F.apply c1) || G.ex (G.apply c2)) := by
    show (F.ex _ || G.ex _) = _
    rw [e1, e2]
  simp only [Fin.run, ex]
  cases F.ex (F.apply c1) <;> cases G.ex (G.apply c2) <;> simp [e3]

theorem mergeProd_filterMap {K1 K2 : List Key} (hdisj : ∀ k ∈ K1, k ∉ K2) {F G : Fin V} (hF : F.Local K1)
    (hG : G.Local K2) (B1 B2 S2 : List (Dict V)) (hB1 : ∀ c ∈ B1, ∀ k ∈ keys c, k ∈ K1)
    (hB2 : ∀ c ∈ B2, ∀ k ∈ keys c, k ∈ K2) (hS : (B2.filterMap G.run).map lookup = S2.map lookup) :
    ((mergeProd B1 B2).filterMap (F.comb G).run).map lookup = (mergeProd (B1.filterMap F.run) S2).map lookup := by
  induction B1 with
  | nil => rfl
  | cons a A ih =>
    have iha := ih (fun c hc => hB1 c (by simp [hc]))
    have ha := hB1 a (by simp)
    have inner : ((B2.map (fun b => a ++ b)).filterMap (F.comb G).run).map lookup =
        (match F.run a with | none => [] | some x => (B2.filterMap G.run).map (fun y => x ++ y)).map lookup := by
      clear hS iha ih
      induction B2 with
      | nil => cases F.run a <;> rfl
      | cons b B ihb =>
        have hb := hB2 b (by simp)
        have ihb' := ihb (fun c hc => hB2 c (by simp [hc]))
        have hr := Fin.run_comb hdisj hF hG a b ha hb
        simp only [List.map_cons, List.filterMap_cons]
        cases hfa : F.run a with
        | none =>
          simp only [hfa] at hr ihb' ⊢
          cases hc : (F.comb G).run (a ++ b) with
          | none => simpa [hc] using ihb'
          | some z => rw [hc] at hr; simp at hr
        | some x =>
          simp only [hfa] at hr ihb' ⊢
          cases hgb : G.run b with
          | none =>
            rw [hgb] at hr
            cases hc : (F.comb G).run (a ++ b) with
            | none => simpa [hc] using ihb'
            | some z => rw [hc] at hr; simp at hr
          | some y =>
            rw [hgb] at hr
            cases hc : (F.comb G).run (a ++ b) with
            | none => rw [hc] at hr; simp at hr
            | some z =>
              rw [hc] at hr
              simp only [Option.map_some, Option.some.injEq] at hr
              simp only [List.map_cons, hr, ihb']
    have e : mergeProd (a :: A) B2 = B2.map (fun b => a ++ b) ++ mergeProd A B2 := by simp [mergeProd]
    rw [e, List.filterMap_append, List.map_append, inner, iha]
    cases hfa : F.run a with
    | none => simp [List.filterMap_cons, hfa]
    | some x =>
      simp only [List.filterMap_cons, hfa]
      have e2 : mergeProd (x :: A.filterMap F.run) S2 = S2.map (fun y => x ++ y) ++ mergeProd (A.filterMap F.run) S2 := by
        simp [mergeProd]
      rw [e2, List.map_append, map_lookup_append, map_lookup_append, hS]

/-- an operand of a product, abstractly: the names it owns, its constants / derivers / exclude, its raw combinations -/
structure Operand (V : Type) where
  K : List Key
  F : Fin V
  B : List (Dict V)

def combAll (ops : List (Operand V)) : Fin V := ops.foldr (fun o acc => o.F.comb acc) Fin.unit

theorem Fin.unit_local : (Fin.unit : Fin V).Local [] :=
  ⟨by simp [Fin.unit, keys], by simp [Fin.unit, keys], by simp [Fin.unit], fun _ _ _ => rfl⟩

theorem combAll_local (ops : List (Operand V)) (h : ∀ o ∈ ops, o.F.Local o.K) :
    (combAll ops).Local (ops.flatMap (·.K)) := by
  induction ops with
  | nil => exact Fin.unit_local
  | cons o r ih =>
    simp only [combAll, List.foldr_cons, List.flatMap_cons]
    exact Fin.Local.comb (h o (by simp)) (ih (fun o' ho' => h o' (by simp [ho'])))

theorem keys_prodAll (ops : List (Operand V)) (h : ∀ o ∈ ops, ∀ c ∈ o.B, ∀ k ∈ keys c, k ∈ o.K) :
    ∀ c ∈ prodAll (ops.map (·.B)), ∀ k ∈ keys c, k ∈ ops.flatMap (·.K) := by
  induction ops with
  | nil => intro c hc; simp only [List.map_nil, prodAll_nil, List.mem_singleton] at hc; subst hc; simp [keys]
  | cons o r ih =>
    intro c hc k hk
    simp only [List.map_cons, prodAll_cons, mem_mergeProd] at hc
    obtain ⟨a, ha, b, hb, rfl⟩ := hc
    simp only [keys_append, List.mem_append] at hk
    simp only [List.flatMap_cons, List.mem_append]
    rcases hk with hk | hk
    · exact Or.inl (h o (by simp) a ha k hk)
    · exact Or.inr (ih (fun o' ho' => h o' (by simp [ho'])) b hb k hk)

/-- **Product, at the level of lists of combinations.**  Finishing every merged raw combination with the merged
    constants / derivers / exclude yields, as dictionaries and in order, the merges of the separately finished lists. -/
theorem prodAll_filterMap (ops : List (Operand V)) (hloc : ∀ o ∈ ops, o.F.Local o.K)
    (hkeys : ∀ o ∈ ops, ∀ c ∈ o.B, ∀ k ∈ keys c, k ∈ o.K)
    (hdisj : ops.Pairwise (fun a b => ∀ k ∈ a.K, k ∉ b.K)) :
    ((prodAll (ops.map (·.B))).filterMap (combAll ops).run).map lookup =
      (prodAll (ops.map (fun o => o.B.filterMap o.F.run))).map lookup := by
  induction ops with
  | nil => simp [prodAll_nil, combAll, Fin.run, Fin.unit, Fin.apply, addCL, applyDL]
  | cons o r ih =>
    rw [List.pairwise_cons] at hdisj
    have ih' := ih (fun o' ho' => hloc o' (by simp [ho'])) (fun o' ho' => hkeys o' (by simp [ho'])) hdisj.2
    simp only [List.map_cons, prodAll_cons]
    have hd : ∀ k ∈ o.K, k ∉ r.flatMap (·.K) := by
      intro k hk hm
      simp only [List.mem_flatMap] at hm
      obtain ⟨o', ho', hk'⟩ := hm
      exact hdisj.1 o' ho' k hk hk'
    exact mergeProd_filterMap hd (hloc o (by simp)) (combAll_local r (fun o' ho' => hloc o' (by simp [ho'])))
      o.B (prodAll (r.map (·.B))) _ (hkeys o (by simp)) (keys_prodAll r (fun o' ho' => hkeys o' (by simp [ho']))) ih'

end Lists

section Connect
variable {V : Type}

/-- the constants, derivers and exclude predicate of a sweep as a `Fin` -/
def finOf (s : Sweep V) : Fin V := ⟨s.constants.getD [], s.derivers.getD [], excluded s.exclude⟩

theorem finish_eq_run (s : Sweep V) (c : Dict V) : finish s c = (finOf s).run c := by
  simp only [finish, Fin.run, Fin.apply, finOf, addConstants_eq, applyDerivers_eq]
  rfl

/-- the names a sweep can put into a combination -/
def ownKeys (s : Sweep V) : List Key := keys s.items ++ keys (s.constants.getD []) ++ keys (s.derivers.getD [])

/-- derivers and exclude read only names of their own sweep -/
def LocalFns (s : Sweep V) : Prop :=
  (∀ kf ∈ s.derivers.getD [], LocalTo (ownKeys s) kf.2) ∧ LocalTo (ownKeys s) (excluded s.exclude)

theorem finOf_local {s : Sweep V} (h : LocalFns s) : (finOf s).Local (ownKeys s) :=
  ⟨fun k hk => by simp only [finOf] at hk; simp [ownKeys, hk], fun k hk => by simp only [finOf] at hk; simp [ownKeys, hk],
   h.1, h.2⟩

theorem flatten_filterMap_id {β : Type} (ds : List (Option (Dict β))) :
    (ds.filterMap id).flatten = ds.flatMap (·.getD []) := by
  induction ds with
  | nil => rfl
  | cons d r ih => cases d <;> simp [List.filterMap_cons, ih]

theorem keys_flatten {β : Type} (l : List (Dict β)) : keys l.flatten = l.flatMap keys := by
  induction l with
  | nil => rfl
  | cons d r ih => simp [keys_append, ih]

theorem combineDicts_ok {β : Type} (ds : List (Option (Dict β))) (h : (keys (ds.flatMap (·.getD []))).Nodup) :
    ∃ r, combineDicts ds = .ok r ∧ r.getD [] = ds.flatMap (·.getD []) := by
  rw [← flatten_filterMap_id] at h ⊢
  unfold combineDicts
  generalize ds.filterMap id = l at h ⊢
  match l, h with
  | [], _ => exact ⟨none, rfl, rfl⟩
  | [d], _ => exact ⟨some d, rfl, by simp⟩
  | d :: d' :: r, h =>
    have hn : ((d :: d' :: r).flatMap keys).Nodup := by rw [← keys_flatten]; exact h
    refine ⟨some ((d :: d' :: r).foldl update []), by simp only [hn, if_true], ?_⟩
    have := foldl_update_of_nodup ([] : Dict β) (d :: d' :: r) (by simpa [keys] using h)
    simpa using this

theorem excluded_combined (es : List (Option (Dict V → Bool))) (c : Dict V) :
    excluded (combinedExclude es) c = es.any (fun e => excluded e c) := by
  have key : ∀ (fs : List (Dict V → Bool)), fs.any (fun f => f c) = (fs.map some).any (fun e => excluded e c) := by
    intro fs; induction fs with
    | nil => rfl
    | cons f r ih => simp [excluded, ih]
  have e2 : es.any (fun e => excluded e c) = (es.filterMap id).any (fun f => f c) := by
    have h0 : excluded (none : Option (Dict V → Bool)) c = false := rfl
    have h1 : ∀ f : Dict V → Bool, excluded (some f) c = f c := fun _ => rfl
    induction es with
    | nil => rfl
    | cons e r ih =>
      cases e with
      | none => simp only [List.any_cons, h0, Bool.false_or, List.filterMap_cons, id]; exact ih
      | some f => simp only [List.any_cons, h1, List.filterMap_cons, id, ih]
  rw [e2]
  unfold combinedExclude
  generalize es.filterMap id = fs
  match fs with
  | [] => rfl
  | [f] => simp [excluded]
  | f :: g :: r => simp [excluded]

theorem combAll_cs (ops : List (Operand V)) : (combAll ops).cs = ops.flatMap (·.F.cs) := by
  induction ops with
  | nil => rfl
  | cons o r ih => simp only [combAll, List.foldr_cons, Fin.comb, List.flatMap_cons] at ih ⊢; rw [ih]

theorem combAll_ds (ops : List (Operand V)) : (combAll ops).ds = ops.flatMap (·.F.ds) := by
  induction ops with
  | nil => rfl
  | cons o r ih => simp only [combAll, List.foldr_cons, Fin.comb, List.flatMap_cons] at ih ⊢; rw [ih]

theorem combAll_ex (ops : List (Operand V)) (c : Dict V) : (combAll ops).ex c = ops.any (fun o => o.F.ex c) := by
  induction ops with
  | nil => rfl
  | cons o r ih => simp only [combAll, List.foldr_cons, Fin.comb, List.any_cons] at ih ⊢; rw [ih]

/-- the abstract operand of a sweep with given raw combinations -/
def operandOf (ob : Sweep V × List (Dict V)) : Operand V := ⟨ownKeys ob.1, finOf ob.1, ob.2⟩

/-- **The product's constants / derivers / exclude are the merged ones of all operands** (the DF-08 fix). -/
theorem finOf_product (s : Sweep V) (others : List (Sweep V)) (p : Sweep V)
    (hne : (s.items.isEmpty || others.any (fun o => o.items.isEmpty)) = false)
    (hc : (keys ((s :: others).flatMap (fun o => o.constants.getD []))).Nodup)
    (hd : (keys ((s :: others).flatMap (fun o => o.derivers.getD []))).Nodup)
    (hp : product s others = .ok p) (Bs : List (List (Dict V))) (hlen : Bs.length = (s :: others).length) :
    finOf p = combAll (((s :: others).zip Bs).map operandOf) := by
  unfold product at hp
  simp only [hne, Bool.false_eq_true, if_false] at hp
  obtain ⟨rc, hrc, hrc'⟩ := combineDicts_ok ((s :: others).map (·.constants)) (by simpa [List.flatMap_map] using hc)
  obtain ⟨rd, hrd, hrd'⟩ := combineDicts_ok ((s :: others).map (·.derivers)) (by simpa [List.flatMap_map] using hd)
  rw [hrc, hrd] at hp
  simp only [Except.ok.injEq] at hp
  subst hp
  have hz : ∀ (ops : List (Sweep V)) (Bs : List (List (Dict V))), Bs.length = ops.length →
      ((ops.zip Bs).map operandOf).map (·.F) = ops.map finOf := by
    intro ops
    induction ops with
    | nil => intro Bs _; simp
    | cons o r ih =>
      intro Bs hl
      cases Bs with
      | nil => simp at hl
      | cons B Bs' => simp only [List.zip_cons_cons, List.map_cons, operandOf, ih Bs' (by simpa using hl)]
  have hF := hz (s :: others) Bs hlen
  have cs_eq : (combAll (((s :: others).zip Bs).map operandOf)).cs = (s :: others).flatMap (fun o => o.constants.getD []) := by
    rw [combAll_cs]
    have : ∀ (l : List (Operand V)), l.flatMap (·.F.cs) = (l.map (·.F)).flatMap (·.cs) := by intro l; simp [List.flatMap_map]
    rw [this, hF]; simp [List.flatMap_map, finOf]
  have ds_eq : (combAll (((s :: others).zip Bs).map operandOf)).ds = (s :: others).flatMap (fun o => o.derivers.getD []) := by
    rw [combAll_ds]
    have : ∀ (l : List (Operand V)), l.flatMap (·.F.ds) = (l.map (·.F)).flatMap (·.ds) := by intro l; simp [List.flatMap_map]
    rw [this, hF]; simp [List.flatMap_map, finOf]
  have ex_eq : (combAll (((s :: others).zip Bs).map operandOf)).ex =
      excluded (combinedExclude ((s :: others).map (·.exclude))) := by
    funext c
    rw [combAll_ex, excluded_combined]
    have : ∀ (l : List (Operand V)), l.any (fun o => o.F.ex c) = (l.map (·.F)).any (fun F => F.ex c) := by intro l; simp [List.any_map, Function.comp_def]
    rw [this, hF]; simp [List.any_map, finOf, Function.comp_def]
  cases hcomb : combAll (((s :: others).zip Bs).map operandOf) with
  | mk cs ds ex =>
    rw [hcomb] at cs_eq ds_eq ex_eq
    simp only at cs_eq ds_eq ex_eq
    simp only [finOf, Fin.mk.injEq]
    refine ⟨?_, ?_, ?_⟩
    · rw [cs_eq]; simpa [List.flatMap_map] using hrc'
    · rw [ds_eq]; simpa [List.flatMap_map] using hrd'
    · rw [ex_eq]

end Connect

section Empty
variable {V : Type}

theorem mergeProd_nil_right (A : List (Dict V)) : mergeProd A [] = [] := by
  induction A with
  | nil => rfl
  | cons a r ih => simpa [mergeProd] using ih

theorem prodAll_of_nil_mem (Ls : List (List (Dict V))) (h : [] ∈ Ls) : prodAll Ls = [] := by
  induction Ls with
  | nil => simp at h
  | cons L r ih =>
    rw [prodAll_cons]
    rcases List.mem_cons.mp h with e | hm
    · subst e; rfl
    · rw [ih hm, mergeProd_nil_right]

end Empty

end PF.Sweep
