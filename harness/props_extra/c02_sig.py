"""C02 — signature tie: the same function description wrapped in many callable styles.

`inspect.signature` is outside the Lean model (the model is fed parameter lists).  This module builds, for one description
(`pipegen` format, plus a `"style"` per function), the wrapped callable as a plain def, a lambda with defaults, a class whose
`__init__` takes the parameters, a callable instance, a bound method, a classmethod, `functools.partial` (hidden positional
argument, defaults bound by keyword, an extra keyword-bound parameter), keyword-only parameters, and a dict-returning function
with a custom `output_picker`; `tie` compares what `PipeFunc` reports (`parameters/defaults/bound/renames/output_name`) with the
description; the pipelines are then run through the same run/compose comparison as every other C02 case (props/c02.py).
Styles that pipefunc cannot call (positional-only, `*args/**kwargs`, callables without `__name__`) are probed and counted as
observations only (`probe_observations`).
"""
from __future__ import annotations

import contextlib
import functools
import io

import pfimport  # noqa: F401
from pfimport import exc_enum
from pipefunc import PipeFunc, Pipeline

import pipegen
import terms
from terms import Term

STYLES = ["def", "lambda", "class", "instance", "method", "classmethod", "partial_pos", "partial_kwextra", "kwonly", "dictpicker"]

# defaults that short-cuts (`if value`, `value or …`, `dict.get`) get wrong; `[]`/`{}` are real mutable objects in the signature
EMPTY_LIST = {"arr": [[0], []]}
EMPTY_DICT = {"s": "${}"}           # PF.Val has no dictionaries: a reserved string, see `dec_default`/`norm`
SPECIAL_DEFAULTS = [("none", None), ("zero", 0), ("emptystr", {"s": ""}), ("false", {"s": "$False"}),
                    ("emptylist", EMPTY_LIST), ("emptydict", EMPTY_DICT)]


def dec_default(j):
    if j == EMPTY_LIST:
        return []
    if j == EMPTY_DICT:
        return {}
    return terms.dec(j)


def norm(j):
    """`terms.enc` output → the form the model side has (an empty dict is the reserved string)."""
    if isinstance(j, dict):
        if j == {"dict": []}:
            return dict(EMPTY_DICT)
        return {k: norm(v) for k, v in j.items()}
    if isinstance(j, list):
        return [norm(x) for x in j]
    return j


def enc(v):
    return norm(terms.enc(v))


# ------------------------------------------------------------------------------------------------ descriptions
def stylise(rng, desc, ctx=None):
    """Assign a wrapper style to every function of a pipegen description and turn some defaults into None / falsy / mutable
    values (one value per root name: pipefunc refuses inconsistent defaults of a shared parameter).  Returns the description
    the MODEL is fed (the `partial_kwextra` style adds one defaulted parameter that `inspect.signature` reports)."""
    special = {}
    # 0 == False in Python: a pipeline cache keyed by the keyword values serves the entry of `r0=False` for `r0=0` (observation
    # `cache-conflates-0-and-False`, not a C02 clause) — one pipeline uses only one of the two
    desc["zero"] = rng.choice(["zero", "false"])
    choices = [sd for sd in SPECIAL_DEFAULTS if sd[0] != {"zero": "false", "false": "zero"}[desc["zero"]]]
    for i, f in enumerate(desc["funcs"]):
        multi = len(f["outputs"]) > 1
        is_const = terms.const_of(f["name"])[0] or terms.seq_of(f["name"]) is not None
        style = rng.choice(STYLES)
        if style == "class" and (multi or is_const):      # a class call returns the instance: one uninterpreted output only
            style = rng.choice(["instance", "method", "def"])
        if style == "dictpicker" and not multi:
            style = rng.choice(["lambda", "kwonly", "partial_pos"])
        f["style"] = style
        f["rename_out"] = rng.random() < 0.25
        for d in f["defaults"]:
            p = d[0]
            if p not in special:
                special[p] = rng.choice(choices) if rng.random() < 0.6 else ("term", d[1])
            d[1] = special[p][1]
            if ctx is not None:
                ctx.count(f"sig:default:{special[p][0]}")
        if style == "partial_kwextra":
            x = f"xk{i}"
            f["params"].append([x, x])
            f["defaults"].append([x, {"s": f"partial:{x}"}])
        if ctx is not None:
            ctx.count(f"sig:style:{style}")
            if f["rename_out"]:
                ctx.count("sig:output-renamed")
            for p, orig in f["params"]:
                kind = ("bound" if p in [b[0] for b in f["bound"]] else "defaulted" if p in [d[0] for d in f["defaults"]] else "required")
                ctx.count(f"sig:param:{kind}{':renamed' if p != orig else ''}")
            if not f["params"]:
                ctx.count("sig:param:nullary")
    return desc


# ------------------------------------------------------------------------------------------------ callables
def _impl_for(name, outputs, log, as_dict=False):
    """the body shared by every style: the same interpretation of the function NAME as `terms.make_func` (a constant for
    `terms.const_of(name)`, a tuple / list / 1-D object ndarray of the two projections of the free term for `terms.seq_of(name)`)"""
    is_const, const = terms.const_of(name)
    seq_kind = terms.seq_of(name)

    def shaped(base):
        if seq_kind is not None:
            pair = [Term("proj", (base, (0,))), Term("proj", (base, (1,)))]
            if seq_kind == "ndarray":
                import numpy as np
                a = np.empty(2, dtype=object)
                a[0], a[1] = pair
                return a
            return tuple(pair) if seq_kind == "tuple" else pair
        return const if is_const else base

    def _impl(kw):
        kw_frozen = sorted((k, terms.freeze(v)) for k, v in kw.items())
        t = Term(name, kw_frozen)
        kw_enc = [[k, terms.enc(v)] for k, v in kw_frozen]
        log.add(name, kw_enc, "call")
        if len(outputs) == 1:
            r = shaped(t)
        elif as_dict:
            r = {o: shaped(Term("pick", (t, o))) for o in outputs}
        else:
            r = tuple(shaped(Term("pick", (t, o))) for o in outputs)
        log.add(name, kw_enc, "done")
        return r
    return _impl


def _sig(origs, defaults, kind="plain", first=()):
    parts = list(first)
    for i, p in enumerate(origs):
        if kind == "kwonly" and i == min(1, len(origs) - 1):
            parts.append("*")
        parts.append(f"{p}=_d[{p!r}]" if p in defaults else p)
        if kind == "posonly" and i == 0:
            parts.append("/")
    return ", ".join(parts)


def _body(origs):
    return f"_impl(dict({', '.join(f'{p}={p}' for p in origs)}))"


def make_callable(style, name, origs, outputs, sig_defaults, log):
    """The wrapped callable in the given style; `sig_defaults` {own parameter name: python value}.
    Returns (callable, extra PipeFunc keyword arguments)."""
    impl = _impl_for(name, outputs, log, as_dict=(style == "dictpicker"))
    ns = {"_impl": impl, "_d": sig_defaults, "Term": Term}
    body = _body(origs)
    extra = {}
    if style in ("def", "dictpicker"):
        src = f"def {name}({_sig(origs, sig_defaults)}):\n    return {body}\n"
        exec(src, ns)  # noqa: S102
        fn = ns[name]
        if style == "dictpicker":
            extra["output_picker"] = lambda r, n: r[n]
    elif style == "lambda":
        fn = eval(f"lambda {_sig(origs, sig_defaults)}: {body}", ns)  # noqa: S307
    elif style == "kwonly":
        src = f"def {name}({_sig(origs, sig_defaults, 'kwonly')}):\n    return {body}\n"
        exec(src, ns)  # noqa: S102
        fn = ns[name]
    elif style == "posonly":
        src = f"def {name}({_sig(origs, sig_defaults, 'posonly')}):\n    return {body}\n"
        exec(src, ns)  # noqa: S102
        fn = ns[name]
    elif style == "varargs":
        src = (f"def {name}({_sig(origs, sig_defaults, first=())}{', ' if origs else ''}*args, **kwargs):\n"
               f"    return _impl(dict({', '.join(f'{p}={p}' for p in origs)}{', ' if origs else ''}**{{'*args': args, '**kwargs': kwargs}}))\n")
        exec(src, ns)  # noqa: S102
        fn = ns[name]
    elif style == "class":
        src = (f"class {name}(Term):\n    def __init__({_sig(origs, sig_defaults, first=('self',))}):\n"
               f"        t = {body}\n        Term.__init__(self, t.f, t.args)\n")
        exec(src, ns)  # noqa: S102
        fn = ns[name]
    elif style in ("instance", "instance_noname"):
        src = f"class {name}_cls:\n    def __call__({_sig(origs, sig_defaults, first=('self',))}):\n        return {body}\n"
        exec(src, ns)  # noqa: S102
        fn = ns[name + "_cls"]()
        if style == "instance":
            fn.__name__ = name          # without it PipeFunc.__init__ raises AttributeError (see probe_observations)
    elif style == "method":
        src = f"class {name}_cls:\n    def {name}({_sig(origs, sig_defaults, first=('self',))}):\n        return {body}\n"
        exec(src, ns)  # noqa: S102
        fn = getattr(ns[name + "_cls"](), name)
    elif style == "classmethod":
        src = f"class {name}_cls:\n    @classmethod\n    def {name}({_sig(origs, sig_defaults, first=('cls',))}):\n        return {body}\n"
        exec(src, ns)  # noqa: S102
        fn = getattr(ns[name + "_cls"], name)
    elif style in ("partial_pos", "partial_noname"):
        # a function with one more (leading) parameter, bound positionally; the defaults are bound by keyword
        src = f"def {name}({_sig(origs, {}, first=('_hidden',))}):\n    return {body}\n"
        exec(src, ns)  # noqa: S102
        fn = functools.partial(ns[name], "hidden", **sig_defaults)
        if style == "partial_pos":
            fn.__name__ = name
    elif style == "partial_kwextra":
        # every default (incl. the extra parameter `xk…` of the description) is bound by keyword through the partial object
        src = f"def {name}({_sig(origs, {})}):\n    return {body}\n"
        exec(src, ns)  # noqa: S102
        fn = functools.partial(ns[name], **sig_defaults)
        fn.__name__ = name
    else:
        raise AssertionError(style)
    return fn, extra


def build_styled(desc, order=None, log=None, defaults_in_signature=True, cache=False, **pipeline_kwargs):
    """Real PipeFuncs (one per function of `desc`, in its `"style"`) + Pipeline.  Returns (pipeline, log, {name: PipeFunc})."""
    log = log if log is not None else terms.CallLog()
    order = list(range(len(desc["funcs"]))) if order is None else order
    pfs, by_name = [], {}
    for i in order:
        f = desc["funcs"][i]
        style = f.get("style", "def")
        origs = [orig for _, orig in f["params"]]
        renames = {orig: p for p, orig in f["params"] if orig != p}
        inv = {p: orig for p, orig in f["params"]}
        dflt = {p: dec_default(v) for p, v in f.get("defaults", [])}
        in_sig = dict(dflt) if defaults_in_signature else {p: v for p, v in dflt.items() if style == "partial_kwextra" and p.startswith("xk")}
        sig_defaults = {inv[p]: v for p, v in in_sig.items()}
        fn, extra = make_callable(style, f["name"], origs, f["outputs"], sig_defaults, log)
        outs = list(f["outputs"])
        if f.get("rename_out"):
            raw = [f"raw_{o}" for o in outs]
            renames.update(dict(zip(raw, outs)))
            outs = raw
            if "output_picker" in extra:
                # a custom picker is called with a name given in `output_name` (here `raw_<o>`), also after the output was renamed
                # (the DF-C10-picker-renamed-output repair); the returned dictionary is keyed by the final names
                extra["output_picker"] = lambda r, n: r[n[4:] if n.startswith("raw_") else n]
        on = outs[0] if len(outs) == 1 else tuple(outs)
        kw = dict(extra)
        rest = {p: v for p, v in dflt.items() if p not in in_sig}
        if rest:
            kw["defaults"] = rest
        if f.get("bound"):
            kw["bound"] = {p: terms.dec(v) for p, v in f["bound"]}
        if cache:
            kw["cache"] = True
        pf = PipeFunc(fn, on, renames=renames, **kw)
        pfs.append(pf)
        by_name[f["name"]] = pf
    with contextlib.redirect_stdout(io.StringIO()):
        p = Pipeline(pfs, **pipeline_kwargs)
    return p, log, by_name


# ------------------------------------------------------------------------------------------------ the tie
def reported(pf):
    """what PipeFunc derives from `inspect.signature` and its constructor arguments, canonical"""
    on = pf.output_name
    return {"parameters": list(pf.parameters),
            "defaults": sorted([k, enc(v)] for k, v in pf.defaults.items()),
            "bound": sorted([k, enc(v)] for k, v in pf.bound.items()),
            "renames": sorted([k, v] for k, v in pf.renames.items()),
            "output_name": [on] if isinstance(on, str) else list(on)}


def described(f):
    ren = {orig: p for p, orig in f["params"] if orig != p}
    if f.get("rename_out"):
        ren.update({f"raw_{o}": o for o in f["outputs"]})
    return {"parameters": [p for p, _ in f["params"]],
            "defaults": sorted([k, norm(terms.canon(v))] for k, v in f.get("defaults", [])),
            "bound": sorted([k, norm(terms.canon(v))] for k, v in f.get("bound", [])),
            "renames": sorted([k, v] for k, v in ren.items()),
            "output_name": list(f["outputs"])}


def tie(ctx, desc, by_name, variant):
    """`PipeFunc.parameters/defaults/bound/renames/output_name` = the description, for every function."""
    for f in desc["funcs"]:
        pf = by_name[f["name"]]
        try:
            rep = reported(pf)
        except Exception as e:  # noqa: BLE001
            rep = {"err": exc_enum(e)}
        want = described(f)
        ctx.count(f"sig:tie:{f.get('style', 'def')}")
        case = {"funcs": desc["funcs"], "sig_tie": f["name"], "variant": variant}
        ctx.record(case, nontrivial=bool(f["params"]))
        if rep != want:
            diff = [k for k in want if rep.get(k) != want[k]] if "err" not in rep else ["err"]
            ctx.violation(case, f"PipeFunc.{'/'.join(diff)} of {f['name']} (style {f.get('style')}) differ from the wrapped signature",
                          found_input=False, item="correspondence:signature", impl=rep, model=want)


# ------------------------------------------------------------------------------------------------ observations
def _try(fn):
    try:
        return "ok", pipegen.quiet(fn)
    except Exception as e:  # noqa: BLE001
        return exc_enum(e), None


def probe_observations(ctx):
    """Callable kinds pipefunc cannot call by keyword, or refuses at construction: recorded, never a verdict.
    Returns {observation: outcome} (also counted in the distribution)."""
    obs = {}
    log = terms.CallLog()

    def note(k, v):
        obs[k] = v
        ctx.count(f"observation:{k}:{v}")

    # positional-only parameter `def f(a, /, b)`
    fn, _ = make_callable("posonly", "fpos", ["a", "b"], ["o"], {}, log)
    st, pf = _try(lambda: PipeFunc(fn, "o"))
    note("posonly:construct", st)
    if pf is not None:
        note("posonly:parameters", ",".join(pf.parameters))
        st, p = _try(lambda: Pipeline([pf]))
        note("posonly:pipeline-construct", st)
        if p is not None:
            note("posonly:pipeline-call-by-keyword", _try(lambda: p("o", a=1, b=2))[0])
        st, v = _try(lambda: pf(1, b=2))
        note("posonly:PipeFunc-call-positional", st if st != "ok" else ("ok-term" if enc(v) == {"f": "fpos", "k": [["a", 1], ["b", 2]]} else "ok-other"))
    # *args / **kwargs
    fn, _ = make_callable("varargs", "fvar", ["a"], ["o"], {}, log)
    st, pf = _try(lambda: PipeFunc(fn, "o"))
    note("varargs:construct", st)
    if pf is not None:
        note("varargs:parameters", ",".join(pf.parameters))
        st, p = _try(lambda: Pipeline([pf]))
        note("varargs:pipeline-construct", st)
        if p is not None:
            note("varargs:root_args", ",".join(_try(lambda: p.root_args("o"))[1] or ["?"]))
            note("varargs:call-without-args-kwargs", _try(lambda: p("o", a=1))[0])
            st, v = _try(lambda: p("o", a=1, args=2, kwargs=3))
            note("varargs:call-with-args-kwargs-as-keywords", st if st != "ok" else "ok:" + str(enc(v)).replace(" ", ""))
    # callables without __name__
    for style in ("instance_noname", "partial_noname"):
        fn, _ = make_callable(style, "fnn", ["a"], ["o"], {}, log)
        note(f"{style}:construct", _try(lambda: PipeFunc(fn, "o"))[0])
    # a cache keyed by keyword values: 0 == False
    fn, _ = make_callable("def", "fc", ["a"], ["o"], {}, log)
    st, p = _try(lambda: Pipeline([PipeFunc(fn, "o", cache=True)], cache_type="lru"))
    if p is not None:
        _try(lambda: p("o", a=False))
        st, v = _try(lambda: p("o", a=0))
        note("cache-conflates-0-and-False", st if st != "ok" else ("yes" if enc(v) == {"f": "fc", "k": [["a", {"s": "$False"}]]} else "no"))
    # partial binding a parameter by keyword keeps it in the signature (keyword-only, defaulted)
    fn, _ = make_callable("partial_kwextra", "fpk", ["a", "x"], ["o"], {"x": 7}, log)
    st, pf = _try(lambda: PipeFunc(fn, "o"))
    if pf is not None:
        note("partial-keyword-bound:parameters", ",".join(pf.parameters) + "|defaults=" + ",".join(sorted(pf.defaults)))
    return obs
