"""C10 — Structural rewrites preserve what a pipeline computes.

Histories over an environment name -> Pipeline: copy, cloudpickle round-trip, join / |, update_renames, update_scope and
its removal (dotted and nested-dict calling conventions), nest_funcs / NestedPipeFunc, simplified_pipeline,
split_disconnected, add_mapspec_axis, and mutations (update_defaults / update_bound) on one of two related objects.
After every operation BOTH the new and the old object are evaluated for every retained output (pipeline(...) for call
pipelines, map for MapSpec pipelines): the property clauses are judged on the implementation alone (new == old up to the
stated renaming; old unchanged), and every value and a structural summary are compared with `PF.Rw`
(lean/PfModel/Model/Rewrite.lean), whose rewrites are proved value-preserving.
"""
from __future__ import annotations

import copy

import pfimport  # noqa: F401
from pfimport import exc_enum

import c10_runner as R
import mapgen
import pipegen

PID = "C10"
PROPS = ["PfModel.Props.C10"]
DRIVER = "C10"
RULE = ("an environment with a pipegen DAG (1-5 term-building functions: tuple outputs, shared parameters, defaults, bound values, renames) or a "
        "well-formed mapgen MapSpec pipeline (1-3 functions), optionally a second pipeline to join; a history of 1-3 rewrites drawn by weight "
        "from {copy, pickle, join/|, rename 1-2 names, scope, unscope, nest 2-3 functions (all/chosen outputs), simplify (both modes), split, "
        "add_mapspec_axis on a root} plus up to two mutations (update_defaults/update_bound), defaults given in the signature or explicitly; after every op all outputs of the "
        "new and the old object are evaluated; a separate malformed stream (unused rename keys, capturing renames, unknown outputs, dropped "
        "consumed outputs) only demands refusal-or-consistency and an unchanged original; non-trivial = at least one rewrite other than "
        "copy/pickle was performed on a pipeline with >= 2 functions; distinct by (environment, ops)")
ASSUMPTIONS = ["inspect.signature, networkx (connected components, predecessor order = parameter order) and cloudpickle are specified by the model, not verified",
               "values are uninterpreted terms recording ORIGINAL parameter and output names; a list, tuple or 1-D ndarray of the same elements is the same value",
               "for MapSpec pipelines the model's terms record the current output name in a pick; they are relabelled with the harness's own name tracking before comparison",
               "only root arguments are supplied as keywords (the rewritten pipeline is not required to accept former intermediates)"]


# ---------------------------------------------------------------------------------------------- generation
def shifted(desc, taken_outputs, rng):
    """A second DAG whose function/output names do not clash, which may consume outputs of the first."""
    d = copy.deepcopy(desc)
    ren = {}
    for f in d["funcs"]:
        f["name"] = "g" + f["name"][1:]
        for i, o in enumerate(f["outputs"]):
            ren[o] = "q" + o[1:]
            f["outputs"][i] = ren[o]
    for f in d["funcs"]:
        for pr in f["params"]:
            old = pr[0]
            if old in ren:
                new = ren[old]
            elif taken_outputs and rng.random() < 0.25 and not any(x[0] == old for x in f["defaults"] + f["bound"]):
                new = rng.choice(taken_outputs)
                if any(q[0] == new for q in f["params"]):
                    new = old
            else:
                new = old
            if pr[1] == old:
                pr[1] = new if new == old or new in ren.values() else pr[1]
            for x in f["defaults"] + f["bound"]:
                if x[0] == old:
                    x[0] = new
            pr[0] = new
    return d


def gen_env(rng, kind):
    if kind == "map":
        desc = mapgen.gen_case(rng, max_funcs=3, kinds=["elem", "elem", "outer", "partial", "full", "internal", "gen", "scalar"])
        return [["p0", {"kind": "map", "desc": desc}]]
    desc = pipegen.gen_dag(rng, max_funcs=rng.choice([2, 3, 4, 5]), p_tuple=0.3, p_bound=0.2)
    env = [["p0", {"kind": "call", "desc": desc, "explicit_defaults": rng.random() < 0.5}]]
    if rng.random() < 0.3:
        d2 = shifted(pipegen.gen_dag(rng, max_funcs=rng.choice([1, 2, 3])), pipegen.all_outputs(desc), rng)
        env.append(["q0", {"kind": "call", "desc": d2}])
    return env


def propose(rng, runner, k, allow_mutation):
    """One op, chosen with the real objects in view (names after earlier renames, leaves, roots)."""
    names = list(runner.env)
    src = names[-1] if rng.random() < 0.7 else rng.choice(names)
    ent = runner.env[src]
    p = ent.p
    outs = sorted(p.all_output_names)
    roots = runner.roots(p)
    dst = f"p{len(names) + k}x"
    dotted = any("." in n for n in outs + roots)
    if ent.kind == "map":
        table = [("copy", 1), ("pickle", 1), ("rename", 2.5), ("scope", 2), ("unscope", 1.5 if dotted else 0.2), ("split", 1),
                 ("add_axis", 3.5 if any(ent.tags.get(r, r) in ent.inputs for r in roots) else 0), ("mutate", 0.7 if allow_mutation else 0)]
    else:
        joinable = [n for n in names if n != src and runner.env[n].kind == "call" and not (set(runner.env[n].p.all_output_names) & set(outs))]
        table = [("copy", 1), ("pickle", 1), ("rename", 2.5), ("scope", 2), ("unscope", 1.5 if dotted else 0.2),
                 ("nest", 3.5 if len(p.functions) >= 2 else 0), ("simplify", 3 if len(p.functions) >= 2 else 0), ("split", 1.5),
                 ("join", 2.5 if joinable else 0), ("mutate", 1.5 if allow_mutation else 0)]
    kind = rng.choices([t[0] for t in table], weights=[t[1] for t in table])[0]
    if kind in ("copy", "pickle"):
        return {"op": kind, "src": src, "dst": dst}
    if kind == "join":
        return {"op": "join", "src": src, "other": rng.choice(joinable), "dst": dst, "via": rng.choice(["join", "or"])}
    if kind == "rename":
        pool = outs + roots
        if rng.random() < 0.15:
            pool = pool + [a for f in p.functions for a in f.parameters]
        chosen = rng.sample(sorted(set(pool)), min(len(set(pool)), rng.choice([1, 1, 2])))
        return {"op": "rename", "src": src, "dst": dst, "map": [[n, f"{n}_R{k}"] for n in chosen]}
    if kind == "scope":
        return {"op": "scope", "src": src, "dst": dst, "scope": rng.choice(["S", "T", "sc"])}
    if kind == "unscope":
        return {"op": "scope", "src": src, "dst": dst, "scope": None}
    if kind == "split":
        return {"op": "split", "src": src, "dst": dst, "out": rng.choice(outs)}
    if kind == "add_axis":
        cands = [r for r in roots if ent.tags.get(r, r) in ent.inputs]
        return {"op": "add_axis", "src": src, "dst": dst, "param": rng.choice(cands), "axis": f"w{len(names)}"}
    if kind == "simplify":
        leaves = [R.at_least_tuple(f.output_name)[0] for f in p.leaf_nodes]
        o = rng.choice(leaves) if rng.random() < 0.75 else rng.choice(outs)
        return {"op": "simplify", "src": src, "dst": dst, "out": o, "conservative": rng.random() < 0.3}
    if kind == "nest":
        fs = list(p.functions)
        f = rng.choice(fs)
        group = [f]
        for _ in range(rng.choice([1, 1, 2])):
            # grow along graph edges most of the time, so that the selection has one leaf
            preds = [g for h in group for g in p.graph.predecessors(h) if g in fs and g not in group]
            succs = [g for h in group for g in p.graph.successors(h) if g in fs and g not in group]
            pool = (preds + succs) if rng.random() < 0.8 and (preds or succs) else [g for g in fs if g not in group]
            if pool:
                group.append(rng.choice(pool))
        sel = [R.at_least_tuple(g.output_name)[0] for g in group]
        inner = sorted({o for g in group for o in R.at_least_tuple(g.output_name)})
        consumed = {a for g in fs if g not in group for a in g.parameters if a in inner and a not in g.bound}
        op = {"op": "nest", "src": src, "dst": dst, "sel": sel, "out": None}
        r = rng.random()
        if r < 0.25:
            # a chosen subset that keeps the leaf's outputs and everything consumed outside (valid)
            inner_graph_leaves = [g for g in group if not any(a in R.at_least_tuple(g.output_name) and a not in h.bound for h in group if h is not g for a in h.parameters)]
            keep = set(consumed) | {o for g in inner_graph_leaves[:1] for o in R.at_least_tuple(g.output_name)}
            keep |= {o for o in inner if rng.random() < 0.3}
            op["out"] = sorted(keep) or None
        elif r < 0.32 and len(inner) > 1:
            op["out"] = sorted(rng.sample(inner, rng.randint(1, len(inner) - 1)))
            op["malformed"] = not (consumed <= set(op["out"]))
        return op
    if kind == "mutate":
        if rng.random() < 0.6 and roots:
            r = rng.choice(roots)
            return {"op": "set_defaults", "target": src, "map": [[r, {"s": f"newdefault:{k}"}]]}
        f = rng.choice(list(p.functions))
        free = [a for a in f.parameters if a not in f.bound and a not in f.defaults and not (f.mapspec and a in f.mapspec.input_names)]
        if not free:
            return {"op": "copy", "src": src, "dst": dst}
        return {"op": "set_bound", "target": src, "out": R.at_least_tuple(f.output_name)[0], "map": [[rng.choice(free), {"s": f"newbound:{k}"}]]}
    raise AssertionError(kind)


def propose_malformed(rng, runner, k):
    names = list(runner.env)
    src = names[-1]
    ent = runner.env[src]
    outs = sorted(ent.p.all_output_names)
    dst = f"m{k}"
    c = rng.choice(["unused-rename", "unknown-nest", "unknown-split", "unknown-simplify", "capture"])
    if c == "unused-rename":
        return {"op": "rename", "src": src, "dst": dst, "map": [["nosuchname", "x"]]}
    if c == "unknown-nest":
        return {"op": "nest", "src": src, "dst": dst, "sel": [outs[0], "nosuchoutput"], "out": None}
    if c == "unknown-split":
        return {"op": "split", "src": src, "dst": dst, "out": "nosuchoutput"}
    if c == "unknown-simplify":
        return {"op": "simplify", "src": src, "dst": dst, "out": "nosuchoutput", "conservative": False}
    return {"op": "rename", "src": src, "dst": dst, "map": [["nosuchname2", outs[0]]]}      # unused key onto an existing name


def gen_case(rng, k_case):
    kind = "map" if k_case % 4 == 3 else "call"
    env = gen_env(rng, kind)
    runner = R.Runner(env)
    ops = []
    mutated = 0
    for k in range(rng.choice([1, 2, 2, 3, 3, 4])):
        op = propose(rng, runner, k, allow_mutation=mutated < 2 and k > 0)
        mutated += op["op"].startswith("set_")
        ops.append(op)
        runner.apply(op)
    if rng.random() < 0.12:
        op = propose_malformed(rng, runner, len(ops))
        ops.append(op)
        runner.apply(op)
    return {"env": env, "ops": ops}, runner


def rerun(case):
    runner = R.Runner(case["env"])
    for op in case["ops"]:
        if op.get("src", op.get("target")) in runner.env and (op.get("other") is None or op["other"] in runner.env):
            runner.apply(op)
    return runner


# ---------------------------------------------------------------------------------------------- judging
def judge(ctx, case, runner, resp):
    performed = [p["op"]["op"] for p in runner.plan if p["kind"] == "op" and "ok" in p["impl"]]
    for c in runner.counts:
        ctx.count(c)
    ctx.count(f"kind:{case['env'][0][1]['kind']}")
    ctx.count(f"history-length:{len(case['ops'])}")
    n_funcs = len(case["env"][0][1]["desc"]["funcs"])
    ctx.record(case, nontrivial=n_funcs >= 2 and any(o not in ("copy", "pickle") for o in performed))
    for what, found, item, impl, model in runner.problems:
        ctx.violation(case, what, found_input=found, item=item, impl=impl, model=model)
    for what, found, item, impl, model in R.judge_model(runner, resp["r"]["steps"]):
        ctx.violation(case, what, found_input=found, item=item, impl=impl, model=model)


def F(name, params, outputs, defaults=(), bound=()):
    return {"name": name, "params": [list(p) if isinstance(p, (list, tuple)) else [p, p] for p in params], "outputs": list(outputs),
            "defaults": [list(d) for d in defaults], "bound": [list(b) for b in bound]}


def call_env(*funcs):
    return [["p0", {"kind": "call", "desc": {"funcs": list(funcs)}}]]


CORPUS: list = [
    # DF-23: simplified_pipeline next to a tuple-output function
    {"env": call_env(F("f0", [], ["o0"]), F("f1", ["r1"], ["o1"]), F("f2", ["o1", "r1"], ["o2a", "o2b"]), F("f3", [], ["o3"]), F("f4", ["o3", "o1"], ["o4"])),
     "ops": [{"op": "simplify", "src": "p0", "dst": "p1", "out": "o2a", "conservative": False},
             {"op": "simplify", "src": "p0", "dst": "p2", "out": "o4", "conservative": False}]},
    # DF-27: a bound parameter of a nested function
    {"env": call_env(F("f0", ["r0", "r1"], ["o0"], bound=[["r1", {"s": "bound:r1:f0"}]]), F("f1", ["o0"], ["o1"])),
     "ops": [{"op": "nest", "src": "p0", "dst": "p1", "sel": ["o0", "o1"], "out": None},
             {"op": "simplify", "src": "p0", "dst": "p2", "out": "o1", "conservative": False}]},
    # DF-28: a tuple-output leaf inside the nest
    {"env": call_env(F("f0", [], ["o0"]), F("f1", ["o0", "r1", "r2"], ["o1a", "o1b"])),
     "ops": [{"op": "nest", "src": "p0", "dst": "p1", "sel": ["o0", "o1a"], "out": None}]},
    # found here: renaming / scoping an output of a NestedPipeFunc
    {"env": call_env(F("f0", ["r0"], ["o0"]), F("f1", ["o0", "r1"], ["o1"]), F("f2", ["o1"], ["o2"])),
     "ops": [{"op": "nest", "src": "p0", "dst": "p1", "sel": ["o0", "o1"], "out": None},
             {"op": "rename", "src": "p1", "dst": "p2", "map": [["o1", "o1_R"]]},
             {"op": "scope", "src": "p1", "dst": "p3", "scope": "S"}]},
    # found here: copying a pipeline whose NestedPipeFunc got a default / a bound value
    {"env": call_env(F("f0", ["r0"], ["o0"]), F("f1", ["o0", "r1"], ["o1"]), F("f2", ["o1"], ["o2"])),
     "ops": [{"op": "nest", "src": "p0", "dst": "p1", "sel": ["o0", "o1"], "out": None},
             {"op": "set_defaults", "target": "p1", "map": [["r0", {"s": "newdefault"}]]},
             {"op": "copy", "src": "p1", "dst": "p2"}]},
    {"env": call_env(F("f0", ["r0"], ["o0"]), F("f1", ["o0", "r1"], ["o1"]), F("f2", ["o1"], ["o2"])),
     "ops": [{"op": "nest", "src": "p0", "dst": "p1", "sel": ["o0", "o1"], "out": None},
             {"op": "set_bound", "target": "p1", "out": "o0", "map": [["r0", {"s": "newbound"}]]},
             {"op": "split", "src": "p1", "dst": "p2", "out": "o2"}, {"op": "pickle", "src": "p1", "dst": "p3"}]},
    # found here: a function-level mutation of an unpickled pipeline leaves its cached structure stale
    {"env": call_env(F("f0", ["r0"], ["o0"]), F("f1", ["o0"], ["o1"])),
     "ops": [{"op": "pickle", "src": "p0", "dst": "p1"}, {"op": "set_bound", "target": "p1", "out": "o1", "map": [["o0", {"s": "newbound"}]]}]},
    # found here: add_mapspec_axis on a root that one function maps over and another takes whole
    {"env": [["p0", {"kind": "map", "desc": {"funcs": [
        {"name": "f0", "params": [["x0", "x0"], ["c1", "c1"]], "outputs": ["y0"], "mapspec": None, "mapspec_str": None, "autogen": False, "ret": None,
         "internal": None, "defaults": [], "bound": []},
        {"name": "f1", "params": [["x0", "x0"]], "outputs": ["y1"], "mapspec": {"inputs": [["x0", ["i"]]], "outputs": [["y1", ["i"]]]},
         "mapspec_str": "x0[i] -> y1[i]", "autogen": False, "ret": None, "internal": None, "defaults": [], "bound": []}],
        "inputs": [["c1", {"s": "in:c1"}], ["x0", {"arr": [[2], [{"s": "e0"}, {"s": "e1"}]]}]], "input_kinds": {"x0": "array"}, "internal": [], "sizes": {"i": 2}}}]],
     "ops": [{"op": "add_axis", "src": "p0", "dst": "p1", "param": "x0", "axis": "w"}]},
    # a renamed NestedPipeFunc with an inherited default, copied
    {"env": call_env(F("f0", [["r0", "a0"]], ["o0"], defaults=[["r0", {"s": "dflt:r0"}]]), F("f1", ["o0", "r1"], ["o1a", "o1b"]), F("f2", ["o1b"], ["o2"])),
     "ops": [{"op": "nest", "src": "p0", "dst": "p1", "sel": ["o0", "o1a"], "out": ["o1a", "o1b"]},
             {"op": "rename", "src": "p1", "dst": "p2", "map": [["r0", "r0_R"], ["o1b", "X"]]},
             {"op": "copy", "src": "p2", "dst": "p3"}]},
]


def run(ctx):
    rng = ctx.rng
    done = []
    for c in CORPUS:
        case = copy.deepcopy(c)
        done.append((case, rerun(case)))
        ctx.count("corpus")
    for k in range(ctx.n(900, 14000)):
        try:
            case, runner = gen_case(rng, k)
        except Exception as e:  # noqa: BLE001   the generator builds valid pipelines only
            ctx.count(f"generator-exc:{exc_enum(e)}")
            raise
        done.append((case, runner))
    reqs = [{"m": "rewrite", "a": {"env": r.env_req, "history": r.history}} for _, r in done]
    resps = ctx.lean(reqs)
    for (case, runner), resp in zip(done, resps):
        judge(ctx, case, runner, resp)


def replay(ctx, case):
    runner = rerun(case)
    resp = ctx.lean([{"m": "rewrite", "a": {"env": runner.env_req, "history": runner.history}}])[0]
    for pl, st in zip(runner.plan, resp["r"]["steps"]):
        print("step:", {k: v for k, v in pl.items() if k != "impl"})
        print("  implementation:", pl["impl"])
        print("  model:", st)
    for pr in runner.problems:
        print("PROPERTY (implementation alone):", pr[0], "\n   got:", pr[3], "\n   expected:", pr[4])
    for pr in R.judge_model(runner, resp["r"]["steps"]):
        print("MODEL:", pr[0])
