import PfModel.Model.Hashable
/-!
The shape of `pipefunc.cache.to_hashable` as the translator `harness/c15_extract.py` reads it from the source with `ast`
(`lean/PfModel/Generated/C15Facts.lean`, rewritten on every run), and what the hand-written model `Model/Hashable.lean`
expects of it.  `dispatchMatchesModel` walks the *ordered* list of `isinstance` branches exactly as Python does — the first
branch whose test accepts the class of the object wins — so the subclass-before-superclass order
(`OrderedDict`/`defaultdict`/`Counter` before `dict`) is part of what is checked.
-/
namespace PF.Hashable

/-- what a branch builds the last component of its payload from -/
inductive SrcBody
  /-- `_hashable_iterable(obj, fb[, sort=True])` -/
  | iterable (sort : Bool)
  /-- `_hashable_mapping(obj, fb[, sort=True])` -/
  | mapping (sort : Bool)
  /-- `tuple(sorted(obj.items()))` (`sort = true`) / `tuple(obj.items())` -/
  | rawItems (sort : Bool)
  /-- `tuple(obj)` / `tuple(obj.flatten())` -/
  | rawSeq
  /-- `_cloudpickle_key(obj)` -/
  | digest
  /-- `to_hashable(<expression of obj>, fb)` (the pandas branches); `arg` is the expression as `ast.unparse` prints it
      (`obj.to_dict()`, `obj.to_dict('list')`) after the local assignments of the branch have been substituted -/
  | recurse (arg : String)
  /-- anything the translator does not recognise -/
  | other
  deriving DecidableEq, Repr

/-- one `if isinstance(obj, …): return (m, tp, payload)` of `to_hashable` -/
structure SrcBranch where
  /-- the classes of the `isinstance` test as written, normalised (`collections.OrderedDict`, `dict`, `numpy.ndarray`) -/
  tests : List String
  /-- `"numpy"` for `"numpy" in sys.modules and …`, `""` when the branch is not guarded -/
  guard : String
  /-- the payload components in front of the body, `obj.` stripped: `maxlen`, `typecode`, `shape`, `dtype.str`,
      `to_hashable(default_factory)`, `name` -/
  attrs : List String
  body : SrcBody
  /-- the branch returns `(m, tp, payload)` with `m` the marker and `tp` the type tag -/
  tagged : Bool
  deriving DecidableEq, Repr

/-- the part of `to_hashable` in front of the dispatch -/
structure SrcPrelude where
  /-- the value of `_HASH_MARKER` (code points) -/
  marker : List Nat
  /-- the first statement after `m = _HASH_MARKER` is `try: hash(obj) … else: … return obj` -/
  hashFirst : Bool
  /-- the `return obj` is guarded by `not (isinstance(obj, tuple) and obj and isinstance(obj[0], str) and obj[0] == m)` -/
  escape : Bool
  /-- `tp = type(obj)` (replaced by `tp.__name__` only when the class is unhashable) -/
  tpIsType : Bool
  deriving DecidableEq, Repr

/-- `_hashable_iterable`, `_hashable_mapping`, `_cloudpickle_key` -/
structure SrcHelpers where
  /-- `items = sorted(iterable) if sort else iterable` -/
  iterSort : Bool
  /-- `return tuple(to_hashable(item, fb) for item in items)` -/
  iterConv : Bool
  /-- `items = sorted(mapping.items()) if sort else mapping.items()` -/
  mapSort : Bool
  /-- `return tuple((k, to_hashable(v, fb)) for k, v in items)`: the key as it is, the value converted -/
  mapConv : Bool
  /-- `hashlib.md5(cloudpickle.dumps(obj)).hexdigest()` -/
  digestMd5 : Bool
  deriving DecidableEq, Repr

/-- the class names `isinstance(obj, ·)` accepts for an object whose class is exactly `c` (the class and its bases, as
    the translator writes them) -/
def Cls.mro : Cls → List String
  | .tuple => ["tuple"]
  | .list => ["list"]
  | .deque => ["collections.deque"]
  | .set => ["set"]
  | .frozenset => ["frozenset"]
  | .dict => ["dict"]
  | .odict => ["collections.OrderedDict", "dict"]
  | .ddict => ["collections.defaultdict", "dict"]
  | .counter => ["collections.Counter", "dict"]
  | .bytearray => ["bytearray"]
  | .array => ["array.array"]
  | .ndarray => ["numpy.ndarray"]
  | _ => []

/-- Python's `if … return` chain: the first branch whose `isinstance` test accepts an object of class `c` -/
def firstMatch (bs : List SrcBranch) (c : Cls) : Option SrcBranch :=
  bs.find? (fun b => b.tests.any (fun t => c.mro.contains t))

/-- the names of the components that `Kind.wrap` puts in front of the converted children -/
def Kind.attrNames : Kind → List String
  | .deque _ => ["maxlen"]
  | .ddict _ => ["to_hashable(default_factory)"]
  | .array _ => ["typecode"]
  | .ndarray _ _ => ["shape", "dtype.str"]
  | _ => []

/-- … and their values -/
def Kind.attrVals : Kind → List PV
  | .deque ml => [match ml with | none => .atom .none | some n => natAtom n]
  | .ddict f => [.atom f]
  | .array tc => [.atom (.str [tc])]
  | .ndarray sh dt => [tup (sh.map natAtom), .atom (.str dt)]
  | _ => []

/-- the module a guarded branch asks for -/
def Kind.guard : Kind → String
  | .ndarray _ _ => "numpy"
  | _ => ""

/-- what the model does with the children of a `k` (`Kind.mode`, `Kind.sorted`), in the translator's vocabulary -/
def Kind.srcBody (k : Kind) : SrcBody :=
  match k.mode with
  | .elem => .iterable k.sorted
  | .item => .mapping k.sorted
  | .rawItem => .rawItems k.sorted
  | .rawAtom => .rawSeq
  | .leaf => .digest

/-- the branch of the source the model's treatment of `k` corresponds to -/
def Kind.expected (k : Kind) : SrcBranch :=
  { tests := [], guard := k.guard, attrs := k.attrNames, body := k.srcBody, tagged := true }

def SrcBranch.agrees (b e : SrcBranch) : Bool :=
  b.guard = e.guard && b.attrs = e.attrs && b.body = e.body && b.tagged = e.tagged

/-- one representative of every kind that can reach the dispatch (the attributes do not influence `mode`, `sorted`,
    `cls`, `attrNames`).  A `frozenset` never does: it is hashable and cannot be marker-headed (`fset_returned`). -/
def dispatchedKinds : List Kind :=
  [.tuple, .list, .deque none, .set, .dict, .odict, .ddict .none, .counter, .bytearray, .array 0, .ndarray [] []]

/-- Every dispatched kind of the model is sent, by the first matching `isinstance` test of the source, to a branch that
    treats it as the model does (same helper, same `sort` flag, same leading attributes, tagged with `(m, tp, …)`); an
    object of no listed class (`opaque`) reaches no branch and gets the fallback, which is the pickle digest. -/
def dispatchMatchesModel (bs : List SrcBranch) (fallback : SrcBranch) : Bool :=
  dispatchedKinds.all (fun k => match firstMatch bs k.cls with
    | some b => b.agrees k.expected
    | none => false) &&
  (firstMatch bs (.other 0)).isNone && fallback.agrees (Kind.opaque 0 []).expected

/-- the two pandas branches as `Model/HashablePandas.lean` mirrors them: a Series is keyed by `(obj.name,
    to_hashable(obj.to_dict()))` (`seriesKey`: the index labels are the dict keys), a DataFrame by
    `to_hashable(obj.to_dict('list'))` (`frameKey`: the column labels are the dict keys) -/
def pandasExpected : List SrcBranch :=
  [{ tests := ["pandas.Series"], guard := "pandas", attrs := ["name"], body := .recurse "obj.to_dict()", tagged := true },
   { tests := ["pandas.DataFrame"], guard := "pandas", attrs := [], body := .recurse "obj.to_dict('list')", tagged := true }]

/-- each pandas class is tested by exactly one branch of the source, and that branch is the expected one -/
def pandasMatchesModel (bs : List SrcBranch) : Bool :=
  pandasExpected.all (fun e =>
    (match bs.filter (fun b => b.tests.any (fun t => e.tests.contains t)) with
     | [b] => b == e
     | _ => false))

/-- The prelude is the one `key true` mirrors: the marker string, `hash(obj)` first, the marker-headed escape, the class
    object as tag. -/
def preludeMatchesModel (p : SrcPrelude) : Bool :=
  p.marker = marker && p.hashFirst && p.escape && p.tpIsType

/-- The helpers do what `convElems` / `convItems` / `sortIf` assume: sort only when asked, convert every element, keep
    the mapping key and convert the mapping value; the fallback digest is md5 over the cloudpickle bytes. -/
def helpersMatchModel (h : SrcHelpers) : Bool :=
  h.iterSort && h.iterConv && h.mapSort && h.mapConv && h.digestMd5

end PF.Hashable
