import PfModel.Lemmas.Sched
import PfModel.Props.C01
/-!
C03 — Map results and call counts are independent of executor, storage and schedule.

`PF.Sched.runMapSched` is the model of the parallel path of `Pipeline.map`/`map_async`: per generation the submitted
futures (`idsFrom`), an arbitrary order in which their bodies run (`Scheds` — all an executor, a pool, a per-output
executor assignment or the event loop can choose at the granularity of task bodies), worker-side dumps for outputs with
`dump_in_subprocess` (`dumpSub` — all a storage backend contributes to the runner), bodies that read the store *as it is
when they run*, and the parent-side processing that pairs results with indices by submission position.
`PF.Map.runMap` is the sequential runner of C01 (proved equal to the MapSpec denotation there).
-/
namespace PF.C03
open PF PF.Map PF.Sched

/-- **Bridge 1 (reads).** In every generation `Pipeline.map` forms (Kahn layers), no function consumes — through a
    parameter that is not bound — an output of a function of the same generation; and the functions of a generation have
    pairwise disjoint outputs.  Needs only that output names are unique in the pipeline. -/
theorem C03_layer_independent (fs : List MFunc) (huo : UniqueOutputs fs) :
    ∀ gen ∈ generations fs, GenIndep gen ∧ gen.Pairwise fun a b => ∀ o, o ∈ a.outputs → o ∉ b.outputs :=
  generations_props fs huo

/-- **Bridge 2 (reads).** Hence what a task body computes is the same whatever the other bodies of its generation have
    already dumped into the (live) storage arrays it holds. -/
theorem C03_body_reads_earlier (fs : List MFunc) (shapes : List (String × List Nat)) (masks : List (String × List Bool)) (env : Env)
    (gen : List MFunc) (D : Dumps) (f : MFunc) (hf : f ∈ gen) (hind : GenIndep gen) (plan : Plan) (k : Nat) :
    bodyRun fs (viewEnv shapes masks env gen D) f plan k = bodyRun fs env f plan k :=
  bodyRun_view fs shapes masks env gen D f hf hind plan k

/-- **Bridge 3 (writes): distinct tasks own distinct storage cells.** The dump key of task `k` of a mapped function is
    `output_key(external_shape, k) = shapeToKey es k`; distinct indices below `prod es` give distinct keys (ravel
    injectivity), and different functions of a generation have different output names. -/
theorem C03_cells_distinct (es : List Nat) (k k' : Nat) (hk : k < prod es) (hk' : k' < prod es)
    (e : shapeToKey es k = shapeToKey es k') : k = k' := by
  have a := (ravel_key es k hk).1
  have b := (ravel_key es k' hk').1
  rw [e] at a; rw [← a, b]

/-- **Bridge 4 (writes): distinct (task, internal index) pairs own distinct positions of the flat result array**
    (`_set_output` through `ravel_multi_index(select_by_mask …)`), so the parent-side fill is order-free as well. -/
theorem C03_flat_distinct (m : List Bool) (es is : List Nat) (k k' : Nat) (I I' : List Nat)
    (h1 : es.length = nTrue m) (h2 : is.length = nFalse m) (hk : k < prod es) (hk' : k' < prod es)
    (hI : InRange is I) (hI' : InRange is I')
    (e : flatIdx m es is (shapeToKey es k) I = flatIdx m es is (shapeToKey es k') I') : k = k' ∧ I = I' := by
  have r := flat_inj m es is _ _ _ _ h1 h2 (ravel_key es k hk).2 hI (ravel_key es k' hk').2 hI' e
  exact ⟨C03_cells_distinct es k k' hk hk' r.1, r.2⟩

/-- **One generation, every schedule = the sequential runner.** For every order in which the submitted bodies run
    (a permutation of the submitted futures), every assignment of `dump_in_subprocess`, the function results (returned
    arrays, store slots, per-function call lists) are exactly those of the sequential generation step — errors included
    (the first failing future in submission order is the one that surfaces). -/
theorem C03_gen_eq_sequential (fs : List MFunc) (shapes : List (String × List Nat)) (masks : List (String × List Bool))
    (dumpSub : String → Bool) (env : Env) (gen : List MFunc) (order : List TaskId)
    (hperm : order.Perm (idsFrom 0 (planned shapes masks gen)))
    (hind : GenIndep gen) (hdis : gen.Pairwise fun a b => ∀ o, o ∈ a.outputs → o ∉ b.outputs) :
    (runGenSched fs shapes masks dumpSub env gen order).map (·.1) = runGenWith (runFuncWith opArray fs shapes masks) env gen :=
  runGenSched_results fs shapes masks dumpSub env gen order hperm hind hdis

/-- **C03, one generation.** Any two schedules and any two `dump_in_subprocess` assignments give the same results. -/
theorem C03_schedule_independent (fs : List MFunc) (shapes : List (String × List Nat)) (masks : List (String × List Bool))
    (dumpSub dumpSub' : String → Bool) (env : Env) (gen : List MFunc) (order order' : List TaskId)
    (hperm : order.Perm (idsFrom 0 (planned shapes masks gen))) (hperm' : order'.Perm (idsFrom 0 (planned shapes masks gen)))
    (hind : GenIndep gen) (hdis : gen.Pairwise fun a b => ∀ o, o ∈ a.outputs → o ∉ b.outputs) :
    (runGenSched fs shapes masks dumpSub env gen order).map (·.1) = (runGenSched fs shapes masks dumpSub' env gen order').map (·.1) := by
  rw [C03_gen_eq_sequential fs shapes masks dumpSub env gen order hperm hind hdis,
      C03_gen_eq_sequential fs shapes masks dumpSub' env gen order' hperm' hind hdis]

/-- **C03, whole map (lifted over the generations by induction).** For every pipeline with unique output names, all inputs,
    every family of schedules and every `dump_in_subprocess` assignment, the parallel runner returns exactly what the
    sequential runner returns: outputs, stored data, shapes, masks, per-function call lists, generations, or the same error. -/
theorem C03_map_eq_sequential (fs : List MFunc) (inputs : List (String × Val)) (ui : List (String × List Nat))
    (dumpSub : String → Bool) (sched : Scheds) (hs : ValidScheds sched) (huo : UniqueOutputs fs) :
    (runMapSched fs inputs ui dumpSub sched).map (·.1) = runMap fs inputs ui := by
  unfold runMapSched runMap runMapWith
  cases validateInputs fs inputs with
  | error e => rfl
  | ok _ =>
    simp only [bind, Except.bind]
    split
    · rfl
    · cases mapShapes fs inputs (constructInternal fs ui) with
      | error e => rfl
      | ok sm =>
        obtain ⟨shapes, masks⟩ := sm
        have h := runGensSched_results fs shapes masks dumpSub sched hs (generations fs) 0 { inputs := inputs, store := [] }
          (C03_layer_independent fs huo)
        simp only []
        cases hr : runGensSched fs shapes masks dumpSub sched 0 (generations fs) { inputs := inputs, store := [] } with
        | error e =>
          rw [hr] at h; simp only [Except.map] at h
          simp only [← h, Except.map]
        | ok w =>
          obtain ⟨rs, envF, trs⟩ := w
          rw [hr] at h; simp only [Except.map] at h
          simp only [← h, Except.map, pure, Except.pure]

/-- **Executor, storage and schedule independence.** Any two runs of the same pipeline on the same inputs agree. -/
theorem C03_map_schedule_independent (fs : List MFunc) (inputs : List (String × Val)) (ui : List (String × List Nat))
    (dumpSub dumpSub' : String → Bool) (sched sched' : Scheds) (hs : ValidScheds sched) (hs' : ValidScheds sched')
    (huo : UniqueOutputs fs) :
    (runMapSched fs inputs ui dumpSub sched).map (·.1) = (runMapSched fs inputs ui dumpSub' sched').map (·.1) := by
  rw [C03_map_eq_sequential fs inputs ui dumpSub sched hs huo, C03_map_eq_sequential fs inputs ui dumpSub' sched' hs' huo]

/-- … and (with C01) every such run returns the MapSpec denotation. -/
theorem C03_map_eq_denotation (fs : List MFunc) (inputs : List (String × Val)) (ui : List (String × List Nat))
    (dumpSub : String → Bool) (sched : Scheds) (hs : ValidScheds sched) (huo : UniqueOutputs fs) :
    (runMapSched fs inputs ui dumpSub sched).map (·.1) = specMap fs inputs ui := by
  rw [C03_map_eq_sequential fs inputs ui dumpSub sched hs huo]; exact PF.C01.C01_map_eq_denotation fs inputs ui


/-! ### once per index, barrier, single dump -/

/-- a successful whole run is a successful run of the generation loop -/
theorem runMapSched_ok (fs : List MFunc) (inputs : List (String × Val)) (ui : List (String × List Nat))
    (dumpSub : String → Bool) (sched : Scheds) (res : MapResult) (trs : List GenTrace)
    (h : runMapSched fs inputs ui dumpSub sched = .ok (res, trs)) :
    ∃ shapes masks rs env, runGensSched fs shapes masks dumpSub sched 0 (generations fs) { inputs := inputs, store := [] }
      = .ok (rs, env, trs) ∧ res.calls = rs.flatMap (·.calls) := by
  unfold runMapSched at h
  simp only [bind, Except.bind] at h
  split at h
  · cases h
  · split at h
    · cases h
    · split at h
      · cases h
      · next sm _ =>
        obtain ⟨shapes, masks⟩ := sm
        simp only at h
        split at h
        · cases h
        · next w hw =>
          obtain ⟨rs, env, trs'⟩ := w
          simp only [pure, Except.pure, Except.ok.injEq, Prod.mk.injEq] at h
          obtain ⟨rfl, rfl⟩ := h
          exact ⟨shapes, masks, rs, env, hw, rfl⟩

/-- **Once (one generation).** Under every schedule every submitted task body runs exactly once: the bodies that ran are
    a permutation of the submitted futures, which are pairwise distinct and are exactly one per external index `k < n` of
    each mapped function and one for each un-mapped function. -/
theorem C03_once (fs : List MFunc) (shapes : List (String × List Nat)) (masks : List (String × List Bool))
    (dumpSub : String → Bool) (env : Env) (gen : List MFunc) (order : List TaskId)
    (hperm : order.Perm (idsFrom 0 (planned shapes masks gen))) (hind : GenIndep gen)
    (rs : List FuncResult) (tr : GenTrace) (h : runGenSched fs shapes masks dumpSub env gen order = .ok (rs, tr)) :
    tr.ran.Perm tr.ids ∧ tr.ids.Nodup ∧ tr.ran.Nodup ∧
    ∀ j k, (j, k) ∈ tr.ran ↔ ∃ f, gen[j]? = some f ∧ k < nFut (planOf shapes masks f) := by
  obtain ⟨hi, hr, _, _⟩ := runGenSched_trace fs shapes masks dumpSub env gen order hperm hind rs tr h
  rw [hi, hr]
  refine ⟨hperm, idsFrom_nodup _ 0, hperm.nodup_iff.mpr (idsFrom_nodup _ 0), ?_⟩
  intro j k
  rw [hperm.mem_iff, mem_ids_iff_valid]
  simp only [validId, planned, List.getElem?_map, Option.map_eq_some_iff]
  constructor
  · rintro ⟨fp, ⟨f, hf, rfl⟩, hlt⟩; exact ⟨f, hf, hlt⟩
  · rintro ⟨f, hf, hlt⟩; exact ⟨_, ⟨f, hf, rfl⟩, hlt⟩

/-- **Once (whole run).** In every successful run, for every family of schedules, the bodies that ran in each generation
    are a permutation of that generation's submitted futures, without repetition. -/
theorem C03_once_map (fs : List MFunc) (inputs : List (String × Val)) (ui : List (String × List Nat))
    (dumpSub : String → Bool) (sched : Scheds) (hs : ValidScheds sched) (huo : UniqueOutputs fs)
    (res : MapResult) (trs : List GenTrace) (h : runMapSched fs inputs ui dumpSub sched = .ok (res, trs)) :
    ∀ tr ∈ trs, tr.ran.Perm tr.ids ∧ tr.ids.Nodup ∧ tr.ran.Nodup := by
  obtain ⟨shapes, masks, rs, env, hg, _⟩ := runMapSched_ok fs inputs ui dumpSub sched res trs h
  refine runGensSched_traces (fun tr => tr.ran.Perm tr.ids ∧ tr.ids.Nodup ∧ tr.ran.Nodup) GenIndep fs shapes masks dumpSub sched ?_
    (generations fs) 0 _ _ (fun gen hgen => (C03_layer_independent fs huo gen hgen).1) hg
  intro g env gen rs tr hq hrun
  obtain ⟨a, b, c, _⟩ := C03_once fs shapes masks dumpSub env gen _ (hs g _) hq rs tr hrun
  exact ⟨a, b, c⟩

/-- **Once per index, as a call multiset.** The calls actually executed, in whatever order the schedules produce, are a
    permutation of the call list of the run — which `C03_map_eq_sequential` identifies with the sequential runner's: one call
    per external index of every mapped function (C01_once_per_index), one per un-mapped function, each with the arguments
    selected from the *complete* arrays of the earlier generations. -/
theorem C03_calls_perm (fs : List MFunc) (inputs : List (String × Val)) (ui : List (String × List Nat))
    (dumpSub : String → Bool) (sched : Scheds) (hs : ValidScheds sched) (huo : UniqueOutputs fs)
    (res : MapResult) (trs : List GenTrace) (h : runMapSched fs inputs ui dumpSub sched = .ok (res, trs)) :
    (trs.flatMap (·.calls)).Perm res.calls := by
  obtain ⟨shapes, masks, rs, env, hg, hc⟩ := runMapSched_ok fs inputs ui dumpSub sched res trs h
  rw [hc]
  exact runGensSched_calls_perm fs shapes masks dumpSub sched hs (generations fs) 0 _ _
    (fun gen hgen => (C03_layer_independent fs huo gen hgen).1) hg

/-- **Barrier.** In the execution log of every successful run, every body of generation `g+1` is preceded by (the
    completion of) every submitted task of generation `g` — for every family of schedules. -/
theorem C03_barrier (fs : List MFunc) (inputs : List (String × Val)) (ui : List (String × List Nat))
    (dumpSub : String → Bool) (sched : Scheds) (hs : ValidScheds sched) (huo : UniqueOutputs fs)
    (res : MapResult) (trs : List GenTrace) (h : runMapSched fs inputs ui dumpSub sched = .ok (res, trs))
    (g : Nat) (id : TaskId) (l1 l2 : List (Nat × TaskId)) (hlog : runLog 0 trs = l1 ++ (g + 1, id) :: l2)
    (tr : GenTrace) (htr : trs[g]? = some tr) : ∀ id' ∈ tr.ids, (g, id') ∈ l1 := by
  intro id' hid'
  have hp := (C03_once_map fs inputs ui dumpSub sched hs huo res trs h tr (List.mem_of_getElem? htr)).1
  exact runLog_barrier trs 0 g id l1 l2 hlog (Nat.zero_le _) tr (by simpa using htr) id' (hp.mem_iff.mpr hid')

/-- **Single dump.** For either value of `dump_in_subprocess` of an output's storage, the element `(o, k)` of a mapped
    function is dumped exactly once by its own task: by the worker body iff `dump_in_subprocess`, else by the parent when it
    processes index `k` (no other task or index owns the cell: `C03_cells_distinct`, disjoint outputs). -/
theorem C03_single_dump (dumpSub : String → Bool) (f : MFunc) (ms : MSpec) (sh : List Nat) (mk : List Bool) (k : Nat) (a : Args)
    (o : String) (ho : o ∈ f.outputs) (hnd : f.outputs.Nodup) :
    let evs := workerEvs (workerDumps dumpSub f (.mapped ms sh mk) k (.ok a)) ++ parentDumpsAt dumpSub f k
    (evs.map (·.out)).count o = 1 ∧ { out := o, idx := some k, inWorker := dumpSub o } ∈ evs ∧ ∀ d ∈ evs, d.idx = some k := by
  have hc : f.outputs.count o = 1 := by rw [hnd.count]; simp [ho]
  have hm : (workerEvs (workerDumps dumpSub f (.mapped ms sh mk) k (.ok a)) ++ parentDumpsAt dumpSub f k).map (·.out)
      = f.outputs.filter dumpSub ++ f.outputs.filter (fun o => !dumpSub o) := by
    simp [workerEvs, workerDumps, parentDumpsAt, Function.comp_def]
  refine ⟨?_, ?_, ?_⟩
  · rw [hm, List.count_append]
    by_cases hs : dumpSub o = true
    · have c1 : (f.outputs.filter dumpSub).count o = 1 := by rw [List.count_filter hs, hc]
      have c2 : (f.outputs.filter (fun o => !dumpSub o)).count o = 0 :=
        List.count_eq_zero_of_not_mem (by simp [hs])
      rw [c1, c2]
    · have c1 : (f.outputs.filter dumpSub).count o = 0 := List.count_eq_zero_of_not_mem (by simp [hs])
      have c2 : (f.outputs.filter (fun o => !dumpSub o)).count o = 1 := by
        rw [List.count_filter (by simp [hs]), hc]
      rw [c1, c2]
  · by_cases hs : dumpSub o = true
    · apply List.mem_append_left
      simp only [workerEvs, workerDumps, List.map_map, List.mem_map, List.mem_filter, Function.comp_def]
      exact ⟨o, ⟨ho, hs⟩, by simp [hs]⟩
    · apply List.mem_append_right
      simp only [parentDumpsAt, List.mem_map, List.mem_filter]
      exact ⟨o, ⟨ho, by simp [hs]⟩, by simp [hs]⟩
  · intro d hd
    rcases List.mem_append.mp hd with h | h
    · simp only [workerEvs, workerDumps, List.map_map, List.mem_map, Function.comp_def] at h
      obtain ⟨_, _, rfl⟩ := h; rfl
    · simp only [parentDumpsAt, List.mem_map] at h
      obtain ⟨_, _, rfl⟩ := h; rfl


/-! ### non-vacuity: a concrete pipeline, a non-trivial schedule, the hypotheses hold and the run succeeds -/

private def el (n : String) (ins : List String) (out : String) : MFunc :=
  { name := n, params := ins.map fun p => (p, p), outputs := [out],
    mapspec := some { inputs := ins.map fun p => ⟨p, [some "i"]⟩, outputs := [⟨out, [some "i"]⟩] },
    ret := none, internal := none, defaults := [], bound := [] }

/-- `g` zips the results of `f` and `h`, which share a generation; listed consumer first -/
private def exFs : List MFunc := [el "g" ["y", "w"] "z", el "f" ["x"] "y", el "h" ["x"] "w"]
private def exIn : List (String × Val) := [("x", .arr [2] [.int 1, .int 2])]
/-- every generation completes in the reverse of its submission order -/
private def revSched : Scheds := fun _ ids => ids.reverse

example : UniqueOutputs exFs := by
  simp [UniqueOutputs, exFs, el]
example : ValidScheds revSched := fun _ ids => List.reverse_perm ids
/-- the run succeeds, the bodies ran in the reversed order, `y` was dumped by the workers and `w`, `z` by the parent -/
example : ((runMapSched exFs exIn [] (fun o => o == "y") revSched).toOption.map fun r => r.2.map (·.ran)) =
    some [[(1, 1), (1, 0), (0, 1), (0, 0)], [(0, 1), (0, 0)]] := by decide
example : ((runMapSched exFs exIn [] (fun o => o == "y") revSched).toOption.map fun r => r.2.map fun tr => tr.dumps.map fun d => (d.out, d.idx, d.inWorker)) =
    some [[("y", some 1, true), ("y", some 0, true), ("w", some 0, false), ("w", some 1, false)],
          [("z", some 0, false), ("z", some 1, false)]] := by decide
/-- the execution-order call log of that run: `h` before `f`, index 1 before index 0 -/
example : ((runMapSched exFs exIn [] (fun o => o == "y") revSched).toOption.map fun r => r.2.flatMap fun tr => tr.calls.map (·.name)) =
    some ["h", "h", "f", "f", "g", "g"] := by decide
/-- a "schedule" that drops a submitted task is not covered: the parent waits for a future that never resolves -/
example : (runMapSched exFs exIn [] (fun _ => false) (fun _ ids => ids.drop 1)).toOption.isNone = true := by decide
/-- `GenIndep` is not vacuous: it fails for a "generation" that contains a consumer of its own output -/
example : ¬ GenIndep [el "f" ["x"] "y", el "g" ["y"] "z"] := by
  intro h
  exact h (el "g" ["y"] "z") (by simp) (el "f" ["x"] "y") (by simp) "y" (by simp [el]) (by simp [el, alookup]) (by simp [el])

end PF.C03

