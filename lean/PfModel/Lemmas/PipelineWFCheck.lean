import PfModel.Lemmas.PipelineLog
/-! A decidable certificate checker for the well-formedness hypothesis `WFp fs rank` of the C02 theorems: `rank` given as
an association list, the three conjuncts checked by `Bool` functions over the function list (no equality on `Func` or
`Val` needed).  Helper for `Props/C02WF.lean`. -/
namespace PF.Pipe
open PF

/-- no two positions carry the same function name -/
def namesDistinctB : List Func → Bool
  | [] => true
  | f :: r => r.all (fun g => g.name != f.name) && namesDistinctB r

/-- no two positions share an output name (`validate_unique_output_names`) -/
def outsDisjointB : List Func → Bool
  | [] => true
  | f :: r => r.all (fun g => f.outputs.all (fun o => !(g.outputs.contains o))) && outsDisjointB r

/-- the rank read off a certificate (0 for an unlisted name) -/
def certRank (cert : List (String × Nat)) (nm : String) : Nat := (alookup cert nm).getD 0

/-- every dependency edge (unbound parameter produced upstream) goes down in rank -/
def edgesDownB (fs : List Func) (cert : List (String × Nat)) : Bool :=
  fs.all fun f => f.params.all fun p =>
    (alookup f.bound p.1).isSome ||
      match producer fs p.1 with
      | none => true
      | some g => decide (certRank cert g.name < certRank cert f.name)

def wfCertB (fs : List Func) (cert : List (String × Nat)) : Bool :=
  namesDistinctB fs && outsDisjointB fs && edgesDownB fs cert

/-- the certificate a rank function induces on a list -/
def certOf (fs : List Func) (rank : String → Nat) : List (String × Nat) := fs.map fun f => (f.name, rank f.name)

theorem namesDistinctB_sound : ∀ (fs : List Func), namesDistinctB fs = true →
    ∀ f ∈ fs, ∀ g ∈ fs, f.name = g.name → f = g := by
  intro fs
  induction fs with
  | nil => intro _ f hf; cases hf
  | cons a r ih =>
    intro h f hf g hg e
    simp only [namesDistinctB, Bool.and_eq_true, List.all_eq_true, bne_iff_ne, ne_eq] at h
    rcases List.mem_cons.mp hf with rfl | hf' <;> rcases List.mem_cons.mp hg with rfl | hg'
    · rfl
    · exact absurd e.symm (h.1 g hg')
    · exact absurd e (h.1 f hf')
    · exact ih h.2 f hf' g hg' e

theorem outsDisjointB_sound : ∀ (fs : List Func), outsDisjointB fs = true → UniqueOut fs := by
  intro fs
  induction fs with
  | nil => intro _ f hf; cases hf
  | cons a r ih =>
    intro h f hf g hg o hof hog
    simp only [outsDisjointB, Bool.and_eq_true, List.all_eq_true, Bool.not_eq_true', List.contains_eq_mem,
      decide_eq_false_iff_not] at h
    rcases List.mem_cons.mp hf with rfl | hf' <;> rcases List.mem_cons.mp hg with rfl | hg'
    · rfl
    · exact absurd hog (h.1 g hg' o hof)
    · exact absurd hof (h.1 f hf' o hog)
    · exact ih h.2 f hf' g hg' o hof hog

theorem edgesDownB_sound (fs : List Func) (cert : List (String × Nat)) (h : edgesDownB fs cert = true) :
    ∀ f ∈ fs, ∀ p ∈ f.params, ∀ g, producer fs p.1 = some g → alookup f.bound p.1 = none →
      certRank cert g.name < certRank cert f.name := by
  intro f hf p hp g hg hb
  simp only [edgesDownB, List.all_eq_true, Bool.or_eq_true] at h
  have := h f hf p hp
  rw [hb, hg] at this
  simpa using this

theorem edgesDownB_complete (fs : List Func) (cert : List (String × Nat))
    (h : ∀ f ∈ fs, ∀ p ∈ f.params, ∀ g, producer fs p.1 = some g → alookup f.bound p.1 = none →
      certRank cert g.name < certRank cert f.name) : edgesDownB fs cert = true := by
  simp only [edgesDownB, List.all_eq_true, Bool.or_eq_true]
  intro f hf p hp
  cases hb : alookup f.bound p.1 with
  | some v => left; rfl
  | none =>
    right
    cases hg : producer fs p.1 with
    | none => rfl
    | some g => simpa using h f hf p hp g hg hb

theorem wfCertB_sound (fs : List Func) (cert : List (String × Nat)) (h : wfCertB fs cert = true) :
    WFp fs (certRank cert) := by
  simp only [wfCertB, Bool.and_eq_true] at h
  exact ⟨namesDistinctB_sound fs h.1.1, outsDisjointB_sound fs h.1.2, edgesDownB_sound fs cert h.2⟩

/-- on the names of the list the induced certificate reads back the rank, when names identify functions -/
theorem certRank_certOf (fs : List Func) (rank : String → Nat) (f : Func) (hf : f ∈ fs) :
    certRank (certOf fs rank) f.name = rank f.name := by
  induction fs with
  | nil => cases hf
  | cons a r ih =>
    simp only [certOf, List.map_cons, certRank, alookup]
    split
    · next e => simp [e]
    · next ne =>
      rcases List.mem_cons.mp hf with rfl | hf'
      · exact absurd rfl ne
      · exact ih hf'

end PF.Pipe
