import PfModel.Lemmas.MapRefusal
import PfModel.Lemmas.MapPiecesFlowWF
/-!
C01, round 9 — the hypothesis `RequestOK → DescOK` of `C01_never_refused_iff` / `C01_refused_iff`, discharged for a syntactic class.

`DescOK` (Lemmas/MapRefusal.lean) is stated against the declared shape table and was only *evaluated* per case.  Here it is split:

* `InClass fs inputs` — a decidable, table-free description of the pipelines and inputs the generators produce (and pipefunc's
  constructors accept): unique function and output names, one axis naming per array, per function what `MapSpec.__post_init__` /
  `PipeFunc` / `Pipeline` enforce, no index name twice in one input ArraySpec, distinct input keys, array values holding
  `prod shape` elements, a default declared for a mapped root is a well-formed array of the shape of the value that is used;
* `ReturnsDeclared fs inputs ui` — the residual: every function called once whose output the table records returns arrays of exactly
  the recorded shape, every mapped function with internal axes returns arrays of exactly its internal shape.

`descOK_eq_returnsDeclared`: inside the class, on a request that passes the five request checks, `DescOK = ReturnsDeclared`.
Everything else in `DescOK` (`mappedTyped` for every mapped function, `valuesTyped` for inputs and defaults, the non-`ret` part of
`constructible`, including `consistentAxes`) FOLLOWS from `RequestOK`.
-/
namespace PF.C01
open PF PF.Map PF.Validate PF.Pieces

/-! ### the class -/

/-- an array value holds `prod shape` elements (every ndarray does) -/
def wfArr : Val → Bool
  | .arr s es => es.length == prod s
  | _ => true

/-- no index name occurs twice in one ArraySpec: every named axis is the first occurrence of its name -/
def firstOcc (axes : List (Option String)) : Bool :=
  (List.range axes.length).all fun i =>
    match axes[i]? with
    | some (some n) => idxOf axes n == some i
    | _ => true

/-- what the constructors enforce for one function (`MapSpec.__post_init__` `map/_mapspec.py:115-129`: outputs fully indexed with
    identical indices, input indices ⊆ output indices; `PipeFunc._validate_mapspec`: MapSpec outputs are the outputs, MapSpec inputs are
    parameters; `_validate_bound`-style: a mapped parameter is not bound) plus: no index name twice in one input ArraySpec -/
def funcStatic (f : MFunc) : Bool :=
  !f.outputs.isEmpty &&
  match f.mapspec with
  | none => true
  | some ms =>
    ms.outputs.map (·.name) == f.outputs
    && ms.outputs.all (fun o => o.axes.all Option.isSome && o.axes == (ms.outputs.headD default).axes)
    && ms.inputs.all (fun a => f.params.any (·.1 = a.name))
    && ms.inputs.all (fun a => (alookup f.bound a.name).isNone
          && (a.axes.filterMap id).all (fun n => ms.outputIndices.contains n)
          && firstOcc a.axes)

/-- **the syntactic class**: no shape table, no run — only the description and the keys / well-formedness of the given values -/
def InClass (fs : List MFunc) (inputs : List (String × Val)) : Bool :=
  nodupB (fs.map (·.name)) && nodupB (allOutputs fs) && consistentAxes fs && fs.all funcStatic
  && nodupB (akeys inputs) && inputs.all (fun kv => wfArr kv.2)
  && (pdefaults fs).all (fun kv => !(mapspecNames fs).contains kv.1
        || (wfArr kv.2 && (alookup (inputs ++ pdefaults fs) kv.1).bind shapeOf == shapeOf kv.2))

/-- one function returns what it declares -/
def retOK (Γ : Tbl) (f : MFunc) : Bool :=
  match runsMapped f with
  | none => singleTyped Γ f
  | some _ =>
    match f.outputs.head?.bind (alookup Γ) with
    | some e => e.2.all id || decide (f.ret = some (intOf e.2 e.1))
    | none => true

/-- **the residual of `DescOK`**: the functions return arrays of the shapes the table declares -/
def ReturnsDeclared (fs : List MFunc) (inputs : List (String × Val)) (ui : List (String × List Nat)) : Bool :=
  fs.all (retOK (declTbl fs inputs ui))

/-! ### tables -/

theorem stepTbl_preserved (internal : List (String × List Nat)) (t : Tbl) (f : MFunc) (x : String) (e : List Nat × List Bool)
    (h : alookup t x = some e) : alookup (stepTbl internal t f) x = some e := by
  unfold stepTbl
  split
  · exact h
  · rw [alookup_append, h]

/-- `tblFrom_lookup` (C06) with the table `t'` the function was typed against: a prefix of the final table on which `stepOK` held -/
theorem tblFrom_lookup2 (internal : List (String × List Nat)) : ∀ (l : List MFunc) (t : Tbl), l.Pairwise Disj →
    shapesOK internal l t = true → ∀ g ∈ l, (∀ o ∈ g.outputs, alookup t o = none) →
    ∃ t', stepOK internal t' g = true ∧ (∀ x e, alookup t' x = some e → alookup (tblFrom internal l t) x = some e) ∧
      ∀ o ∈ g.outputs, alookup (tblFrom internal l t) o = g.mapspec.map (fun ms => funcShape ms t' internal) := by
  intro l
  induction l with
  | nil => intro t _ _ g hg; cases hg
  | cons f rest ih =>
    intro t hp hs g hg ht
    obtain ⟨h1, h2⟩ := List.pairwise_cons.mp hp
    simp only [shapesOK, Bool.and_eq_true] at hs
    rcases List.mem_cons.mp hg with rfl | hg'
    · refine ⟨t, hs.1, ?_, fun o ho => ?_⟩
      · intro x e hx
        simp only [tblFrom, List.foldl_cons]
        exact tblFrom_preserved internal rest _ x e (stepTbl_preserved internal t g x e hx)
      · simp only [tblFrom, List.foldl_cons]
        cases hm : g.mapspec with
        | none =>
          have : stepTbl internal t g = t := by unfold stepTbl; rw [hm]
          rw [this]
          exact tblFrom_none internal rest t o (ht o ho) (fun b hb hob => h1 b hb o ho hob)
        | some ms =>
          apply tblFrom_preserved
          unfold stepTbl
          rw [hm]
          rw [alookup_append, ht o ho]
          simp only []
          rw [alookup_const_map, if_pos ho]
    · obtain ⟨t', a1, a2, a3⟩ := ih (stepTbl internal t f) h2 hs.2 g hg' (by
        intro o ho
        unfold stepTbl
        split
        · exact ht o ho
        · rw [alookup_append, ht o ho]
          simp only []
          rw [alookup_const_map, if_neg (fun hf => h1 g hg' o hf ho)])
      exact ⟨t', a1, a2, a3⟩

/-- the root table records only MapSpec names -/
theorem foldl_rootStep_none_of_not_mapspec (fs : List MFunc) (inputs : List (String × Val)) (p : String)
    (hp : (mapspecNames fs).contains p = false) :
    ∀ (l : List String) (t : Tbl), alookup t p = none → alookup (l.foldl (rootStep fs inputs) t) p = none := by
  intro l
  induction l with
  | nil => intro t h; exact h
  | cons q l ih =>
    intro t ht
    rw [List.foldl_cons]
    apply ih
    unfold rootStep
    split
    · next hq =>
      split
      · rw [alookup_append, ht]
        simp only [alookup]
        rw [if_neg]
        intro e
        subst e
        rw [hq] at hp
        cases hp
      · exact ht
    · exact ht

/-- what the root table records is the shape of the given value -/
theorem foldl_rootStep_some (fs : List MFunc) (inputs : List (String × Val)) (p : String) (e : List Nat × List Bool) :
    ∀ (l : List String) (t : Tbl), alookup (l.foldl (rootStep fs inputs) t) p = some e →
      alookup t p = some e ∨ ∃ sh, (alookup (inputs ++ pdefaults fs) p).bind shapeOf = some sh ∧ e = (sh, sh.map fun _ => true) := by
  intro l
  induction l with
  | nil => intro t h; exact Or.inl h
  | cons q l ih =>
    intro t h
    rw [List.foldl_cons] at h
    rcases ih _ h with h' | h'
    · unfold rootStep at h'
      split at h'
      · split at h'
        · next sh hsh =>
          rw [alookup_append] at h'
          cases ht : alookup t p with
          | some v => rw [ht] at h'; exact Or.inl (by simpa using h')
          | none =>
            rw [ht] at h'
            simp only [alookup] at h'
            split at h'
            · next hqp =>
              subst hqp
              right
              exact ⟨sh, hsh, by simpa using h'.symm⟩
            · cases h'
        · exact Or.inl h'
      · exact Or.inl h'
    · exact Or.inr h'

theorem rootArg_not_output (fs : List MFunc) (p : String) (hp : p ∈ rootArgs fs) (f : MFunc) (hf : f ∈ fs) : p ∉ f.outputs := by
  intro ho
  obtain ⟨h, hh⟩ := flow_producer_isSome fs f hf p ho
  rw [flow_rootArgs_producer fs p hp] at hh
  cases hh

/-- the final table on a root argument is the root table -/
theorem declTbl_root (fs : List MFunc) (inputs : List (String × Val)) (ui : List (String × List Nat)) (p : String)
    (hp : p ∈ rootArgs fs) : alookup (declTbl fs inputs ui) p = alookup (rootTbl fs inputs) p := by
  unfold declTbl
  cases h : alookup (rootTbl fs inputs) p with
  | some e => exact tblFrom_preserved _ _ _ p e h
  | none =>
    apply tblFrom_none _ _ _ p h
    intro f hf
    exact rootArg_not_output fs p hp f (flow_mem_layers_flatten fs _ _ _ f hf)

theorem alookup_of_mem_nodup {β} : ∀ (l : List (String × β)) (k : String) (v : β), nodupB (akeys l) = true → (k, v) ∈ l →
    alookup l k = some v := by
  intro l
  induction l with
  | nil => intro k v _ h; cases h
  | cons e l ih =>
    intro k v hn hm
    obtain ⟨k0, v0⟩ := e
    simp only [akeys, List.map_cons, nodupB, Bool.and_eq_true, Bool.not_eq_eq_eq_not, Bool.not_true, List.contains_eq_mem,
      decide_eq_false_iff_not] at hn
    simp only [alookup]
    rcases List.mem_cons.mp hm with h | h
    · cases h; simp
    · have hne : k0 ≠ k := by
        intro e
        subst e
        exact hn.1 (List.mem_map.mpr ⟨(k0, v), h, rfl⟩)
      rw [if_neg hne]
      exact ih k v hn.2 h

/-! ### shapes: the external shape `MapSpec.shape` records -/

theorem goTot_ext (ms : MSpec) (S : List (String × List Nat)) (ish : List Nat) : ∀ (axes : List String) (k : Nat),
    extOf (goTot ms S ish axes k).2 (goTot ms S ish axes k).1 =
      (axes.filter fun ix => ms.inputIndices.contains ix).map fun ix => (outDims ms S ix).headD 0 := by
  intro axes
  induction axes with
  | nil => intro k; simp [goTot, extOf]
  | cons ix rest ih =>
    intro k
    simp only [goTot]
    cases hd : outDims ms S ix with
    | nil =>
      have hn := (outDims_nil_iff ms S ix).mp hd
      simp only [extOf, ih (k + 1), List.filter_cons, List.contains_eq_mem, hn, decide_false]
      simp
    | cons d ds =>
      have hn : ix ∈ ms.inputIndices := by
        apply Classical.byContradiction
        intro h
        rw [(outDims_nil_iff ms S ix).mpr h] at hd
        cases hd
      simp only [extOf, ih k, List.filter_cons, List.contains_eq_mem, hn, decide_true]
      simp [hd]

theorem axesOK_intro (ms : MSpec) (es : List Nat) : ∀ (ax : List (Option String)) (shp : List Nat), ax.length = shp.length →
    (∀ (i : Nat) n d, ax[i]? = some (some n) → shp[i]? = some d →
      ∃ q, ms.externalIndices.findIdx? (· = n) = some q ∧ q < es.length ∧ es.getD q 0 = d) →
    axesOK ms es ax shp = true := by
  intro ax
  induction ax with
  | nil =>
    intro shp hl _
    cases shp with
    | nil => rfl
    | cons _ _ => simp at hl
  | cons a ax ih =>
    intro shp hl h
    cases shp with
    | nil => simp at hl
    | cons d shp =>
      have htail : axesOK ms es ax shp = true := by
        apply ih shp (by simpa using hl)
        intro i n d' ha hd
        exact h (i + 1) n d' (by simpa using ha) (by simpa using hd)
      cases a with
      | none => simpa only [axesOK] using htail
      | some n =>
        obtain ⟨q, hq, hlt, hd⟩ := h 0 n d rfl rfl
        simp only [axesOK, hq, htail, Bool.and_true, Bool.and_eq_true, decide_eq_true_eq, beq_iff_eq]
        exact ⟨hlt, hd⟩

theorem firstOcc_idx (axes : List (Option String)) (h : firstOcc axes = true) (i : Nat) (n : String)
    (hi : axes[i]? = some (some n)) : idxOf axes n = some i := by
  unfold firstOcc at h
  have hlt : i < axes.length := by
    cases hh : decide (i < axes.length) with
    | true => simpa using hh
    | false =>
      have : axes.length ≤ i := by simpa using hh
      rw [List.getElem?_eq_none this] at hi
      cases hi
  have := List.all_eq_true.mp h i (List.mem_range.mpr hlt)
  rw [hi] at this
  simpa using this

/-! ### a mapped function is typed against the final table -/

theorem extShape_eq (ms : MSpec) (t : Tbl) (internal : List (String × List Nat)) :
    extOf (funcShape ms t internal).2 (funcShape ms t internal).1 =
      ms.externalIndices.map fun ix => (outDims ms (shapesOf t) ix).headD 0 := by
  unfold funcShape MSpec.externalIndices
  exact goTot_ext ms _ _ _ 0

/-- **`mappedTyped` follows from `stepOK`**: a function whose MapSpec passed `MapSpec.shape` on the table so far (`t`, a prefix of
    the final table `Γ`), whose outputs are recorded with that shape, and which satisfies the static clauses -/
theorem mappedTyped_of_step (internal : List (String × List Nat)) (t Γ : Tbl) (f : MFunc) (ms : MSpec)
    (hpre : ∀ x e, alookup t x = some e → alookup Γ x = some e)
    (hout : ∀ o ∈ f.outputs, alookup Γ o = some (funcShape ms t internal))
    (hstep : stepOK internal t f = true) (hm : f.mapspec = some ms) (hne : f.outputs.isEmpty = false)
    (hst : (ms.inputs.all fun a => (alookup f.bound a.name).isNone
          && (a.axes.filterMap id).all (fun n => ms.outputIndices.contains n) && firstOcc a.axes) = true) :
    mappedTyped Γ f ms = true := by
  unfold mappedTyped
  cases ho : f.outputs with
  | nil => rw [ho] at hne; cases hne
  | cons o os =>
    have hoΓ := hout o (by rw [ho]; exact List.mem_cons_self)
    simp only [List.head?_cons, hoΓ]
    have hmask := goTot_mask ms (shapesOf t) ((ishOf ms internal).getD []) ms.outputIndices 0
    rw [stepOK_eq, hm] at hstep
    simp only [Bool.and_eq_true] at hstep
    obtain ⟨hin, hgo⟩ := hstep
    rw [Bool.and_eq_true, Bool.and_eq_true]
    refine ⟨⟨?_, ?_⟩, ?_⟩
    · unfold funcShape
      rw [hmask.1, hmask.2]
      simp
    · rw [List.all_eq_true]
      intro a ha
      have hsa := List.all_eq_true.mp hst a ha
      simp only [Bool.and_eq_true] at hsa
      obtain ⟨⟨hb, hidx⟩, hfo⟩ := hsa
      rw [hb, Bool.true_and]
      have hia := List.all_eq_true.mp hin a ha
      unfold inputOK at hia
      cases hS : alookup (shapesOf t) a.name with
      | none => rw [hS] at hia; cases hia
      | some sh =>
        rw [hS] at hia
        have hlen : sh.length = a.axes.length := by simpa using hia
        rw [alookup_shapesOf] at hS
        cases hta : alookup t a.name with
        | none => rw [hta] at hS; cases hS
        | some ea =>
          rw [hta] at hS
          simp only [Option.map_some, Option.some.injEq] at hS
          rw [hpre _ _ hta]
          simp only []
          apply axesOK_intro
          · rw [hS, hlen]
          · intro i n d hi hd
            have hnf : n ∈ a.axes.filterMap id := List.mem_filterMap.mpr ⟨some n, List.mem_of_getElem? hi, rfl⟩
            have hnout : n ∈ ms.outputIndices := by
              have := List.all_eq_true.mp hidx n hnf
              simpa using this
            have hnin : n ∈ ms.inputIndices := List.mem_flatMap.mpr ⟨a, ha, hnf⟩
            have hnext : n ∈ ms.externalIndices := by
              unfold MSpec.externalIndices
              exact List.mem_filter.mpr ⟨hnout, by simpa using hnin⟩
            cases hq : ms.externalIndices.findIdx? (· = n) with
            | none =>
              rw [List.findIdx?_eq_none_iff] at hq
              have := hq n hnext
              simp at this
            | some q =>
              obtain ⟨hlt, hp, _⟩ := List.findIdx?_eq_some_iff_getElem.mp hq
              simp only [decide_eq_true_eq] at hp
              refine ⟨q, rfl, ?_, ?_⟩
              · rw [extShape_eq, List.length_map]; exact hlt
              · rw [extShape_eq]
                simp only [List.getD, List.getElem?_map, List.getElem?_eq_getElem hlt, Option.map_some, Option.getD_some, hp]
                -- the size of `a` along position `i` is one of the sizes the inputs give to `n`
                have hidxn : idxOf a.axes n = some i := firstOcc_idx a.axes hfo i n hi
                have hmem : d ∈ outDims ms (shapesOf t) n := by
                  unfold outDims
                  rw [List.mem_filterMap]
                  refine ⟨a, ha, ?_⟩
                  rw [hidxn]
                  simp only [Option.some.injEq]
                  rw [alookup_shapesOf, hta]
                  simp only [Option.map_some, Option.getD_some, List.getD]
                  rw [hd]
                  rfl
                cases hod : outDims ms (shapesOf t) n with
                | nil => rw [hod] at hmem; cases hmem
                | cons d0 ds =>
                  simp only [List.headD_cons]
                  exact goOK_zipped ms (shapesOf t) _ _ 0 hgo n hnout d0 (by rw [hod]; exact List.mem_cons_self) d hmem
    · rw [List.all_eq_true]
      intro o' ho'
      rw [hout o' (by rw [ho]; exact ho')]
      simp

/-! ### the split of `DescOK` -/

theorem mem_rootArgs_of_noSurplus (fs : List MFunc) (inputs : List (String × Val)) (h : noSurplus fs inputs = true) (k : String)
    (hk : k ∈ akeys inputs ++ akeys (pdefaults fs)) : k ∈ rootArgs fs := by
  have := List.all_eq_true.mp h k hk
  simpa using this

/-- `DescOK → ReturnsDeclared`: no hypothesis -/
theorem returnsDeclared_of_descOK (fs : List MFunc) (inputs : List (String × Val)) (ui : List (String × List Nat))
    (h : DescOK fs inputs ui = true) : ReturnsDeclared fs inputs ui = true := by
  unfold DescOK at h
  simp only [Bool.and_eq_true] at h
  obtain ⟨⟨⟨⟨_, _⟩, _⟩, hft⟩, hc⟩ := h
  unfold constructible at hc
  simp only [Bool.and_eq_true] at hc
  obtain ⟨_, hc⟩ := hc
  unfold ReturnsDeclared
  rw [List.all_eq_true]
  intro f hf
  have h1 := List.all_eq_true.mp hft f hf
  have h2 := List.all_eq_true.mp hc f hf
  unfold retOK
  unfold funcTyped at h1
  cases hr : runsMapped f with
  | none => rw [hr] at h1; exact h1
  | some ms' =>
    simp only []
    unfold runsMapped at hr
    cases hm : f.mapspec with
    | none => rw [hm] at hr; cases hr
    | some ms =>
      rw [hm] at hr h2
      simp only [Bool.and_eq_true] at h2
      obtain ⟨_, ⟨_, h2⟩⟩ := h2
      cases he : ms.inputs.isEmpty with
      | true => simp [he] at hr
      | false =>
        rw [he, Bool.false_or] at h2
        exact h2

/-- **Inside the class, on a request that passes the request checks, `DescOK` is `ReturnsDeclared`.** -/
theorem descOK_of_class (fs : List MFunc) (inputs : List (String × Val)) (ui : List (String × List Nat))
    (hc : InClass fs inputs = true) (hq : RequestOK fs inputs ui = true) (hr : ReturnsDeclared fs inputs ui = true) :
    DescOK fs inputs ui = true := by
  unfold InClass at hc
  simp only [Bool.and_eq_true] at hc
  obtain ⟨⟨⟨⟨⟨⟨c1, c2⟩, c3⟩, c4⟩, c5⟩, c6⟩, c7⟩ := hc
  unfold RequestOK at hq
  simp only [Bool.and_eq_true] at hq
  obtain ⟨⟨⟨⟨q1, q2⟩, q3⟩, q4⟩, q5⟩ := hq
  have hΓroot := declTbl_root fs inputs ui
  -- inputs
  have hvi : valuesTyped (declTbl fs inputs ui) inputs = true := by
    unfold valuesTyped
    rw [List.all_eq_true]
    intro kv hkv
    cases hl : alookup (declTbl fs inputs ui) kv.1 with
    | none => rfl
    | some e =>
      simp only []
      have hk : kv.1 ∈ rootArgs fs := mem_rootArgs_of_noSurplus fs inputs q2 kv.1
        (List.mem_append_left _ (List.mem_map.mpr ⟨kv, hkv, rfl⟩))
      rw [hΓroot kv.1 hk] at hl
      unfold rootTbl at hl
      rcases foldl_rootStep_some fs inputs kv.1 e _ _ hl with h | ⟨sh, hsh, he⟩
      · cases h
      · have hin : alookup inputs kv.1 = some kv.2 := alookup_of_mem_nodup inputs kv.1 kv.2 c5 hkv
        rw [alookup_append, hin] at hsh
        simp only [Option.bind_some] at hsh
        have hw := List.all_eq_true.mp c6 kv hkv
        cases hv : kv.2 with
        | arr s es =>
          rw [hv] at hsh hw
          simp only [shapeOf, Option.some.injEq] at hsh
          simp only [wfArr, beq_iff_eq] at hw
          subst hsh
          rw [he]
          simp [arrHasShape, hw]
        | _ => rw [hv] at hsh; simp [shapeOf] at hsh
  -- defaults
  have hvd : valuesTyped (declTbl fs inputs ui) (pdefaults fs) = true := by
    unfold valuesTyped
    rw [List.all_eq_true]
    intro kv hkv
    have hk : kv.1 ∈ rootArgs fs := mem_rootArgs_of_noSurplus fs inputs q2 kv.1
      (List.mem_append_right _ (List.mem_map.mpr ⟨kv, hkv, rfl⟩))
    have hcl := List.all_eq_true.mp c7 kv hkv
    rw [hΓroot kv.1 hk]
    cases hnm : (mapspecNames fs).contains kv.1 with
    | false =>
      unfold rootTbl
      rw [foldl_rootStep_none_of_not_mapspec fs inputs kv.1 hnm _ _ rfl]
    | true =>
      rw [hnm] at hcl
      simp only [Bool.not_true, Bool.false_or, Bool.and_eq_true, beq_iff_eq] at hcl
      obtain ⟨hw, hsame⟩ := hcl
      cases hl : alookup (rootTbl fs inputs) kv.1 with
      | none => rfl
      | some e =>
        simp only []
        unfold rootTbl at hl
        rcases foldl_rootStep_some fs inputs kv.1 e _ _ hl with h | ⟨sh, hsh, he⟩
        · cases h
        · rw [hsh] at hsame
          cases hv : kv.2 with
          | arr s es =>
            rw [hv] at hsame hw
            simp only [shapeOf, Option.some.injEq] at hsame
            simp only [wfArr, beq_iff_eq] at hw
            subst hsame
            rw [he]
            simp [arrHasShape, hw]
          | _ => rw [hv] at hsame; simp [shapeOf] at hsame
  -- functions
  have hpw : fs.Pairwise Disj := pairwise_disj_of_nodup fs (nodupB_nodup _ c2)
  have hmapped : ∀ f ∈ fs, ∀ ms, f.mapspec = some ms → mappedTyped (declTbl fs inputs ui) f ms = true := by
    intro f hf ms hm
    have hst := List.all_eq_true.mp c4 f hf
    unfold funcStatic at hst
    rw [hm] at hst
    simp only [Bool.and_eq_true] at hst
    obtain ⟨hne, ⟨⟨⟨_, _⟩, _⟩, hst⟩⟩ := hst
    obtain ⟨t', a1, a2, a3⟩ := tblFrom_lookup2 (constructInternal fs ui) _ _
      (flow_layers_pairwise fs Disj (fun a b h => h.symm) _ _ _ hpw) q5 f (mem_flatten_of_acyclic fs q3 f hf) (by
        intro o ho
        apply foldl_rootStep_none
        · rfl
        · intro hr'
          exact rootArg_not_output fs o hr' f hf ho)
    apply mappedTyped_of_step (constructInternal fs ui) t' _ f ms a2 _ a1 hm (by simpa using hne) hst
    intro o ho
    have := a3 o ho
    rw [hm] at this
    exact this
  have hft : fs.all (funcTyped (declTbl fs inputs ui)) = true := by
    rw [List.all_eq_true]
    intro f hf
    unfold funcTyped
    cases hrm : runsMapped f with
    | none =>
      have := List.all_eq_true.mp hr f hf
      unfold retOK at this
      rw [hrm] at this
      exact this
    | some ms =>
      simp only []
      apply hmapped f hf ms
      unfold runsMapped at hrm
      cases hm : f.mapspec with
      | none => rw [hm] at hrm; cases hrm
      | some ms' =>
        rw [hm] at hrm
        simp only [] at hrm
        split at hrm
        · cases hrm
        · cases hrm; rfl
  have hcon : constructible (declTbl fs inputs ui) fs = true := by
    unfold constructible
    rw [Bool.and_eq_true, Bool.and_eq_true]
    refine ⟨⟨c2, c3⟩, ?_⟩
    rw [List.all_eq_true]
    intro f hf
    have hst := List.all_eq_true.mp c4 f hf
    unfold funcStatic at hst
    rw [Bool.and_eq_true] at hst ⊢
    refine ⟨hst.1, ?_⟩
    have hst2 := hst.2
    cases hm : f.mapspec with
    | none => rfl
    | some ms =>
      rw [hm] at hst2
      simp only [Bool.and_eq_true] at hst2 ⊢
      obtain ⟨⟨⟨s1, s2⟩, s3⟩, _⟩ := hst2
      refine ⟨⟨⟨s1, s2⟩, s3⟩, ?_⟩
      cases he : ms.inputs.isEmpty with
      | true => rfl
      | false =>
        rw [Bool.false_or]
        have := List.all_eq_true.mp hr f hf
        unfold retOK runsMapped at this
        rw [hm] at this
        simp only [he] at this
        exact this
  unfold DescOK
  simp only [Bool.and_eq_true]
  exact ⟨⟨⟨⟨c1, hvi⟩, hvd⟩, hft⟩, hcon⟩

/-! ### pipelines without internal axes and generators: nothing is declared about what functions return -/

/-- every MapSpec has inputs and every output index is carried by an input: zip, outer product, `:` reductions, full reductions —
    no internal axis, no `... -> v[j]` producer (given or autogenerated) -/
def NoInternal (fs : List MFunc) : Bool :=
  fs.all fun f =>
    match f.mapspec with
    | none => true
    | some ms => !ms.inputs.isEmpty && ms.outputIndices.all fun ix => ms.inputIndices.contains ix

theorem returnsDeclared_of_noInternal (fs : List MFunc) (inputs : List (String × Val)) (ui : List (String × List Nat))
    (hac : acyclic fs = true) (hnd : nodupB (allOutputs fs) = true) (hne : fs.all (fun f => !f.outputs.isEmpty) = true)
    (hp : NoInternal fs = true) : ReturnsDeclared fs inputs ui = true := by
  unfold ReturnsDeclared
  rw [List.all_eq_true]
  intro f hf
  obtain ⟨t', ht'⟩ := declTbl_lookup fs inputs ui hac hnd f hf
  have hpf := List.all_eq_true.mp hp f hf
  unfold retOK runsMapped
  cases hm : f.mapspec with
  | none =>
    simp only []
    unfold singleTyped
    rw [List.all_eq_true]
    intro o ho
    rw [ht' o ho, hm]
    rfl
  | some ms =>
    rw [hm] at hpf
    simp only [Bool.and_eq_true, Bool.not_eq_eq_eq_not, Bool.not_true] at hpf
    simp only [hpf.1]
    have hnef := List.all_eq_true.mp hne f hf
    cases ho : f.outputs with
    | nil => rw [ho] at hnef; simp at hnef
    | cons o os =>
      simp only [List.head?_cons, Option.bind_some]
      rw [ht' o (by rw [ho]; exact List.mem_cons_self), hm]
      simp only [Option.map_some]
      have hmask := (goTot_mask ms (shapesOf t') ((ishOf ms (constructInternal fs ui)).getD []) ms.outputIndices 0).1
      have : (funcShape ms t' (constructInternal fs ui)).2.all id = true := by
        unfold funcShape
        rw [hmask, List.all_map]
        exact hpf.2
      rw [this]
      rfl

end PF.C01
