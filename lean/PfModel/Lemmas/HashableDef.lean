import PfModel.Lemmas.Hashable
/-! Lemmas for `C15_defined_iff`: the converse of `key_defined`. -/
namespace PF.Hashable

theorem comparable_of_hashable : ∀ v, hashable v = true → comparable v = true := by
  intro v
  induction v using PV.ind with
  | hatom a => intro _; simp [comparable]
  | hnode k xs ih =>
    intro h
    unfold hashable at h
    simp only [Bool.and_eq_true] at h
    have hx := hashableL_iff.1 h.2
    unfold comparable
    simp only [Bool.and_eq_true]
    refine ⟨comparableL_iff.2 (fun x hx' => ih x hx' (hx x hx')), ?_⟩
    cases k <;> simp [Kind.hashableKind] at h <;> simp [Kind.sorted]

theorem All2.exists_right {α β : Type} {R : α → β → Prop} {xs : List α} {ys : List β} (h : All2 R xs ys) :
    ∀ x ∈ xs, ∃ y, R x y := by
  induction h with
  | nil => intro x hx; cases hx
  | cons hxy _ ih =>
    intro x hx
    cases hx with
    | head => exact ⟨_, hxy⟩
    | tail _ h' => exact ih x h'

theorem sortP_ok_strict {ps s : List (PV × PV)} (h : sortP ps = .ok s) : pairwiseB strictB (ps.map Prod.fst) = true := by
  unfold sortP at h
  simp only at h
  split at h
  · assumption
  · split at h
    · cases h
    · split at h <;> cases h

/-- a key exists only if every sorted collection inside is pairwise strictly ordered -/
theorem key_defined_conv : ∀ v, wf v = true → ∀ r, key true v = .ok r → comparable v = true := by
  intro v
  induction v using PV.ind2 with
  | hatom a => intro _ _ _; simp [comparable]
  | hnode k xs ih ih2 =>
    intro hwf r hr
    rcases key_node true k xs r hr with ⟨hraw, _⟩ | ⟨_, cs, s, hcs, hs, _⟩
    · simp only [Bool.and_eq_true] at hraw
      exact comparable_of_hashable _ hraw.1
    · have hwx := wf_children hwf
      have hall := mapE_all2 hcs
      have hex := All2.exists_right hall
      have hc : ∀ x ∈ xs, comparable x = true := by
        intro x hx
        obtain ⟨p, hp⟩ := hex x hx
        cases hm : k.mode with
        | elem =>
          rw [hm] at hp
          obtain ⟨c, hc, _⟩ := conv1_elem hp
          exact ih x hx (hwx x hx) c hc
        | item =>
          rw [hm] at hp
          obtain ⟨kk, v, c, rfl, hc, _⟩ := conv1_item hp
          have hio : itemsOk xs = true := by
            cases k <;> simp [Kind.mode] at hm <;> (unfold wf at hwf; simp only [Bool.and_eq_true] at hwf; exact hwf.2)
          obtain ⟨kk', v', he, hk⟩ := itemsOk_mem hio _ hx
          simp only [tup, PV.node.injEq, List.cons.injEq, and_true, true_and] at he
          obtain ⟨rfl, rfl⟩ := he
          have hv := ih2 _ hx .tuple [kk, v] rfl v (by simp) (wf_item (hwx _ hx)) c hc
          have hkc := comparable_of_hashable kk hk
          simp [tup, comparable, comparableL, Kind.sorted, hv, hkc]
        | rawItem =>
          have hh : hashableL xs = true := by
            cases k <;> simp [Kind.mode] at hm
            unfold wf at hwf; simp only [Bool.and_eq_true] at hwf; exact hwf.2.2
          exact comparable_of_hashable x (hashableL_iff.1 hh x hx)
        | rawAtom =>
          have ha : xs.all isAtom = true := by
            cases k <;> simp [Kind.mode] at hm <;> (unfold wf at hwf; simp only [Bool.and_eq_true] at hwf; exact hwf.2)
          have := List.all_eq_true.1 ha x hx
          cases x with
          | atom a => simp [comparable]
          | node k' ys => simp [isAtom] at this
        | leaf =>
          rw [hm] at hp
          exact (conv1_leaf hp).elim
      unfold comparable
      simp only [Bool.and_eq_true]
      refine ⟨comparableL_iff.2 hc, ?_⟩
      cases hsd : k.sorted
      · simp
      · simp only [Bool.not_true, Bool.false_or]
        unfold sortIf at hs
        simp only [hsd, if_true] at hs
        have := sortP_ok_strict hs
        rwa [conv_fst hall] at this

end PF.Hashable
