import PfModel.Lemmas.HashableSubInj
/-!
C15, round 9 — "unequal keys for values that differ in container type, structure, significant order or content" for values that
hold instances of user subclasses ANYWHERE (namedtuples, `class SubList(list)`, …), at full strength: `wkey` (`Model/HashableSub.lean`,
= `to_hashable` with `tp = type(obj)`) is injective up to `WRel` (`Model/HashableSubRel.lean`).  `WRel` demands the same kind and the
same class at every container the dispatch tags, related children (up to the iteration order of sets / mappings), and lets two
values differ in subclass marks only inside a part that is returned as it is — the known finding KF-C15-hashable-subclass-as-is,
which `C15_sub_hashable_key_eq_iff` (Props/C15Sub.lean) shows to be a real collision.
-/
namespace PF.C15
open PF.Hashable

/-- the classes of the examples: 7 and 9 derive from `list`, 8 from `tuple` -/
def exBases : Nat → Cls := fun n => if n = 7 ∨ n = 9 then .list else if n = 8 then .tuple else .other n

def xone : WV := .atom (.num 0 2)
def xl1 : WV := .node .list none [xone]
def xsl1 : WV := .node .list (some 7) [xone]
def xnested : WV := .node .dict none [.node .tuple none [xone, .node .list none [xsl1, .node .tuple (some 8) [xl1]]]]

/-- Equal keys only for related values — for all wide values, subclass instances at any depth.  `subOk f`: every user class `n`
    occurring in the value has the one builtin base `f n` (true in Python; evaluated by the driver for every generated value). -/
theorem C15_sub_injective (f : Nat → Cls) (a b : WV) (r : PV) (ha : a.subOk f = true) (hb : b.subOk f = true)
    (hka : wkey true a = .ok r) (hkb : wkey true b = .ok r) : WRel a b :=
  wkey_injective f a b r ha hb hka hkb

/-- non-vacuity: a nested value with two subclass instances satisfies the hypotheses and has a key -/
example : xnested.subOk exBases = true ∧ ∃ r, wkey true xnested = .ok r := ⟨by decide, _, rfl⟩

/-- `WRel` tells a subclass instance from its builtin copy: `SubList([1])` and `[1]` are not related (hence, by
    `C15_sub_injective`, never share a key), nor are they when nested in a list -/
theorem C15_sub_rel_separates : ¬ WRel xsl1 xl1 ∧ ¬ WRel (.node .list none [xsl1]) (.node .list none [xl1]) := by
  refine ⟨?_, ?_⟩
  · intro h
    cases h with
    | asis _ _ h1 _ _ => exact absurd h1 (by decide)
  · intro h
    cases h with
    | asis _ _ h1 _ _ => exact absurd h1 (by decide)
    | node _ _ _ xs' ys' _ _ _ hx hl hy =>
      simp only [Kind.ordered, if_true] at hx hy
      subst hx; subst hy
      cases hl with
      | cons _ _ _ _ _ h1 _ =>
        cases h1 with
        | elem _ _ h2 =>
          cases h2 with
          | asis _ _ h3 _ _ => exact absurd h3 (by decide)

end PF.C15
